// Package deadlock is /verif's scheduling-point shim for github.com/algorand/go-deadlock.
//
// go-algorand's lint rule forces every mutex in the tree to be deadlock.Mutex/RWMutex, so
// replacing this module (go test -modfile … replace) puts a hook in front of every lock
// operation of the node without touching a single source file. With no hook installed,
// or on a goroutine the hook does not manage, the types behave exactly like sync.Mutex /
// sync.RWMutex (deadlock detection itself is not reproduced).
package deadlock

import (
	"io"
	"os"
	"sync"
	"sync/atomic"
	"time"

	"github.com/petermattis/goid"
)

// Opts mirrors the real package's options so that callers compile; the values are ignored.
var Opts = struct {
	Disable                   bool
	DisableLockOrderDetection bool
	DeadlockTimeout           time.Duration
	OnPotentialDeadlock       func()
	MaxMapSize                int
	PrintAllCurrentGoroutines bool
	LogBuf                    io.Writer
}{
	DeadlockTimeout:     time.Second * 30,
	OnPotentialDeadlock: func() { os.Exit(2) },
	MaxMapSize:          1024 * 64,
	LogBuf:              os.Stderr,
}

// Hook receives every lock operation. Before is called before the real acquire and may
// park the calling goroutine (it returns once the scheduler granted the operation and
// the lock is logically free); After* keep the scheduler's owner table up to date.
type Hook interface {
	// BeforeAcquire returns false if the calling goroutine is not managed (plain passthrough).
	BeforeAcquire(lock any, write bool) bool
	AfterAcquire(lock any, write bool)
	BeforeRelease(lock any, write bool) bool
}

type hookBox struct{ h Hook }

var hook atomic.Pointer[hookBox]

// SetHook installs (or with nil removes) the scheduling hook.
func SetHook(h Hook) {
	if h == nil {
		hook.Store(nil)
		return
	}
	hook.Store(&hookBox{h})
}

// A Mutex is a drop-in replacement for sync.Mutex.
type Mutex struct {
	mu sync.Mutex
}

// Lock locks the mutex (scheduling point when a hook manages this goroutine).
func (m *Mutex) Lock() {
	if b := hook.Load(); b != nil && b.h.BeforeAcquire(m, true) {
		m.mu.Lock()
		b.h.AfterAcquire(m, true)
		return
	}
	m.mu.Lock()
}

// TryLock tries to lock the mutex.
func (m *Mutex) TryLock() bool { return m.mu.TryLock() }

// Unlock unlocks the mutex.
func (m *Mutex) Unlock() {
	if b := hook.Load(); b != nil {
		b.h.BeforeRelease(m, true)
	}
	m.mu.Unlock()
}

// An RWMutex is a drop-in replacement for sync.RWMutex.
type RWMutex struct {
	mu sync.RWMutex
}

// Lock takes the write lock.
func (m *RWMutex) Lock() {
	if b := hook.Load(); b != nil && b.h.BeforeAcquire(m, true) {
		m.mu.Lock()
		b.h.AfterAcquire(m, true)
		return
	}
	m.mu.Lock()
}

// Unlock releases the write lock.
func (m *RWMutex) Unlock() {
	if b := hook.Load(); b != nil {
		b.h.BeforeRelease(m, true)
	}
	m.mu.Unlock()
}

// RLock takes a read lock.
func (m *RWMutex) RLock() {
	if b := hook.Load(); b != nil && b.h.BeforeAcquire(m, false) {
		m.mu.RLock()
		b.h.AfterAcquire(m, false)
		return
	}
	m.mu.RLock()
}

// RUnlock releases a read lock.
func (m *RWMutex) RUnlock() {
	if b := hook.Load(); b != nil {
		b.h.BeforeRelease(m, false)
	}
	m.mu.RUnlock()
}

// RLocker returns a Locker interface that implements Lock/Unlock via RLock/RUnlock.
func (m *RWMutex) RLocker() sync.Locker { return (*rlocker)(m) }

type rlocker RWMutex

func (r *rlocker) Lock()   { (*RWMutex)(r).RLock() }
func (r *rlocker) Unlock() { (*RWMutex)(r).RUnlock() }

// GoID returns the current goroutine's id (used by the scheduler to recognise managed threads).
func GoID() int64 { return goid.Get() }
