package ledger

// C21 — Accounts never end a transaction (group) below minimum balance.
//
// Engine E-SEQ (explicit-state BFS, successors by replay) over the REAL Ledger + BlockEvaluator.
//
// System: an in-memory Ledger with a fixed set-up block (asset X, apps L1 (local schema 1/1)
// and Lmax (local schema 16/0), a "worker" app W whose account is funded to exactly its
// minimum balance, accounts R (rich), T (target), U). All instances share this ledger
// read-only; a state is one BlockEvaluator holding the accepted groups of the history.
//
// Alphabet: every op is ONE transaction group that first brings the acting account (T, U, or
// W's app account) to exactly  min-balance-after-the-op + own fees + delta  and then performs
// the op, delta in {-1, 0, +1} microAlgos (so every threshold is straddled, whatever the
// account already holds):
//   T: set balance to min+delta; pay everything but the fee (no close); asset opt-in /
//      create / opt-out; app create with global schema (ints,bytes) in {0,1,max}^2 subset and
//      extra pages in {1,3}; opt-in to L1 / Lmax; close-out; clear-state; delete own app;
//      close the account; rekey to U; a group where T closes and is re-funded below minimum;
//   W (inner transactions issued by the app, funded through the app account): box create
//      {1, 1024 bytes}, box resize up/down, box delete, inner asset opt-in / opt-out, inner
//      app create with schema, inner pay-out leaving min+delta / everything above the minimum,
//      inner close-out;
//   family boxes (AVM v13): S, an app of the same creator as W (W has opted into
//      AppFamilyBoxAccess with app_params_set in the set-up block), works in W's box namespace:
//      app_box_create, app_box_put on a box that does not exist yet / that exists (made by S or
//      by W itself), app_box_resize, app_box_del; the deposit belongs to the OWNER W;
//   size sponsorship (AppSizeUpdates): app X of R approves updates and deletes by anyone; U (who
//      holds local state of its own) and T resize X with a size-changing update (global schema,
//      extra pages) and become its size sponsor, R resizes it back, U updates without size
//      change, R deletes X; U sets its balance to min+delta.
// Bound: all histories of <= 3 groups (quick) / <= 4 with a reduced alphabet (thorough) in one
// block. A rejected group is "not enabled".
//
// Oracle: after every ACCEPTED group, for every account in the group's delta other than the
// fee sink, the rewards pool and the state-proof sender: either the new AccountData is
// entirely zero, or
//      balance(+pending rewards at the block's level) >= M   and   M == repo MinBalance
// where M is recomputed by the harness from the ENUMERATED resources of the account — the
// asset holdings, created apps (global schema, extra pages), opted-in apps (local schema) and
// boxes (name and value lengths, from the kv records "bx:"+appid+name) that the harness
// accumulates from the resource-level records of the ledger and of every accepted delta —
// with the consensus constants, independently of basics.MinBalance and of the Total*
// counters in AccountData:
//      M = MinBalance*(1+#holdings) + AppFlatParams*#created + AppFlatOptIn*#optins
//          + sum over local schemas and over the global schemas + extra pages of the apps the account
//            SPONSORS (PerEntry*(u+b) + Uint*u + Bytes*b, AppFlatParams*pages)
//          + BoxFlat*#boxes + BoxByte*sum(len(name)+len(value))
// An app's size is charged to its creator until someone performs a size-changing update; the
// harness tracks the sponsor from the update transactions it submitted, not from the record.
// Boxes are attributed to the app whose id is in the kv key, whoever created them. Checked are
// all accounts of the delta plus every account whose enumerated resources changed (box owner,
// resource-record owner, old and new sponsor, senders). A zero AccountData must come with no
// enumerated resources.
// KNOWN FINDING (unchanged tree): an account that sponsors the size of somebody else's app can
// close; every violation in a history containing such a close is reported under the key
// C21:orphaned-size-sponsorship (see /verif/findings/C21-sponsor-close-escapes-size-deposit).
//
// Not covered: accounts with pending rewards > 0 (the pool is kept at its minimum, level 0),
// the database-committed form of the state (C08/C12/C23), online accounts, clawback/freeze.
//
// Mutants (bin/mut, quick tier) — see the final report:
//   M1 data/basics/userBalance.go  MinBalance ignores the per-box flat cost
//   M2 ledger/eval/eval.go         checkMinBalance iterates the parent's modified accounts
//   M3 ledger/eval/eval.go         "empty account" exemption tests only MicroAlgos == 0
//   M4 data/basics/userBalance.go  MinBalance ignores the app opt-in flat cost
// Seeded changes (independent): C21-A (app_box_put charges the calling app for a new family box)
// and C21-B (stale SizeSponsor after the creator takes sponsorship back): both DETECTED.

import (
	"encoding/binary"
	"errors"
	"fmt"
	"os"
	"sort"
	"strings"
	"sync/atomic"
	"testing"

	"github.com/algorand/go-algorand/agreement"
	"github.com/algorand/go-algorand/config"
	"github.com/algorand/go-algorand/crypto"
	"github.com/algorand/go-algorand/data/basics"
	"github.com/algorand/go-algorand/data/bookkeeping"
	"github.com/algorand/go-algorand/data/committee"
	"github.com/algorand/go-algorand/data/transactions"
	"github.com/algorand/go-algorand/data/transactions/logic"
	"github.com/algorand/go-algorand/data/txntest"
	"github.com/algorand/go-algorand/ledger/eval"
	"github.com/algorand/go-algorand/ledger/ledgercore"
	"github.com/algorand/go-algorand/logging"
	"github.com/algorand/go-algorand/protocol"
	ve "github.com/algorand/go-algorand/verifeng"
)

// ---------------------------------------------------------------------------------------
// reference model of an account's resources (enumerated, not counted)

type c21schema struct{ u, b uint64 }

type c21created struct {
	global c21schema
	pages  uint64
	// sponsor: the account that pays for the global schema and the extra pages. Per the
	// protocol it "begins as the creator, but changes whenever there is a size-changing
	// update": the harness tracks it from the update transactions it submitted (zero = creator),
	// not from the SizeSponsor field of the record.
	sponsor basics.Address
}

type c21res struct {
	assets  map[basics.AssetIndex]bool
	created map[basics.AppIndex]c21created
	optin   map[basics.AppIndex]c21schema
	boxes   map[string]int // box name -> value length (boxes of the app whose account this is)
}

func c21newRes() *c21res {
	return &c21res{assets: map[basics.AssetIndex]bool{}, created: map[basics.AppIndex]c21created{}, optin: map[basics.AppIndex]c21schema{}, boxes: map[string]int{}}
}

func (r *c21res) clone() *c21res {
	c := c21newRes()
	for k, v := range r.assets {
		c.assets[k] = v
	}
	for k, v := range r.created {
		c.created[k] = v
	}
	for k, v := range r.optin {
		c.optin[k] = v
	}
	for k, v := range r.boxes {
		c.boxes[k] = v
	}
	return c
}

func (r *c21res) empty() bool {
	return len(r.assets) == 0 && len(r.created) == 0 && len(r.optin) == 0 && len(r.boxes) == 0
}

func c21schemaCost(p *config.ConsensusParams, s c21schema) uint64 {
	return p.SchemaMinBalancePerEntry*(s.u+s.b) + p.SchemaUintMinBalance*s.u + p.SchemaBytesMinBalance*s.b
}

// c21min: the minimum balance of account a per the spec constants, from the enumerated
// resources of all accounts (the size of an app is charged to its sponsor).
func c21min(p *config.ConsensusParams, all map[basics.Address]*c21res, a basics.Address) uint64 {
	r, ok := all[a]
	if !ok {
		r = c21newRes()
	}
	m := p.MinBalance * (1 + uint64(len(r.assets)))
	sch := func(s c21schema) uint64 { return c21schemaCost(p, s) }
	m += p.AppFlatParamsMinBalance * uint64(len(r.created))
	for creator, cr := range all {
		for _, c := range cr.created {
			payer := c.sponsor
			if payer.IsZero() {
				payer = creator
			}
			if payer == a {
				m += p.AppFlatParamsMinBalance*c.pages + sch(c.global)
			}
		}
	}
	for _, s := range r.optin {
		m += p.AppFlatOptInMinBalance
		m += sch(s)
	}
	for name, l := range r.boxes {
		m += p.BoxFlatMinBalance + p.BoxByteMinBalance*uint64(len(name)+l)
	}
	return m
}

func (r *c21res) dump() string {
	var parts []string
	for k := range r.assets {
		parts = append(parts, fmt.Sprintf("a%d", k))
	}
	for k, v := range r.created {
		sp := ""
		if !v.sponsor.IsZero() {
			sp = fmt.Sprintf("@%x", v.sponsor[:3])
		}
		parts = append(parts, fmt.Sprintf("c%d:%d/%d/%d%s", k, v.global.u, v.global.b, v.pages, sp))
	}
	for k, v := range r.optin {
		parts = append(parts, fmt.Sprintf("o%d:%d/%d", k, v.u, v.b))
	}
	for k, v := range r.boxes {
		parts = append(parts, fmt.Sprintf("b%q:%d", k, v))
	}
	sort.Strings(parts)
	return strings.Join(parts, ",")
}

// ---------------------------------------------------------------------------------------
// tracer: copies the resource-level content of every top-level group delta

type c21appRec struct {
	addr                 basics.Address
	aidx                 basics.AppIndex
	paramsSet, paramsDel bool
	global               c21schema
	pages                uint64
	localSet, localDel   bool
	local                c21schema
}

type c21assetRec struct {
	addr             basics.Address
	aidx             basics.AssetIndex
	holdSet, holdDel bool
}

type c21kvRec struct {
	key     string
	deleted bool
	length  int
}

type c21tracer struct {
	logic.NullEvalTracer
	ok     bool
	accts  []ledgercore.BalanceRecord
	apps   []c21appRec
	assets []c21assetRec
	kvs    []c21kvRec
}

func (tr *c21tracer) DetailedEvalErrors() bool { return true }

func (tr *c21tracer) AfterTxnGroup(ep *logic.EvalParams, deltas *ledgercore.StateDelta, evalError error) {
	if deltas == nil {
		return
	}
	tr.ok = evalError == nil
	tr.accts, tr.apps, tr.assets, tr.kvs = tr.accts[:0], tr.apps[:0], tr.assets[:0], tr.kvs[:0]
	if !tr.ok {
		return
	}
	for i := 0; i < deltas.Accts.Len(); i++ {
		addr, data := deltas.Accts.GetByIdx(i)
		tr.accts = append(tr.accts, ledgercore.BalanceRecord{Addr: addr, AccountData: data})
	}
	for _, a := range deltas.Accts.GetAllAppResources() {
		rec := c21appRec{addr: a.Addr, aidx: a.Aidx, paramsDel: a.Params.Deleted, localDel: a.State.Deleted}
		if a.Params.Params != nil {
			rec.paramsSet = true
			rec.global = c21schema{a.Params.Params.GlobalStateSchema.NumUint, a.Params.Params.GlobalStateSchema.NumByteSlice}
			rec.pages = uint64(a.Params.Params.ExtraProgramPages)
		}
		if a.State.LocalState != nil {
			rec.localSet = true
			rec.local = c21schema{a.State.LocalState.Schema.NumUint, a.State.LocalState.Schema.NumByteSlice}
		}
		tr.apps = append(tr.apps, rec)
	}
	for _, a := range deltas.Accts.GetAllAssetResources() {
		tr.assets = append(tr.assets, c21assetRec{addr: a.Addr, aidx: a.Aidx, holdSet: a.Holding.Holding != nil, holdDel: a.Holding.Deleted})
	}
	for k, v := range deltas.KvMods {
		tr.kvs = append(tr.kvs, c21kvRec{key: k, deleted: v.Data == nil, length: len(v.Data)})
	}
	sort.Slice(tr.kvs, func(i, j int) bool { return tr.kvs[i].key < tr.kvs[j].key })
}

// ---------------------------------------------------------------------------------------
// world

const c21workerSource = `
	txn ApplicationArgs 0; byte "bc"; ==; bz n1
	  txn ApplicationArgs 1; txn ApplicationArgs 2; btoi; box_create; assert
	  b end
	n1:
	txn ApplicationArgs 0; byte "br"; ==; bz n2
	  txn ApplicationArgs 1; txn ApplicationArgs 2; btoi; box_resize
	  b end
	n2:
	txn ApplicationArgs 0; byte "bd"; ==; bz n3
	  txn ApplicationArgs 1; box_del; assert
	  b end
	n3:
	txn ApplicationArgs 0; byte "oi"; ==; bz n4
	  itxn_begin
	  int axfer; itxn_field TypeEnum
	  txn Assets 0; itxn_field XferAsset
	  global CurrentApplicationAddress; itxn_field AssetReceiver
	  itxn_submit
	  b end
	n4:
	txn ApplicationArgs 0; byte "oo"; ==; bz n5
	  itxn_begin
	  int axfer; itxn_field TypeEnum
	  txn Assets 0; itxn_field XferAsset
	  txn Accounts 1; itxn_field AssetReceiver
	  txn Accounts 1; itxn_field AssetCloseTo
	  itxn_submit
	  b end
	n5:
	txn ApplicationArgs 0; byte "po"; ==; bz n6
	  itxn_begin
	  int pay; itxn_field TypeEnum
	  txn Accounts 1; itxn_field Receiver
	  txn ApplicationArgs 1; btoi; itxn_field Amount
	  itxn_submit
	  b end
	n6:
	txn ApplicationArgs 0; byte "ac"; ==; bz n7
	  itxn_begin
	  int appl; itxn_field TypeEnum
	  byte 0x0a8101; itxn_field ApprovalProgram
	  byte 0x0a8101; itxn_field ClearStateProgram
	  int 1; itxn_field GlobalNumUint
	  int 1; itxn_field GlobalNumByteSlice
	  itxn_submit
	  b end
	n7:
	txn ApplicationArgs 0; byte "co"; ==; bz n8
	  itxn_begin
	  int pay; itxn_field TypeEnum
	  txn Accounts 1; itxn_field CloseRemainderTo
	  itxn_submit
	  b end
	n8:
	txn ApplicationArgs 0; byte "fam"; ==; bz bad
	  int 1; app_params_set AppFamilyBoxAccess
	  b end
	bad:
	  err
`

// c21siblingSource: an app of the same creator as the worker ("family"); it manipulates boxes
// in the namespace of the app in Applications 1.
const c21siblingSource = `
	txn ApplicationArgs 0; byte "fc"; ==; bz s1
	  txn Applications 1; txn ApplicationArgs 1; txn ApplicationArgs 2; btoi; app_box_create; assert
	  b end
	s1:
	txn ApplicationArgs 0; byte "fp"; ==; bz s2
	  txn Applications 1; txn ApplicationArgs 1; txn ApplicationArgs 2; btoi; bzero; app_box_put
	  b end
	s2:
	txn ApplicationArgs 0; byte "fr"; ==; bz s3
	  txn Applications 1; txn ApplicationArgs 1; txn ApplicationArgs 2; btoi; app_box_resize
	  b end
	s3:
	txn ApplicationArgs 0; byte "fd"; ==; bz bad
	  txn Applications 1; txn ApplicationArgs 1; app_box_del; assert
	  b end
	bad:
	  err
`

type c21world struct {
	t                               *testing.T
	proto                           config.ConsensusParams
	l                               *Ledger
	rich, target, other, sink, pool basics.Address
	asset                           basics.AssetIndex
	appL1, appLmax, worker          basics.AppIndex
	sibling, appX                   basics.AppIndex
	init                            map[basics.Address]*c21res // resources as of the ledger's latest round
	known                           []basics.Address
	ops                             []c21op
	rejected                        atomic.Int64
	sponsorClosed, orphanHits       atomic.Int64
	opAcc, opRej                    []atomic.Int64
}

func c21addr(tag byte) basics.Address {
	var a basics.Address
	a[0] = 0xC2
	a[1] = 0x10 | tag
	a[31] = tag
	return a
}

func c21newWorld(t *testing.T) (*c21world, error) {
	w := &c21world{t: t, proto: config.Consensus[protocol.ConsensusFuture]}
	w.rich, w.target, w.other, w.sink, w.pool = c21addr(1), c21addr(2), c21addr(3), c21addr(8), c21addr(9)
	accts := map[basics.Address]basics.AccountData{
		w.rich:   {MicroAlgos: basics.MicroAlgos{Raw: 10_000_000_000}, Status: basics.NotParticipating},
		w.target: {MicroAlgos: basics.MicroAlgos{Raw: 1_000_000}},
		w.other:  {MicroAlgos: basics.MicroAlgos{Raw: 1_000_000}},
		w.sink:   {MicroAlgos: basics.MicroAlgos{Raw: 5_000_000}, Status: basics.NotParticipating},
		w.pool:   {MicroAlgos: basics.MicroAlgos{Raw: 100_000}, Status: basics.NotParticipating},
	}
	gen := bookkeeping.MakeTimestampedGenesisBalances(accts, w.sink, w.pool, 1_700_000_000)
	var genHash crypto.Digest
	copy(genHash[:], "verif-c21-genesis-hash-000000000")
	genBlock, err := bookkeeping.MakeGenesisBlock(protocol.ConsensusFuture, gen, "verif-c21", genHash)
	if err != nil {
		return nil, err
	}
	cfg := config.GetDefaultLocal()
	cfg.Archival = true
	cfg.DisableLedgerLRUCache = true // cost only
	cfg.VerifiedTranscationsCacheSize = 256
	cfg.TxPoolSize = 256
	w.l, err = OpenLedger(logging.Base(), fmt.Sprintf("verif-c21-%d", os.Getpid()), true, ledgercore.InitState{Block: genBlock, Accounts: gen.Balances, GenesisHash: genHash}, cfg)
	if err != nil {
		return nil, err
	}
	ev, err := w.newEval(nil)
	if err != nil {
		return nil, err
	}
	one := func(tx *txntest.Txn) error {
		fillDefaults(t, w.l, ev, tx)
		if err := ev.TransactionGroup(transactions.WrapSignedTxnsWithAD([]transactions.SignedTxn{tx.SignedTxn()})...); err != nil {
			return fmt.Errorf("set-up txn %v: %w", tx.Type, err)
		}
		return nil
	}
	if err := one(&txntest.Txn{Type: "acfg", Sender: w.rich, AssetParams: basics.AssetParams{Total: 1_000_000, UnitName: "x"}}); err != nil {
		return nil, err
	}
	w.asset = basics.AssetIndex(ev.TestingTxnCounter())
	if err := one(&txntest.Txn{Type: "appl", Sender: w.rich, ApprovalProgram: "int 1", LocalStateSchema: basics.StateSchema{NumUint: 1, NumByteSlice: 1}, Note: "L1"}); err != nil {
		return nil, err
	}
	w.appL1 = basics.AppIndex(ev.TestingTxnCounter())
	if err := one(&txntest.Txn{Type: "appl", Sender: w.rich, ApprovalProgram: "int 1", LocalStateSchema: basics.StateSchema{NumUint: 16}, Note: "Lmax"}); err != nil {
		return nil, err
	}
	w.appLmax = basics.AppIndex(ev.TestingTxnCounter())
	if err := one(&txntest.Txn{Type: "appl", Sender: w.rich, ApprovalProgram: main(c21workerSource), Note: "W"}); err != nil {
		return nil, err
	}
	w.worker = basics.AppIndex(ev.TestingTxnCounter())
	if err := one(&txntest.Txn{Type: "pay", Sender: w.rich, Receiver: w.worker.Address(), Amount: w.proto.MinBalance}); err != nil {
		return nil, err
	}
	// S: a sibling of W (same creator R), rich enough to be (wrongly) charged for anything
	if err := one(&txntest.Txn{Type: "appl", Sender: w.rich, ApprovalProgram: main(c21siblingSource), Note: "S"}); err != nil {
		return nil, err
	}
	w.sibling = basics.AppIndex(ev.TestingTxnCounter())
	if err := one(&txntest.Txn{Type: "pay", Sender: w.rich, Receiver: w.sibling.Address(), Amount: 10_000_000}); err != nil {
		return nil, err
	}
	// W lets its family write its boxes
	if err := one(txntest.Txn{Type: "appl", Sender: w.rich, ApplicationID: w.worker}.Args("fam")); err != nil {
		return nil, err
	}
	// X: an app of R that approves updates and deletes by anyone (size sponsorship ops)
	if err := one(&txntest.Txn{Type: "appl", Sender: w.rich, ApprovalProgram: "int 1", GlobalStateSchema: basics.StateSchema{NumUint: 1}, Note: "X"}); err != nil {
		return nil, err
	}
	w.appX = basics.AppIndex(ev.TestingTxnCounter())
	// U starts with schema-bearing state of its own (opted into L1)
	if err := one(&txntest.Txn{Type: "appl", Sender: w.other, ApplicationID: w.appL1, OnCompletion: transactions.OptInOC}); err != nil {
		return nil, err
	}
	ub, err := ev.GenerateBlock(nil)
	if err != nil {
		return nil, err
	}
	blk := ub.UnfinishedBlock().WithProposer(committee.Seed(w.sink), w.sink, true)
	vb, err := validateWithoutSignatures(t, w.l, blk)
	if err != nil {
		return nil, err
	}
	if err := w.l.AddValidatedBlock(*vb, agreement.Certificate{}); err != nil {
		return nil, err
	}
	w.l.WaitForCommit(w.l.Latest())
	w.known = []basics.Address{w.rich, w.target, w.other, w.sink, w.pool, w.worker.Address(), w.sibling.Address()}
	// enumerate the resources the ledger holds for the known accounts
	w.init = map[basics.Address]*c21res{}
	for _, a := range w.known {
		ad, _, _, err := w.l.LookupLatest(a)
		if err != nil {
			return nil, err
		}
		r := c21newRes()
		for idx := range ad.Assets {
			r.assets[idx] = true
		}
		for idx, p := range ad.AppParams {
			r.created[idx] = c21created{global: c21schema{p.GlobalStateSchema.NumUint, p.GlobalStateSchema.NumByteSlice}, pages: uint64(p.ExtraProgramPages)}
		}
		for idx, ls := range ad.AppLocalStates {
			r.optin[idx] = c21schema{ls.Schema.NumUint, ls.Schema.NumByteSlice}
		}
		w.init[a] = r
	}
	w.ops = c21ops()
	w.opAcc = make([]atomic.Int64, len(w.ops))
	w.opRej = make([]atomic.Int64, len(w.ops))
	return w, nil
}

func (w *c21world) newEval(tracer logic.EvalTracer) (*eval.BlockEvaluator, error) {
	rnd := w.l.Latest()
	hdr, err := w.l.BlockHdr(rnd)
	if err != nil {
		return nil, err
	}
	nextHdr := bookkeeping.MakeBlock(hdr).BlockHeader
	nextHdr.TimeStamp = hdr.TimeStamp + 1
	return eval.StartEvaluator(w.l, nextHdr, eval.EvaluatorOptions{Generate: true, Validate: true, Tracer: tracer})
}

// ---------------------------------------------------------------------------------------
// sys: one evaluator + the harness' model

type c21sys struct {
	w     *c21world
	ev    *eval.BlockEvaluator
	tr    *c21tracer
	view  map[basics.Address]ledgercore.AccountData
	res   map[basics.Address]*c21res
	steps int
	herr  error
	// orphaned: in this history an account was closed while the harness' model has it as the
	// size sponsor of somebody else's app (known finding C21:orphaned-size-sponsorship: the
	// close is accepted and wipes the sponsor's counters). Every violation met afterwards in
	// the same history is reported under that key.
	orphaned bool
}

func c21new(w *c21world) *c21sys {
	s := &c21sys{w: w, tr: &c21tracer{}, view: map[basics.Address]ledgercore.AccountData{}, res: map[basics.Address]*c21res{}}
	var err error
	s.ev, err = w.newEval(s.tr)
	if err != nil {
		s.herr = err
		return s
	}
	for a, r := range w.init {
		s.res[a] = r.clone()
	}
	return s
}

func (s *c21sys) acct(a basics.Address) ledgercore.AccountData {
	if ad, ok := s.view[a]; ok {
		return ad
	}
	ad, _, err := s.w.l.LookupWithoutRewards(s.w.l.Latest(), a)
	if err != nil {
		s.herr = err
	}
	return ad
}

func (s *c21sys) resOf(a basics.Address) *c21res {
	r, ok := s.res[a]
	if !ok {
		r = c21newRes()
		s.res[a] = r
	}
	return r
}

func (s *c21sys) bal(a basics.Address) uint64 { return s.acct(a).MicroAlgos.Raw }
func (s *c21sys) min(a basics.Address) uint64 { return c21min(&s.w.proto, s.res, a) }

// boxOwner parses "bx:" + 8-byte big-endian app id + name (spec of the kv key space).
func c21boxOwner(key string) (basics.AppIndex, string, bool) {
	if len(key) < 11 || key[:3] != "bx:" {
		return 0, "", false
	}
	return basics.AppIndex(binary.BigEndian.Uint64([]byte(key[3:11]))), key[11:], true
}

// submit one group; on acceptance update the model from the delta and run the oracle.
func (s *c21sys) submit(txs []*txntest.Txn) (bool, error) {
	w := s.w
	for i, tx := range txs {
		if tx.Note == nil {
			tx.Note = fmt.Sprintf("s%d.%d", s.steps, i)
		}
		fillDefaults(w.t, w.l, s.ev, tx)
	}
	var stxns []transactions.SignedTxn
	if len(txs) == 1 {
		stxns = []transactions.SignedTxn{txs[0].SignedTxn()}
	} else {
		stxns = txntest.Group(txs...)
	}
	for i := range stxns {
		if auth := s.acct(stxns[i].Txn.Sender).AuthAddr; !auth.IsZero() {
			stxns[i].AuthAddr = auth
		}
	}
	s.tr.ok = false
	if err := s.ev.TestTransactionGroup(stxns); err != nil {
		return false, nil
	}
	if err := s.ev.TransactionGroup(transactions.WrapSignedTxnsWithAD(stxns)...); err != nil {
		if strings.Contains(err.Error(), "panic") {
			return false, ve.Violationf("C21:panic", "evaluator panicked: %v", err)
		}
		return false, nil
	}
	if !s.tr.ok {
		return false, fmt.Errorf("tracer did not observe the accepted group")
	}
	s.steps++
	// model update from resource-level records
	for _, a := range s.tr.assets {
		r := s.resOf(a.addr)
		if a.holdDel {
			delete(r.assets, a.aidx)
		} else if a.holdSet {
			r.assets[a.aidx] = true
		}
	}
	for _, a := range s.tr.apps {
		r := s.resOf(a.addr)
		if a.paramsDel {
			delete(r.created, a.aidx)
		} else if a.paramsSet {
			prev := r.created[a.aidx] // keeps the harness-tracked sponsor of an existing app
			r.created[a.aidx] = c21created{global: a.global, pages: a.pages, sponsor: prev.sponsor}
		}
		if a.localDel {
			delete(r.optin, a.aidx)
		} else if a.localSet {
			r.optin[a.aidx] = a.local
		}
	}
	for _, kv := range s.tr.kvs {
		app, name, ok := c21boxOwner(kv.key)
		if !ok {
			return true, fmt.Errorf("unexpected kv key %q", kv.key)
		}
		r := s.resOf(app.Address())
		if kv.deleted {
			delete(r.boxes, name)
		} else {
			r.boxes[name] = kv.length
		}
	}
	for _, br := range s.tr.accts {
		s.view[br.Addr] = br.AccountData
	}
	// a close of an account that the model has as the size sponsor of another account's app
	// (also when it is re-funded inside the same group): known finding, see c21sys.orphaned
	for i := range stxns {
		tx := &stxns[i].Txn
		if tx.Type == protocol.PaymentTx && !tx.CloseRemainderTo.IsZero() && s.sponsors(tx.Sender) && !s.orphaned {
			s.orphaned = true
			w.sponsorClosed.Add(1)
		}
	}
	// size sponsorship follows the size-changing updates that were just accepted
	check := map[basics.Address]bool{}
	for i := range stxns {
		tx := &stxns[i].Txn
		if tx.Type != protocol.ApplicationCallTx || tx.OnCompletion != transactions.UpdateApplicationOC {
			continue
		}
		if tx.ExtraProgramPages == 0 && tx.GlobalStateSchema.NumUint == 0 && tx.GlobalStateSchema.NumByteSlice == 0 {
			continue
		}
		for creator, r := range s.res {
			if c, ok := r.created[tx.ApplicationID]; ok {
				old := c.sponsor
				if old.IsZero() {
					old = creator
				}
				check[old] = true
				check[creator] = true
				c.sponsor = tx.Sender
				if tx.Sender == creator {
					c.sponsor = basics.Address{}
				}
				r.created[tx.ApplicationID] = c
			}
		}
	}
	// oracle: every account of the delta, plus every account whose enumerated resources
	// changed (box owner, resource record owner, old/new sponsor) even if its record did not
	for _, br := range s.tr.accts {
		check[br.Addr] = true
	}
	for _, a := range s.tr.assets {
		check[a.addr] = true
	}
	for _, a := range s.tr.apps {
		check[a.addr] = true
	}
	for _, kv := range s.tr.kvs {
		if app, _, ok := c21boxOwner(kv.key); ok {
			check[app.Address()] = true
		}
	}
	for i := range stxns {
		check[stxns[i].Txn.Sender] = true
	}
	addrs := make([]basics.Address, 0, len(check))
	for a := range check {
		addrs = append(addrs, a)
	}
	sort.Slice(addrs, func(i, j int) bool { return string(addrs[i][:]) < string(addrs[j][:]) })
	level := uint64(0) // the pool sits at its minimum: the rewards level never moves (checked below)
	for _, addr := range addrs {
		if addr == w.sink || addr == w.pool || addr == transactions.StateProofSender {
			continue
		}
		ad := s.acct(addr)
		if s.herr != nil {
			return true, s.herr
		}
		r := s.resOf(addr)
		if ad.IsZero() {
			if !r.empty() {
				return true, s.violation("C21:closed-with-resources", "account %s has a zero record but still owns resources {%s}", c21short(w, addr), r.dump())
			}
			if s.sponsors(addr) && !s.orphaned {
				s.orphaned = true
				w.sponsorClosed.Add(1)
			}
			continue
		}
		if ad.RewardsBase != level {
			return true, fmt.Errorf("rewards level moved (%d)", ad.RewardsBase)
		}
		m := s.min(addr)
		repo := ad.MinBalance(&w.proto).Raw
		if m != repo {
			return true, s.violation("C21:minbalance-formula", "account %s with resources {%s}: minimum balance recomputed from the spec constants and the enumerated resources (incl. sponsored app sizes) is %d, the repo's MinBalance says %d (counters: assets %d, appParams %d, locals %d, schema %d/%d, pages %d, boxes %d/%d bytes)",
				c21short(w, addr), r.dump(), m, repo, ad.TotalAssets, ad.TotalAppParams, ad.TotalAppLocalStates, ad.TotalAppSchema.NumUint, ad.TotalAppSchema.NumByteSlice, ad.TotalExtraAppPages, ad.TotalBoxes, ad.TotalBoxBytes)
		}
		if ad.MicroAlgos.Raw < m {
			return true, s.violation("C21:below-min", "after an accepted group account %s holds %d < minimum balance %d implied by its resources {%s}", c21short(w, addr), ad.MicroAlgos.Raw, m, r.dump())
		}
	}
	return true, nil
}

// sponsors: does the model have a as the size sponsor of an app created by someone else?
func (s *c21sys) sponsors(a basics.Address) bool {
	for creator, r := range s.res {
		for _, c := range r.created {
			if c.sponsor == a && creator != a {
				return true
			}
		}
	}
	return false
}

func (s *c21sys) violation(key, format string, args ...any) error {
	msg := fmt.Sprintf(format, args...)
	if s.orphaned {
		msg = "[history contains the close of an account that was sponsoring the size of another account's app] " + msg
		s.w.orphanHits.Add(1)
		key = "C21:orphaned-size-sponsorship"
	}
	return ve.Violationf(key, "%s", msg)
}

func c21short(w *c21world, a basics.Address) string {
	switch a {
	case w.rich:
		return "R"
	case w.target:
		return "T"
	case w.other:
		return "U"
	case w.worker.Address():
		return "W"
	case w.sibling.Address():
		return "S"
	}
	return a.String()[:8]
}

// ---------------------------------------------------------------------------------------
// ops

type c21op struct {
	name  string
	build func(s *c21sys) []*txntest.Txn // nil result => op not applicable in this state
	core  bool                           // part of the reduced alphabet used for the deepest level
}

// tune: a payment between R and `acct` that makes acct's balance exactly `target` after the
// payment (and its fee if acct is the payer). acct must be T (pays its own fee) or W (funded
// by R only; surplus is left alone).
func (s *c21sys) tune(acct basics.Address, target uint64) *txntest.Txn {
	w := s.w
	bal := s.bal(acct)
	fee := w.proto.MinTxnFee
	if (acct == w.target || acct == w.other) && bal >= target+fee {
		return &txntest.Txn{Type: "pay", Sender: acct, Receiver: w.rich, Amount: bal - fee - target, Fee: fee}
	}
	amt := uint64(0)
	if target > bal {
		amt = target - bal
	}
	return &txntest.Txn{Type: "pay", Sender: w.rich, Receiver: acct, Amount: amt}
}

func c21u64(v uint64) string {
	var b [8]byte
	binary.BigEndian.PutUint64(b[:], v)
	return string(b[:])
}

func c21target(base uint64, delta int) uint64 {
	if delta < 0 {
		return base - uint64(-delta)
	}
	return base + uint64(delta)
}

func c21ops() []c21op {
	var ops []c21op
	add := func(core bool, name string, build func(s *c21sys) []*txntest.Txn) {
		ops = append(ops, c21op{name: name, build: build, core: core})
	}
	dn := func(d int) string { return fmt.Sprintf("%+d", d) }
	sch := func(p *config.ConsensusParams, u, b uint64) uint64 {
		return p.SchemaMinBalancePerEntry*(u+b) + p.SchemaUintMinBalance*u + p.SchemaBytesMinBalance*b
	}
	// tOp: [tune T to min+need+fee(op)+delta ; op from T]
	var aOp func(s *c21sys, acct basics.Address, need uint64, delta int, op *txntest.Txn) []*txntest.Txn
	tOp := func(s *c21sys, need uint64, delta int, op *txntest.Txn) []*txntest.Txn {
		return aOp(s, s.w.target, need, delta, op)
	}
	// aOp: [tune acct to min+need+fee(op)+delta ; op from acct]
	aOp = func(s *c21sys, acct basics.Address, need uint64, delta int, op *txntest.Txn) []*txntest.Txn {
		fillDefaults(s.w.t, s.w.l, s.ev, op)
		var fee uint64
		switch f := op.Fee.(type) {
		case basics.MicroAlgos:
			fee = f.Raw
		case uint64:
			fee = f
		case int:
			fee = uint64(f)
		}
		return []*txntest.Txn{s.tune(acct, c21target(s.min(acct)+need+fee, delta)), op}
	}
	for _, d := range []int{-1, 0, 1} {
		d := d
		add(d <= 0, "T balance := min"+dn(d), func(s *c21sys) []*txntest.Txn {
			return []*txntest.Txn{s.tune(s.w.target, c21target(s.min(s.w.target), d))}
		})
	}
	add(true, "T pays all but fee (no close)", func(s *c21sys) []*txntest.Txn {
		bal, fee := s.bal(s.w.target), s.w.proto.MinTxnFee
		if bal < fee {
			return nil
		}
		return []*txntest.Txn{{Type: "pay", Sender: s.w.target, Receiver: s.w.rich, Amount: bal - fee, Fee: fee}}
	})
	for _, d := range []int{-1, 0, 1} {
		d := d
		add(d <= 0, "T asset opt-in"+dn(d), func(s *c21sys) []*txntest.Txn {
			return tOp(s, s.w.proto.MinBalance, d, &txntest.Txn{Type: "axfer", Sender: s.w.target, AssetReceiver: s.w.target, XferAsset: s.w.asset})
		})
	}
	for _, d := range []int{-1, 0} {
		d := d
		add(false, "T asset create"+dn(d), func(s *c21sys) []*txntest.Txn {
			return tOp(s, s.w.proto.MinBalance, d, &txntest.Txn{Type: "acfg", Sender: s.w.target, AssetParams: basics.AssetParams{Total: 10, UnitName: "t"}})
		})
	}
	add(true, "T asset opt-out then balance := min", func(s *c21sys) []*txntest.Txn {
		if !s.resOf(s.w.target).assets[s.w.asset] {
			return nil
		}
		// after the opt-out the requirement drops by MinBalance; leave exactly the new minimum
		fee := s.w.proto.MinTxnFee
		bal, newMin := s.bal(s.w.target), s.min(s.w.target)-s.w.proto.MinBalance
		if bal < newMin+2*fee {
			return nil
		}
		return []*txntest.Txn{
			{Type: "axfer", Sender: s.w.target, AssetReceiver: s.w.rich, AssetCloseTo: s.w.rich, XferAsset: s.w.asset, Fee: fee},
			{Type: "pay", Sender: s.w.target, Receiver: s.w.rich, Amount: bal - 2*fee - newMin, Fee: fee},
		}
	})
	for _, gs := range [][2]uint64{{0, 0}, {1, 0}, {0, 1}, {1, 1}, {64, 0}, {0, 64}} {
		for _, d := range []int{-1, 0} {
			gs, d := gs, d
			add(gs == [2]uint64{1, 1}, fmt.Sprintf("T app create global %d/%d%s", gs[0], gs[1], dn(d)), func(s *c21sys) []*txntest.Txn {
				p := &s.w.proto
				return tOp(s, p.AppFlatParamsMinBalance+sch(p, gs[0], gs[1]), d, &txntest.Txn{Type: "appl", Sender: s.w.target, ApprovalProgram: "int 1",
					GlobalStateSchema: basics.StateSchema{NumUint: gs[0], NumByteSlice: gs[1]}})
			})
		}
	}
	for _, pages := range []uint32{1, 3} {
		for _, d := range []int{-1, 0} {
			pages, d := pages, d
			add(false, fmt.Sprintf("T app create %d extra pages%s", pages, dn(d)), func(s *c21sys) []*txntest.Txn {
				p := &s.w.proto
				return tOp(s, p.AppFlatParamsMinBalance*uint64(1+pages), d, &txntest.Txn{Type: "appl", Sender: s.w.target, ApprovalProgram: "int 1", ExtraProgramPages: pages})
			})
		}
	}
	for _, which := range []int{0, 1} {
		for _, d := range []int{-1, 0} {
			which, d := which, d
			add(which == 0, fmt.Sprintf("T opt-in app %s%s", []string{"L1(1/1)", "Lmax(16/0)"}[which], dn(d)), func(s *c21sys) []*txntest.Txn {
				p := &s.w.proto
				app, need := s.w.appL1, p.AppFlatOptInMinBalance+sch(p, 1, 1)
				if which == 1 {
					app, need = s.w.appLmax, p.AppFlatOptInMinBalance+sch(p, 16, 0)
				}
				return tOp(s, need, d, &txntest.Txn{Type: "appl", Sender: s.w.target, ApplicationID: app, OnCompletion: transactions.OptInOC})
			})
		}
	}
	add(true, "T close-out L1", func(s *c21sys) []*txntest.Txn {
		if _, ok := s.resOf(s.w.target).optin[s.w.appL1]; !ok {
			return nil
		}
		return tOp(s, 0, 0, &txntest.Txn{Type: "appl", Sender: s.w.target, ApplicationID: s.w.appL1, OnCompletion: transactions.CloseOutOC})
	})
	add(false, "T clear-state Lmax", func(s *c21sys) []*txntest.Txn {
		if _, ok := s.resOf(s.w.target).optin[s.w.appLmax]; !ok {
			return nil
		}
		return tOp(s, 0, 0, &txntest.Txn{Type: "appl", Sender: s.w.target, ApplicationID: s.w.appLmax, OnCompletion: transactions.ClearStateOC})
	})
	add(true, "T deletes its newest app", func(s *c21sys) []*txntest.Txn {
		var newest basics.AppIndex
		for idx := range s.resOf(s.w.target).created {
			if idx > newest {
				newest = idx
			}
		}
		if newest == 0 {
			return nil
		}
		return tOp(s, 0, 0, &txntest.Txn{Type: "appl", Sender: s.w.target, ApplicationID: newest, OnCompletion: transactions.DeleteApplicationOC})
	})
	add(true, "T closes account to R", func(s *c21sys) []*txntest.Txn {
		if s.bal(s.w.target) < s.w.proto.MinTxnFee {
			return nil
		}
		return []*txntest.Txn{{Type: "pay", Sender: s.w.target, CloseRemainderTo: s.w.rich}}
	})
	add(true, "grp[T closes to R | R pays T min-1]", func(s *c21sys) []*txntest.Txn {
		if s.bal(s.w.target) < s.w.proto.MinTxnFee {
			return nil
		}
		return []*txntest.Txn{{Type: "pay", Sender: s.w.target, CloseRemainderTo: s.w.rich}, {Type: "pay", Sender: s.w.rich, Receiver: s.w.target, Amount: s.w.proto.MinBalance - 1}}
	})
	add(false, "grp[T closes to R | R pays T min]", func(s *c21sys) []*txntest.Txn {
		if s.bal(s.w.target) < s.w.proto.MinTxnFee {
			return nil
		}
		return []*txntest.Txn{{Type: "pay", Sender: s.w.target, CloseRemainderTo: s.w.rich}, {Type: "pay", Sender: s.w.rich, Receiver: s.w.target, Amount: s.w.proto.MinBalance}}
	})
	add(false, "T rekeys to U", func(s *c21sys) []*txntest.Txn {
		return tOp(s, 0, 0, &txntest.Txn{Type: "pay", Sender: s.w.target, Receiver: s.w.target, RekeyTo: s.w.other})
	})

	// worker app: [R funds W to min+need+delta ; R calls W (fee covers the inner txn)]
	wOp := func(s *c21sys, need uint64, delta int, boxes []string, args ...string) []*txntest.Txn {
		wa := s.w.worker.Address()
		call := txntest.Txn{Type: "appl", Sender: s.w.rich, ApplicationID: s.w.worker, Accounts: []basics.Address{s.w.rich}, ForeignAssets: []basics.AssetIndex{s.w.asset}}
		for _, b := range boxes {
			call.Boxes = append(call.Boxes, transactions.BoxRef{Index: 0, Name: []byte(b)})
		}
		if len(boxes) > 0 {
			for i := 0; i < 3; i++ { // extra i/o budget
				call.Boxes = append(call.Boxes, transactions.BoxRef{})
			}
		}
		c := call.Args(args...)
		fillDefaults(s.w.t, s.w.l, s.ev, c)
		if f, ok := c.Fee.(basics.MicroAlgos); ok {
			c.Fee = basics.MicroAlgos{Raw: f.Raw + 2*s.w.proto.MinTxnFee}
		}
		return []*txntest.Txn{s.tune(wa, c21target(s.min(wa)+need, delta)), c}
	}
	boxCost := func(p *config.ConsensusParams, name string, size uint64) uint64 {
		return p.BoxFlatMinBalance + p.BoxByteMinBalance*(uint64(len(name))+size)
	}
	for _, bs := range []struct {
		name string
		size uint64
	}{{"a", 1}, {"a", 1024}, {"bb", 1}} {
		for _, d := range []int{-1, 0} {
			bs, d := bs, d
			if bs.name == "bb" && d == -1 {
				continue
			}
			add(bs.size == 1 && bs.name == "a", fmt.Sprintf("W box create %q size %d%s", bs.name, bs.size, dn(d)), func(s *c21sys) []*txntest.Txn {
				return wOp(s, boxCost(&s.w.proto, bs.name, bs.size), d, []string{bs.name}, "bc", bs.name, c21u64(bs.size))
			})
		}
	}
	for _, nd := range []struct {
		size uint64
		d    int
	}{{2048, -1}, {2048, 0}, {8, 0}} {
		nd := nd
		add(nd.size == 2048, fmt.Sprintf("W box resize \"a\" to %d%s", nd.size, dn(nd.d)), func(s *c21sys) []*txntest.Txn {
			cur, ok := s.resOf(s.w.worker.Address()).boxes["a"]
			if !ok {
				return nil
			}
			need := uint64(0)
			if nd.size > uint64(cur) {
				need = s.w.proto.BoxByteMinBalance * (nd.size - uint64(cur))
			}
			return wOp(s, need, nd.d, []string{"a"}, "br", "a", c21u64(nd.size))
		})
	}
	add(true, "W box delete \"a\"", func(s *c21sys) []*txntest.Txn {
		if _, ok := s.resOf(s.w.worker.Address()).boxes["a"]; !ok {
			return nil
		}
		return wOp(s, 0, 0, []string{"a"}, "bd", "a")
	})
	for _, d := range []int{-1, 0} {
		d := d
		add(true, "W inner asset opt-in"+dn(d), func(s *c21sys) []*txntest.Txn {
			return wOp(s, s.w.proto.MinBalance, d, nil, "oi")
		})
	}
	add(false, "W inner asset opt-out", func(s *c21sys) []*txntest.Txn {
		if !s.resOf(s.w.worker.Address()).assets[s.w.asset] {
			return nil
		}
		return wOp(s, 0, 0, nil, "oo")
	})
	for _, d := range []int{-1, 0} {
		d := d
		add(false, "W inner app create 1/1"+dn(d), func(s *c21sys) []*txntest.Txn {
			p := &s.w.proto
			return wOp(s, p.AppFlatParamsMinBalance+sch(p, 1, 1), d, nil, "ac")
		})
	}
	for _, d := range []int{-1, 0} {
		d := d
		add(true, "W inner pay-out leaving min"+dn(d), func(s *c21sys) []*txntest.Txn {
			// fund W with 5000 spare, then ask it to pay out 5000-delta... i.e. leave min+delta
			wa := s.w.worker.Address()
			grp := wOp(s, 5000, 0, nil, "po", c21u64(uint64(5000-d)))
			_ = wa
			return grp
		})
	}
	add(false, "W inner close-out to R", func(s *c21sys) []*txntest.Txn {
		return wOp(s, 0, 0, nil, "co")
	})

	// family boxes: the sibling app S (same creator as W) works in W's box namespace; the
	// deposit belongs to the OWNER W, which is funded to its post-op minimum + delta
	fOp := func(s *c21sys, need uint64, delta int, box string, args ...string) []*txntest.Txn {
		wa := s.w.worker.Address()
		call := txntest.Txn{Type: "appl", Sender: s.w.rich, ApplicationID: s.w.sibling, ForeignApps: []basics.AppIndex{s.w.worker},
			Boxes: []transactions.BoxRef{{Index: 1, Name: []byte(box)}, {}, {}, {}}}
		return []*txntest.Txn{s.tune(wa, c21target(s.min(wa)+need, delta)), call.Args(args...)}
	}
	for _, d := range []int{-1, 0} {
		d := d
		add(d == 0, "S app_box_create W/\"f\" 16"+dn(d), func(s *c21sys) []*txntest.Txn {
			return fOp(s, boxCost(&s.w.proto, "f", 16), d, "f", "fc", "f", c21u64(16))
		})
		add(true, "S app_box_put W/\"f\" 16 (new or existing)"+dn(d), func(s *c21sys) []*txntest.Txn {
			need := boxCost(&s.w.proto, "f", 16)
			if _, ok := s.resOf(s.w.worker.Address()).boxes["f"]; ok {
				need = 0
			}
			return fOp(s, need, d, "f", "fp", "f", c21u64(16))
		})
		add(false, "S app_box_resize W/\"f\" to 64"+dn(d), func(s *c21sys) []*txntest.Txn {
			cur, ok := s.resOf(s.w.worker.Address()).boxes["f"]
			if !ok || cur >= 64 {
				return nil
			}
			return fOp(s, s.w.proto.BoxByteMinBalance*uint64(64-cur), d, "f", "fr", "f", c21u64(64))
		})
	}
	add(true, "S app_box_put W/\"a\" 1 (box made by W itself)", func(s *c21sys) []*txntest.Txn {
		need := boxCost(&s.w.proto, "a", 1)
		if _, ok := s.resOf(s.w.worker.Address()).boxes["a"]; ok {
			need = 0
		}
		return fOp(s, need, 0, "a", "fp", "a", c21u64(1))
	})
	add(true, "S app_box_del W/\"f\"", func(s *c21sys) []*txntest.Txn {
		if _, ok := s.resOf(s.w.worker.Address()).boxes["f"]; !ok {
			return nil
		}
		return fOp(s, 0, 0, "f", "fd", "f")
	})
	add(true, "W pays out everything above its minimum", func(s *c21sys) []*txntest.Txn {
		wa := s.w.worker.Address()
		bal, m := s.bal(wa), s.min(wa)
		if bal <= m {
			return nil
		}
		call := txntest.Txn{Type: "appl", Sender: s.w.rich, ApplicationID: s.w.worker, Accounts: []basics.Address{s.w.rich}, ForeignAssets: []basics.AssetIndex{s.w.asset}}
		c := call.Args("po", c21u64(bal-m))
		fillDefaults(s.w.t, s.w.l, s.ev, c)
		if f, ok := c.Fee.(basics.MicroAlgos); ok {
			c.Fee = basics.MicroAlgos{Raw: f.Raw + 2*s.w.proto.MinTxnFee}
		}
		return []*txntest.Txn{c}
	})

	// size sponsorship: app X of R approves updates/deletes by anyone; a size-changing update
	// moves the charge for X's global schema + extra pages to the updater
	resize := func(s *c21sys, who basics.Address, u, b uint64, pages uint32, delta int) []*txntest.Txn {
		var cur c21created
		found := false
		for _, r := range s.res {
			if c, ok := r.created[s.w.appX]; ok {
				cur, found = c, true
			}
		}
		if !found {
			return nil
		}
		p := &s.w.proto
		need := sch(p, u, b) + p.AppFlatParamsMinBalance*uint64(pages)
		payer := cur.sponsor
		if payer.IsZero() {
			payer = s.w.rich
		}
		if payer == who { // already paying for the old size
			old := sch(p, cur.global.u, cur.global.b) + p.AppFlatParamsMinBalance*cur.pages
			if old > need {
				need = 0
			} else {
				need -= old
			}
		}
		op := &txntest.Txn{Type: "appl", Sender: who, ApplicationID: s.w.appX, OnCompletion: transactions.UpdateApplicationOC,
			ApprovalProgram: "int 1", ClearStateProgram: "int 1", GlobalStateSchema: basics.StateSchema{NumUint: u, NumByteSlice: b}, ExtraProgramPages: pages}
		if who == s.w.rich {
			return []*txntest.Txn{op}
		}
		return aOp(s, who, need, delta, op)
	}
	for _, d := range []int{-1, 0} {
		d := d
		add(true, "U resizes X to 8/0"+dn(d), func(s *c21sys) []*txntest.Txn { return resize(s, s.w.other, 8, 0, 0, d) })
		add(false, "T resizes X to 2/1 +1 page"+dn(d), func(s *c21sys) []*txntest.Txn { return resize(s, s.w.target, 2, 1, 1, d) })
	}
	add(true, "R (creator) resizes X to 4/1", func(s *c21sys) []*txntest.Txn { return resize(s, s.w.rich, 4, 1, 0, 0) })
	add(false, "U updates X without size change", func(s *c21sys) []*txntest.Txn {
		found := false
		for _, r := range s.res {
			if _, ok := r.created[s.w.appX]; ok {
				found = true
			}
		}
		if !found {
			return nil
		}
		return aOp(s, s.w.other, 0, 0, &txntest.Txn{Type: "appl", Sender: s.w.other, ApplicationID: s.w.appX, OnCompletion: transactions.UpdateApplicationOC,
			ApprovalProgram: "int 1", ClearStateProgram: "int 1"})
	})
	add(true, "R deletes X", func(s *c21sys) []*txntest.Txn {
		if _, ok := s.resOf(s.w.rich).created[s.w.appX]; !ok {
			return nil
		}
		return []*txntest.Txn{{Type: "appl", Sender: s.w.rich, ApplicationID: s.w.appX, OnCompletion: transactions.DeleteApplicationOC}}
	})
	for _, d := range []int{-1, 0} {
		d := d
		add(true, "U balance := min"+dn(d), func(s *c21sys) []*txntest.Txn {
			return []*txntest.Txn{s.tune(s.w.other, c21target(s.min(s.w.other), d))}
		})
	}
	// the reduced ("core") alphabet of the deepest level: the ops that spend or release deposits
	core := map[string]bool{"T balance := min-1": true, "T balance := min+0": true, "T pays all but fee (no close)": true,
		"T closes account to R": true, "T deletes its newest app": true, "T asset opt-out then balance := min": true,
		"U balance := min-1": true, "U balance := min+0": true, "R deletes X": true, "R (creator) resizes X to 4/1": true,
		"U resizes X to 8/0+0": true, "W pays out everything above its minimum": true, "S app_box_del W/\"f\"": true,
		"W inner pay-out leaving min-1": true}
	for i := range ops {
		ops[i].core = core[ops[i].name]
	}
	return ops
}

func (s *c21sys) apply(op int, coreOnly bool) (bool, error) {
	if s.herr != nil {
		return false, nil
	}
	o := s.w.ops[op]
	if coreOnly && !o.core {
		return false, nil
	}
	txs := o.build(s)
	if s.herr != nil {
		return false, nil
	}
	if txs == nil {
		return false, nil
	}
	ok, err := s.submit(txs)
	if err != nil {
		var v *ve.Violation
		if errors.As(err, &v) {
			return true, v
		}
		s.herr = err
		return false, nil
	}
	if !ok {
		s.w.rejected.Add(1)
		s.w.opRej[op].Add(1)
		return false, nil
	}
	s.w.opAcc[op].Add(1)
	return true, nil
}

func (s *c21sys) key() string {
	if s.herr != nil {
		return "harness-error"
	}
	var b strings.Builder
	addrs := make([]basics.Address, 0, len(s.res))
	seen := map[basics.Address]bool{}
	for a := range s.res {
		addrs = append(addrs, a)
		seen[a] = true
	}
	for a := range s.view {
		if !seen[a] {
			addrs = append(addrs, a)
		}
	}
	sort.Slice(addrs, func(i, j int) bool { return string(addrs[i][:]) < string(addrs[j][:]) })
	for _, a := range addrs {
		ad := s.acct(a)
		fmt.Fprintf(&b, "%x:%d:%x:{%s};", a[:4], ad.MicroAlgos.Raw, ad.AuthAddr[:4], s.resOf(a).dump())
	}
	fmt.Fprintf(&b, "ctr%d n%d o%v", s.ev.TestingTxnCounter(), s.steps, s.orphaned)
	return ve.HashKey([]byte(b.String()))
}

var c21harnessFirst atomic.Value
var c21harnessN atomic.Int64

func TestVerif_C21(t *testing.T) {
	r := ve.NewRun("C21", "model_checking")
	w, err := c21newWorld(t)
	if err != nil {
		t.Fatalf("HARNESS-FAILURE (not a verdict): %v", err)
	}
	defer w.l.Close()
	depth := 3
	coreDepth := ve.Pick(0, 4) // thorough: a fourth group from the reduced ("core") alphabet
	maxDepth := depth
	if coreDepth > depth {
		maxDepth = coreDepth
	}
	nCore := 0
	for _, o := range w.ops {
		if o.core {
			nCore++
		}
	}
	q := &ve.Seq[*c21sys]{
		Name:   "minbalance",
		NumOps: len(w.ops),
		OpName: func(op int) string { return w.ops[op].name },
		New:    func() *c21sys { return c21new(w) },
		Apply: func(s *c21sys, op int) (bool, error) {
			en, err := s.apply(op, s.steps >= depth)
			if s.herr != nil && c21harnessN.Add(1) == 1 {
				c21harnessFirst.Store(s.herr.Error())
			}
			return en, err
		},
		Key: func(s *c21sys) string { return s.key() },
		Observe: func(s *c21sys) string {
			return fmt.Sprintf("T{%s} W{%s}", s.resOf(w.target).dump(), s.resOf(w.worker.Address()).dump())
		},
		MaxDepth: maxDepth,
	}
	res := q.Explore(r)
	var cov ve.Coverage
	cov.AddSeq(res)
	cov.Exhaustive = res.Exhaustive
	stats := map[string][2]int64{}
	for i, o := range w.ops {
		stats[o.name] = [2]int64{w.opAcc[i].Load(), w.opRej[i].Load()}
		if w.opAcc[i].Load() == 0 {
			r.Note("op %q was never accepted (rejected %d times)", o.name, w.opRej[i].Load())
		}
	}
	r.Set("op_accepted_rejected_incl_replays", stats)
	r.Set("rejected_groups_skipped", w.rejected.Load())
	r.Set("sponsor_account_closed_transitions", w.sponsorClosed.Load())
	r.Set("violations_attributed_to_orphaned_size_sponsorship", w.orphanHits.Load())
	cov.Rule = fmt.Sprintf("BFS over all histories of <= %d transaction groups from a %d-op alphabet%s (each op tunes the acting account to exactly the post-op minimum balance + delta, delta in {-1,0,+1}, then performs: payment, asset opt-in/create/opt-out, app create with schemas/extra pages, app opt-in/close-out/clear/delete, account close, rekey, and through an app account: box create/resize/delete, inner asset opt-in/out, inner app create, inner pay-out, inner close) in one block on the real evaluator; after every accepted group every modified account is zero or holds >= the minimum balance recomputed from its enumerated resources, which must equal the repo's MinBalance",
		depth, len(w.ops), map[bool]string{false: "", true: fmt.Sprintf(", plus a %dth group from the %d-op core alphabet", coreDepth, nCore)}[coreDepth > depth])
	r.Assume("group deltas (account records, asset/app resource records, kv records) are observed through the exported EvalTracer.AfterTxnGroup hook")
	r.Assume("all instances share one read-only Ledger; rewards level stays 0 (pool at its minimum)")
	nviol := r.Finish(cov)
	if n := c21harnessN.Load(); n > 0 {
		t.Fatalf("HARNESS-FAILURE (not a verdict): %d harness errors, first: %v", n, c21harnessFirst.Load())
	}
	if nviol > 0 {
		t.Fatal("violations")
	}
}
