package ledger

// C29 (part c) — block VALIDATION rejects a payset that does not match the header's commitment.
//
// Part b checks Block.ContentsMatchHeader itself. Block validation, however, never hashes the payset
// it is handed: eval.Eval re-evaluates every transaction, compares the carried ApplyData with the
// computed one (ApplyData.Equal -> EvalDelta.Equal, recursively into inner transactions), rebuilds
// the payset and checks the header commitment against the REBUILT payset, while the block handed in is
// what gets stored. So the carried payset is bound to the header only through the exactness of those
// comparisons. This part drives the real validation path (seeded change C29-A).
//
// Engine E-ENUM. A real in-memory Ledger (protocol: current) is set up with two applications:
// X logs, issues an inner payment, an inner asset creation and an inner call to Y; Y logs, writes a
// global, and issues an inner payment that closes its account (depth-2 inner with ClosingAmount).
// The block under test is built by the real generator (BlockEvaluator + GenerateBlock) from three
// genuinely SIGNED transactions: a payment, the call to X, a closing payment. Then, with the honest
// header left untouched ("H"), and again with the header's TxnCommitments recomputed for the altered
// payset ("C", a self-consistent forged block), EVERY single alteration:
//   structural: all permutations, all proper sub-sequences (incl. empty), every duplication and every
//     insertion of a foreign signed payment at every position;
//   per transaction: sender, fee, first/last valid, note, lease, group, rekey-to, receiver, amount,
//     close-to; signature byte flips (first/middle/last), signature removed, multisig / logic sig /
//     AuthAddr added; HasGenesisID / HasGenesisHash flipped;
//   per ApplyData, recursively at depth 0, 1 and 2: ClosingAmount, AssetClosingAmount, Sender/Receiver/
//     CloseRewards, ConfigAsset, ApplicationID (+1 each); GlobalDelta key added / each entry altered /
//     each entry removed; LocalDeltas entry added; SharedAccts entry added; Logs appended / each
//     altered / each removed; InnerTxns: each dropped, each duplicated, neighbours swapped, each inner
//     transaction's fee/note/sender/amount/receiver altered;
// goes through BOTH validators: Ledger.Validate (eval.Eval(validate=true) with the ledger's real
// verified-transaction cache and a backlog pool: signatures are checked) and eval.Eval(validate=true)
// with signature checking mocked out (so that the commitment, not the signature, has to do the work).
// Oracle: the honest block is accepted by both; with the honest header every alteration is rejected by
// both; with recomputed commitments every ApplyData / inner-transaction alteration is still rejected by
// both (evaluation computes something else), and every transaction / signature alteration is rejected
// by the signature-checking validator. Recorded only (a consistent forged block may be a legitimately
// different valid block): structural and transaction-field alterations under recomputed commitments
// with signature checking mocked out, structural alterations under recomputed commitments.
//
// Not covered: paysets > 3, inner depth > 2, catchup's use of these checks (C30).
// Unexported identifiers used: newSimpleLedgerWithConsensusVersion, nextBlock, endBlock, main (upstream
// test helpers of package ledger).

import (
	"context"
	"fmt"
	"strings"
	"testing"

	"github.com/algorand/go-algorand/config"
	"github.com/algorand/go-algorand/crypto"
	"github.com/algorand/go-algorand/data/basics"
	"github.com/algorand/go-algorand/data/bookkeeping"
	"github.com/algorand/go-algorand/data/committee"
	"github.com/algorand/go-algorand/data/transactions"
	"github.com/algorand/go-algorand/data/transactions/verify"
	"github.com/algorand/go-algorand/data/txntest"
	"github.com/algorand/go-algorand/ledger/eval"
	ledgertesting "github.com/algorand/go-algorand/ledger/testing"
	"github.com/algorand/go-algorand/protocol"
	"github.com/algorand/go-algorand/util/execpool"
	ve "github.com/algorand/go-algorand/verifeng"
)

type c29cAlt struct {
	Kind string // structural | txn | sig | ad
	Name string
	f    func(b *bookkeeping.Block)
}

func c29cClone(b bookkeeping.Block) bookkeeping.Block {
	var out bookkeeping.Block
	if _, err := out.UnmarshalMsg(b.MarshalMsg(nil)); err != nil {
		panic(err)
	}
	return out
}

// c29cWalkAD appends every single alteration of the ApplyData reached by get (and, recursively, of
// its inner transactions) to out. honest is the unaltered value (used for the shape only).
func c29cWalkAD(path string, depth int, honest transactions.ApplyData, get func(b *bookkeeping.Block) *transactions.ApplyData, out *[]c29cAlt) {
	add := func(name string, f func(ad *transactions.ApplyData)) {
		*out = append(*out, c29cAlt{Kind: "ad", Name: fmt.Sprintf("%s(depth %d).%s", path, depth, name), f: func(b *bookkeeping.Block) { f(get(b)) }})
	}
	add("ClosingAmount+1", func(ad *transactions.ApplyData) { ad.ClosingAmount.Raw++ })
	add("AssetClosingAmount+1", func(ad *transactions.ApplyData) { ad.AssetClosingAmount++ })
	add("SenderRewards+1", func(ad *transactions.ApplyData) { ad.SenderRewards.Raw++ })
	add("ReceiverRewards+1", func(ad *transactions.ApplyData) { ad.ReceiverRewards.Raw++ })
	add("CloseRewards+1", func(ad *transactions.ApplyData) { ad.CloseRewards.Raw++ })
	add("ConfigAsset+1", func(ad *transactions.ApplyData) { ad.ConfigAsset++ })
	add("ApplicationID+1", func(ad *transactions.ApplyData) { ad.ApplicationID++ })
	add("GlobalDelta key added", func(ad *transactions.ApplyData) {
		g := basics.StateDelta{}
		for k, v := range ad.EvalDelta.GlobalDelta {
			g[k] = v
		}
		g["c29c"] = basics.ValueDelta{Action: basics.SetUintAction, Uint: 1}
		ad.EvalDelta.GlobalDelta = g
	})
	for k := range honest.EvalDelta.GlobalDelta {
		k := k
		add(fmt.Sprintf("GlobalDelta[%q] altered", k), func(ad *transactions.ApplyData) {
			v := ad.EvalDelta.GlobalDelta[k]
			v.Uint++
			v.Bytes += "x"
			ad.EvalDelta.GlobalDelta[k] = v
		})
		add(fmt.Sprintf("GlobalDelta[%q] removed", k), func(ad *transactions.ApplyData) { delete(ad.EvalDelta.GlobalDelta, k) })
	}
	add("LocalDeltas entry added", func(ad *transactions.ApplyData) {
		ad.EvalDelta.LocalDeltas = map[uint64]basics.StateDelta{0: {"c29c": basics.ValueDelta{Action: basics.SetUintAction, Uint: 2}}}
	})
	add("SharedAccts entry added", func(ad *transactions.ApplyData) {
		ad.EvalDelta.SharedAccts = append(append([]basics.Address{}, ad.EvalDelta.SharedAccts...), basics.Address{0xc2, 0x9c})
	})
	add("Logs appended", func(ad *transactions.ApplyData) { ad.EvalDelta.Logs = append(append([]string{}, ad.EvalDelta.Logs...), "forged") })
	for i := range honest.EvalDelta.Logs {
		i := i
		add(fmt.Sprintf("Logs[%d] altered", i), func(ad *transactions.ApplyData) { ad.EvalDelta.Logs[i] += "!" })
		add(fmt.Sprintf("Logs[%d] removed", i), func(ad *transactions.ApplyData) {
			ad.EvalDelta.Logs = append(append([]string{}, ad.EvalDelta.Logs[:i]...), ad.EvalDelta.Logs[i+1:]...)
		})
	}
	n := len(honest.EvalDelta.InnerTxns)
	for i := 0; i < n; i++ {
		i := i
		add(fmt.Sprintf("InnerTxns[%d] dropped", i), func(ad *transactions.ApplyData) {
			ad.EvalDelta.InnerTxns = append(append([]transactions.SignedTxnWithAD{}, ad.EvalDelta.InnerTxns[:i]...), ad.EvalDelta.InnerTxns[i+1:]...)
		})
		add(fmt.Sprintf("InnerTxns[%d] duplicated", i), func(ad *transactions.ApplyData) {
			ad.EvalDelta.InnerTxns = append(append(append([]transactions.SignedTxnWithAD{}, ad.EvalDelta.InnerTxns[:i+1]...), ad.EvalDelta.InnerTxns[i]), ad.EvalDelta.InnerTxns[i+1:]...)
		})
		if i+1 < n {
			add(fmt.Sprintf("InnerTxns[%d]<->[%d] swapped", i, i+1), func(ad *transactions.ApplyData) {
				ad.EvalDelta.InnerTxns[i], ad.EvalDelta.InnerTxns[i+1] = ad.EvalDelta.InnerTxns[i+1], ad.EvalDelta.InnerTxns[i]
			})
		}
		inner := func(name string, f func(t *transactions.Transaction)) {
			add(fmt.Sprintf("InnerTxns[%d].txn.%s", i, name), func(ad *transactions.ApplyData) { f(&ad.EvalDelta.InnerTxns[i].Txn) })
		}
		inner("fee+1", func(t *transactions.Transaction) { t.Fee.Raw++ })
		inner("note", func(t *transactions.Transaction) { t.Note = []byte("forged") })
		inner("sender", func(t *transactions.Transaction) { t.Sender[0] ^= 1 })
		inner("amount+1", func(t *transactions.Transaction) { t.Amount.Raw++ })
		inner("receiver", func(t *transactions.Transaction) { t.Receiver[0] ^= 1 })
		c29cWalkAD(fmt.Sprintf("%s.InnerTxns[%d]", path, i), depth+1, honest.EvalDelta.InnerTxns[i].ApplyData,
			func(b *bookkeeping.Block) *transactions.ApplyData { return &get(b).EvalDelta.InnerTxns[i].ApplyData }, out)
	}
}

func c29cErrKind(err error) string {
	if err == nil {
		return "accepted"
	}
	s := err.Error()
	for _, k := range []string{"applyData mismatch", "txn root wrong", "already in ledger", "signedtxn has no sig", "only one type of signature", "At least one signature didn't pass", "multisig", "fee", "overspend", "GenesisHash", "GenesisID", "should have been authorized", "txn counter", "txn dead", "malformed"} {
		if strings.Contains(s, k) {
			return k
		}
	}
	if len(s) > 36 {
		s = s[:36]
	}
	return "other:" + s
}

func TestVerif_C29_c(t *testing.T) {
	r := ve.NewRun("C29", "exploration")
	r.Assume("part c: under recomputed commitments (a self-consistent forged block) rejection is demanded for ApplyData / inner-transaction alterations by both validators and for transaction / signature alterations by the signature-checking validator; structural alterations and, without signature checking, transaction alterations may form a legitimately different valid block and are only recorded")

	genBalances, addrs, secrets := ledgertesting.NewTestGenesis()
	cfg := config.GetDefaultLocal()
	l := newSimpleLedgerWithConsensusVersion(t, genBalances, protocol.ConsensusCurrentVersion, cfg)
	defer l.Close()

	// --- setup blocks: applications Y and X, both funded
	createApp := func(src string, schema basics.StateSchema) basics.AppIndex {
		ev := nextBlock(t, l)
		txn(t, l, ev, &txntest.Txn{Type: protocol.ApplicationCallTx, Sender: addrs[0], ApprovalProgram: src, GlobalStateSchema: schema})
		vb := endBlock(t, l, ev)
		return vb.Block().Payset[0].ApplicationID
	}
	appY := createApp(main(`
		byte "y-log"; log
		byte "k"; int 7; app_global_put
		itxn_begin
		 int pay; itxn_field TypeEnum
		 txn Sender; itxn_field Receiver
		 int 3; itxn_field Amount
		 txn Sender; itxn_field CloseRemainderTo
		itxn_submit
	`), basics.StateSchema{NumUint: 1})
	appX := createApp(main(`
		byte "x-log"; log
		itxn_begin
		 int pay; itxn_field TypeEnum
		 txn Sender; itxn_field Receiver
		 int 5; itxn_field Amount
		itxn_submit
		itxn_begin
		 int acfg; itxn_field TypeEnum
		 int 1000; itxn_field ConfigAssetTotal
		 byte "oz"; itxn_field ConfigAssetUnitName
		itxn_submit
		itxn_begin
		 int appl; itxn_field TypeEnum
		 txn Applications 1; itxn_field ApplicationID
		itxn_submit
		byte "x-log-2"; log
	`), basics.StateSchema{})
	{
		ev := nextBlock(t, l)
		txn(t, l, ev, &txntest.Txn{Type: protocol.PaymentTx, Sender: addrs[0], Receiver: appX.Address(), Amount: 2_000_000})
		txn(t, l, ev, &txntest.Txn{Type: protocol.PaymentTx, Sender: addrs[0], Receiver: appY.Address(), Amount: 1_000_000})
		endBlock(t, l, ev)
	}

	// --- the block under test: three signed transactions through the real generator
	ev := nextBlock(t, l)
	proto := ev.ConsensusParams()
	mk := func(tx *txntest.Txn, key *crypto.SignatureSecrets) transactions.SignedTxn {
		fillDefaults(t, l, ev, tx)
		return tx.Txn().Sign(key)
	}
	stxns := []transactions.SignedTxn{
		mk(&txntest.Txn{Type: protocol.PaymentTx, Sender: addrs[1], Receiver: addrs[2], Amount: 1234, Note: "c29c-0"}, secrets[1]),
		mk(&txntest.Txn{Type: protocol.ApplicationCallTx, Sender: addrs[3], ApplicationID: appX, ForeignApps: []basics.AppIndex{appY}, Fee: 10 * proto.MinTxnFee, Note: "c29c-1"}, secrets[3]),
		mk(&txntest.Txn{Type: protocol.PaymentTx, Sender: addrs[4], Receiver: addrs[5], Amount: 77, CloseRemainderTo: addrs[6], Note: "c29c-2"}, secrets[4]),
	}
	foreignTx := mk(&txntest.Txn{Type: protocol.PaymentTx, Sender: addrs[7], Receiver: addrs[8], Amount: 99, Note: "c29c-foreign"}, secrets[7])
	for i, st := range stxns {
		if err := ev.TransactionGroup(st.WithAD()); err != nil {
			t.Fatalf("harness: generator refused transaction %d: %v", i, err)
		}
	}
	ub, err := ev.GenerateBlock(nil)
	if err != nil {
		t.Fatalf("harness: GenerateBlock: %v", err)
	}
	honest := ub.FinishBlock(committee.Seed{0xc2, 0x9c}, addrs[9], false)
	if len(honest.Payset) != 3 || len(honest.Payset[1].EvalDelta.InnerTxns) != 3 || len(honest.Payset[1].EvalDelta.InnerTxns[2].EvalDelta.InnerTxns) != 1 {
		t.Fatalf("harness: unexpected shape of the generated block: %d txns, inner %v", len(honest.Payset), honest.Payset[1].EvalDelta)
	}
	in2 := honest.Payset[1].EvalDelta.InnerTxns[2].EvalDelta.InnerTxns[0].ApplyData
	if honest.Payset[1].EvalDelta.InnerTxns[1].ConfigAsset == 0 || in2.ClosingAmount.Raw == 0 || honest.Payset[2].ClosingAmount.Raw == 0 {
		t.Fatalf("harness: the generated block lacks the ApplyData it is meant to carry")
	}
	foreignEnc, err := honest.BlockHeader.EncodeSignedTxn(foreignTx, transactions.ApplyData{})
	if err != nil {
		t.Fatalf("harness: %v", err)
	}
	if !honest.ContentsMatchHeader() {
		t.Fatalf("harness: generated block does not match its own header")
	}

	// --- alterations
	var alts []c29cAlt
	k := len(honest.Payset)
	ve.Permutations(k, func(p []int) {
		id := true
		for i, x := range p {
			if i != x {
				id = false
			}
		}
		if id {
			return
		}
		pp := append([]int{}, p...)
		alts = append(alts, c29cAlt{Kind: "structural", Name: fmt.Sprintf("permutation %v", pp), f: func(b *bookkeeping.Block) {
			old := append(transactions.Payset{}, b.Payset...)
			for i, x := range pp {
				b.Payset[i] = old[x]
			}
		}})
	})
	ve.Subsets(k, func(mask uint) {
		if mask == 1<<uint(k)-1 {
			return
		}
		alts = append(alts, c29cAlt{Kind: "structural", Name: fmt.Sprintf("sub-sequence keep=%03b", mask), f: func(b *bookkeeping.Block) {
			var ps transactions.Payset
			for i := 0; i < k; i++ {
				if mask&(1<<uint(i)) != 0 {
					ps = append(ps, b.Payset[i])
				}
			}
			b.Payset = ps
		}})
	})
	for pos := 0; pos <= k; pos++ {
		for i := 0; i <= k; i++ {
			pos, i := pos, i
			name := fmt.Sprintf("foreign txn inserted @%d", pos)
			if i < k {
				name = fmt.Sprintf("duplicate of %d inserted @%d", i, pos)
			}
			alts = append(alts, c29cAlt{Kind: "structural", Name: name, f: func(b *bookkeeping.Block) {
				ins := foreignEnc
				if i < k {
					ins = b.Payset[i]
				}
				b.Payset = append(append(append(transactions.Payset{}, b.Payset[:pos]...), ins), b.Payset[pos:]...)
			}})
		}
	}
	for i := 0; i < k; i++ {
		i := i
		tx := func(name string, f func(s *transactions.SignedTxnInBlock)) {
			alts = append(alts, c29cAlt{Kind: "txn", Name: fmt.Sprintf("txn[%d].%s", i, name), f: func(b *bookkeeping.Block) { f(&b.Payset[i]) }})
		}
		sg := func(name string, f func(s *transactions.SignedTxnInBlock)) {
			alts = append(alts, c29cAlt{Kind: "sig", Name: fmt.Sprintf("txn[%d].%s", i, name), f: func(b *bookkeeping.Block) { f(&b.Payset[i]) }})
		}
		tx("sender", func(s *transactions.SignedTxnInBlock) { s.Txn.Sender = addrs[8] })
		tx("fee+1", func(s *transactions.SignedTxnInBlock) { s.Txn.Fee.Raw++ })
		tx("firstvalid-1", func(s *transactions.SignedTxnInBlock) { s.Txn.FirstValid-- })
		tx("lastvalid+1", func(s *transactions.SignedTxnInBlock) { s.Txn.LastValid++ })
		tx("note", func(s *transactions.SignedTxnInBlock) { s.Txn.Note = append(append([]byte{}, s.Txn.Note...), '!') })
		tx("lease", func(s *transactions.SignedTxnInBlock) { s.Txn.Lease[0] ^= 1 })
		tx("group", func(s *transactions.SignedTxnInBlock) { s.Txn.Group[0] ^= 1 })
		tx("rekeyto", func(s *transactions.SignedTxnInBlock) { s.Txn.RekeyTo = addrs[8] })
		tx("receiver", func(s *transactions.SignedTxnInBlock) { s.Txn.Receiver = addrs[8] })
		tx("amount+1", func(s *transactions.SignedTxnInBlock) { s.Txn.Amount.Raw++ })
		tx("closeto", func(s *transactions.SignedTxnInBlock) { s.Txn.CloseRemainderTo = addrs[8] })
		tx("hasgenesisid flipped", func(s *transactions.SignedTxnInBlock) { s.HasGenesisID = !s.HasGenesisID })
		tx("hasgenesishash flipped", func(s *transactions.SignedTxnInBlock) { s.HasGenesisHash = !s.HasGenesisHash })
		sg("sig byte 0", func(s *transactions.SignedTxnInBlock) { s.Sig[0] ^= 4 })
		sg("sig byte 32", func(s *transactions.SignedTxnInBlock) { s.Sig[32] ^= 4 })
		sg("sig byte 63", func(s *transactions.SignedTxnInBlock) { s.Sig[63] ^= 4 })
		sg("sig removed", func(s *transactions.SignedTxnInBlock) { s.Sig = crypto.Signature{} })
		sg("msig added", func(s *transactions.SignedTxnInBlock) {
			s.Msig = crypto.MultisigSig{Version: 1, Threshold: 1, Subsigs: []crypto.MultisigSubsig{{Key: secrets[8].SignatureVerifier, Sig: secrets[8].Sign(s.Txn)}}}
		})
		sg("lsig added", func(s *transactions.SignedTxnInBlock) { s.Lsig.Logic = []byte{3, 0x20, 1, 1, 0x22} })
		sg("authaddr added", func(s *transactions.SignedTxnInBlock) { s.AuthAddr = addrs[8] })
		c29cWalkAD(fmt.Sprintf("txn[%d].ApplyData", i), 0, honest.Payset[i].ApplyData,
			func(b *bookkeeping.Block) *transactions.ApplyData { return &b.Payset[i].ApplyData }, &alts)
	}

	vpool := execpool.MakeBacklog(nil, 0, execpool.LowPriority, nil)
	defer vpool.Shutdown()
	validators := []struct {
		name string
		run  func(b bookkeeping.Block) error
	}{
		{"Ledger.Validate", func(b bookkeeping.Block) error { _, err := l.Validate(context.Background(), b, vpool); return err }},
		{"Eval(validate,no-sig-check)", func(b bookkeeping.Block) error {
			_, err := eval.Eval(context.Background(), l, b, true, verify.GetMockedCache(true), vpool, nil)
			return err
		}},
	}
	for _, v := range validators {
		if err := v.run(c29cClone(honest)); err != nil {
			r.Report("C29:validate:honest-rejected", fmt.Sprintf("%s rejects the block the generator produced: %v", v.name, err), map[string]any{"part": "c", "validator": v.name})
		}
		r.Eval()
		r.Class("c/" + v.name + "/honest/accepted")
	}

	nAD := 0
	for _, a := range alts {
		if a.Kind == "ad" {
			nAD++
		}
	}
	r.Set("alterations", len(alts))
	r.Set("alterations_applydata_and_inner", nAD)
	type job struct {
		ai     int
		mode   string // H: honest header, C: commitments recomputed
		vi     int
		demand bool
	}
	var jobs []job
	for ai, a := range alts {
		for _, mode := range []string{"H", "C"} {
			for vi := range validators {
				demand := mode == "H" || a.Kind == "ad" || (vi == 0 && (a.Kind == "txn" || a.Kind == "sig"))
				jobs = append(jobs, job{ai, mode, vi, demand})
			}
		}
	}
	visited := r.ParallelFor(len(jobs), func(ji int) {
		j := jobs[ji]
		a := alts[j.ai]
		b := c29cClone(honest)
		a.f(&b)
		if j.mode == "H" && b.ContentsMatchHeader() {
			r.Report("C29:validate:harness-noop", fmt.Sprintf("alteration %q leaves ContentsMatchHeader true", a.Name), map[string]any{"part": "c", "alteration": a.Name})
			return
		}
		if j.mode == "C" {
			tc, err := b.PaysetCommit()
			if err != nil {
				r.Class("c/" + a.Kind + "/C/commit-error")
				return
			}
			b.TxnCommitments = tc
		}
		err := validators[j.vi].run(b)
		r.Eval()
		kind := c29cErrKind(err)
		tag := "demanded"
		if !j.demand {
			tag = "recorded"
		}
		// Ledger.Validate verifies signatures concurrently with evaluation, so WHICH error comes back
		// first is scheduling-dependent there (the verdict is not): classify by verdict only.
		ckind := kind
		if j.vi == 0 && err != nil {
			ckind = "rejected"
		}
		r.Class(fmt.Sprintf("c/%s/%s/%s/%s/%s", validators[j.vi].name, j.mode, a.Kind, tag, ckind))
		if ji%401 == 0 {
			r.Sample(map[string]any{"part": "c", "validator": validators[j.vi].name, "header": j.mode, "alteration": a.Name, "outcome": ckind})
		}
		if j.demand && err == nil {
			hd := "the honest header left untouched"
			if j.mode == "C" {
				hd = "the header's TxnCommitments recomputed for the altered payset"
			}
			r.Report("C29:validate:"+a.Kind+":"+j.mode, fmt.Sprintf("%s ACCEPTS the block with %s and payset alteration %q (ContentsMatchHeader of the block = %v)", validators[j.vi].name, hd, a.Name, b.ContentsMatchHeader()),
				map[string]any{"engine": "enum", "part": "c", "validator": validators[j.vi].name, "header": j.mode, "alteration": a.Name})
		}
		if !j.demand && err == nil {
			r.Add("recorded_consistent_forgeries_accepted", 1)
		}
	})
	cov := ve.Coverage{
		Rule:       fmt.Sprintf("part c: a generated block of 3 signed transactions (payment, app call with inner payment + inner asset creation + inner app call that itself issues a closing inner payment, closing payment): %d single alterations of the payset (structural, transaction fields, signature categories, %d ApplyData / inner-transaction fields at depth 0-2) x {honest header, commitments recomputed} x {Ledger.Validate, eval.Eval(validate) without signature check}", len(alts), nAD),
		Exhaustive: visited == int64(len(jobs)),
	}
	if n := r.Finish(cov); n > 0 {
		t.Fatalf("C29 part c: %d violation(s)", n)
	}
}
