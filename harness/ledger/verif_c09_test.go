package ledger

// C09 — "Ledger recovers to a consistent prefix after a crash"  (engine E-CRASH, level
// fault_enumeration).
//
// HISTORY.  A FILE-BACKED Ledger (OpenLedger, inMemory=false, non-archival, private consensus
// version with MaxTxnLife 4 / MaxBalLookback 4 / CatchpointLookback 2; config.Local with
// MaxAcctLookback 2 and — in the "cp" configuration — CatchpointInterval 4, CatchpointTracking 2
// (stored), CatchpointFileHistoryLength 1) receives a fixed 10-block history of real
// transactions (see verif_c09_world_test.go) built by the real BlockEvaluator on that very
// ledger and added with AddValidatedBlock. The real blockQueue.syncer writes the blocks and
// calls notifyCommit, the real commitSyncer goroutine runs trackerRegistry.commitRound
// including both catchpoint stages. The only wall-clock input of the flush decision
// (trackerRegistry.lastFlushTime) is pinned before every block, which makes the FLUSH
// SCHEDULE an explicit parameter: every block / every 2nd block / only at the end (catchpoint
// rounds force a flush regardless, as in production). The relative order of the two
// concurrent writers (block-DB "forget" transaction of the syncer vs tracker-DB commit of the
// commitSyncer) is made deterministic by a gate in the hook handler and is a second
// parameter: blockFirst / trackerFirst.
//
// CRASH POINTS.  A util/verifhook handler serialises all write transactions of the two
// databases (mutex taken in db.atomic.enter, released in db.atomic.exit) and, at EVERY
// db.commit.pre and db.commit.post of the block DB and the tracker DB, copies the whole
// ledger directory (both databases with -wal/-shm, catchpoints directory) into a numbered
// snapshot, together with what had been confirmed durable at that instant
// (Ledger.LatestCommitted(), i.e. the set of r for which WaitForCommit(r) returns, and the
// WaitForCommit calls that had actually returned).
//
// RECOVERY ORACLE, for EVERY snapshot k: OpenLedger on the snapshot (fresh Ledger object)
// must succeed, and
//   - Latest() = L with confirmed(k) <= L <= blocks added before k; every block the block DB
//     still holds (earliest..L; the ledger is non-archival) is byte-identical (hash) to the
//     block of the history, earliest <= tracker DB round;
//   - every LookupAccount / LookupWithoutRewards / LookupAsset / LookupApplication /
//     GetCreatorForRound / LookupKv at every served round (tracker DB round .. L) equals the
//     reference R[round] = fold of the evaluator StateDeltas of exactly blocks 1..round; a
//     round above L is never answered; an answer for an older round must also equal R;
//   - Totals(round) equals the sum over the accounts of R[round];
//   - catchpoint files: every *.catchpoint file on disk has a row in storedcatchpoints, every
//     *.data file has a first-stage row; every recorded file that exists opens (gzip/tar),
//     has the recorded size and carries the label the uncrashed run produced for that round;
//     a recorded file that is missing on disk (the production code deletes old files inside
//     the recording transaction) must be handled by GetCatchpointStream with ErrNoEntry;
//   - adding the remaining blocks of the history (Ledger.AddBlock = real re-evaluation) and
//     flushing reaches Latest = N, tracker DB round N-2, the same state R[N-2..N] and the same
//     last catchpoint label as the uncrashed run.
//
// FAULT INJECTION.  For each occurrence i of db.commit.pre on the tracker DB and on the
// block DB (of the "cp/every/blockFirst" run; thorough: of every run) a run in which that
// commit fails once with a non-retryable error. The live ledger must keep serving correct
// answers for the whole history, and every crash point from the failed commit on (quick tier:
// the 16 crash points from the failed commit on, i.e. until the retry has been absorbed;
// thorough: all) must satisfy the oracle (labels: only "equal to the reference label of that
// round", since a failed first-stage record legitimately loses that catchpoint).
//
// BLOCK-HISTORY DIMENSION.  Three more runs use config "nocp-hist2" (MaxBlockHistoryLookback 2,
// catchpoints off) with the held-back flush schedules (end, alt), i.e. the tracker DB lags the
// block DB by more than the configured lookback while the syncer's forget transaction runs:
// the block DB may still only forget what the trackers no longer need.
//
// STOP WHILE A FLUSH IS STALLED.  Three runs (inside a testing/synctest bubble, which gives
// the barrier "everything that can move has moved") hold the syncer's block-DB transaction
// of block r at db.atomic.enter, start a goroutine blocked in WaitForCommit(r), and call
// the real Ledger.Close() (2 runs) / reloadLedger() (1 run). A crash image is taken at that
// moment (point "stop") and at every later commit point; "confirmed" = WaitForCommit(r) has
// RETURNED (it has no error result). On the clean tree the caller stays blocked: stop() waits
// for the syncer, the syncer finishes the put it has taken, and only then WaitForCommit
// returns. (A block still only in the in-memory queue when stop() runs is dropped and its
// waiter never returns — not enumerated.)
//
// SEEDED CHANGES verified (git apply; exit 1; checkout; exit 0): seeded/C09-A (waitCommit also
// returns when the queue is stopped) is caught by the stop runs (C09:confirmed-block-lost at
// the "stop" image and the following commit.pre); seeded/C09-B (MaxBlockHistoryLookback
// overrides minToSave) is caught by the nocp-hist2 runs (C09:reopen-failed).
//
// NOT COVERED: torn pages / partial fsync inside SQLite (a snapshot is the file content at
// a transaction boundary of the process; SQLite's own WAL recovery is exercised for real);
// statements the catchpoint tracker executes outside AtomicContext (autocommit
// catchpointstate / unfinishedcatchpoints / first-stage pruning writes) are durable steps
// without a hook, so no crash point lies between them and the next hooked commit; crashes
// during the very first creation of the databases; thread interleavings other than the two
// gate policies (no E-SCHED here).
//
// MUTANTS (bin/mut ... --only, all DETECTED):
//   M1 tracker.go commitRound: UpdateAccountsRound moved into a separate transaction after
//      the trackers' writes (reopen fails / state ahead of the recorded round);
//   M2 blockqueue.go syncer: lastCommitted advanced and waiters woken before the Wdb commit
//      (C09:confirmed-block-lost at the put's commit.pre);
//   M3 catchpointtracker.go createCatchpoint: unfinished-catchpoint record deleted before the
//      file is recorded (crash leaves an unrecorded catchpoint file);
//   M4 catchpointtracker.go commitRound: WritingFirstStageInfo flag not set (crash loses the
//      first stage: orphan data file, catchpoint label of the uncrashed run never produced);
//   M5 ledger.go notifyCommit: minToSave = r (blocks the trackers still need are forgotten;
//      needs >= 3 blocks and the flush lag; shows in the "nocp" runs only).
// The DESIGN/lead mutant "delete catchpoint files before the DB record is updated" is what
// the production code already does (recordCatchpointFile removes the old file inside the
// recording transaction, and GetCatchpointStream repairs a record whose file is gone); the
// oracle therefore only demands disk ⊆ DB plus graceful handling of DB-only records, and M3/M4
// are the property-breaking variants in that area.

import (
	"archive/tar"
	"compress/gzip"
	"context"
	"database/sql"
	"encoding/json"
	"errors"
	"fmt"
	"io"
	"os"
	"path/filepath"
	"reflect"
	"sort"
	"strconv"
	"strings"
	"sync"
	"sync/atomic"
	"testing"
	"testing/synctest"
	"time"

	"github.com/algorand/go-deadlock"

	"github.com/algorand/go-algorand/agreement"
	"github.com/algorand/go-algorand/config"
	"github.com/algorand/go-algorand/crypto"
	"github.com/algorand/go-algorand/data/basics"
	"github.com/algorand/go-algorand/data/bookkeeping"
	"github.com/algorand/go-algorand/ledger/ledgercore"
	"github.com/algorand/go-algorand/ledger/store/blockdb"
	"github.com/algorand/go-algorand/logging"
	"github.com/algorand/go-algorand/protocol"
	"github.com/algorand/go-algorand/util/verifhook"
	ve "github.com/algorand/go-algorand/verifeng"
)

// ---------------------------------------------------------------------------------
// small helpers

type c09Fail struct {
	Key string
	Msg string
}

func (f *c09Fail) Error() string { return f.Key + ": " + f.Msg }

func c09Failf(key, format string, a ...any) *c09Fail {
	return &c09Fail{Key: key, Msg: fmt.Sprintf(format, a...)}
}

func c09CopyTree(src, dst string) error {
	return filepath.Walk(src, func(p string, info os.FileInfo, err error) error {
		if err != nil {
			if os.IsNotExist(err) {
				return nil // a file removed while walking (only catchpoint temp files can be)
			}
			return err
		}
		rel, _ := filepath.Rel(src, p)
		to := filepath.Join(dst, rel)
		if info.IsDir() {
			return os.MkdirAll(to, 0o755)
		}
		in, err := os.Open(p)
		if err != nil {
			if os.IsNotExist(err) {
				return nil
			}
			return err
		}
		defer in.Close()
		out, err := os.Create(to)
		if err != nil {
			return err
		}
		if _, err := io.Copy(out, in); err != nil {
			out.Close()
			return err
		}
		return out.Close()
	})
}

func c09NewLogger() logging.Logger {
	lg := logging.NewLogger()
	lg.SetOutput(io.Discard)
	lg.SetLevel(logging.Error)
	return lg
}

var c09FarFuture = time.Date(2999, 1, 1, 0, 0, 0, 0, time.UTC)

// c09PinFlush pins the only wall-clock input of trackerRegistry.scheduleCommit.
func c09PinFlush(l *Ledger, allow bool) {
	tr := &l.trackers
	tr.mu.Lock()
	if allow {
		tr.lastFlushTime = time.Time{}
	} else {
		tr.lastFlushTime = c09FarFuture
	}
	tr.mu.Unlock()
}

// c09TrackerWriteHandle digs the *sql.DB of the tracker store's writing accessor out of the
// sqlitedriver store (unexported field of another package: read-only reflection).
func c09TrackerWriteHandle(l *Ledger) (h *sql.DB) {
	defer func() {
		if recover() != nil {
			h = nil
		}
	}()
	v := reflect.ValueOf(l.trackerDBs)
	if v.Kind() == reflect.Interface || v.Kind() == reflect.Ptr {
		v = v.Elem()
	}
	f := v.FieldByName("pair").FieldByName("Wdb").FieldByName("Handle")
	return (*sql.DB)(f.UnsafePointer())
}

type c09Cfg struct {
	Name        string
	Catchpoints bool
	BlockHist   uint64 // config.Local.MaxBlockHistoryLookback (0 = default)
}

func c09LocalConfig(cfg c09Cfg, fastSync bool, noCache bool) config.Local {
	lc := config.GetDefaultLocal()
	lc.Archival = false
	lc.MaxAcctLookback = c09AcctLookback
	lc.EnableAccountUpdatesStats = false
	// the verified-transaction cache is pre-allocated per Ledger object (sized by these two)
	lc.TxPoolSize = 64
	lc.VerifiedTranscationsCacheSize = 64
	if cfg.Catchpoints {
		lc.CatchpointInterval = c09CatchpointInterval
		lc.CatchpointTracking = config.CatchpointTrackingModeStored
		lc.CatchpointFileHistoryLength = c09CatchpointFilesKept
	} else {
		lc.CatchpointTracking = config.CatchpointTrackingModeUntracked
	}
	lc.MaxBlockHistoryLookback = cfg.BlockHist
	// the LRU caches pre-allocate ~100 MB per Ledger object
	lc.DisableLedgerLRUCache = noCache
	if fastSync {
		// ledgers reopened on a snapshot are not themselves crash-tested
		lc.LedgerSynchronousMode = 1
		lc.AccountsRebuildSynchronousMode = 1
	}
	return lc
}

// ---------------------------------------------------------------------------------
// reference pass: the history and R[r]

var c09RefSeq atomic.Int64

func c09BuildHistory(w *c09World) (*c09History, error) {
	lc := config.GetDefaultLocal()
	lc.Archival = true
	lc.MaxAcctLookback = c09AcctLookback
	lc.CatchpointTracking = config.CatchpointTrackingModeUntracked
	l, err := OpenLedger(c09NewLogger(), fmt.Sprintf("verif-c09-ref-%d", c09RefSeq.Add(1)), true, w.initState(), lc)
	if err != nil {
		return nil, err
	}
	defer l.Close()
	h := &c09History{w: w}
	h.blocks = []bookkeeping.Block{w.genBlock}
	h.hashes = []crypto.Digest{w.genBlock.Digest()}
	h.ref = []*c09Ref{c09GenesisRef(w)}
	for r := basics.Round(1); r <= c09Blocks; r++ {
		vb, err := c09BuildBlock(w, l, &h.ids)
		if err != nil {
			return nil, err
		}
		d := vb.Delta()
		c09LearnIDs(r, &d, &h.ids)
		nref := c09Fold(w, h.ref[len(h.ref)-1], &d)
		if nref.totals != d.Totals {
			return nil, fmt.Errorf("round %d: totals recomputed from the folded accounts %+v differ from the evaluator's %+v", r, nref.totals, d.Totals)
		}
		h.ref = append(h.ref, nref)
		h.blocks = append(h.blocks, vb.Block())
		h.hashes = append(h.hashes, vb.Block().Digest())
		if err := l.AddValidatedBlock(*vb, agreement.Certificate{}); err != nil {
			return nil, err
		}
	}
	if h.ids.assetX == 0 || h.ids.assetY == 0 || h.ids.appP == 0 || h.ids.appQ == 0 {
		return nil, fmt.Errorf("history did not create the expected creatables: %+v", h.ids)
	}
	h.finishUniverse()
	return h, nil
}

// ---------------------------------------------------------------------------------
// the crash-point recorder (verifhook handler)

type c09RunSpec struct {
	Cfg      c09Cfg
	Sched    string // every | alt | end
	Policy   string // blockFirst | trackerFirst
	FaultDB  string // "", block, tracker
	FaultOcc int
	StopKind string       // "", close, reload: Ledger.Close / reloadLedger while the put of block StopAt is held
	StopAt   basics.Round // the block whose block-DB transaction is held back
}

func (s c09RunSpec) String() string {
	f := ""
	if s.FaultDB != "" {
		f = fmt.Sprintf("/fault:%s#%d", s.FaultDB, s.FaultOcc)
	}
	if s.StopKind != "" {
		f += fmt.Sprintf("/stop:%s@%d", s.StopKind, s.StopAt)
	}
	return s.Cfg.Name + "/" + s.Sched + "/" + s.Policy + f
}

type c09Point struct {
	K          int
	DB         string // block | tracker
	Phase      string // pre | post
	Occ        int    // occurrence index of the commit on that DB
	CommitErr  string
	Injected   bool         // this pre point is the one whose commit was made to fail
	Confirmed  basics.Round // Ledger.LatestCommitted() at the point
	WaitRet    basics.Round // highest r whose WaitForCommit(r) had returned
	Added      basics.Round // blocks handed to the ledger so far
	AfterFault bool
	Dir        string
}

var c09ErrInjected = errors.New("verif: injected commit failure (non-retryable)")

type c09Rec struct {
	l              *Ledger
	blockW, trackW *sql.DB
	spec           c09RunSpec
	runDir         string
	snapRoot       string

	wmu sync.Mutex // the writer serialisation mutex

	mu          sync.Mutex
	recording   bool
	points      []c09Point
	preCount    map[string]int
	injected    bool
	phaseForget bool // block syncer: put committed, forget transaction pending
	syncIters   int
	blockTxOK   bool
	waitRet     basics.Round
	herr        error
	holdPut     bool          // park the next block-put transaction at db.atomic.enter
	holdCh      chan struct{} // the parked transaction waits on this
}

func (rc *c09Rec) releaseHold() bool {
	rc.mu.Lock()
	defer rc.mu.Unlock()
	if rc.holdCh == nil {
		return false
	}
	close(rc.holdCh)
	rc.holdCh = nil
	return true
}

func (rc *c09Rec) fail(err error) {
	rc.mu.Lock()
	if rc.herr == nil {
		rc.herr = err
	}
	rc.mu.Unlock()
}

func (rc *c09Rec) kind(h *sql.DB) string {
	switch h {
	case rc.blockW:
		return "block"
	case rc.trackW:
		return "tracker"
	}
	return ""
}

const c09GateTimeout = 180 * time.Second // watchdog only (harness failure, never a verdict)

func (rc *c09Rec) gate(kind string) {
	switch {
	case kind == "block" && rc.spec.Policy == "trackerFirst":
		rc.mu.Lock()
		forget := rc.phaseForget
		rc.mu.Unlock()
		if forget {
			// the forget transaction of the syncer waits for the tracker commit that the
			// preceding notifyCommit scheduled (if any)
			rc.l.trackers.waitAccountsWriting()
		}
	case kind == "tracker" && rc.spec.Policy == "blockFirst":
		// a tracker commit scheduled by notifyCommit waits for the syncer's forget transaction
		deadline := time.Now().Add(c09GateTimeout)
		for {
			rc.mu.Lock()
			forget := rc.phaseForget
			rc.mu.Unlock()
			if !forget {
				return
			}
			if time.Now().After(deadline) {
				rc.fail(fmt.Errorf("gate: tracker transaction waited %v for the block forget transaction", c09GateTimeout))
				return
			}
			time.Sleep(50 * time.Microsecond)
		}
	}
}

func (rc *c09Rec) snap(kind, phase, cerr string) (occ int, injectNow bool) {
	rc.mu.Lock()
	if !rc.recording {
		rc.mu.Unlock()
		return -1, false
	}
	occ = rc.preCount[kind]
	if phase == "pre" {
		rc.preCount[kind]++
		if rc.spec.FaultDB == kind && rc.spec.FaultOcc == occ && !rc.injected {
			rc.injected = true
			injectNow = true
		}
	} else {
		occ--
	}
	k := len(rc.points)
	p := c09Point{K: k, DB: kind, Phase: phase, Occ: occ, CommitErr: cerr, Injected: injectNow, WaitRet: rc.waitRet, AfterFault: rc.injected}
	rc.mu.Unlock()

	p.Confirmed, _ = rc.l.LatestCommitted()
	p.Added = rc.l.Latest()
	p.Dir = filepath.Join(rc.snapRoot, fmt.Sprintf("%04d", k))
	if err := c09CopyTree(rc.runDir, p.Dir); err != nil {
		rc.fail(fmt.Errorf("snapshot %d: %v", k, err))
	}
	rc.mu.Lock()
	rc.points = append(rc.points, p)
	rc.mu.Unlock()
	return occ, injectNow
}

// snapStop records the crash image "the process dies now" outside a commit hook.
func (rc *c09Rec) snapStop() int {
	rc.mu.Lock()
	k := len(rc.points)
	p := c09Point{K: k, DB: "block", Phase: "stop", Occ: rc.preCount["block"], WaitRet: rc.waitRet}
	rc.mu.Unlock()
	p.Confirmed, _ = rc.l.LatestCommitted()
	p.Added = rc.l.Latest()
	p.Dir = filepath.Join(rc.snapRoot, fmt.Sprintf("%04d", k))
	if err := c09CopyTree(rc.runDir, p.Dir); err != nil {
		rc.fail(fmt.Errorf("snapshot %d: %v", k, err))
	}
	rc.mu.Lock()
	rc.points = append(rc.points, p)
	rc.mu.Unlock()
	return k
}

func (rc *c09Rec) handle(name string, args ...any) error {
	if len(args) < 2 {
		return nil
	}
	h, _ := args[0].(*sql.DB)
	ro, _ := args[1].(bool)
	if ro || h == nil {
		return nil
	}
	kind := rc.kind(h)
	if kind == "" {
		return nil
	}
	switch name {
	case "db.atomic.enter":
		if kind == "block" {
			rc.mu.Lock()
			var ch chan struct{}
			if rc.holdPut && !rc.phaseForget {
				rc.holdPut = false
				ch = make(chan struct{})
				rc.holdCh = ch
			}
			rc.mu.Unlock()
			if ch != nil {
				<-ch // stop scenario: the block flush stalls here until the harness releases it
			}
		}
		rc.gate(kind)
		rc.wmu.Lock()
		if kind == "block" {
			rc.mu.Lock()
			rc.blockTxOK = false
			rc.mu.Unlock()
		}
	case "db.commit.pre":
		if _, inject := rc.snap(kind, "pre", ""); inject {
			return c09ErrInjected
		}
	case "db.commit.post":
		var cerr error
		if len(args) > 2 {
			cerr, _ = args[2].(error)
		}
		s := ""
		if cerr != nil {
			s = cerr.Error()
		}
		rc.snap(kind, "post", s)
		if kind == "block" && cerr == nil {
			rc.mu.Lock()
			rc.blockTxOK = true
			rc.mu.Unlock()
		}
	case "db.atomic.exit":
		if kind == "block" {
			// syncer iteration = put transaction(s) until one commits, then one forget transaction
			rc.mu.Lock()
			if !rc.phaseForget {
				if rc.blockTxOK {
					rc.phaseForget = true
				}
			} else {
				rc.phaseForget = false
				rc.syncIters++
			}
			rc.mu.Unlock()
		}
		rc.wmu.Unlock()
	}
	return nil
}

func (rc *c09Rec) waitSyncIters(n int) error {
	deadline := time.Now().Add(c09GateTimeout)
	for {
		rc.mu.Lock()
		got, herr := rc.syncIters, rc.herr
		rc.mu.Unlock()
		if herr != nil {
			return herr
		}
		if got >= n {
			return nil
		}
		if time.Now().After(deadline) {
			return fmt.Errorf("block syncer did not finish iteration %d within %v", n, c09GateTimeout)
		}
		time.Sleep(50 * time.Microsecond)
	}
}

// ---------------------------------------------------------------------------------
// one run of the history

type c09RunResult struct {
	Spec        c09RunSpec
	Root        string
	Points      []c09Point
	PreCount    map[string]int
	Labels      map[basics.Round]string // catchpoint round -> label, as observed on the live ledger
	FinalLabel  string
	FinalDB     basics.Round
	InjectedAt  int // K of the injected pre point, -1 if none
	StopK       int // K of the crash image taken while Close/reloadLedger waits, -1 if none
	LiveQueries int64
}

func c09LabelRound(label string) (basics.Round, bool) {
	i := strings.IndexByte(label, '#')
	if i <= 0 {
		return 0, false
	}
	n, err := strconv.ParseUint(label[:i], 10, 64)
	if err != nil {
		return 0, false
	}
	return basics.Round(n), true
}

func c09FlushAllowed(sched string, r basics.Round) bool {
	switch sched {
	case "every":
		return true
	case "alt":
		return r%2 == 1 || r == c09Blocks
	default: // end
		return r == c09Blocks
	}
}

// c09Run executes the history on a fresh file-backed ledger under the recorder. A returned
// error is a harness failure; a *c09Fail is a property violation seen on the live ledger.
func c09Run(t *testing.T, h *c09History, spec c09RunSpec, root string) (res *c09RunResult, err error) {
	if spec.StopKind == "" {
		return c09RunBody(h, spec, root)
	}
	// the stop scenario needs a quiescence barrier ("is the WaitForCommit caller still
	// blocked?"): it runs inside a testing/synctest bubble
	synctest.Test(t, func(*testing.T) {
		res, err = c09RunBody(h, spec, root)
	})
	return res, err
}

func c09RunBody(h *c09History, spec c09RunSpec, root string) (res *c09RunResult, err error) {
	w := h.w
	runDir := filepath.Join(root, "live")
	if err := os.MkdirAll(runDir, 0o755); err != nil {
		return nil, err
	}
	l, err := OpenLedger(c09NewLogger(), filepath.Join(runDir, "ledger"), false, w.initState(), c09LocalConfig(spec.Cfg, false, false))
	if err != nil {
		return nil, fmt.Errorf("OpenLedger(live): %v", err)
	}
	rc := &c09Rec{l: l, spec: spec, runDir: runDir, snapRoot: filepath.Join(root, "snap"), preCount: map[string]int{}}
	rc.blockW = l.blockDBs.Wdb.Handle
	rc.trackW = c09TrackerWriteHandle(l)
	if rc.trackW == nil || rc.trackW == rc.blockW || rc.trackW == l.blockDBs.Rdb.Handle {
		l.Close()
		return nil, fmt.Errorf("cannot identify the tracker DB write handle")
	}
	verifhook.SetHandler(rc.handle)
	closed := false
	defer func() {
		if !closed {
			rc.mu.Lock()
			rc.recording = false
			rc.mu.Unlock()
			l.Close()
		}
		verifhook.SetHandler(nil)
	}()
	rc.mu.Lock()
	rc.recording = true
	rc.mu.Unlock()

	res = &c09RunResult{Spec: spec, Root: root, Labels: map[basics.Round]string{}, InjectedAt: -1, StopK: -1}
	observeLabel := func() error {
		lab := l.GetLastCatchpointLabel()
		if lab == "" {
			return nil
		}
		rnd, ok := c09LabelRound(lab)
		if !ok {
			return fmt.Errorf("unparsable catchpoint label %q", lab)
		}
		if old, ok := res.Labels[rnd]; ok && old != lab {
			return c09Failf("C09:live-label-changed", "run %s: label of catchpoint round %d changed from %s to %s", spec, rnd, old, lab)
		}
		res.Labels[rnd] = lab
		res.FinalLabel = lab
		return nil
	}

	var ids c09IDs
	for r := basics.Round(1); r <= c09Blocks; r++ {
		vb, err := c09BuildBlock(w, l, &ids)
		if err != nil {
			return nil, c09Failf("C09:live-eval", "run %s: building block %d on the live ledger failed: %v", spec, r, err)
		}
		if vb.Block().Digest() != h.hashes[r] {
			return nil, c09Failf("C09:live-block-differs", "run %s: block %d built on the live ledger differs from the reference history", spec, r)
		}
		d := vb.Delta()
		c09LearnIDs(r, &d, &ids)
		c09PinFlush(l, c09FlushAllowed(spec.Sched, r))
		rc.mu.Lock()
		it0 := rc.syncIters
		rc.mu.Unlock()
		stopHere := spec.StopKind != "" && r == spec.StopAt
		if stopHere {
			rc.mu.Lock()
			rc.holdPut = true
			rc.mu.Unlock()
		}
		if err := l.AddValidatedBlock(*vb, agreement.Certificate{}); err != nil {
			return nil, c09Failf("C09:live-addblock", "run %s: AddValidatedBlock(%d): %v", spec, r, err)
		}
		if stopHere {
			// the syncer has taken block r and stalls before its block-DB transaction; a caller
			// waits for the durability confirmation; the node is shut down (or reloads)
			synctest.Wait()
			rc.mu.Lock()
			held := rc.holdCh != nil
			rc.mu.Unlock()
			if !held {
				return nil, fmt.Errorf("run %s: the put of block %d did not reach the hold gate", spec, r)
			}
			waiterDone, closerDone := make(chan struct{}), make(chan struct{})
			go func() {
				defer close(waiterDone)
				l.WaitForCommit(r)
				rc.mu.Lock()
				if rc.waitRet < r {
					rc.waitRet = r
				}
				rc.mu.Unlock()
			}()
			var reloadErr error
			go func() {
				defer close(closerDone)
				if spec.StopKind == "close" {
					l.Close()
				} else {
					reloadErr = l.reloadLedger()
				}
			}()
			synctest.Wait() // everything that can move without the flush has moved
			res.StopK = rc.snapStop()
			rc.releaseHold()
			// (blocking receives, not synctest.Wait: the hook handler's polling gates sleep on the
			// bubble's clock, which only advances while this goroutine is blocked too)
			<-closerDone
			<-waiterDone
			if spec.StopKind == "close" {
				closed = true
				rc.mu.Lock()
				rc.recording = false
				herr := rc.herr
				res.Points = append([]c09Point{}, rc.points...)
				rc.mu.Unlock()
				return res, herr
			}
			if reloadErr != nil {
				return nil, c09Failf("C09:live-reload", "run %s: reloadLedger with block %d in flight failed: %v", spec, r, reloadErr)
			}
			if err := rc.waitSyncIters(it0 + 1); err != nil {
				return nil, err
			}
			l.trackers.waitAccountsWriting()
			continue
		}
		l.WaitForCommit(r)
		rc.mu.Lock()
		rc.waitRet = r
		rc.mu.Unlock()
		if err := rc.waitSyncIters(it0 + 1); err != nil {
			return nil, err
		}
		l.trackers.waitAccountsWriting()
		if err := observeLabel(); err != nil {
			return nil, err
		}
	}
	// let the trackers catch up to N - lookback (a commit range stops at a catchpoint
	// first-stage round, so more than one step can be needed; a failed commit is retried here)
	for i := 0; i < 6 && l.LatestTrackerCommitted() < c09Blocks-c09AcctLookback; i++ {
		c09PinFlush(l, true)
		l.notifyCommit(c09Blocks)
		l.trackers.waitAccountsWriting()
		if err := observeLabel(); err != nil {
			return nil, err
		}
	}
	rc.mu.Lock()
	rc.recording = false
	herr := rc.herr
	res.Points = append([]c09Point{}, rc.points...)
	for k, v := range rc.preCount {
		if res.PreCount == nil {
			res.PreCount = map[string]int{}
		}
		res.PreCount[k] = v
	}
	rc.mu.Unlock()
	if herr != nil {
		return nil, herr
	}
	for _, p := range res.Points {
		if p.Injected {
			res.InjectedAt = p.K
		}
	}
	if spec.FaultDB != "" && res.InjectedAt < 0 {
		return nil, fmt.Errorf("run %s: the commit to fail never happened", spec)
	}
	// the live ledger must have kept running
	res.FinalDB = l.LatestTrackerCommitted()
	if got := l.Latest(); got != c09Blocks {
		return nil, c09Failf("C09:live-latest", "run %s: live ledger Latest()=%d after %d blocks", spec, got, c09Blocks)
	}
	if res.FinalDB != c09Blocks-c09AcctLookback {
		return nil, c09Failf("C09:live-dbround", "run %s: live tracker DB stopped at round %d (expected %d)", spec, res.FinalDB, c09Blocks-c09AcctLookback)
	}
	if f := c09Sweep(l, h, &res.LiveQueries); f != nil {
		f.Msg = fmt.Sprintf("run %s, live ledger at the end of the history: %s", spec, f.Msg)
		return nil, f
	}
	closed = true
	l.Close()
	return res, nil
}

// ---------------------------------------------------------------------------------
// the query sweep (all lookups, all rounds 0..L+1)

func c09Sweep(l *Ledger, h *c09History, queries *int64) *c09Fail {
	latest := l.Latest()
	db := l.LatestTrackerCommitted()
	if int(latest) >= len(h.ref) {
		return c09Failf("C09:phantom-block", "Latest()=%d exceeds the history", latest)
	}
	ru := h.w.params.RewardUnit
	var nq int64
	defer func() { atomic.AddInt64(queries, nq) }()
	for r := basics.Round(0); r <= latest+1; r++ {
		served := r >= db && r <= latest
		check := func(what string, err error) (bool, *c09Fail) {
			nq++
			if err != nil {
				if served {
					return false, c09Failf("C09:served-round-error", "%s at served round %d (db %d, latest %d) failed: %v", what, r, db, latest, err)
				}
				return false, nil
			}
			if r > latest {
				return false, c09Failf("C09:future-round-answered", "%s at round %d > latest %d returned no error", what, r, latest)
			}
			return true, nil
		}
		var ref *c09Ref
		if r <= latest {
			ref = h.ref[r]
		}
		for _, a := range h.addrs {
			got, vt, err := l.LookupWithoutRewards(r, a)
			cmp, f := check(fmt.Sprintf("LookupWithoutRewards(%x)", a[:4]), err)
			if f != nil {
				return f
			}
			if cmp {
				want := ref.acct[a]
				if got != want {
					return c09Failf("C09:account-mismatch", "LookupWithoutRewards(round %d, %x) (db %d, latest %d) = %+v, blocks 1..%d give %+v", r, a[:4], db, latest, got, r, want)
				}
				if vt < r || vt > latest {
					return c09Failf("C09:validthrough", "LookupWithoutRewards(round %d, %x) validThrough=%d (latest %d)", r, a[:4], vt, latest)
				}
			}
			got2, _, wo, err := l.LookupAccount(r, a)
			cmp, f = check(fmt.Sprintf("LookupAccount(%x)", a[:4]), err)
			if f != nil {
				return f
			}
			if cmp {
				want := ref.acct[a]
				want2 := want.WithUpdatedRewards(ru, ref.rewardsLevel)
				if got2 != want2 || wo != want.MicroAlgos {
					return c09Failf("C09:account-mismatch", "LookupAccount(round %d, %x) (db %d, latest %d) = %+v (withoutRewards %d), blocks 1..%d give %+v (withoutRewards %d)", r, a[:4], db, latest, got2, wo.Raw, r, want2, want.MicroAlgos.Raw)
				}
			}
			for _, c := range h.cidx {
				// an id that the history uses for an app is never queried as an asset and vice
				// versa (the ledger answers such a query with a type error, not with "absent")
				ct, known := h.ctype[c]
				if !known || ct == basics.AssetCreatable {
					ga, err := l.LookupAsset(r, a, basics.AssetIndex(c))
					cmp, f = check(fmt.Sprintf("LookupAsset(%x,%d)", a[:4], c), err)
					if f != nil {
						return f
					}
					if cmp {
						wa := ref.res[c09ResKey{a, c, basics.AssetCreatable}]
						gs := c09ResString(ledgercore.AccountResource{AssetParams: ga.AssetParams, AssetHolding: ga.AssetHolding})
						if ws := c09ResString(wa); gs != ws {
							return c09Failf("C09:asset-mismatch", "LookupAsset(round %d, %x, %d) (db %d, latest %d) = %s, blocks 1..%d give %s", r, a[:4], c, db, latest, gs, r, ws)
						}
					}
				}
				if !known || ct == basics.AppCreatable {
					gp, err := l.LookupApplication(r, a, basics.AppIndex(c))
					cmp, f = check(fmt.Sprintf("LookupApplication(%x,%d)", a[:4], c), err)
					if f != nil {
						return f
					}
					if cmp {
						wp := ref.res[c09ResKey{a, c, basics.AppCreatable}]
						gs := c09ResString(ledgercore.AccountResource{AppParams: gp.AppParams, AppLocalState: gp.AppLocalState})
						if ws := c09ResString(wp); gs != ws {
							return c09Failf("C09:app-mismatch", "LookupApplication(round %d, %x, %d) (db %d, latest %d) = %s, blocks 1..%d give %s", r, a[:4], c, db, latest, gs, r, ws)
						}
					}
				}
			}
		}
		for _, c := range h.cidx {
			for _, ct := range []basics.CreatableType{basics.AssetCreatable, basics.AppCreatable} {
				creator, ok, err := l.GetCreatorForRound(r, c, ct)
				cmp, f := check(fmt.Sprintf("GetCreatorForRound(%d,%v)", c, ct), err)
				if f != nil {
					return f
				}
				if cmp {
					wc, wok := ref.creator[c]
					if wok && wc.ctype != ct {
						wok = false
					}
					if ok != wok || (ok && creator != wc.creator) {
						return c09Failf("C09:creator-mismatch", "GetCreatorForRound(round %d, %d, type %v) (db %d, latest %d) = %x,%v, blocks 1..%d give %x,%v", r, c, ct, db, latest, creator[:4], ok, r, wc.creator[:4], wok)
					}
				}
			}
		}
		for _, k := range h.kvKeys {
			got, err := l.LookupKv(r, k)
			cmp, f := check(fmt.Sprintf("LookupKv(%x)", k), err)
			if f != nil {
				return f
			}
			if cmp {
				want, wok := ref.kv[k]
				if (got != nil) != wok || string(got) != string(want) {
					return c09Failf("C09:kv-mismatch", "LookupKv(round %d, %x) (db %d, latest %d) = %x (present %v), blocks 1..%d give %x (present %v)", r, k, db, latest, got, got != nil, r, want, wok)
				}
			}
		}
		tot, err := l.Totals(r)
		cmp, f := check("Totals", err)
		if f != nil {
			return f
		}
		if cmp && tot != ref.totals {
			return c09Failf("C09:totals-mismatch", "Totals(round %d) (db %d, latest %d) = %+v, the sum over the accounts of blocks 1..%d is %+v", r, db, latest, tot, r, ref.totals)
		}
	}
	lr, lt, err := l.LatestTotals()
	nq++
	if err != nil {
		return c09Failf("C09:served-round-error", "LatestTotals failed: %v", err)
	}
	if lr != latest || lt != h.ref[latest].totals {
		return c09Failf("C09:totals-mismatch", "LatestTotals() = round %d %+v, expected round %d %+v", lr, lt, latest, h.ref[latest].totals)
	}
	return nil
}

// ---------------------------------------------------------------------------------
// catchpoint files vs database

type c09CpStats struct {
	files, data, recorded, missing, orphanData int
}

func c09ReadCatchpointHeader(rd io.Reader) (hdr CatchpointFileHeader, members int, size int64, err error) {
	cr := &c09CountReader{r: rd}
	gz, err := gzip.NewReader(cr)
	if err != nil {
		return hdr, 0, 0, err
	}
	defer gz.Close()
	tr := tar.NewReader(gz)
	found := false
	for {
		th, err := tr.Next()
		if err == io.EOF {
			break
		}
		if err != nil {
			return hdr, members, cr.n, err
		}
		b, err := io.ReadAll(tr)
		if err != nil {
			return hdr, members, cr.n, err
		}
		members++
		if th.Name == CatchpointContentFileName {
			if err := protocol.Decode(b, &hdr); err != nil {
				return hdr, members, cr.n, err
			}
			found = true
		}
	}
	// drain what gzip left unread so that the byte count is the file size
	_, _ = io.Copy(io.Discard, cr)
	if !found {
		return hdr, members, cr.n, fmt.Errorf("no %s member", CatchpointContentFileName)
	}
	return hdr, members, cr.n, nil
}

type c09CountReader struct {
	r io.Reader
	n int64
}

func (c *c09CountReader) Read(p []byte) (int, error) {
	n, err := c.r.Read(p)
	c.n += int64(n)
	return n, err
}

// c09CheckCatchpointFiles: files on disk ⊆ files recorded in the DB; recorded files that
// exist open and carry the reference label; recorded files that are gone are handled.
func c09CheckCatchpointFiles(l *Ledger, ledgerDir string, refLabels map[basics.Round]string, strictData bool, st *c09CpStats) *c09Fail {
	crw, err := l.trackerDBs.MakeCatchpointReaderWriter()
	if err != nil {
		return c09Failf("C09:catchpoint-db", "MakeCatchpointReaderWriter: %v", err)
	}
	ctx := context.Background()
	cpDir := filepath.Join(ledgerDir, "catchpoints")
	var files, datas []basics.Round
	werr := filepath.Walk(cpDir, func(p string, info os.FileInfo, err error) error {
		if err != nil {
			if os.IsNotExist(err) {
				return nil
			}
			return err
		}
		if info.IsDir() {
			return nil
		}
		base := filepath.Base(p)
		switch {
		case strings.HasSuffix(base, ".catchpoint"):
			n, err := strconv.ParseUint(strings.TrimSuffix(base, ".catchpoint"), 10, 64)
			if err != nil {
				return fmt.Errorf("unexpected file %s", p)
			}
			files = append(files, basics.Round(n))
		case strings.HasSuffix(base, ".data"):
			n, err := strconv.ParseUint(strings.TrimSuffix(base, ".data"), 10, 64)
			if err != nil {
				return fmt.Errorf("unexpected file %s", p)
			}
			datas = append(datas, basics.Round(n))
		default:
			return fmt.Errorf("unexpected file %s", p)
		}
		return nil
	})
	if werr != nil {
		return c09Failf("C09:catchpoint-dir", "catchpoints directory: %v", werr)
	}
	sort.Slice(files, func(i, j int) bool { return files[i] < files[j] })
	sort.Slice(datas, func(i, j int) bool { return datas[i] < datas[j] })
	st.files += len(files)
	st.data += len(datas)
	for _, rnd := range files {
		name, _, _, err := crw.GetCatchpoint(ctx, rnd)
		if err != nil && err != sql.ErrNoRows {
			return c09Failf("C09:catchpoint-db", "GetCatchpoint(%d): %v", rnd, err)
		}
		if err == sql.ErrNoRows || name == "" {
			return c09Failf("C09:catchpoint-file-unrecorded", "catchpoint file of round %d is on disk but the database has no record of it (files on disk %v)", rnd, files)
		}
	}
	for _, rnd := range datas {
		_, exists, err := crw.SelectCatchpointFirstStageInfo(ctx, rnd)
		if err != nil {
			return c09Failf("C09:catchpoint-db", "SelectCatchpointFirstStageInfo(%d): %v", rnd, err)
		}
		if !exists && !strictData {
			st.orphanData++ // runs with an injected commit failure: noted in the evidence only
		}
		if !exists && strictData {
			return c09Failf("C09:catchpoint-data-unrecorded", "first-stage data file of round %d is on disk but the database has no first-stage record of it (data files on disk %v)", rnd, datas)
		}
	}
	recorded, err := crw.GetOldestCatchpointFiles(ctx, 1000, 0)
	if err != nil {
		return c09Failf("C09:catchpoint-db", "GetOldestCatchpointFiles: %v", err)
	}
	var rr []basics.Round
	for rnd := range recorded {
		rr = append(rr, rnd)
	}
	sort.Slice(rr, func(i, j int) bool { return rr[i] < rr[j] })
	for _, rnd := range rr {
		name := recorded[rnd]
		if name == "" {
			continue
		}
		st.recorded++
		_, _, recSize, err := crw.GetCatchpoint(ctx, rnd)
		if err != nil {
			return c09Failf("C09:catchpoint-db", "GetCatchpoint(%d): %v", rnd, err)
		}
		_, serr := os.Stat(filepath.Join(ledgerDir, name))
		stream, gerr := l.GetCatchpointStream(rnd)
		if serr != nil {
			// recorded but gone: must be handled gracefully
			st.missing++
			if gerr == nil {
				stream.Close()
				return c09Failf("C09:catchpoint-missing-served", "catchpoint file %s of round %d is recorded but not on disk, yet GetCatchpointStream returned a stream", name, rnd)
			}
			var noEntry ledgercore.ErrNoEntry
			if !errors.As(gerr, &noEntry) {
				return c09Failf("C09:catchpoint-missing-unhandled", "catchpoint file %s of round %d is recorded but not on disk; GetCatchpointStream: %v", name, rnd, gerr)
			}
			continue
		}
		if gerr != nil {
			return c09Failf("C09:catchpoint-unreadable", "GetCatchpointStream(%d) for existing recorded file %s: %v", rnd, name, gerr)
		}
		hdr, members, size, err := c09ReadCatchpointHeader(stream)
		stream.Close()
		if err != nil {
			return c09Failf("C09:catchpoint-unreadable", "recorded catchpoint file %s of round %d does not open: %v", name, rnd, err)
		}
		if size != recSize {
			return c09Failf("C09:catchpoint-size", "recorded catchpoint file %s of round %d has %d bytes, the database says %d", name, rnd, size, recSize)
		}
		if hdr.BlocksRound != rnd || uint64(members) < hdr.TotalChunks+1 {
			return c09Failf("C09:catchpoint-content", "catchpoint file %s: header round %d (expected %d), %d members for %d chunks", name, hdr.BlocksRound, rnd, members, hdr.TotalChunks)
		}
		if want, ok := refLabels[rnd]; ok && hdr.Catchpoint != want {
			return c09Failf("C09:catchpoint-label", "catchpoint file of round %d carries label %s, the uncrashed run produced %s", rnd, hdr.Catchpoint, want)
		}
	}
	return nil
}

// ---------------------------------------------------------------------------------
// recovery oracle for one snapshot

type c09Refs struct {
	labels     map[basics.Round]string // per configuration: labels of the uncrashed run
	finalLabel string
}

type c09VerifyStats struct {
	queries int64
	cp      c09CpStats
}

func c09Verify(h *c09History, spec c09RunSpec, p c09Point, refs *c09Refs, st *c09VerifyStats) (class string, fail *c09Fail) {
	w := h.w
	where := fmt.Sprintf("run %s, crash point %d (%s DB, commit.%s #%d, confirmed %d, added %d)", spec, p.K, p.DB, p.Phase, p.Occ, p.Confirmed, p.Added)
	wrap := func(f *c09Fail) *c09Fail {
		if f != nil {
			f.Msg = where + ": " + f.Msg
		}
		return f
	}
	ledgerDir := filepath.Join(p.Dir, "ledger")
	tPhase := time.Now()
	var phases []string
	mark := func(name string) {
		phases = append(phases, fmt.Sprintf("%s=%.2f", name, time.Since(tPhase).Seconds()))
		tPhase = time.Now()
	}
	if os.Getenv("VERIF_C09_TRACE") == "2" {
		defer func() { fmt.Printf("[c09]      k=%d phases %v\n", p.K, phases) }()
	}
	l, err := OpenLedger(c09NewLogger(), ledgerDir, false, w.initState(), c09LocalConfig(spec.Cfg, true, p.K%8 != 0))
	mark("open")
	if err != nil {
		return "", wrap(c09Failf("C09:reopen-failed", "OpenLedger on the files left at the crash point failed: %v", err))
	}
	defer func() { l.Close(); mark("close") }()
	L := l.Latest()
	db0 := l.LatestTrackerCommitted()
	class = fmt.Sprintf("%s/%s/%s|%s.%s|L=%d(conf%+d)|db=%d", spec.Cfg.Name, spec.Sched, spec.Policy, p.DB, p.Phase, L, int64(L)-int64(p.Confirmed), db0)
	if spec.FaultDB != "" {
		class = "fault:" + spec.FaultDB + "|" + class
	}
	if spec.StopKind != "" {
		class = "stop:" + spec.StopKind + "|" + class
	}
	conf := p.Confirmed
	if p.WaitRet > conf {
		conf = p.WaitRet
	}
	if L < conf {
		return class, wrap(c09Failf("C09:confirmed-block-lost", "reopened ledger has Latest()=%d but round %d had been confirmed durable (LatestCommitted=%d, WaitForCommit returned for %d)", L, conf, p.Confirmed, p.WaitRet))
	}
	if L > p.Added {
		return class, wrap(c09Failf("C09:phantom-block", "reopened ledger has Latest()=%d but only %d blocks had been added", L, p.Added))
	}
	if db0 > L {
		return class, wrap(c09Failf("C09:tracker-ahead", "tracker DB round %d is ahead of the block DB (%d)", db0, L))
	}
	// blocks: earliest..L contiguous and equal to the history
	var earliest basics.Round
	err = l.blockDBs.Rdb.Atomic(func(ctx context.Context, tx *sql.Tx) error {
		var err0 error
		earliest, err0 = blockdb.BlockEarliest(tx)
		return err0
	})
	if err != nil {
		return class, wrap(c09Failf("C09:block-db", "BlockEarliest: %v", err))
	}
	if earliest > db0 {
		return class, wrap(c09Failf("C09:blocks-forgotten", "earliest block kept is %d but the tracker DB is only at round %d", earliest, db0))
	}
	for r := earliest; r <= L; r++ {
		blk, err := l.Block(r)
		if err != nil {
			return class, wrap(c09Failf("C09:block-gap", "Block(%d) of the reopened ledger (earliest %d, latest %d): %v", r, earliest, L, err))
		}
		if blk.Digest() != h.hashes[r] || blk.Round() != r {
			return class, wrap(c09Failf("C09:block-mismatch", "Block(%d) of the reopened ledger is not block %d of the history", r, r))
		}
	}
	if f := c09Sweep(l, h, &st.queries); f != nil {
		return class, wrap(f)
	}
	mark("sweep1")
	noFault := spec.FaultDB == ""
	if spec.Cfg.Catchpoints {
		if f := c09CheckCatchpointFiles(l, ledgerDir, refs.labels, noFault, &st.cp); f != nil {
			return class, wrap(f)
		}
		if f := c09CheckLabel(l, refs); f != nil {
			return class, wrap(f)
		}
	}
	mark("cp1")
	// continue with the rest of the history
	for r := L + 1; r <= c09Blocks; r++ {
		c09PinFlush(l, true)
		if err := l.AddBlock(h.blocks[r], agreement.Certificate{}); err != nil {
			return class, wrap(c09Failf("C09:continue-addblock", "after recovery at Latest()=%d, AddBlock(%d) failed: %v", L, r, err))
		}
		l.WaitForCommit(r)
		<-l.Wait(r)
		l.trackerMu.Lock()
		l.trackerMu.Unlock() //nolint:staticcheck // barrier: notifyCommit(r) finished
		l.trackers.waitAccountsWriting()
	}
	for i := 0; i < 8 && l.LatestTrackerCommitted() < c09Blocks-c09AcctLookback; i++ {
		c09PinFlush(l, true)
		l.notifyCommit(c09Blocks)
		l.trackers.waitAccountsWriting()
	}
	mark("continue")
	if got := l.Latest(); got != c09Blocks {
		return class, wrap(c09Failf("C09:continue-latest", "after adding the remaining blocks Latest()=%d", got))
	}
	if got := l.LatestTrackerCommitted(); got != c09Blocks-c09AcctLookback {
		return class, wrap(c09Failf("C09:continue-dbround", "after adding the remaining blocks the tracker DB stays at round %d (uncrashed run: %d)", got, c09Blocks-c09AcctLookback))
	}
	if f := c09Sweep(l, h, &st.queries); f != nil {
		f.Msg = "after adding the remaining blocks: " + f.Msg
		return class, wrap(f)
	}
	if spec.Cfg.Catchpoints {
		if f := c09CheckCatchpointFiles(l, ledgerDir, refs.labels, noFault, &st.cp); f != nil {
			f.Msg = "after adding the remaining blocks: " + f.Msg
			return class, wrap(f)
		}
		if f := c09CheckLabel(l, refs); f != nil {
			return class, wrap(f)
		}
		if got := l.GetLastCatchpointLabel(); noFault && got != refs.finalLabel {
			return class, wrap(c09Failf("C09:final-label", "after adding the remaining blocks the last catchpoint label is %q, the uncrashed run ends with %q", got, refs.finalLabel))
		}
	}
	return class, nil
}

func c09CheckLabel(l *Ledger, refs *c09Refs) *c09Fail {
	lab := l.GetLastCatchpointLabel()
	if lab == "" {
		return nil
	}
	rnd, ok := c09LabelRound(lab)
	if !ok {
		return c09Failf("C09:label", "unparsable catchpoint label %q", lab)
	}
	if want, ok := refs.labels[rnd]; !ok || want != lab {
		return c09Failf("C09:label", "last catchpoint label %q differs from the label of round %d in the uncrashed run (%q)", lab, rnd, want)
	}
	return nil
}

// ---------------------------------------------------------------------------------
// the check

type c09Replay struct {
	Spec c09RunSpec
	K    int
}

func TestVerif_C09(t *testing.T) {
	deadlock.Opts.Disable = true // lock-order bookkeeping is a debugging aid production runs without
	logging.Base().SetLevel(logging.Error)
	logging.Base().SetOutput(io.Discard)

	run := ve.NewRun("C09", "fault_enumeration")
	run.Assume("SQLite is trusted below transaction granularity: a crash leaves the files exactly as they are at a db.commit.pre/post point of the process (no torn pages); its WAL recovery runs for real on every snapshot")
	run.Assume("statements executed outside util/db.AtomicContext (autocommit catchpoint state writes) are durable steps without a crash point of their own")
	run.Assume("writer interleavings: block-DB and tracker-DB transactions are serialised; two orders (blockFirst, trackerFirst) of the syncer's forget transaction vs the scheduled tracker commit are enumerated")

	w, err := c09MakeWorld()
	if err != nil {
		t.Fatalf("HARNESS-FAILURE world: %v", err)
	}
	h, err := c09BuildHistory(w)
	if err != nil {
		t.Fatalf("HARNESS-FAILURE history: %v", err)
	}
	scratch := ve.ScratchDir("c09")
	defer os.RemoveAll(scratch)

	cfgCP := c09Cfg{Name: "cp", Catchpoints: true}
	cfgNo := c09Cfg{Name: "nocp", Catchpoints: false}
	cfgHist := c09Cfg{Name: "nocp-hist2", Catchpoints: false, BlockHist: 2}
	base := []c09RunSpec{
		{Cfg: cfgCP, Sched: "every", Policy: "blockFirst"},
		{Cfg: cfgCP, Sched: "every", Policy: "trackerFirst"},
		{Cfg: cfgCP, Sched: "end", Policy: "blockFirst"},
		{Cfg: cfgCP, Sched: "end", Policy: "trackerFirst"},
		{Cfg: cfgNo, Sched: "every", Policy: "blockFirst"},
		{Cfg: cfgNo, Sched: "every", Policy: "trackerFirst"},
		{Cfg: cfgNo, Sched: "alt", Policy: "blockFirst"},
		{Cfg: cfgNo, Sched: "alt", Policy: "trackerFirst"},
		{Cfg: cfgNo, Sched: "end", Policy: "blockFirst"},
		{Cfg: cfgNo, Sched: "end", Policy: "trackerFirst"},
		// small MaxBlockHistoryLookback: block pruning is configured tighter than the tracker lag
		{Cfg: cfgHist, Sched: "end", Policy: "blockFirst"},
		{Cfg: cfgHist, Sched: "end", Policy: "trackerFirst"},
		{Cfg: cfgHist, Sched: "alt", Policy: "blockFirst"},
	}
	stops := []c09RunSpec{
		{Cfg: cfgNo, Sched: "every", Policy: "blockFirst", StopKind: "close", StopAt: 5},
		{Cfg: cfgNo, Sched: "every", Policy: "trackerFirst", StopKind: "reload", StopAt: 5},
		{Cfg: cfgNo, Sched: "alt", Policy: "blockFirst", StopKind: "close", StopAt: 8},
	}
	faultBases := ve.Pick(1, len(base)) // quick: faults on the first run only
	faultWindow := ve.Pick(16, 0)       // quick: crash points checked after the failed commit (0 = all)

	refs := map[string]*c09Refs{}
	var stats c09VerifyStats
	var statsMu sync.Mutex
	var crashPoints, reopened, faultRuns, runs int64
	seq := 0
	exhaustive := true

	report := func(f *c09Fail, rp c09Replay) {
		run.Report(f.Key, f.Msg, rp)
	}

	// doRun executes one run and verifies its snapshots from index `from` on.
	doRun := func(spec c09RunSpec, onlyK int) (*c09RunResult, bool) {
		seq++
		root := filepath.Join(scratch, fmt.Sprintf("run%03d", seq))
		defer os.RemoveAll(root)
		t0 := time.Now()
		res, err := c09Run(t, h, spec, root)
		tRun := time.Since(t0)
		if err != nil {
			var f *c09Fail
			if errors.As(err, &f) {
				report(f, c09Replay{Spec: spec, K: -1})
				return nil, true
			}
			t.Fatalf("HARNESS-FAILURE run %s: %v", spec, err)
		}
		runs++
		if spec.Cfg.Catchpoints {
			rf := refs[spec.Cfg.Name]
			if rf == nil {
				if spec.FaultDB != "" {
					t.Fatalf("HARNESS-FAILURE no reference labels before fault run %s", spec)
				}
				rf = &c09Refs{labels: res.Labels, finalLabel: res.FinalLabel}
				refs[spec.Cfg.Name] = rf
				if len(rf.labels) < 2 {
					t.Fatalf("HARNESS-FAILURE the uncrashed run %s produced %d catchpoint labels (expected 2): %v", spec, len(rf.labels), rf.labels)
				}
			} else {
				for rnd, lab := range res.Labels {
					if want, ok := rf.labels[rnd]; !ok || want != lab {
						t.Fatalf("HARNESS-FAILURE uncrashed runs disagree on the label of round %d: %s has %q, reference %q (that would be a C14 matter)", rnd, spec, lab, want)
					}
				}
				if spec.FaultDB == "" && res.FinalLabel != rf.finalLabel {
					t.Fatalf("HARNESS-FAILURE uncrashed run %s ends with label %q, reference %q", spec, res.FinalLabel, rf.finalLabel)
				}
			}
		} else if refs[spec.Cfg.Name] == nil {
			refs[spec.Cfg.Name] = &c09Refs{labels: map[basics.Round]string{}}
		}
		rf := refs[spec.Cfg.Name]
		var todo []c09Point
		for _, p := range res.Points {
			if onlyK >= 0 && p.K != onlyK {
				continue
			}
			if spec.FaultDB != "" && p.K < res.InjectedAt {
				continue // identical to the prefix of the run without the fault
			}
			if spec.StopKind != "" && p.K < res.StopK {
				continue // identical to the prefix of the run without the stop
			}
			if spec.FaultDB != "" && faultWindow > 0 && p.K >= res.InjectedAt+faultWindow {
				continue // quick tier: the window in which the failed commit is retried and absorbed
			}
			todo = append(todo, p)
		}
		crashPoints += int64(len(res.Points))
		if os.Getenv("VERIF_C09_TRACE") == "2" && len(res.Points) > 0 {
			lp := res.Points[len(res.Points)-1]
			filepath.Walk(lp.Dir, func(p string, info os.FileInfo, err error) error {
				if err == nil && !info.IsDir() {
					fmt.Printf("[c09]    %s %d\n", strings.TrimPrefix(p, lp.Dir), info.Size())
				}
				return nil
			})
		}
		done := run.ParallelFor(len(todo), func(i int) {
			p := todo[i]
			var st c09VerifyStats
			tv := time.Now()
			cls, f := c09Verify(h, spec, p, rf, &st)
			if os.Getenv("VERIF_C09_TRACE") == "2" {
				fmt.Printf("[c09]    verify k=%d %.3fs %s\n", p.K, time.Since(tv).Seconds(), cls)
			}
			run.Eval()
			atomic.AddInt64(&reopened, 1)
			if cls != "" {
				run.Class(cls)
			}
			statsMu.Lock()
			stats.queries += st.queries
			stats.cp.files += st.cp.files
			stats.cp.data += st.cp.data
			stats.cp.recorded += st.cp.recorded
			stats.cp.missing += st.cp.missing
			stats.cp.orphanData += st.cp.orphanData
			statsMu.Unlock()
			if f != nil {
				report(f, c09Replay{Spec: spec, K: p.K})
			} else if i%17 == 0 {
				run.Sample(map[string]any{"run": spec.String(), "k": p.K, "db": p.DB, "phase": p.Phase, "confirmed": p.Confirmed, "added": p.Added, "class": cls})
			}
			os.RemoveAll(p.Dir)
		})
		if int(done) != len(todo) {
			exhaustive = false
		}
		statsMu.Lock()
		stats.queries += res.LiveQueries
		statsMu.Unlock()
		if os.Getenv("VERIF_C09_TRACE") != "" {
			fmt.Printf("[c09] %-40s points=%d verified=%d run=%.2fs verify=%.2fs\n", spec, len(res.Points), len(todo), tRun.Seconds(), (time.Since(t0) - tRun).Seconds())
		}
		return res, false
	}

	if raw := run.ReplayRequest(); raw != nil {
		var rp c09Replay
		if err := json.Unmarshal(raw, &rp); err != nil {
			t.Fatalf("HARNESS-FAILURE replay request: %v", err)
		}
		// labels of the configuration first
		if rp.Spec.Cfg.Catchpoints {
			doRun(c09RunSpec{Cfg: rp.Spec.Cfg, Sched: "every", Policy: "blockFirst"}, 1<<30)
		}
		doRun(rp.Spec, rp.K)
		if n := run.Finish(ve.Coverage{Rule: "replay of one crash point", Exhaustive: false}); n > 0 {
			t.Fatalf("%d violation(s)", n)
		}
		return
	}

	var baseRes []*c09RunResult
	for _, spec := range base {
		res, _ := doRun(spec, -1)
		baseRes = append(baseRes, res)
		if run.Violations() > 0 {
			break
		}
	}
	var stopRuns int64
	for _, spec := range stops {
		if run.Violations() > 0 {
			break
		}
		if _, stop := doRun(spec, -1); stop {
			break
		}
		stopRuns++
	}
faults:
	for bi := 0; bi < faultBases && run.Violations() == 0; bi++ {
		if baseRes[bi] == nil {
			continue
		}
		for _, dbk := range []string{"block", "tracker"} {
			for occ := 0; occ < baseRes[bi].PreCount[dbk]; occ++ {
				if run.OutOfTime() {
					exhaustive = false
					break faults
				}
				spec := base[bi]
				spec.FaultDB, spec.FaultOcc = dbk, occ
				if _, stop := doRun(spec, -1); stop {
					break faults
				}
				faultRuns++
				if run.Violations() > 0 {
					break faults
				}
			}
		}
	}

	run.Set("runs", runs)
	run.Set("fault_injection_runs", faultRuns)
	run.Set("stop_while_flush_stalled_runs", stopRuns)
	run.Set("crash_points_recorded", crashPoints)
	run.Set("snapshots_reopened", reopened)
	run.Set("lookups_compared", stats.queries)
	run.Set("catchpoint_files_seen", int64(stats.cp.files))
	run.Set("catchpoint_data_files_seen", int64(stats.cp.data))
	run.Set("catchpoint_records_checked", int64(stats.cp.recorded))
	run.Set("catchpoint_records_with_file_already_deleted", int64(stats.cp.missing))
	run.Set("first_stage_data_files_without_record_after_injected_failure", int64(stats.cp.orphanData))
	var pc []string
	for i, res := range baseRes {
		if res != nil {
			pc = append(pc, fmt.Sprintf("%s: %d points (block commits %d, tracker commits %d)", base[i], len(res.Points), res.PreCount["block"], res.PreCount["tracker"]))
		}
	}
	run.Set("points_per_run", pc)
	n := run.Finish(ve.Coverage{
		Rule: fmt.Sprintf("every db.commit.pre/post of block DB and tracker DB in %d runs (10-block history; configs cp/nocp x flush schedules x 2 writer orders) + one injected commit failure at every commit occurrence of %d base run(s) (crash points checked after the failure: %s); every snapshot reopened with OpenLedger and checked against the delta-fold reference, then continued to the end of the history",
			len(base), faultBases, map[bool]string{true: "all", false: fmt.Sprintf("the next %d", faultWindow)}[faultWindow == 0]),
		Exhaustive: exhaustive,
	})
	if n > 0 {
		t.Fatalf("%d violation(s)", n)
	}
}
