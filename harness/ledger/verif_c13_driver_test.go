package ledger

// C13 driver (own copy of the C11 driver, c13-prefixed): a REAL Ledger on a private consensus
// version (agreement balance lookback = MaxBalLookback = 2 or 4, state proofs on/off), SQLite
// in memory (kept alive across Close by keeper connections) or in files under
// ve.ScratchDir, a block builder through the real BlockEvaluator + Ledger.Validate /
// AddValidatedBlock, and synchronous control of the background machinery: the blockQueue
// syncer is drained after every block, trackerRegistry.lastFlushTime is pinned so that a flush
// happens only when the "flush" operation asks for it (through the production
// notifyCommit -> scheduleCommit -> commitSyncer -> commitRound path), "reload" is
// Ledger.reloadLedger and "reopen" is Ledger.Close + OpenLedger on the same databases.

import (
	"context"
	"database/sql"
	"fmt"
	"io"
	"os"
	"path/filepath"
	"sync"
	"sync/atomic"
	"time"

	"github.com/algorand/go-algorand/agreement"
	"github.com/algorand/go-algorand/config"
	"github.com/algorand/go-algorand/crypto"
	"github.com/algorand/go-algorand/crypto/merklesignature"
	"github.com/algorand/go-algorand/data/basics"
	"github.com/algorand/go-algorand/data/bookkeeping"
	"github.com/algorand/go-algorand/data/committee"
	"github.com/algorand/go-algorand/data/transactions/verify"
	"github.com/algorand/go-algorand/ledger/eval"
	"github.com/algorand/go-algorand/ledger/ledgercore"
	"github.com/algorand/go-algorand/logging"
	"github.com/algorand/go-algorand/protocol"
	"github.com/algorand/go-algorand/util/db"
	ve "github.com/algorand/go-algorand/verifeng"
)

const c13MaxTxnLife = 4

// State-proof parameters of the "sp" protocol variants: voters are snapshotted at rounds
// x with (x+2)%4 == 0 (2, 6, ...), top 2 accounts, and committed in the header of x+2.
const (
	c13SPInterval = 4
	c13SPLookback = 2
	c13SPTop      = 2
)

var c13ProtoMu sync.Mutex

// c13Proto registers (idempotently) and names a private consensus version with agreement
// balance lookback = MaxBalLookback = balLookback (SeedLookback 1, SeedRefreshInterval
// balLookback/2) and state proofs on or off. Must be called before any ledger is opened.
func c13Proto(balLookback uint64, sp bool) protocol.ConsensusVersion {
	c13ProtoMu.Lock()
	defer c13ProtoMu.Unlock()
	name := protocol.ConsensusVersion(fmt.Sprintf("verif-c13-bl%d-sp%v", balLookback, sp))
	if _, ok := config.Consensus[name]; ok {
		return name
	}
	p := config.Consensus[protocol.ConsensusCurrentVersion]
	p.MaxTxnLife = c13MaxTxnLife
	p.SeedLookback = 1
	p.SeedRefreshInterval = balLookback / 2
	p.MaxBalLookback = balLookback
	p.ExcludeExpiredCirculation = true
	if sp {
		p.StateProofInterval = c13SPInterval
		p.StateProofVotersLookback = c13SPLookback
		p.StateProofTopVoters = c13SPTop
	} else {
		p.StateProofInterval = 0
	}
	p.Payouts.Enabled = false
	p.ApprovedUpgrades = map[protocol.ConsensusVersion]uint64{}
	config.Consensus[name] = p
	return name
}

func c13Addr(b byte) basics.Address {
	var a basics.Address
	for i := range a {
		a[i] = b
	}
	return a
}

// Accounts: A is the focus account (offline at genesis), B is online at genesis with keys
// that expire after round 3, C is online with long-lived keys, D funds / receives.
var (
	c13A       = c13Addr(0xA1)
	c13B       = c13Addr(0xB2)
	c13C       = c13Addr(0xC3)
	c13D       = c13Addr(0xD4)
	c13FeeSink = c13Addr(0xF5)
	c13Pool    = c13Addr(0xF6)
	c13GenHash = crypto.Digest{0xC1, 0x13}
	c13Accts   = []basics.Address{c13A, c13B, c13C, c13D}
)

const c13BVoteLast = 3

var c13LogOnce sync.Once
var c13Log logging.Logger

func c13Logger() logging.Logger {
	c13LogOnce.Do(func() {
		c13Log = logging.NewLogger()
		c13Log.SetOutput(io.Discard)
		c13Log.SetLevel(logging.Error)
	})
	return c13Log
}

func c13Key(b byte) (k [32]byte) {
	for i := range k {
		k[i] = b
	}
	return
}

func c13SPKey(b byte) (k merklesignature.Commitment) {
	for i := range k {
		k[i] = b
	}
	return
}

// rewards=true funds the rewards pool so that the rewards level rises by 2-3 per round
// (rate 3e6 microalgos per round over ~1.00007e6 reward units); otherwise the rate is 0.
func c13Genesis(cv protocol.ConsensusVersion, rewards bool) ledgercore.InitState {
	online := func(algos uint64, last basics.Round, tag byte) basics.AccountData {
		return basics.AccountData{
			MicroAlgos: basics.MicroAlgos{Raw: algos}, Status: basics.Online,
			VoteID: c13Key(tag), SelectionID: c13Key(tag + 1), StateProofID: c13SPKey(tag + 2),
			VoteFirstValid: 0, VoteLastValid: last, VoteKeyDilution: 10,
		}
	}
	accts := map[basics.Address]basics.AccountData{
		// after exactly one keyreg fee A's balance ties with B's (address tie-break in the top list)
		c13A:       {MicroAlgos: basics.MicroAlgos{Raw: 20_001_000}, Status: basics.Offline},
		c13B:       online(20_000_000, c13BVoteLast, 0x20),
		c13C:       online(30_000_000, 1000, 0x30),
		c13D:       {MicroAlgos: basics.MicroAlgos{Raw: 1_000_000_000_000}, Status: basics.Offline},
		c13FeeSink: {MicroAlgos: basics.MicroAlgos{Raw: 1_000_000_000}, Status: basics.NotParticipating},
		c13Pool:    {MicroAlgos: basics.MicroAlgos{Raw: 100_000}, Status: basics.NotParticipating},
	}
	if rewards {
		p := config.Consensus[cv]
		accts[c13Pool] = basics.AccountData{MicroAlgos: basics.MicroAlgos{Raw: p.MinBalance + 3_000_000*p.RewardsRateRefreshInterval}, Status: basics.NotParticipating}
	}
	gb := bookkeeping.MakeGenesisBalances(accts, c13FeeSink, c13Pool)
	blk, err := bookkeeping.MakeGenesisBlock(cv, gb, "verif-c13", c13GenHash)
	if err != nil {
		panic(err)
	}
	return ledgercore.InitState{Block: blk, Accounts: accts, GenesisHash: c13GenHash}
}

// c13Drv is one real ledger instance under harness control.
type c13Drv struct {
	l       *Ledger
	dir     string
	prefix  string
	mem     bool
	keepers []c13Keeper
	genesis ledgercore.InitState
	cfg     config.Local
}

// c13Keeper holds one extra connection to a shared-cache in-memory SQLite database, so
// that its content survives Ledger.Close (SQLite drops such a database when the last
// connection closes). With it, Close+OpenLedger(dbMem=true) is a genuine restart: every
// Go-side structure is rebuilt from what the trackers/blockQueue had written.
type c13Keeper struct {
	acc  db.Accessor
	conn *sql.Conn
}

var c13MemSeq atomic.Uint64

var c13FarFuture = time.Date(2200, 1, 1, 0, 0, 0, 0, time.UTC)

func c13Open(cv protocol.ConsensusVersion, rewards bool, acctLookback uint64, mem bool, lru bool) (*c13Drv, error) {
	d := &c13Drv{genesis: c13Genesis(cv, rewards), mem: mem}
	if mem {
		d.prefix = fmt.Sprintf("verif-c13-mem-%d-%d", os.Getpid(), c13MemSeq.Add(1))
		for _, suffix := range []string{".tracker.sqlite", ".block.sqlite"} {
			acc, err := db.MakeAccessor(d.prefix+suffix, false, true)
			if err != nil {
				d.close()
				return nil, err
			}
			conn, err := acc.Handle.Conn(context.Background())
			if err != nil {
				acc.Close()
				d.close()
				return nil, err
			}
			d.keepers = append(d.keepers, c13Keeper{acc: acc, conn: conn})
		}
	} else {
		d.dir = ve.ScratchDir("c13")
		d.prefix = filepath.Join(d.dir, "ldg")
	}
	cfg := config.GetDefaultLocal()
	cfg.Archival = false
	cfg.MaxAcctLookback = acctLookback
	cfg.CatchpointInterval = 0
	cfg.CatchpointTracking = -1
	cfg.LedgerSynchronousMode = 0 // no fsync: only process-level restarts are modelled, never power loss
	cfg.AccountsRebuildSynchronousMode = 0
	cfg.DisableLedgerLRUCache = !lru // the LRU write-buffers (100k-entry channels) cost ~1s per open
	cfg.TxPoolSize = 16              // only sizes the verified-signature cache here (signatures are mocked)
	cfg.VerifiedTranscationsCacheSize = 16
	d.cfg = cfg
	if err := d.open(); err != nil {
		d.close()
		return nil, err
	}
	return d, nil
}

func (d *c13Drv) open() error {
	l, err := OpenLedger(c13Logger(), d.prefix, d.mem, d.genesis, d.cfg)
	if err != nil {
		return err
	}
	d.l = l
	d.holdFlushes()
	d.waitVoters()
	return nil
}

// holdFlushes keeps the wall-clock flush heuristic from ever scheduling a commit by itself.
func (d *c13Drv) holdFlushes() {
	d.l.trackers.mu.Lock()
	d.l.trackers.lastFlushTime = c13FarFuture
	d.l.trackers.mu.Unlock()
}

func (d *c13Drv) close() {
	if d.l != nil {
		d.l.Close()
		d.l = nil
	}
	for _, k := range d.keepers {
		_ = k.conn.Close()
		k.acc.Close()
	}
	d.keepers = nil
	if d.dir != "" {
		_ = os.RemoveAll(d.dir)
	}
}

// drainBlockQueue waits until the blockQueue syncer has written every queued block AND
// has finished the notifyCommit/forget step that follows (the syncer only exits between
// iterations), then restarts it.
func (d *c13Drv) drainBlockQueue() error {
	d.l.WaitForCommit(d.l.Latest())
	d.l.blockQ.stop()
	err := d.l.blockQ.start()
	d.waitVoters()
	return err
}

// waitVoters waits for the asynchronous votersTracker.loadTree goroutines (spawned by
// newBlock / loadFromDisk), so that they never overlap a later flush or restart.
func (d *c13Drv) waitVoters() { d.l.acctsOnline.voters.loadWaitGroup.Wait() }

func (d *c13Drv) dbRound() basics.Round { return d.l.trackers.getDbRound() }

// startEval starts a generating+validating evaluator for round Latest+1.
func (d *c13Drv) startEval() (*eval.BlockEvaluator, error) {
	rnd := d.l.Latest()
	hdr, err := d.l.BlockHdr(rnd)
	if err != nil {
		return nil, err
	}
	next := bookkeeping.MakeBlock(hdr).BlockHeader
	next.TimeStamp = hdr.TimeStamp + 1
	return eval.StartEvaluator(d.l, next, eval.EvaluatorOptions{Generate: true, Validate: true})
}

// endBlock finishes the evaluator's block and adds it. validate=true re-evaluates it through
// Ledger.Validate (signature checks mocked: the transactions are unsigned) like a block
// received from the network; validate=false adds the proposer's own evaluation result (the
// header is not changed by FinishBlock: zero seed, no proposer since payouts are disabled).
func (d *c13Drv) endBlock(ev *eval.BlockEvaluator, validate bool) (ledgercore.StateDelta, error) {
	ub, err := ev.GenerateBlock(nil)
	if err != nil {
		return ledgercore.StateDelta{}, fmt.Errorf("GenerateBlock: %w", err)
	}
	blk := ub.FinishBlock(committee.Seed{}, basics.Address{}, false)
	var vb ledgercore.ValidatedBlock
	if validate {
		save := d.l.verifiedTxnCache
		d.l.verifiedTxnCache = verify.GetMockedCache(true)
		pvb, err := d.l.Validate(context.Background(), blk, nil)
		d.l.verifiedTxnCache = save
		if err != nil {
			return ledgercore.StateDelta{}, fmt.Errorf("Validate: %w", err)
		}
		vb = *pvb
	} else {
		vb = ledgercore.MakeValidatedBlock(blk, ub.UnfinishedDeltas())
	}
	if err := d.l.AddValidatedBlock(vb, agreement.Certificate{}); err != nil {
		return ledgercore.StateDelta{}, fmt.Errorf("AddValidatedBlock: %w", err)
	}
	if err := d.drainBlockQueue(); err != nil {
		return ledgercore.StateDelta{}, err
	}
	return vb.Delta(), nil
}

// flush persists tracker state up to Latest-MaxAcctLookback through the production
// scheduling path, synchronously. Returns whether the tracker DB round advanced.
func (d *c13Drv) flush() bool {
	before := d.dbRound()
	d.l.trackers.mu.Lock()
	d.l.trackers.lastFlushTime = time.Time{}
	d.l.trackers.mu.Unlock()
	d.l.notifyCommit(d.l.Latest())
	d.l.trackers.waitAccountsWriting()
	d.holdFlushes()
	return d.dbRound() != before
}

func (d *c13Drv) canFlush() bool {
	lb := basics.Round(d.cfg.MaxAcctLookback)
	latest := d.l.Latest()
	return latest >= lb && latest-lb > d.dbRound()
}

func (d *c13Drv) reload() error {
	if err := d.l.reloadLedger(); err != nil {
		return err
	}
	d.l.trackers.waitAccountsWriting()
	d.holdFlushes()
	d.waitVoters()
	return nil
}

func (d *c13Drv) reopen() error {
	d.l.Close()
	d.l = nil
	return d.open()
}
