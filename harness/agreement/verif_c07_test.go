package agreement

// C07 - Persisted consensus state restores exactly.
//
// Engine E-AGR (reduced-scale configurations of C01, plus an equivocation configuration) with the
// differential hook eagrDiffer on EVERY submitTop call of every explored transition. For the live
// state S of the node about to handle event e (S was produced only by submitTop calls and
// encode-independent deep copies, never by decode):
//   1. S' = decode(encode(S)) succeeds, restores the clock zero, and encode(S') == encode(S) byte for byte;
//   2. S'' = decode(encode(S, reflect), reflect) (go-codec path) re-encodes (msgp) to the same bytes;
//   3. S' is structurally equal - over ALL fields, exported or not, maps/slices nil==empty - to the
//      reference image R = deep copy of S with only the fields cleared that the code documents as not
//      persisted (list eagrEphemeral with the source comment for each: message handles, proposal.ve,
//      validatedAt/receivedAt timings, lowestCredentialArrivals, late-credential tracking, telemetry
//      fields) and old-round routers dropped (encode(): "Don't persist state for old rounds");
//   4. behaviour: submitTop(e) on S' and on R yields the same action list (type, tag, sender/round/period/
//      step/value of every vote, bundle sizes, handle nil-ness, ...) and successors that encode and
//      compare identically;
//   4b. the node's NEXT event is applied to copies of both successors as well (behaviour two events
//      after the restore);
//   5. the action list produced by the live node, when it contains a persistent (attest) action - the
//      only lists Service.persistState writes - survives encode/decode (same types, structurally equal).
// The restored image S' is built ONLY from decode(encode(S)) bytes (its routers' listener wrappers are
// nil, as after a real restart); the live nodes of the explorer and the reference image R keep their
// listeners BOUND, like a node that never restarted: the encode-independent deep copy remaps the
// interior pointers of the listener wrappers into the copy (eagrCopyCtx). (An earlier version of the
// copy left the listeners nil on every image, which made live and restored nodes re-bind in lock-step
// and hid seeded change C07-B - stepRouter.update resetting the tracker of a router whose listener is
// nil; it is DETECTED now, at the first vote routed to a restored step router.)
// Non-vacuity counters in the evidence: states with step routers / pending proposal table /
// pipelined next-round routers / equivocation records.
//
// Mutants (bin/mut, quick tier):
//   DETECTED  persistence.go encode: child filter `rnd > p.Round` (current round dropped).
//   DETECTED  msgp_gen.go proposalTracker: "Staging" not restored (what marking it codec:"-" and
//             regenerating would do).
//   DETECTED  msgp_gen.go voteTracker: "EquivocatorsCount" not restored (needs two adversary votes
//             for different values to the same node and step: only the equivocation configuration shows it).
//   DETECTED  persistence.go decode: root actor built around a zero player (`makeRootRouter(player{})`):
//             invisible to clauses 1-3 (the root actor is rebuilt, not persisted), caught by clause 4.
// Observation (not a violation of the property): actions.go zeroAction() has no case for stageDigest,
// so decode() would panic on a persisted action list containing a stageDigestAction; no reachable
// transition emits stageDigest together with an attest action, so such a list is never persisted.
// Not covered: the SQLite crash database and asyncPersistenceLoop (C02(ii)); states beyond the C01 bounds.

import (
	"fmt"
	"strings"
	"testing"

	ve "github.com/algorand/go-algorand/verifeng"
)

func c07Class(d string) string {
	// stable class of a mismatch: its text up to the first ':' after the kind
	if i := strings.Index(d, ":"); i > 0 && i < 60 {
		d = d[:i]
	}
	if len(d) > 60 {
		d = d[:60]
	}
	return strings.ReplaceAll(d, " ", "-")
}

func TestVerif_C07(t *testing.T) {
	configs := eagrSafetyConfigs(ve.Pick(0, 1))
	differ := eagrNewDiffer()
	for _, b := range configs {
		b.cfg.diff = differ
	}
	eagrRunCheck(t, &eagrCheck{
		id: "C07", level: "model_checking",
		configs: configs,
		oracle: func(r *ve.Run, b *eagrBFS, pre *eagrSys, e eagrEv, post *eagrSys, out *eagrOut, path func() []eagrEv) {
			if out.panicMsg != "" {
				r.Report("C07:panic", fmt.Sprintf("[%s] after %v: %s", b.name, e, out.panicMsg), eagrReplayOf(b, path))
				return
			}
			for _, d := range out.diffs {
				r.Report("C07:"+c07Class(d), fmt.Sprintf("[%s] during %v: %s", b.name, e, d), eagrReplayOf(b, path))
			}
		},
		rule: "For the live node state before every submitTop call of every explored transition: decode(encode(S)) re-encodes to identical bytes (msgp and reflection codec), equals the live state structurally over all fields except those documented as not persisted, behaves identically on the event (same actions, same successor), and persisted action lists round-trip.",
		assume: []string{
			"fields documented in the source as not persisted are excluded by name (listed with the source comment in coverage.fields_excluded_as_documented_not_persisted); that clearing them cannot change safety-relevant behaviour is the code's documented intent, not checked here",
			"explored states are those of the C01 configurations at reduced deviation budgets; the crash database itself (SQLite) is not involved",
		},
		finish: func(r *ve.Run, total *eagrStats) {
			r.Set("states_round_tripped", differ.states.Load())
			r.Set("events_run_on_restored_and_reference_image", differ.events.Load())
			r.Set("actions_compared", differ.actsCmp.Load())
			r.Set("second_events_run_on_both_images", differ.second2.Load())
			r.Set("pending_action_lists_round_tripped", differ.actTrips.Load())
			r.Set("states_with_step_routers", differ.withKids.Load())
			r.Set("states_with_equivocation_records", differ.withEq.Load())
			r.Set("states_with_pending_proposal_table", differ.withPend.Load())
			r.Set("states_with_next_round_routers", differ.withNext.Load())
			var ex []string
			for k, v := range eagrEphemeral {
				ex = append(ex, k+" ("+v+")")
			}
			r.Set("fields_excluded_as_documented_not_persisted", ex)
		},
	})
}
