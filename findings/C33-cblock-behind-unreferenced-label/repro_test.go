package logic

// Plain unit test (no explorer) for the C33 finding "constant block behind an unreferenced label
// in dead code": the assembler accepts the source and the program passes CheckSignature, but the
// text produced by Disassemble is refused by the assembler, so
// AssembleString(Disassemble(p)) != p contrary to the doc comment of Disassemble.
//
// Run (from /repo, with the /verif overlay for libsodium):
//   copy this file to data/transactions/logic/zz_c33_repro_test.go (or mount it by overlay) and
//   go test -run TestC33CBlockBehindUnreferencedLabel ./data/transactions/logic

import (
	"testing"

	"github.com/stretchr/testify/require"
)

func TestC33CBlockBehindUnreferencedLabel(t *testing.T) {
	for _, src := range []string{
		"err\nunused:\nintcblock 5 6 7 8 9\nintc 4\n",
		"err\nunused:\nbytecblock 0x01 0x02 0x03 0x04 0x05\nbytec 4\n",
		"int 1\nreturn\nunused:\nintcblock 5\nintc_0\n",
	} {
		for _, v := range []uint64{2, 8, LogicVersion} {
			ops, err := AssembleStringWithVersion(src, v)
			require.NoError(t, err, "the assembler accepts the program")
			ep := defaultSigParams()
			ep.TxnGroup[0].Lsig.Logic = ops.Program
			require.NoError(t, CheckSignature(0, ep), "and it passes the static check")

			text, err := Disassemble(ops.Program)
			require.NoError(t, err)
			// the label is gone (nothing jumps to it), so the constant block is now in dead code,
			// where asmIntCBlock/asmByteCBlock do not record the constants ...
			ops2, err := AssembleString(text)
			// ... and the loads are refused: "intc 4 is not defined"
			require.NoError(t, err, "disassembly of an accepted program must re-assemble:\n%s", text)
			require.Equal(t, ops.Program, ops2.Program)
		}
	}
}
