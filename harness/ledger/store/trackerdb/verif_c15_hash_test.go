package trackerdb

// C15 (part a) — A catchpoint label commits to a unique ledger state: leaf pre-image builders.
//
// Engine E-ENUM, level exploration. Every entry of the balances trie is identified by the
// output of one of the builders in hashing.go (4 bytes cache affinity | 1 byte kind | 31
// bytes of SHA-512/256 over the pre-image). Two DISTINCT entries that produce the same
// output are indistinguishable for the trie, hence for the catchpoint label. Since the
// output is (a truncation of) a hash of the pre-image, equal outputs for distinct entries
// on these tiny universes mean equal pre-images (a structural ambiguity), not a hash
// collision.
//
// Enumerated (all unordered pairs of distinct entries of each universe; implemented as an
// injectivity check over the universe, which is the same statement):
//   * KvHashBuilderV6: keys x values over {"", a, b, ab, ba, a\0, \0a, abc, ...} plus real box
//     keys "bx:"+appid+name for 3 app ids x 6 names x 6 values.
//   * AccountHashBuilderV6: 3 addresses x (base account data, every single-field variation
//     (2 values per leaf field, found by reflection so new fields are covered automatically)
//     and every pair of single-field variations), for 2 bases.
//   * ResourcesHashBuilderV6: 2 addresses x cidx in {1,2,255,256,257,65536,2^32,2^56} x
//     (4 base resources: asset holding, asset params, app local state, app params; every
//     single-field variation; pairs of variations in thorough tier).
//   * AccountHashBuilder (legacy V5): 3 addresses x single/double field variations of
//     basics.AccountData.
//   * all V6 outputs together (cross-builder collisions: the kind byte must separate them).
//
// Oracle: distinct (key,value) / (addr,data) / (addr,cidx,data) => distinct outputs.
//
// Violation keys: "C15:kv-boundary-shift" for exactly the class of KV pairs whose key||value
// concatenations are equal (known finding F-KV: no separator between key and value);
// "C15:preimage-collision:<builder>" for anything else.
//
// Not covered: collisions of SHA-512/256 itself; non-canonical msgpack encodings handed to
// the builders by a catchpoint file (that is C16's tamper enumeration).
//
// Mutants (bin/mut C15 ... ): ResourcesHashBuilderV6 without cidx in the pre-image => DETECTED;
// AccountHashBuilderV6 without the address in the pre-image => DETECTED.

import (
	"encoding/hex"
	"fmt"
	"reflect"
	"sort"
	"sync"
	"testing"

	"github.com/algorand/go-algorand/data/basics"
	"github.com/algorand/go-algorand/protocol"
	ve "github.com/algorand/go-algorand/verifeng"
)

type c15entry struct {
	builder string // which builder
	id      string // canonical identity of the entry (distinct entries have distinct ids)
	desc    string // human readable
	concat  string // kv only: key||value
	class   string // evidence class (which component was varied)
	out     []byte
	err     error
	run     func() ([]byte, error)
}

func c15addr(tag byte, pos int) basics.Address {
	var a basics.Address
	for i := range a {
		a[i] = 0x11
	}
	a[pos] = tag
	return a
}

// c15variants returns, for every leaf field of the struct pointed to by base (recursing
// into embedded/inner structs; arrays, slices, strings and maps are leaves), copies of
// *base with that one field set to each of two non-default values. names[i] is the field
// path of variant i.
func c15variants[T any](base T) (out []T, names []string) {
	var walk func(path string, get func(v reflect.Value) reflect.Value, typ reflect.Type)
	add := func(path string, get func(v reflect.Value) reflect.Value, vals ...reflect.Value) {
		for _, val := range vals {
			cp := base
			f := get(reflect.ValueOf(&cp).Elem())
			if reflect.DeepEqual(f.Interface(), val.Interface()) {
				continue
			}
			f.Set(val)
			out = append(out, cp)
			names = append(names, path)
		}
	}
	walk = func(path string, get func(v reflect.Value) reflect.Value, typ reflect.Type) {
		switch typ.Kind() {
		case reflect.Struct:
			for i := 0; i < typ.NumField(); i++ {
				f := typ.Field(i)
				if f.Name == "_struct" || !f.IsExported() {
					continue
				}
				idx := i
				walk(path+"."+f.Name, func(v reflect.Value) reflect.Value { return get(v).Field(idx) }, f.Type)
			}
		case reflect.Bool:
			add(path, get, reflect.ValueOf(true).Convert(typ), reflect.ValueOf(false).Convert(typ))
		case reflect.Uint8, reflect.Uint16, reflect.Uint32, reflect.Uint64, reflect.Uint, reflect.Int, reflect.Int64, reflect.Int32:
			add(path, get, reflect.ValueOf(1).Convert(typ), reflect.ValueOf(2).Convert(typ), reflect.ValueOf(200).Convert(typ))
		case reflect.String:
			add(path, get, reflect.ValueOf("a").Convert(typ), reflect.ValueOf("ab").Convert(typ))
		case reflect.Array:
			if typ.Elem().Kind() == reflect.Uint8 {
				a1 := reflect.New(typ).Elem()
				a1.Index(0).SetUint(1)
				a2 := reflect.New(typ).Elem()
				a2.Index(typ.Len() - 1).SetUint(1)
				add(path, get, a1, a2)
			} else {
				// e.g. merklesignature.Commitment is [64]byte; other arrays: vary element 0
				walk(path+"[0]", func(v reflect.Value) reflect.Value { return get(v).Index(0) }, typ.Elem())
			}
		case reflect.Slice:
			if typ.Elem().Kind() == reflect.Uint8 {
				add(path, get, reflect.ValueOf([]byte{1}).Convert(typ), reflect.ValueOf([]byte{1, 2}).Convert(typ), reflect.ValueOf([]byte{2}).Convert(typ))
			}
		case reflect.Map:
			if typ == reflect.TypeOf(basics.TealKeyValue{}) {
				add(path, get,
					reflect.ValueOf(basics.TealKeyValue{"k": basics.TealValue{Type: basics.TealBytesType, Bytes: "v"}}),
					reflect.ValueOf(basics.TealKeyValue{"k": basics.TealValue{Type: basics.TealUintType, Uint: 1}}),
					reflect.ValueOf(basics.TealKeyValue{"kv": basics.TealValue{Type: basics.TealBytesType, Bytes: ""}}),
					reflect.ValueOf(basics.TealKeyValue{"k": basics.TealValue{Type: basics.TealBytesType, Bytes: "v"}, "l": basics.TealValue{Type: basics.TealUintType, Uint: 7}}))
			}
		}
	}
	walk("", func(v reflect.Value) reflect.Value { return v }, reflect.TypeOf(base))
	return
}

// c15pairsOf applies variation j on top of variation i (different field paths only).
func c15pairsOf[T any](base T, singles []T, names []string) (out []T, outNames []string) {
	bv := reflect.ValueOf(base)
	for i := range singles {
		for j := i + 1; j < len(singles); j++ {
			if names[i] == names[j] {
				continue
			}
			cp := singles[i]
			// copy every leaf in which singles[j] differs from base
			c15overlay(reflect.ValueOf(&cp).Elem(), reflect.ValueOf(singles[j]), bv)
			out = append(out, cp)
			outNames = append(outNames, names[i]+"+"+names[j])
		}
	}
	return
}

func c15overlay(dst, src, base reflect.Value) {
	if dst.Kind() == reflect.Struct {
		for i := 0; i < dst.NumField(); i++ {
			if !dst.Type().Field(i).IsExported() || dst.Type().Field(i).Name == "_struct" {
				continue
			}
			c15overlay(dst.Field(i), src.Field(i), base.Field(i))
		}
		return
	}
	if !reflect.DeepEqual(src.Interface(), base.Interface()) {
		dst.Set(src)
	}
}

func c15kvUniverse() []c15entry {
	var out []c15entry
	strs := []string{"", "a", "b", "ab", "ba", "a\x00", "\x00a", "abc", "c", "bc"}
	seen := map[string]bool{}
	add := func(k, v string, class string) {
		id := fmt.Sprintf("kv|%d:%x|%d:%x", len(k), k, len(v), v)
		if seen[id] {
			return
		}
		seen[id] = true
		kk, vv := k, []byte(v)
		out = append(out, c15entry{builder: "KvHashBuilderV6", id: id, desc: fmt.Sprintf("key=%q value=%q", k, v), concat: k + v, class: class,
			run: func() ([]byte, error) { return KvHashBuilderV6(kk, vv), nil }})
	}
	for _, k := range strs {
		for _, v := range strs {
			add(k, v, "kv/raw")
		}
	}
	// real box keys: "bx:" + 8 byte big-endian app id + name (apps.MakeBoxKey)
	for _, app := range []uint64{1, 256, 1 << 32} {
		for _, name := range []string{"a", "ab", "abc", "b", "ba", "a\x00"} {
			for _, v := range []string{"", "c", "bc", "abc", "\x00", "\x00c"} {
				var idb [8]byte
				for i := 0; i < 8; i++ {
					idb[7-i] = byte(app >> (8 * i))
				}
				add("bx:"+string(idb[:])+name, v, "kv/box")
			}
		}
	}
	return out
}

func c15acctUniverse() []c15entry {
	var out []c15entry
	bases := []BaseAccountData{
		{MicroAlgos: basics.MicroAlgos{Raw: 1000}},
		{Status: basics.Online, MicroAlgos: basics.MicroAlgos{Raw: 5_000_000}, RewardsBase: 3, TotalAssets: 1, UpdateRound: 9,
			BaseVotingData: BaseVotingData{VoteFirstValid: 1, VoteLastValid: 100, VoteKeyDilution: 10}},
	}
	addrs := []basics.Address{c15addr(0x11, 0), c15addr(0x12, 31), c15addr(0x12, 0)}
	seen := map[string]bool{}
	for bi, base := range bases {
		singles, names := c15variants(base)
		all := append([]BaseAccountData{base}, singles...)
		allNames := append([]string{"base"}, names...)
		doubles, dnames := c15pairsOf(base, singles, names)
		all = append(all, doubles...)
		allNames = append(allNames, dnames...)
		for ai, addr := range addrs {
			for i := range all {
				d := all[i]
				enc := protocol.Encode(&d)
				id := fmt.Sprintf("acct|%x|%x", addr[:], enc) // canonical msgpack: equal encodings <=> equal data
				if seen[id] {
					continue
				}
				seen[id] = true
				a := addr
				class := "acct/field" + allNames[i]
				if len(allNames[i]) > 40 {
					class = "acct/two-fields"
				}
				out = append(out, c15entry{builder: "AccountHashBuilderV6", id: id, desc: fmt.Sprintf("base#%d addr#%d vary %s data=%x", bi, ai, allNames[i], enc), class: class,
					run: func() ([]byte, error) { return AccountHashBuilderV6(a, &d, enc), nil }})
			}
		}
	}
	return out
}

func c15resUniverse() []c15entry {
	var out []c15entry
	var holding, params, local, appp ResourcesData
	holding.SetAssetHolding(basics.AssetHolding{Amount: 5})
	params.SetAssetParams(basics.AssetParams{Total: 100, UnitName: "u"}, true)
	params.SetAssetHolding(basics.AssetHolding{Amount: 100})
	local.SetAppLocalState(basics.AppLocalState{Schema: basics.StateSchema{NumUint: 1}, KeyValue: basics.TealKeyValue{"x": basics.TealValue{Type: basics.TealUintType, Uint: 1}}})
	appp.SetAppParams(basics.AppParams{ApprovalProgram: []byte{9, 1}, ClearStateProgram: []byte{9}, GlobalState: basics.TealKeyValue{"g": basics.TealValue{Type: basics.TealBytesType, Bytes: "b"}}}, false)
	bases := []ResourcesData{holding, params, local, appp}
	baseNames := []string{"asset-holding", "asset-params", "app-local", "app-params"}
	addrs := []basics.Address{c15addr(0x11, 0), c15addr(0x12, 31)}
	cidxs := []basics.CreatableIndex{1, 2, 255, 256, 257, 65536, 1 << 32, 1 << 56}
	seen := map[string]bool{}
	for bi, base := range bases {
		singles, names := c15variants(base)
		all := append([]ResourcesData{base}, singles...)
		allNames := append([]string{"base"}, names...)
		if ve.Thorough() {
			doubles, dnames := c15pairsOf(base, singles, names)
			all = append(all, doubles...)
			allNames = append(allNames, dnames...)
		}
		for ai, addr := range addrs {
			for _, cidx := range cidxs {
				for i := range all {
					d := all[i]
					enc := protocol.Encode(&d)
					id := fmt.Sprintf("res|%x|%d|%x", addr[:], uint64(cidx), enc)
					if seen[id] {
						continue
					}
					seen[id] = true
					a, c := addr, cidx
					class := "res/" + baseNames[bi] + "/field" + allNames[i]
					if len(allNames[i]) > 40 {
						class = "res/" + baseNames[bi] + "/two-fields"
					}
					out = append(out, c15entry{builder: "ResourcesHashBuilderV6", id: id, desc: fmt.Sprintf("%s addr#%d cidx=%d vary %s data=%x", baseNames[bi], ai, uint64(cidx), allNames[i], enc), class: class,
						run: func() ([]byte, error) { return ResourcesHashBuilderV6(&d, a, c, d.UpdateRound, enc) }})
				}
			}
		}
	}
	return out
}

func c15legacyUniverse() []c15entry {
	var out []c15entry
	base := basics.AccountData{MicroAlgos: basics.MicroAlgos{Raw: 1000}, RewardsBase: 2}
	singles, names := c15variants(base)
	// map-valued fields (not varied by reflection)
	withAsset := base
	withAsset.Assets = map[basics.AssetIndex]basics.AssetHolding{1: {Amount: 1}}
	withAsset2 := base
	withAsset2.Assets = map[basics.AssetIndex]basics.AssetHolding{2: {Amount: 1}}
	withAsset3 := base
	withAsset3.Assets = map[basics.AssetIndex]basics.AssetHolding{1: {Amount: 2}}
	withLocal := base
	withLocal.AppLocalStates = map[basics.AppIndex]basics.AppLocalState{1: {Schema: basics.StateSchema{NumUint: 1}}}
	singles = append(singles, withAsset, withAsset2, withAsset3, withLocal)
	names = append(names, ".Assets", ".Assets", ".Assets", ".AppLocalStates")
	all := append([]basics.AccountData{base}, singles...)
	allNames := append([]string{"base"}, names...)
	addrs := []basics.Address{c15addr(0x11, 0), c15addr(0x12, 31), c15addr(0x12, 0)}
	seen := map[string]bool{}
	for ai, addr := range addrs {
		for i := range all {
			d := all[i]
			enc := protocol.Encode(&d)
			id := fmt.Sprintf("acct5|%x|%x", addr[:], enc)
			if seen[id] {
				continue
			}
			seen[id] = true
			a := addr
			out = append(out, c15entry{builder: "AccountHashBuilder", id: id, desc: fmt.Sprintf("addr#%d vary %s data=%x", ai, allNames[i], enc), class: "acct5/field" + allNames[i],
				run: func() ([]byte, error) { return AccountHashBuilder(a, d, enc), nil }})
		}
	}
	return out
}

func TestVerif_C15_a(t *testing.T) {
	r := ve.NewRun("C15", "exploration")
	r.Assume("SHA-512/256 truncated to 31 bytes is collision free on the enumerated universes: equal builder outputs are read as equal pre-images")
	r.Assume("entries are identified by (key,value) / (address, canonical msgpack of the data) / (address, creatable index, canonical msgpack of the data)")

	groups := map[string][]c15entry{
		"kv":     c15kvUniverse(),
		"acct":   c15acctUniverse(),
		"res":    c15resUniverse(),
		"legacy": c15legacyUniverse(),
	}
	gnames := []string{"kv", "acct", "res", "legacy"}
	var v6all []*c15entry
	var pairs int64
	var mu sync.Mutex
	collisions := 0
	kvShift := 0
	builderErrors := 0

	check := func(scope string, es []*c15entry, crossOnly bool) {
		// injectivity over the universe == every unordered pair of distinct entries differs
		n := int64(len(es))
		if crossOnly {
			// only pairs of entries of different builders (same-builder pairs were counted already)
			per := map[string]int64{}
			for _, e := range es {
				per[e.builder]++
			}
			tot := n * (n - 1) / 2
			for _, c := range per {
				tot -= c * (c - 1) / 2
			}
			pairs += tot
		} else {
			pairs += n * (n - 1) / 2
		}
		byOut := map[string][]*c15entry{}
		for _, e := range es {
			if e.err != nil {
				continue
			}
			byOut[string(e.out)] = append(byOut[string(e.out)], e)
		}
		var outs []string
		for o, l := range byOut {
			if len(l) > 1 {
				outs = append(outs, o)
			}
		}
		sort.Strings(outs)
		for _, o := range outs {
			l := byOut[o]
			for i := 0; i < len(l); i++ {
				for j := i + 1; j < len(l); j++ {
					a, b := l[i], l[j]
					if a.id == b.id || (crossOnly && a.builder == b.builder) {
						continue
					}
					collisions++
					key := "C15:preimage-collision:" + a.builder
					if a.builder != b.builder {
						key = "C15:preimage-collision:cross:" + a.builder + "/" + b.builder
					}
					if a.builder == "KvHashBuilderV6" && b.builder == "KvHashBuilderV6" && a.concat == b.concat {
						key = "C15:kv-boundary-shift"
						kvShift++
					}
					r.Report(key, fmt.Sprintf("[%s] distinct trie entries share the leaf %s: {%s} and {%s}", scope, hex.EncodeToString([]byte(o)), a.desc, b.desc),
						map[string]any{"engine": "enum", "builder": a.builder, "a": a.desc, "b": b.desc})
				}
			}
		}
	}

	for _, g := range gnames {
		es := groups[g]
		r.ParallelFor(len(es), func(i int) {
			es[i].out, es[i].err = es[i].run()
			r.Eval()
		})
		ptrs := make([]*c15entry, len(es))
		for i := range es {
			ptrs[i] = &es[i]
			if es[i].err != nil {
				builderErrors++
				continue
			}
			r.Class(es[i].class)
			if len(es[i].out) != 4+32 {
				r.Report("C15:output-size:"+es[i].builder, fmt.Sprintf("builder output has %d bytes for %s", len(es[i].out), es[i].desc), nil)
			}
		}
		mu.Lock()
		check(g, ptrs, false)
		if g != "legacy" {
			v6all = append(v6all, ptrs...)
		}
		mu.Unlock()
		r.Set("entries_"+g, len(es))
	}
	// cross-builder: all V6 leaves live in one trie
	before := pairs
	check("v6-all", v6all, true)
	r.Set("pairs_cross_builder", pairs-before)
	r.Set("pairs_compared", pairs)
	r.Set("collisions_found", collisions)
	r.Set("kv_boundary_shift_collisions", kvShift)
	r.Set("builder_errors(not asset/app)", builderErrors)
	r.EvalN(int(pairs))
	for i, g := range gnames {
		es := groups[g]
		r.Sample(map[string]any{"builder": es[len(es)/2].builder, "entry": es[len(es)/2].desc, "leaf": hex.EncodeToString(es[len(es)/2].out)})
		_ = i
	}
	if kvShift == 0 {
		r.Note("no kv boundary-shift collision observed: F-KV no longer reproduces")
	}
	n := r.Finish(ve.Coverage{Rule: "all unordered pairs of distinct entries of the kv / account / resource / legacy-account universes (and all V6 entries together) through the real leaf builders; universes listed in the harness header",
		Exhaustive: true})
	if n > 0 {
		t.Fatalf("C15(a): %d violation(s)", n)
	}
}
