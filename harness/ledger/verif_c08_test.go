package ledger

// C08 — Ledger queries answer from the block history, not from flush timing.
//
// Engine E-SEQ over the LH driver (verif_c08_driver_test.go): BFS over every sequence of
//
//	block ops   u+ / u~ / u-   create / modify / delete, in one block, the "user" resources:
//	                           account C (funded / paid / closed), B's holding of asset X
//	                           (opt-in+receive / receive / close-out), B's local state of
//	                           app P (opt-in+write / write / close-out), box "k" of app P
//	                           (create / overwrite / delete)
//	            o+ / o~ / o-   create / modify / destroy the "owner" resources: a fresh asset Y
//	                           (new id each time: params + creator entry + A's holding), a
//	                           fresh app Q (params + global state + creator entry)
//	            pay            unrelated payment A->B (a round that touches none of the above)
//	control ops flush1         persist exactly one more round to the tracker DB
//	            flushMax       persist everything the configuration allows (latest-MaxAcctLookback)
//	            reload         Ledger.reloadLedger()
//
// up to depth 5 (quick) / 7 (thorough, time-capped), from two initial states (user/owner
// resources absent / present), for the cache configurations {LRU caches on, off} x
// {MaxAcctLookback 0, 2}. After EVERY step (also while replaying a prefix, so that cache
// contents are those of a client that queries all the time) the full query sweep runs:
// LookupAccount, LookupWithoutRewards, LookupAsset, LookupApplication, GetCreatorForRound,
// LookupKv for every address / creatable id / box key ever mentioned (plus never-existing
// ones) at EVERY round 0..latest+1.
//
// Oracle: a lookup that returns no error must equal R[round] (fold of the evaluator's
// StateDeltas); every round in [tracker DB round, latest] must be answered; rounds above
// latest must be refused; validThrough is within [round, latest] and the account did not
// change in between.
//
// Not covered here: the concurrent lookup-vs-commitRound window (needs E-SCHED), the
// pebbledb backend, catchpoint tracking (disabled), depth beyond the bound.
//
// Mutants (bin/mut, all must be DETECTED), see the final report for outcomes:
//  M1 lruresources.go write(): drop the update of an existing entry      (stale cache entry)
//  M2 acctupdates.go postCommit: do not write deleted/updated KVs to baseKVs
//  M3 acctupdates.go postCommit: trim au.deltas by offset-1
//  M4 acctupdates.go lookupResource: `offset == len(deltas)` shortcut taken for every round
//  (the DESIGN mutant "drop the persistedData.Round == currentDbRound re-check" is
//   equivalent in a sequential run: DB round and cached round never differ without a
//   concurrent commit; it belongs to the E-SCHED part.)

import (
	"fmt"
	"sync/atomic"
	"testing"
	"time"

	"github.com/algorand/go-algorand/data/basics"
	"github.com/algorand/go-algorand/data/transactions"
	"github.com/algorand/go-algorand/data/txntest"
	ve "github.com/algorand/go-algorand/verifeng"
)

const (
	c08OpUCreate = iota
	c08OpUModify
	c08OpUDelete
	c08OpOCreate
	c08OpOModify
	c08OpODelete
	c08OpPay
	c08OpFlush1
	c08OpFlushMax
	c08OpReload
	c08NumOps
)

var c08OpNames = []string{"u+", "u~", "u-", "o+", "o~", "o-", "pay", "flush1", "flushMax", "reload"}

type c08Variant struct {
	cfg     c08Cfg
	present bool // initial state: user+owner resources already exist
}

type c08Sys struct {
	v        c08Variant
	h        *c08LH
	asset    basics.AssetIndex // X
	app      basics.AppIndex   // P
	ownAsset basics.AssetIndex // live Y (0: none)
	ownApp   basics.AppIndex   // live Q
	bad      error
}

type c08Timers struct{ newNs, opNs, sweepNs, news, ops, sweeps atomic.Int64 }

const c08BoxName = "k"

func (s *c08Sys) userPresent() bool {
	_, ok := s.h.Cur().acct[s.h.w.C]
	return ok
}

func (s *c08Sys) blockTxns(op int) []*txntest.Txn {
	w := s.h.w
	v := c08Val(s.h.NextRound())
	switch op {
	case c08OpUCreate:
		if s.userPresent() {
			return nil
		}
		return []*txntest.Txn{
			w.txPay(w.A, w.C, 5_000_000),
			w.txAssetXfer(w.B, w.B, s.asset, 0),
			w.txAssetXfer(w.A, w.B, s.asset, 7),
			w.txAppCall(w.B, s.app, transactions.OptInOC, []byte("lset"), v),
			w.txBoxPut(w.A, s.app, c08BoxName, v),
		}
	case c08OpUModify:
		if !s.userPresent() {
			return nil
		}
		return []*txntest.Txn{
			w.txPay(w.A, w.C, 1_000_000),
			w.txAssetXfer(w.A, w.B, s.asset, 1),
			w.txAppCall(w.B, s.app, transactions.NoOpOC, []byte("lset"), v),
			w.txBoxPut(w.A, s.app, c08BoxName, v),
		}
	case c08OpUDelete:
		if !s.userPresent() {
			return nil
		}
		return []*txntest.Txn{
			w.txClose(w.C, w.A),
			w.txAssetCloseOut(w.B, w.A, s.asset),
			w.txAppCall(w.B, s.app, transactions.CloseOutOC),
			w.txBoxDel(w.A, s.app, c08BoxName),
		}
	case c08OpOCreate:
		if s.ownAsset != 0 {
			return nil
		}
		return []*txntest.Txn{w.txAssetCreate(w.A, "y"), w.txAppCreate(w.A)}
	case c08OpOModify:
		if s.ownAsset == 0 {
			return nil
		}
		reserve := w.B
		if cur := s.h.Cur().res[c08ResKey{w.A, basics.CreatableIndex(s.ownAsset), basics.AssetCreatable}]; cur.AssetParams != nil && cur.AssetParams.Reserve == w.B {
			reserve = w.A
		}
		return []*txntest.Txn{
			w.txAssetConfig(w.A, s.ownAsset, reserve),
			w.txAppCall(w.A, s.ownApp, transactions.NoOpOC, []byte("gset"), v),
		}
	case c08OpODelete:
		if s.ownAsset == 0 {
			return nil
		}
		return []*txntest.Txn{
			w.txAssetDestroy(w.A, s.ownAsset),
			w.txAppCall(w.A, s.ownApp, transactions.DeleteApplicationOC),
		}
	case c08OpPay:
		return []*txntest.Txn{w.txPay(w.A, w.B, 1000)}
	}
	return nil
}

// counter returns the id the next created asset/app will get (TxnCounter of the latest block + position).
func (s *c08Sys) nextID(pos int) uint64 {
	hdr, err := s.h.l.BlockHdr(s.h.l.Latest())
	if err != nil {
		return 0
	}
	return hdr.TxnCounter + uint64(pos)
}

func (s *c08Sys) apply(op int, tm *c08Timers) (bool, error) {
	if s.bad != nil {
		return true, s.bad
	}
	t0 := time.Now()
	var en bool
	var err error
	switch op {
	case c08OpFlush1:
		if s.h.dbRound+1 >= s.h.MaxFlush() { // == MaxFlush is flushMax
			return false, nil
		}
		en, err = s.h.Flush(s.h.dbRound + 1)
	case c08OpFlushMax:
		en, err = s.h.Flush(s.h.MaxFlush())
	case c08OpReload:
		en, err = true, s.h.Reload()
	default:
		txs := s.blockTxns(op)
		if txs == nil {
			return false, nil
		}
		id1, id2 := s.nextID(1), s.nextID(2)
		en, err = s.h.AddBlock(txs...)
		if err == nil && !en {
			return true, ve.Violationf("C08:harness", "harness: evaluator rejected the %s block although the model enabled it", c08OpNames[op])
		}
		if err == nil {
			switch op {
			case c08OpOCreate:
				s.ownAsset, s.ownApp = basics.AssetIndex(id1), basics.AppIndex(id2)
				if c, ok := s.h.Cur().creator[basics.CreatableIndex(id1)]; !ok || c.ctype != basics.AssetCreatable {
					return true, ve.Violationf("C08:harness", "harness: predicted asset id %d not created", id1)
				}
				if c, ok := s.h.Cur().creator[basics.CreatableIndex(id2)]; !ok || c.ctype != basics.AppCreatable {
					return true, ve.Violationf("C08:harness", "harness: predicted app id %d not created", id2)
				}
			case c08OpODelete:
				s.ownAsset, s.ownApp = 0, 0
			}
		}
	}
	if tm != nil {
		tm.opNs.Add(int64(time.Since(t0)))
		tm.ops.Add(1)
	}
	if err != nil || !en {
		return en, err
	}
	t1 := time.Now()
	err = s.h.Sweep()
	if tm != nil {
		tm.sweepNs.Add(int64(time.Since(t1)))
		tm.sweeps.Add(1)
	}
	return true, err
}

// c08NewSys opens a ledger and runs the setup: round 1 creates asset X and app P (both by
// A) and funds P's account (box minimum balance); in the "present" variant round 2 runs u+
// and o+. The sweep runs after each setup block as well.
func c08NewSys(w *c08World, v c08Variant, tm *c08Timers) *c08Sys {
	t0 := time.Now()
	s := &c08Sys{v: v}
	h, err := c08Open(w, v.cfg)
	if err != nil {
		s.bad = ve.Violationf("C08:harness", "harness: OpenLedger: %v", err)
		return s
	}
	s.h = h
	fail := func(f string, a ...any) *c08Sys {
		s.bad = ve.Violationf("C08:harness", "harness setup: "+f, a...)
		return s
	}
	id1, id2 := s.nextID(1), s.nextID(2)
	s.asset, s.app = basics.AssetIndex(id1), basics.AppIndex(id2)
	en, err := h.AddBlock(w.txAssetCreate(w.A, "x"), w.txAppCreate(w.A), w.txPay(w.A, s.app.Address(), 1_000_000))
	if err != nil || !en {
		return fail("setup block: enabled=%v err=%v", en, err)
	}
	if c, ok := h.Cur().creator[basics.CreatableIndex(id1)]; !ok || c.ctype != basics.AssetCreatable {
		return fail("asset id %d not created", id1)
	}
	if c, ok := h.Cur().creator[basics.CreatableIndex(id2)]; !ok || c.ctype != basics.AppCreatable {
		return fail("app id %d not created", id2)
	}
	if err := h.Sweep(); err != nil {
		s.bad = err
		return s
	}
	if v.present {
		for _, op := range []int{c08OpUCreate, c08OpOCreate} {
			if en, err := s.apply(op, nil); err != nil || !en {
				if err == nil {
					err = fmt.Errorf("op %s not enabled", c08OpNames[op])
				}
				s.bad = err
				return s
			}
		}
	}
	if tm != nil {
		tm.newNs.Add(int64(time.Since(t0)))
		tm.news.Add(1)
	}
	return s
}

func (s *c08Sys) key() string {
	if s.bad != nil {
		return "bad:" + s.bad.Error()
	}
	return fmt.Sprintf("%s/%v/%d/%d/%s", s.v.cfg.Name, s.v.present, s.ownAsset, s.ownApp, s.h.Key())
}

func TestVerif_C08(t *testing.T) {
	r := ve.NewRun("C08", "model_checking")
	w, err := c08MakeWorld(nil)
	if err != nil {
		t.Fatalf("harness: %v", err)
	}
	cfgs := []c08Cfg{
		{Name: "lru-lb0", Lookback: 0, NoCache: false},
		{Name: "lru-lb2", Lookback: 2, NoCache: false},
		{Name: "nolru-lb0", Lookback: 0, NoCache: true},
		{Name: "nolru-lb2", Lookback: 2, NoCache: true},
	}
	depth := ve.Pick(5, 7)
	var cov ve.Coverage
	cov.Exhaustive = true
	var tm c08Timers
	var queries atomic.Int64
	for _, present := range []bool{false, true} {
		for _, cfg := range cfgs {
			v := c08Variant{cfg: cfg, present: present}
			name := fmt.Sprintf("ledger/%s/%s", cfg.Name, map[bool]string{false: "absent", true: "present"}[present])
			q := &ve.Seq[*c08Sys]{
				Name:   name,
				NumOps: c08NumOps,
				OpName: func(op int) string { return c08OpNames[op] },
				New:    func() *c08Sys { return c08NewSys(w, v, &tm) },
				Close: func(s *c08Sys) {
					if s.h != nil {
						queries.Add(s.h.queries)
						s.h.Close()
					}
				},
				Apply: func(s *c08Sys, op int) (bool, error) { return s.apply(op, &tm) },
				Key:   func(s *c08Sys) string { return s.key() },
				Observe: func(s *c08Sys) string {
					if s.h == nil {
						return "bad"
					}
					return fmt.Sprintf("latest%d-db%d-u%v-o%v", s.h.Latest(), s.h.dbRound, s.userPresent(), s.ownAsset != 0)
				},
				MaxDepth: depth,
			}
			res := q.Explore(r)
			cov.AddSeq(res)
			if !res.Exhaustive {
				cov.Exhaustive = false
			}
			if r.Violations() > 0 || r.WasCapped() {
				break
			}
		}
		if r.Violations() > 0 || r.WasCapped() {
			break
		}
	}
	ms := func(ns, n int64) float64 {
		if n == 0 {
			return 0
		}
		return float64(ns) / float64(n) / 1e6
	}
	r.Set("lookups_compared", queries.Load())
	r.Note("timing (not part of the verdict): new+setup %.2f ms x %d, op %.2f ms x %d, sweep %.2f ms x %d",
		ms(tm.newNs.Load(), tm.news.Load()), tm.news.Load(), ms(tm.opNs.Load(), tm.ops.Load()), tm.ops.Load(), ms(tm.sweepNs.Load(), tm.sweeps.Load()), tm.sweeps.Load())
	cov.Rule = fmt.Sprintf("BFS over all sequences (depth <= %d) of 7 block patterns (create/modify/delete user resources: account, asset holding, app local state, box; create/modify/destroy owner resources: asset params, app params, creators; unrelated payment), flush-one-round, flush-max, reloadLedger; x {LRU on,off} x {MaxAcctLookback 0,2} x {resources initially absent, present}; after every step every account/asset/app/creator/kv lookup for every known address/id/key at every round 0..latest+1 is compared with the fold of the evaluator's deltas", depth)
	r.Assume("reference state = fold of the StateDelta returned by the real BlockEvaluator (evaluator correctness is C18-C24)")
	r.Assume("tracker flushes are executed synchronously through trackerRegistry.produceCommittingTask + commitRound; the time-based flush heuristic is disabled; concurrent lookup-vs-commit interleavings are NOT covered (E-SCHED)")
	r.Assume("SQLite in-memory backend; catchpoint tracking disabled; private consensus version verif-ldg-c08 (vFuture, MaxTxnLife 4, payouts off)")
	if r.Finish(cov) > 0 {
		t.Fatal("violations")
	}
}
