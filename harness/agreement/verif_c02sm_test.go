package agreement

// C02 part (i) - Honest nodes never equivocate, even across crashes: state-machine level.
// (Part (ii), the real agreement.Service with its pseudonode / persistence loop / crash database, is a
// separate check part written elsewhere; THIS part cannot see a change in actions.go / pseudonode.go /
// service.go that releases a vote early, because the node shell re-implements that glue.)
//
// Engine E-AGR (common_eagr_*_test.go), lock-step explorer with the loopback queue NOT atomic: after an
// attest action the shell takes the encode() snapshot (as Service.persistState does), then "persist"
// (disk write + checkpointEvent) and the release of each vote are separate schedulable steps, so a
// crash can fall before the snapshot reaches the disk, after it but before any vote is released, and
// after the release. Crash-restart = the two branches of Service.mainLoop (decode(disk) if its round
// is current, else a fresh player at ledger.NextRound()), followed by the re-execution of the restored
// pending actions with Service.persistRouter/persistStatus/persistActions still zero, as in the code.
// Enumerated: 3 honest nodes (threshold 2 of 3), 3 proposers or 1, one round, periods <= 1: ALL
// executions with <= 2 crash-restarts placed at every decision point of the synchronous schedule
// (quick: total <= 2 deviations for 3 proposers, <= 3 for 1 proposer; further deviation kinds: one
// lost message, one message held back past a timeout).
// crashlose-2rounds (two rounds): a crash-restart in which the node's ledger lost its last block (crash
// database one round ahead of the ledger); the block comes back through catch-up at any later decision
// point. Whether Service.mainLoop keeps a restored state that is ahead of the ledger is PROBED on the real
// mainLoop with a ledger one round behind (same probe as below), so seeded change C02-A (`!=` instead of
// `<` in that decision) is DETECTED: the node re-runs an already voted round.
// Oracle (ghost state per account that survives restarts, part of the canonical state): the votes
// released through the loopback by an account contain at most one value per (round, period, step),
// proposal-votes included. A panic inside submitTop is a violation.
//
// FINDING (genuine; reproduced with the real Service by the plain unit test in
// /verif/findings/C02-restart-overwrites-crash-state/; fixed in /repo by 78a4db2146): after a restart
// the replay of a restored attest action overwrote the crash database with an EMPTY state, because
// Service.mainLoop did not initialise persistRouter/persistStatus/persistActions on its restore path; a
// second crash then started a fresh player that voted again in a slot it had already voted in (key
// C02:equivocation-after-restart:crash-state-overwritten-by-restart; every other equivocation has the
// key ...:other). Whether the restore path initialises those fields is not assumed by the shell but
// PROBED at the start of every run on the real Service.mainLoop (eagrProbeRestorePath: the real
// mainLoop is run on an in-memory crash database holding a snapshot with a pending attest, and
// Service.persistStatus / persistActions are inspected); the shell then mirrors what the real code
// does, so reverting the fix makes this check fail again.
//
// Mutants (bin/mut C02, quick tier, on the fixed tree; all three fail TestVerif_C02_statemachine):
//   DETECTED  service.go: the three assignments of fix 78a4db2146 removed (the finding itself; seen through the probe).
//   DETECTED  actions.go pseudonodeAction.persistent() returns false for attest (the shell uses the real
//             persistent(): the snapshot is then the pre-vote/empty state): honest accounts re-vote after ONE
//             crash; shows as the contract panic "more than value reached a threshold" in voteTracker.
//   DETECTED  msgp_gen.go player "Round" not restored: equivocation after one crash-restart (key ...:other).

import (
	"fmt"
	"strings"
	"testing"

	ve "github.com/algorand/go-algorand/verifeng"
)

func c02Configs(scale int) []*eagrBFS {
	cap := []int64{400000, 4000000}[scale]
	mk := func(name string, proposers []bool, budget eagrDevs, total int) *eagrBFS {
		b := eagrHonest3(name, proposers, nil, 1, 1).lock(budget, total, cap)
		b.cfg.atomicLoop = false // persist / vote release are separate steps: a crash can fall between them
		b.cfg.trackVotes = true
		return b
	}
	mk2 := func(name string, proposers []bool, budget eagrDevs, total int) *eagrBFS {
		b := eagrHonest3(name, proposers, nil, 2, 1).lock(budget, total, cap)
		b.cfg.atomicLoop = false
		b.cfg.trackVotes = true
		return b
	}
	return []*eagrBFS{
		// crash-focused: up to 2 crash-restarts at every position, then at most 1 further deviation
		mk("crash2-3prop", nil, eagrBudget(1, 1, 0, 2, 0, 0, 0), 2+scale),
		mk("crash2-1prop", []bool{true, false, false}, eagrBudget(1, 1, 0, 2, 0, 0, 0), 3),
		// two rounds: a crash in which the node's ledger loses its last block (crash DB one round ahead
		// of the ledger); the block comes back through catch-up at any later decision point
		mk2("crashlose-2rounds", nil, eagrBudget(0, 0, 0, 1, 0, 0, 0).with(eagrDevCrashLose, 1), 1+scale),
	}
}

func TestVerif_C02_statemachine(t *testing.T) {
	eagrRunCheck(t, &eagrCheck{
		id: "C02", level: "fault_enumeration",
		configs: c02Configs(ve.Pick(0, 1)),
		oracle: func(r *ve.Run, b *eagrBFS, pre *eagrSys, e eagrEv, post *eagrSys, out *eagrOut, path func() []eagrEv) {
			if out.panicMsg != "" {
				r.Report("C02:panic", fmt.Sprintf("[%s] after %v: %s", b.name, e, out.panicMsg), eagrReplayOf(b, path))
				return
			}
			for _, m := range out.equivoc {
				cls, msg, _ := strings.Cut(m, "|")
				r.Report("C02:equivocation-after-restart:"+cls, fmt.Sprintf("[%s] after %v: %s", b.name, e, msg), eagrReplayOf(b, path))
			}
			for _, uv := range out.released {
				r.Class(fmt.Sprintf("%s/released/p%d/s%d", b.name, uv.R.Period, uv.R.Step))
			}
		},
		rule: "Real player+rootRouter of 3 honest nodes; loopback (persist, vote release) as separate steps; every execution with <=2 crash-restarts at every decision point (+<=1 lost/late message); per account the votes released before and after restarts hold at most one value per (round, period, step).",
		assume: []string{
			"part (i) only: the node shell re-implements Service.do / pseudonode / persistState / mainLoop restore; part (ii) (real Service) is a separate part of this check",
			"crash = loss of all volatile state at a decision point; the disk holds the last snapshot whose persist step was executed (no torn writes)",
		},
	})
}
