package ledger

// C18 — Blocks neither create nor destroy Algos.
//
// Engine E-SEQ (explicit-state BFS, replay successors) over the REAL Ledger + BlockEvaluator.
//
// System under exploration: an in-memory Ledger (genesis: 4 funded accounts A0..A3, one of
// them online + incentive eligible, one unfunded address A4, fee sink, rewards pool sized so
// that the rewards level moves every round with a non-zero residue) plus a fixed set-up block
// (asset, two "inner" apps that can issue inner pay / inner close / inner app call, funded app
// accounts, an asset opt-in). Several scenarios: payouts with bonus (vFuture), payouts with
// bonus 0 (private consensus version), payouts disabled (v39).
//
// Alphabet (ops), simplest first:
//   group ops  — one transaction group handed to TestTransactionGroup+TransactionGroup:
//                pay {0, 1, min-balance, all-but-fee}, pay to the online account, close-to
//                {other, self, fee sink, unfunded address}, close of the online account, pay
//                to rewards pool / fee sink, pay FROM the fee sink, asset transfer / opt-out /
//                create, app noop / create / delete, app call issuing inner pay (fee covered
//                by the caller or paid by the app account), inner close of the app account,
//                inner app call issuing an inner pay (depth 2), keyreg online with the 2A
//                incentive fee / offline / non-participating, heartbeat, fee-pooled groups
//                (fee 0 member), a group whose second member spends from the account created
//                by the first, a re-fund + close group; fees in {min, 2*min, 3*min, 0 pooled}.
//   end-block  — GenerateBlock, then the agreement stand-in picks (proposer, eligible) from
//                {online eligible, online but ineligible, offline account, possibly
//                closed/unfunded address, fee sink}, Validate (which performs the payout) and
//                AddValidatedBlock.
// Bound: <= G groups per block, <= B consecutive blocks, <= T groups in the whole history
// (quick G=2,B=2,T=2; thorough G=3,B=3,T=3). A rejected group is "not enabled" (skipped).
//
// Oracle (written from the property statement; arithmetic in math/big, independent of
// AccountTotals / WithUpdatedRewards):
//   money(a, L) = balance + [status != NotParticipating] * floor(balance/unit) * (L - rewardsBase)
//   (1) after every ACCEPTED group: the sum over the accounts in the group's delta of
//       money(new, L) - money(old, L) is 0 (L = the block's rewards level; "old" is the harness'
//       own running view; the pool's "old" value at block start is prevPool - units*(L-Lprev)
//       computed by the harness from its own sweep);
//   (2) after GenerateBlock and after Validate (payout applied): the sum of money(.,L) over
//       EVERY account that ever existed (genesis + every address that ever appeared in a
//       delta + app accounts), taking modified accounts from the delta and the others from
//       the ledger at the previous round, equals the genesis total; the delta's Totals.All()
//       as well; accounts modified by a group have in the block delta exactly the value of the
//       last accepted group touching them (except proposer / end-of-block bookkeeping);
//   (3) after AddValidatedBlock: the same sweep through Ledger.LookupWithoutRewards at the
//       new round equals the genesis total, and Ledger.Totals(rnd).All() and its RewardUnits
//       agree with the sweep.
// A block assembled from accepted groups that the evaluator itself refuses because its
// internal money check fires ("sum of money changed", overflow of totals) is a violation
// too; a block refused only because the chosen proposer is a closed account that would get
// a payout is "not enabled" (agreement would never mark such a proposer eligible).
//
// Not covered: state-proof transactions, protocol upgrades in the middle of a history,
// signatures (blocks are validated with the mocked signature cache as in the upstream
// ledger tests), balances near 2^64, the testnet hot-fix rounds.
//
// Mutants shown DETECTED (see report): payment close crediting the close-to account with the
// fee out of thin air; Move dropping the sender's just-claimed pending rewards; payout credited
// without debiting the fee sink; rewards withdrawn from the pool for online units only.

import (
	"fmt"
	"math/big"
	"os"
	"sort"
	"strings"
	"sync/atomic"
	"testing"

	"github.com/algorand/go-algorand/agreement"
	"github.com/algorand/go-algorand/config"
	"github.com/algorand/go-algorand/crypto"
	"github.com/algorand/go-algorand/crypto/merklesignature"
	"github.com/algorand/go-algorand/data/basics"
	"github.com/algorand/go-algorand/data/bookkeeping"
	"github.com/algorand/go-algorand/data/committee"
	"github.com/algorand/go-algorand/data/transactions"
	"github.com/algorand/go-algorand/data/transactions/logic"
	"github.com/algorand/go-algorand/data/txntest"
	"github.com/algorand/go-algorand/ledger/eval"
	"github.com/algorand/go-algorand/ledger/ledgercore"
	"github.com/algorand/go-algorand/logging"
	"github.com/algorand/go-algorand/protocol"
	ve "github.com/algorand/go-algorand/verifeng"
)

var c18ledgerSeq atomic.Uint64

// c18tracer captures, through the exported EvalTracer interface, the header of the block
// under construction and the account delta of every top-level group.
type c18tracer struct {
	logic.NullEvalTracer
	hdr      bookkeeping.BlockHeader
	haveHdr  bool
	lastOK   bool
	lastAcct []ledgercore.BalanceRecord
}

func (tr *c18tracer) BeforeBlock(hdr *bookkeeping.BlockHeader) {
	tr.hdr = *hdr
	tr.haveHdr = true
}

func (tr *c18tracer) DetailedEvalErrors() bool { return true }

func (tr *c18tracer) AfterTxnGroup(ep *logic.EvalParams, deltas *ledgercore.StateDelta, evalError error) {
	if deltas == nil { // inner group
		return
	}
	tr.lastOK = evalError == nil
	tr.lastAcct = tr.lastAcct[:0]
	for i := 0; i < deltas.Accts.Len(); i++ {
		addr, data := deltas.Accts.GetByIdx(i)
		tr.lastAcct = append(tr.lastAcct, ledgercore.BalanceRecord{Addr: addr, AccountData: data})
	}
}

type c18scenario struct {
	name string
	cv   protocol.ConsensusVersion
}

type c18bounds struct {
	perBlock, blocks, total int
}

type c18sys struct {
	t     *testing.T
	sc    c18scenario
	bd    c18bounds
	proto config.ConsensusParams
	l     *Ledger
	ev    *eval.BlockEvaluator
	tr    *c18tracer

	a          [5]basics.Address
	sink, pool basics.Address
	asset      basics.AssetIndex
	appA, appB basics.AppIndex

	known   map[basics.Address]bool
	view    map[basics.Address]ledgercore.AccountData // accounts modified by accepted groups of the open block (+ pool)
	total   *big.Int                                   // the invariant: genesis total
	level   uint64                                     // rewards level of the open block
	pending []string                                   // txids of the open block (state key)

	groupsInBlock, blocks, totalGroups int
	rejected                           *atomic.Int64
	harnessErr                         error
}

func c18addr(tag byte) basics.Address {
	var a basics.Address
	a[0] = 0xC1
	a[1] = 0x80 | tag
	a[31] = tag
	return a
}

// money(a, L) from the property statement.
func c18money(ad ledgercore.AccountData, unit, level uint64) *big.Int {
	m := new(big.Int).SetUint64(ad.MicroAlgos.Raw)
	if ad.Status != basics.NotParticipating && level > ad.RewardsBase {
		units := new(big.Int).SetUint64(ad.MicroAlgos.Raw / unit)
		d := new(big.Int).SetUint64(level - ad.RewardsBase)
		m.Add(m, units.Mul(units, d))
	}
	return m
}

const c18innerSource = `
	txn ApplicationArgs 0; byte "noop"; ==; bnz end
	txn ApplicationArgs 0; byte "pay"; ==; bz notpay
	  itxn_begin
	  int pay; itxn_field TypeEnum
	  txn Accounts 1; itxn_field Receiver
	  txn ApplicationArgs 1; btoi; itxn_field Amount
	  itxn_submit
	  b end
	notpay:
	txn ApplicationArgs 0; byte "close"; ==; bz notclose
	  itxn_begin
	  int pay; itxn_field TypeEnum
	  txn Accounts 1; itxn_field CloseRemainderTo
	  itxn_submit
	  b end
	notclose:
	txn ApplicationArgs 0; byte "call"; ==; bz bad
	  itxn_begin
	  int appl; itxn_field TypeEnum
	  txn Applications 1; itxn_field ApplicationID
	  byte "pay"; itxn_field ApplicationArgs
	  txn ApplicationArgs 1; itxn_field ApplicationArgs
	  txn Accounts 1; itxn_field Accounts
	  itxn_submit
	  b end
	bad:
	  err
`

func c18genesis(cv protocol.ConsensusVersion) (bookkeeping.GenesisBalances, [5]basics.Address) {
	var a [5]basics.Address
	for i := range a {
		a[i] = c18addr(byte(i))
	}
	sink := c18addr(0x10)
	pool := c18addr(0x11)
	accts := map[basics.Address]basics.AccountData{
		a[0]: {MicroAlgos: basics.MicroAlgos{Raw: 50_000_123}, Status: basics.Offline},
		a[1]: {MicroAlgos: basics.MicroAlgos{Raw: 5_300_000}, Status: basics.Offline},
		a[2]: {MicroAlgos: basics.MicroAlgos{Raw: 1_204_000}, Status: basics.Offline},
		a[3]: {MicroAlgos: basics.MicroAlgos{Raw: 7_700_777}, Status: basics.Online, IncentiveEligible: true,
			VoteID: crypto.OneTimeSignatureVerifier{0x31}, SelectionID: crypto.VRFVerifier{0x32}, StateProofID: merklesignature.Commitment{0x33},
			VoteFirstValid: 0, VoteLastValid: 1_000_000, VoteKeyDilution: 1000},
		// fee sink small enough that a few 10-Algo bonuses drain it down to its minimum balance
		sink: {MicroAlgos: basics.MicroAlgos{Raw: 23_400_000}, Status: basics.NotParticipating},
		// rate = (pool - minbalance)/500000 = 137 per round over ~64 reward units: level +2/round, residue != 0
		pool: {MicroAlgos: basics.MicroAlgos{Raw: 100_000 + 137*500_000 + 4321}, Status: basics.NotParticipating},
	}
	return bookkeeping.MakeTimestampedGenesisBalances(accts, sink, pool, 1_700_000_000), a
}

func c18new(t *testing.T, sc c18scenario, bd c18bounds, rejected *atomic.Int64) *c18sys {
	s := &c18sys{t: t, sc: sc, bd: bd, proto: config.Consensus[sc.cv], rejected: rejected,
		known: map[basics.Address]bool{}, view: map[basics.Address]ledgercore.AccountData{}}
	gen, a := c18genesis(sc.cv)
	s.a, s.sink, s.pool = a, gen.FeeSink, gen.RewardsPool
	var genHash crypto.Digest
	copy(genHash[:], "verif-c18-genesis-hash-000000000")
	genBlock, err := bookkeeping.MakeGenesisBlock(sc.cv, gen, "verif-c18", genHash)
	if err != nil {
		s.harnessErr = err
		return s
	}
	cfg := config.GetDefaultLocal()
	cfg.Archival = true
	name := fmt.Sprintf("verif-c18-%d-%d", os.Getpid(), c18ledgerSeq.Add(1))
	l, err := OpenLedger(logging.Base(), name, true, ledgercore.InitState{Block: genBlock, Accounts: gen.Balances, GenesisHash: genHash}, cfg)
	if err != nil {
		s.harnessErr = err
		return s
	}
	s.l = l
	for addr := range gen.Balances {
		s.known[addr] = true
	}
	s.known[a[4]] = true
	// the invariant total: the genesis sum (level 0)
	s.total = new(big.Int)
	for _, ad := range gen.Balances {
		s.total.Add(s.total, new(big.Int).SetUint64(ad.MicroAlgos.Raw))
	}
	if err := s.startBlock(); err != nil {
		s.harnessErr = err
		return s
	}
	if err := s.setup(); err != nil && s.harnessErr == nil {
		s.harnessErr = fmt.Errorf("setup: %w", err)
	}
	if s.harnessErr != nil {
		c18harnessFail(s.harnessErr)
	}
	return s
}

func (s *c18sys) close() {
	if s.l != nil {
		s.l.Close()
		s.l = nil
	}
}

// cur returns the harness' current view of an account inside the open block.
func (s *c18sys) cur(addr basics.Address) ledgercore.AccountData {
	if ad, ok := s.view[addr]; ok {
		return ad
	}
	ad, _, err := s.l.LookupWithoutRewards(s.l.Latest(), addr)
	if err != nil {
		s.harnessErr = fmt.Errorf("lookup %v: %w", addr, err)
	}
	return ad
}

func (s *c18sys) curMoney(addr basics.Address) uint64 {
	return c18money(s.cur(addr), s.proto.RewardUnit, s.level).Uint64()
}

func (s *c18sys) knownSorted() []basics.Address {
	out := make([]basics.Address, 0, len(s.known))
	for a := range s.known {
		out = append(out, a)
	}
	sort.Slice(out, func(i, j int) bool { return string(out[i][:]) < string(out[j][:]) })
	return out
}

// startBlock opens the next evaluator and primes the harness' model of the rewards pool.
func (s *c18sys) startBlock() error {
	rnd := s.l.Latest()
	hdr, err := s.l.BlockHdr(rnd)
	if err != nil {
		return err
	}
	// harness' own count of reward units and of the pool at the previous round
	units := new(big.Int)
	for _, a := range s.knownSorted() {
		ad, _, err := s.l.LookupWithoutRewards(rnd, a)
		if err != nil {
			return err
		}
		if ad.Status != basics.NotParticipating {
			units.Add(units, new(big.Int).SetUint64(ad.MicroAlgos.Raw/s.proto.RewardUnit))
		}
	}
	poolPrev, _, err := s.l.LookupWithoutRewards(rnd, s.pool)
	if err != nil {
		return err
	}
	nextHdr := bookkeeping.MakeBlock(hdr).BlockHeader
	nextHdr.TimeStamp = hdr.TimeStamp + 1
	s.tr = &c18tracer{}
	ev, err := eval.StartEvaluator(s.l, nextHdr, eval.EvaluatorOptions{Generate: true, Validate: true, Tracer: s.tr})
	if err != nil {
		return err
	}
	if !s.tr.haveHdr {
		return fmt.Errorf("tracer did not see the block header")
	}
	s.ev = ev
	s.level = s.tr.hdr.RewardsLevel
	s.view = map[basics.Address]ledgercore.AccountData{}
	s.pending = nil
	s.groupsInBlock = 0
	if s.level < hdr.RewardsLevel {
		return ve.Violationf("C18:level-decreased", "rewards level went from %d to %d", hdr.RewardsLevel, s.level)
	}
	// pool after withdrawal, per the property: exactly what the accounts gain in pending rewards
	w := new(big.Int).Mul(units, new(big.Int).SetUint64(s.level-hdr.RewardsLevel))
	pm := c18money(poolPrev, s.proto.RewardUnit, s.level)
	pm.Sub(pm, w)
	if pm.Sign() < 0 || !pm.IsUint64() {
		return fmt.Errorf("pool model underflow")
	}
	pn := poolPrev
	if pn.Status != basics.NotParticipating {
		pn.RewardsBase = s.level
	}
	pn.MicroAlgos.Raw = pm.Uint64()
	s.view[s.pool] = pn
	return nil
}

func c18feeRaw(f any) uint64 {
	switch v := f.(type) {
	case basics.MicroAlgos:
		return v.Raw
	case uint64:
		return v
	case int:
		return uint64(v)
	}
	return 0
}

type c18fee int

const (
	c18feeMin c18fee = iota
	c18feeX2
	c18feeX3
	c18feePoolFirst // all fees on the first member, 0 on the others
	c18feePoolLast
)

// group submits one group; accepted=false means the evaluator refused it.
func (s *c18sys) group(fee c18fee, txs ...*txntest.Txn) (accepted bool, err error) {
	if s.harnessErr != nil {
		return false, nil
	}
	for i, tx := range txs {
		if tx.Note == nil {
			tx.Note = fmt.Sprintf("b%d.g%d.t%d", s.blocks, s.groupsInBlock, i)
		}
		fillDefaults(s.t, s.l, s.ev, tx)
	}
	var sum uint64
	for _, tx := range txs {
		f := c18feeRaw(tx.Fee)
		switch fee {
		case c18feeX2:
			tx.Fee = basics.MicroAlgos{Raw: 2 * f}
		case c18feeX3:
			tx.Fee = basics.MicroAlgos{Raw: 3 * f}
		}
		sum += f
	}
	if fee == c18feePoolFirst || fee == c18feePoolLast {
		for i, tx := range txs {
			tx.Fee = basics.MicroAlgos{}
			if (fee == c18feePoolFirst && i == 0) || (fee == c18feePoolLast && i == len(txs)-1) {
				tx.Fee = basics.MicroAlgos{Raw: sum}
			}
		}
	}
	var stxns []transactions.SignedTxn
	if len(txs) == 1 {
		stxns = []transactions.SignedTxn{txs[0].SignedTxn()}
	} else {
		stxns = txntest.Group(txs...)
	}
	s.tr.lastOK = false
	s.tr.lastAcct = s.tr.lastAcct[:0]
	if e := s.ev.TestTransactionGroup(stxns); e != nil {
		return false, nil
	}
	if e := s.ev.TransactionGroup(transactions.WrapSignedTxnsWithAD(stxns)...); e != nil {
		if strings.Contains(e.Error(), "panic") {
			return false, ve.Violationf("C18:panic", "evaluator panicked: %v", e)
		}
		return false, nil
	}
	if !s.tr.lastOK {
		return false, fmt.Errorf("harness: tracer did not observe the accepted group")
	}
	// oracle (1)
	unit := s.proto.RewardUnit
	diff := new(big.Int)
	var detail []string
	for _, br := range s.tr.lastAcct {
		old := s.cur(br.Addr)
		mo, mn := c18money(old, unit, s.level), c18money(br.AccountData, unit, s.level)
		diff.Add(diff, mn).Sub(diff, mo)
		detail = append(detail, fmt.Sprintf("%s: %v -> %v", c18short(s, br.Addr), mo, mn))
	}
	for _, br := range s.tr.lastAcct {
		s.view[br.Addr] = br.AccountData
		s.known[br.Addr] = true
	}
	for _, st := range stxns {
		s.pending = append(s.pending, st.ID().String())
	}
	if diff.Sign() != 0 {
		return true, ve.Violationf("C18:group-sum", "accepted group changed the sum of balances (pending rewards at level %d included) by %v: %s", s.level, diff, strings.Join(detail, "; "))
	}
	s.groupsInBlock++
	s.totalGroups++
	return true, nil
}

func c18short(s *c18sys, a basics.Address) string {
	for i, x := range s.a {
		if x == a {
			return fmt.Sprintf("A%d", i)
		}
	}
	switch a {
	case s.sink:
		return "sink"
	case s.pool:
		return "pool"
	case s.appA.Address():
		return "appA"
	case s.appB.Address():
		return "appB"
	}
	return a.String()[:8]
}

// sweepDelta: sum over every known account, taking modified ones from the delta.
func (s *c18sys) sweepDelta(d *ledgercore.StateDelta, prevRnd basics.Round) (*big.Int, error) {
	for i := 0; i < d.Accts.Len(); i++ {
		addr, _ := d.Accts.GetByIdx(i)
		s.known[addr] = true
	}
	sum := new(big.Int)
	for _, a := range s.knownSorted() {
		ad, ok := d.Accts.GetData(a)
		if !ok {
			var err error
			ad, _, err = s.l.LookupWithoutRewards(prevRnd, a)
			if err != nil {
				return nil, err
			}
		}
		sum.Add(sum, c18money(ad, s.proto.RewardUnit, s.level))
	}
	return sum, nil
}

// endBlock: generate, let the agreement stand-in choose (proposer, eligible), validate, add.
func (s *c18sys) endBlock(proposer basics.Address, eligible bool) (enabled bool, err error) {
	if s.harnessErr != nil {
		return false, nil
	}
	prevRnd := s.l.Latest()
	ub, gerr := s.ev.GenerateBlock(nil)
	if gerr != nil {
		return true, c18blockErr("GenerateBlock", gerr)
	}
	gd := ub.UnfinishedDeltas()
	if blk := ub.UnfinishedBlock(); blk.RewardsLevel != s.level {
		return true, fmt.Errorf("harness: level mismatch %d vs %d", blk.RewardsLevel, s.level)
	}
	// oracle (2a): generated delta
	sum, serr := s.sweepDelta(&gd, prevRnd)
	if serr != nil {
		return true, serr
	}
	if sum.Cmp(s.total) != 0 {
		return true, ve.Violationf("C18:block-sum", "generated block %d: sum over all accounts %v != genesis total %v", prevRnd+1, sum, s.total)
	}
	for addr, want := range s.view {
		got, ok := gd.Accts.GetData(addr)
		if !ok {
			return true, ve.Violationf("C18:block-delta-missing", "account %s modified by an accepted group (or the pool) is absent from the block delta", c18short(s, addr))
		}
		if got.MicroAlgos != want.MicroAlgos || got.RewardsBase != want.RewardsBase || got.Status != want.Status {
			return true, ve.Violationf("C18:block-delta-differs", "account %s: block delta has %d/base %d/status %v, the last accepted group left %d/base %d/status %v",
				c18short(s, addr), got.MicroAlgos.Raw, got.RewardsBase, got.Status, want.MicroAlgos.Raw, want.RewardsBase, want.Status)
		}
	}
	blk := ub.UnfinishedBlock()
	if s.proto.Payouts.Enabled {
		blk = blk.WithProposer(committee.Seed(proposer), proposer, eligible)
	} else {
		blk = blk.WithProposer(committee.Seed(proposer), basics.Address{}, false)
	}
	vb, verr := validateWithoutSignatures(s.t, s.l, blk)
	if verr != nil {
		if strings.Contains(verr.Error(), "is closed but expects payout") {
			return false, nil // agreement would not have marked a closed account eligible
		}
		return true, c18blockErr("Validate", verr)
	}
	vd := vb.Delta()
	sum, serr = s.sweepDelta(&vd, prevRnd)
	if serr != nil {
		return true, serr
	}
	if sum.Cmp(s.total) != 0 {
		return true, ve.Violationf("C18:block-sum", "validated block %d (proposer %s eligible=%v payout %d): sum over all accounts %v != genesis total %v",
			prevRnd+1, c18short(s, proposer), eligible, vb.Block().ProposerPayout().Raw, sum, s.total)
	}
	if all := vd.Totals.All(); new(big.Int).SetUint64(all.Raw).Cmp(s.total) != 0 {
		return true, ve.Violationf("C18:delta-totals", "validated block %d: delta Totals.All()=%d != genesis total %v", prevRnd+1, all.Raw, s.total)
	}
	if err := s.l.AddValidatedBlock(*vb, agreement.Certificate{}); err != nil {
		return true, fmt.Errorf("harness: AddValidatedBlock: %w", err)
	}
	s.l.WaitForCommit(s.l.Latest())
	// oracle (3): the committed ledger
	rnd := s.l.Latest()
	sum = new(big.Int)
	units := uint64(0)
	for _, a := range s.knownSorted() {
		ad, _, err := s.l.LookupWithoutRewards(rnd, a)
		if err != nil {
			return true, err
		}
		sum.Add(sum, c18money(ad, s.proto.RewardUnit, s.level))
		if ad.Status != basics.NotParticipating {
			units += ad.MicroAlgos.Raw / s.proto.RewardUnit
		}
	}
	if sum.Cmp(s.total) != 0 {
		return true, ve.Violationf("C18:ledger-sum", "after block %d: sum over all accounts in the ledger %v != genesis total %v", rnd, sum, s.total)
	}
	tot, err := s.l.Totals(rnd)
	if err != nil {
		return true, err
	}
	if all := tot.All(); new(big.Int).SetUint64(all.Raw).Cmp(s.total) != 0 || tot.RewardsLevel != s.level {
		return true, ve.Violationf("C18:ledger-totals", "after block %d: Ledger.Totals All()=%d level %d, expected %v level %d", rnd, all.Raw, tot.RewardsLevel, s.total, s.level)
	}
	if tot.RewardUnits() != units {
		return true, ve.Violationf("C18:ledger-units", "after block %d: Ledger.Totals reward units %d, sweep says %d", rnd, tot.RewardUnits(), units)
	}
	s.blocks++
	if err := s.startBlock(); err != nil {
		return true, err
	}
	return true, nil
}

func c18blockErr(stage string, err error) error {
	msg := err.Error()
	if strings.Contains(msg, "sum of money changed") || strings.Contains(msg, "overflowed totals") || strings.Contains(msg, "overflow") {
		return ve.Violationf("C18:evaluator-money-check", "%s of a block built from accepted groups failed the evaluator's own conservation check: %v", stage, err)
	}
	if strings.Contains(msg, "panic") {
		return ve.Violationf("C18:panic", "%s panicked: %v", stage, err)
	}
	return fmt.Errorf("harness: unexpected %s error: %w", stage, err)
}

// setup: one fixed block creating the asset and the apps.
func (s *c18sys) setup() error {
	must := func(name string, fee c18fee, txs ...*txntest.Txn) error {
		ok, err := s.group(fee, txs...)
		if err != nil {
			return fmt.Errorf("%s: %w", name, err)
		}
		if !ok {
			return fmt.Errorf("%s: rejected", name)
		}
		return nil
	}
	a := s.a
	if err := must("asset", c18feeMin, &txntest.Txn{Type: "acfg", Sender: a[0], AssetParams: basics.AssetParams{Total: 1000, UnitName: "x", Manager: a[0]}}); err != nil {
		return err
	}
	s.asset = basics.AssetIndex(s.ev.TestingTxnCounter())
	if err := must("appA", c18feeMin, &txntest.Txn{Type: "appl", Sender: a[0], ApprovalProgram: main(c18innerSource), Note: "A"}); err != nil {
		return err
	}
	s.appA = basics.AppIndex(s.ev.TestingTxnCounter())
	if err := must("appB", c18feeMin, &txntest.Txn{Type: "appl", Sender: a[0], ApprovalProgram: main(c18innerSource), Note: "B"}); err != nil {
		return err
	}
	s.appB = basics.AppIndex(s.ev.TestingTxnCounter())
	s.known[s.appA.Address()] = true
	s.known[s.appB.Address()] = true
	if err := must("fund", c18feeMin,
		&txntest.Txn{Type: "pay", Sender: a[0], Receiver: s.appA.Address(), Amount: 1_300_000},
		&txntest.Txn{Type: "pay", Sender: a[0], Receiver: s.appB.Address(), Amount: 600_000},
		&txntest.Txn{Type: "axfer", Sender: a[1], AssetReceiver: a[1], XferAsset: s.asset}); err != nil {
		return err
	}
	en, err := s.endBlock(s.sink, true)
	if err != nil {
		return err
	}
	if !en {
		return fmt.Errorf("setup block not enabled")
	}
	s.blocks, s.totalGroups = 0, 0
	return nil
}

type c18op struct {
	name  string
	fee   c18fee
	build func(s *c18sys) []*txntest.Txn
	// end-block ops
	end      bool
	proposer func(s *c18sys) basics.Address
	eligible bool
}

func c18ops() []c18op {
	pay := func(from, to int, amt uint64) func(s *c18sys) []*txntest.Txn {
		return func(s *c18sys) []*txntest.Txn {
			return []*txntest.Txn{{Type: "pay", Sender: s.a[from], Receiver: s.a[to], Amount: amt}}
		}
	}
	closeTo := func(from int, to func(s *c18sys) basics.Address) func(s *c18sys) []*txntest.Txn {
		return func(s *c18sys) []*txntest.Txn {
			return []*txntest.Txn{{Type: "pay", Sender: s.a[from], CloseRemainderTo: to(s)}}
		}
	}
	acct := func(i int) func(s *c18sys) basics.Address {
		return func(s *c18sys) basics.Address { return s.a[i] }
	}
	call := func(sender int, app func(s *c18sys) basics.AppIndex, recv int, args ...string) func(s *c18sys) []*txntest.Txn {
		return func(s *c18sys) []*txntest.Txn {
			tx := txntest.Txn{Type: "appl", Sender: s.a[sender], ApplicationID: app(s), Accounts: []basics.Address{s.a[recv]}, ForeignApps: []basics.AppIndex{s.appB}}
			return []*txntest.Txn{tx.Args(args...)}
		}
	}
	appA := func(s *c18sys) basics.AppIndex { return s.appA }
	u64 := func(v uint64) string {
		var b [8]byte
		for i := 0; i < 8; i++ {
			b[7-i] = byte(v >> (8 * i))
		}
		return string(b[:])
	}
	ops := []c18op{
		{name: "pay0 A0>A1", build: pay(0, 1, 0)},
		{name: "pay1 A0>A1", build: pay(0, 1, 1)},
		{name: "payMinBal A0>A4(new)", build: pay(0, 4, 100_000)},
		{name: "payAllButFee A2>A1", build: func(s *c18sys) []*txntest.Txn {
			bal := s.curMoney(s.a[2])
			fee := s.proto.MinTxnFee
			if bal < fee {
				bal = fee
			}
			return []*txntest.Txn{{Type: "pay", Sender: s.a[2], Receiver: s.a[1], Amount: bal - fee, Fee: fee}}
		}},
		{name: "pay1 A0>A3(online) fee2x", fee: c18feeX2, build: pay(0, 3, 1)},
		{name: "close A2>A0", build: closeTo(2, acct(0))},
		{name: "close A2>self", build: closeTo(2, acct(2))},
		{name: "close A2>sink", build: closeTo(2, func(s *c18sys) basics.Address { return s.sink })},
		{name: "close A2>A4(new)", build: closeTo(2, acct(4))},
		{name: "close A4>A0", build: closeTo(4, acct(0))},
		{name: "close A3(online)>A0", build: closeTo(3, acct(0))},
		{name: "pay A0>pool 1000", build: func(s *c18sys) []*txntest.Txn {
			return []*txntest.Txn{{Type: "pay", Sender: s.a[0], Receiver: s.pool, Amount: 1000}}
		}},
		{name: "pay A0>sink 1000", build: func(s *c18sys) []*txntest.Txn {
			return []*txntest.Txn{{Type: "pay", Sender: s.a[0], Receiver: s.sink, Amount: 1000}}
		}},
		{name: "pay sink>pool 1000", build: func(s *c18sys) []*txntest.Txn {
			return []*txntest.Txn{{Type: "pay", Sender: s.sink, Receiver: s.pool, Amount: 1000}}
		}},
		{name: "axfer A0>A1 1 fee2x", fee: c18feeX2, build: func(s *c18sys) []*txntest.Txn {
			return []*txntest.Txn{{Type: "axfer", Sender: s.a[0], AssetReceiver: s.a[1], XferAsset: s.asset, AssetAmount: 1}}
		}},
		{name: "axfer optout A1", build: func(s *c18sys) []*txntest.Txn {
			return []*txntest.Txn{{Type: "axfer", Sender: s.a[1], AssetReceiver: s.a[0], AssetCloseTo: s.a[0], XferAsset: s.asset}}
		}},
		{name: "acfg create A1", build: func(s *c18sys) []*txntest.Txn {
			return []*txntest.Txn{{Type: "acfg", Sender: s.a[1], AssetParams: basics.AssetParams{Total: 5, UnitName: "y"}}}
		}},
		{name: "appl noop A1", build: call(1, appA, 1, "noop")},
		{name: "appl innerpay 1000>A1 fee2x", fee: c18feeX2, build: call(1, appA, 1, "pay", u64(1000))},
		{name: "appl innerpay 1000>A2 appPaysFee", build: call(1, appA, 2, "pay", u64(1000))},
		{name: "appl innerclose >A1", build: call(0, appA, 1, "close")},
		{name: "appl inner call appB pay 1000>A1 fee3x", fee: c18feeX3, build: call(1, appA, 1, "call", u64(1000))},
		{name: "appl inner call appB pay appsPayFee", build: call(0, appA, 2, "call", u64(1000))},
		{name: "appl create A1", build: func(s *c18sys) []*txntest.Txn {
			return []*txntest.Txn{{Type: "appl", Sender: s.a[1], ApprovalProgram: "int 1", GlobalStateSchema: basics.StateSchema{NumUint: 1}}}
		}},
		{name: "appl delete appB", build: func(s *c18sys) []*txntest.Txn {
			return []*txntest.Txn{{Type: "appl", Sender: s.a[0], ApplicationID: s.appB, OnCompletion: transactions.DeleteApplicationOC, ApplicationArgs: [][]byte{[]byte("noop")}}}
		}},
		{name: "keyreg online A1 fee 2A", build: func(s *c18sys) []*txntest.Txn {
			return []*txntest.Txn{{Type: "keyreg", Sender: s.a[1], Fee: 2_000_000,
				VotePK: crypto.OneTimeSignatureVerifier{0x41}, SelectionPK: crypto.VRFVerifier{0x42}, StateProofPK: merklesignature.Commitment{0x43}, VoteKeyDilution: 1000}}
		}},
		{name: "keyreg offline A3", build: func(s *c18sys) []*txntest.Txn {
			return []*txntest.Txn{{Type: "keyreg", Sender: s.a[3]}}
		}},
		{name: "keyreg nonpart A1", build: func(s *c18sys) []*txntest.Txn {
			return []*txntest.Txn{{Type: "keyreg", Sender: s.a[1], Nonparticipation: true}}
		}},
		{name: "heartbeat A0 for A3", build: func(s *c18sys) []*txntest.Txn {
			latest := s.l.Latest()
			hdr, err := s.l.BlockHdr(latest)
			if err != nil {
				s.harnessErr = err
			}
			return []*txntest.Txn{{Type: "hb", Sender: s.a[0], FirstValid: latest, HbAddress: s.a[3], HbProof: crypto.HeartbeatProof{Sig: [64]byte{1}},
				HbSeed: hdr.Seed, HbVoteID: crypto.OneTimeSignatureVerifier{0x31}, HbKeyDilution: 1000}}
		}},
		{name: "grp[pay1 A0>A1 | pay1 A1>A0 fee0]", fee: c18feePoolFirst, build: func(s *c18sys) []*txntest.Txn {
			return []*txntest.Txn{{Type: "pay", Sender: s.a[0], Receiver: s.a[1], Amount: 1}, {Type: "pay", Sender: s.a[1], Receiver: s.a[0], Amount: 1}}
		}},
		{name: "grp[payMinBal A0>A4 | pay0 A4>A1 fee0]", fee: c18feePoolFirst, build: func(s *c18sys) []*txntest.Txn {
			return []*txntest.Txn{{Type: "pay", Sender: s.a[0], Receiver: s.a[4], Amount: 100_000}, {Type: "pay", Sender: s.a[4], Receiver: s.a[1], Amount: 0}}
		}},
		{name: "grp[pay A0>A2 1A fee0 | close A2>A0]", fee: c18feePoolLast, build: func(s *c18sys) []*txntest.Txn {
			return []*txntest.Txn{{Type: "pay", Sender: s.a[0], Receiver: s.a[2], Amount: 1_000_000}, {Type: "pay", Sender: s.a[2], CloseRemainderTo: s.a[0]}}
		}},
		{name: "pay A0>appA 1A", build: func(s *c18sys) []*txntest.Txn {
			return []*txntest.Txn{{Type: "pay", Sender: s.a[0], Receiver: s.appA.Address(), Amount: 1_000_000}}
		}},
	}
	ends := []c18op{
		{name: "END proposer=A3 eligible", end: true, proposer: func(s *c18sys) basics.Address { return s.a[3] }, eligible: true},
		{name: "END proposer=A3 ineligible", end: true, proposer: func(s *c18sys) basics.Address { return s.a[3] }, eligible: false},
		{name: "END proposer=A0(offline) eligible", end: true, proposer: func(s *c18sys) basics.Address { return s.a[0] }, eligible: true},
		{name: "END proposer=A4(maybe closed) eligible", end: true, proposer: func(s *c18sys) basics.Address { return s.a[4] }, eligible: true},
		{name: "END proposer=sink eligible", end: true, proposer: func(s *c18sys) basics.Address { return s.sink }, eligible: true},
	}
	return append(ops, ends...)
}

// c18harness collects harness (non-verdict) failures of all instances.
var c18harness struct {
	n     atomic.Int64
	first atomic.Value
}

func c18harnessFail(err error) {
	if c18harness.n.Add(1) == 1 {
		c18harness.first.Store(err.Error())
	}
}

// apply separates verdicts (*ve.Violation) from harness failures (recorded, never a verdict).
func (s *c18sys) apply(op c18op) (bool, error) {
	en, err := s.apply1(op)
	if err == nil && s.harnessErr != nil {
		err = s.harnessErr
	}
	if err != nil {
		if v, ok := err.(*ve.Violation); ok {
			return true, v
		}
		if s.harnessErr == nil {
			s.harnessErr = err
		}
		c18harnessFail(fmt.Errorf("[%s] op %q: %w", s.sc.name, op.name, err))
		return false, nil
	}
	return en, nil
}

func (s *c18sys) apply1(op c18op) (bool, error) {
	if s.harnessErr != nil {
		return false, nil
	}
	if op.end {
		if s.blocks >= s.bd.blocks {
			return false, nil
		}
		return s.endBlock(op.proposer(s), op.eligible)
	}
	if s.blocks >= s.bd.blocks || s.groupsInBlock >= s.bd.perBlock || s.totalGroups >= s.bd.total {
		return false, nil
	}
	ok, err := s.group(op.fee, op.build(s)...)
	if err != nil {
		return true, err
	}
	if !ok {
		s.rejected.Add(1)
	}
	return ok, nil
}

// key: everything that can influence future behaviour of this alphabet: all known accounts
// with their resources (LookupLatest), the rewards/bonus/counter part of the latest header,
// the open block's accepted transactions and the bound counters. Transaction ids never
// recur (position-dependent notes), so the tx tail is not part of the key.
func (s *c18sys) key() string {
	if s.harnessErr != nil {
		return "harness-error:" + s.harnessErr.Error()
	}
	var b strings.Builder
	rnd := s.l.Latest()
	hdr, _ := s.l.BlockHdr(rnd)
	fmt.Fprintf(&b, "r%d|%d|%d|%d|%d|bonus%d|ctr%d|g%d b%d t%d|", rnd, hdr.RewardsLevel, hdr.RewardsRate, hdr.RewardsResidue, hdr.RewardsRecalculationRound,
		hdr.Bonus.Raw, hdr.TxnCounter, s.groupsInBlock, s.blocks, s.totalGroups)
	for _, a := range s.knownSorted() {
		ad, _, _, err := s.l.LookupLatest(a)
		if err != nil {
			fmt.Fprintf(&b, "err:%v", err)
			continue
		}
		raw, _, _ := s.l.LookupWithoutRewards(rnd, a)
		fmt.Fprintf(&b, "%x:%x:%d;", a[:4], protocol.Encode(&ad), raw.RewardsBase)
	}
	for _, id := range s.pending {
		b.WriteString(id)
		b.WriteByte(',')
	}
	return ve.HashKey([]byte(b.String()))
}

func TestVerif_C18(t *testing.T) {
	r := ve.NewRun("C18", "model_checking")
	// private consensus versions (registered before any exploration starts)
	nb := config.Consensus[protocol.ConsensusFuture]
	nb.Bonus.BaseAmount = 0
	nb.ApprovedUpgrades = map[protocol.ConsensusVersion]uint64{}
	config.Consensus["verif-c18-nobonus"] = nb
	scs := []c18scenario{
		{"future-payouts-bonus", protocol.ConsensusFuture},
		{"future-payouts-nobonus", "verif-c18-nobonus"},
		{"v39-no-payouts", protocol.ConsensusV39},
	}
	bd := c18bounds{perBlock: ve.Pick(2, 3), blocks: ve.Pick(2, 3), total: ve.Pick(2, 3)}
	ops := c18ops()
	var cov ve.Coverage
	cov.Exhaustive = true
	var rejected atomic.Int64
	for _, sc := range scs {
		sc := sc
		q := &ve.Seq[*c18sys]{
			Name:   "evalmoney/" + sc.name,
			NumOps: len(ops),
			OpName: func(op int) string { return ops[op].name },
			New:    func() *c18sys { return c18new(t, sc, bd, &rejected) },
			Close:  func(s *c18sys) { s.close() },
			Apply: func(s *c18sys, op int) (bool, error) { return s.apply(ops[op]) },
			Key: func(s *c18sys) string { return s.key() },
			Observe: func(s *c18sys) string {
				return fmt.Sprintf("b%d g%d lvl%d", s.blocks, s.groupsInBlock, s.level)
			},
			MaxDepth: bd.total + bd.blocks,
		}
		res := q.Explore(r)
		cov.AddSeq(res)
		if !res.Exhaustive {
			cov.Exhaustive = false
		}
		if r.Violations() > 0 {
			break
		}
	}
	r.Set("rejected_groups_skipped", rejected.Load())
	cov.Rule = fmt.Sprintf("BFS over all histories of <= %d blocks with <= %d groups per block and <= %d groups in total, groups from a %d-op alphabet (pay/close/pool/sink/asset/app/inner pay/inner close/inner app call/keyreg/heartbeat/fee-pooled groups), block ends from %d (proposer, eligible) choices, for %d consensus scenarios; after every accepted group and every block the sum of all balances incl. pending rewards is recomputed over every account that ever existed and compared with the genesis total, the delta totals and Ledger.Totals",
		bd.blocks, bd.perBlock, bd.total, len(ops)-5, 5, len(scs))
	r.Assume("block proposer / eligibility are chosen by the harness in place of agreement; signatures are not checked (mocked verified-txn cache, as in the upstream ledger tests)")
	r.Assume("per-group account deltas are observed through the exported EvalTracer.AfterTxnGroup hook (the same hook simulate uses)")
	r.Assume("the set of accounts that ever existed = genesis accounts + every address that ever appears in a group or block delta + the app accounts")
	nviol := r.Finish(cov)
	if n := c18harness.n.Load(); n > 0 {
		t.Fatalf("HARNESS-FAILURE (not a verdict): %d harness errors, first: %v", n, c18harness.first.Load())
	}
	if nviol > 0 {
		t.Fatal("violations")
	}
}
