package vpack

// C42 — Vote compression is lossless and stays in sync.
//
// Engines: E-SEQ (explicit-state BFS over vote sequences through the real
// StatelessEncoder -> StatefulEncoder -> StatefulDecoder -> StatelessDecoder pipeline) and
// E-ENUM (stateless field-presence lattice; malformed compressed frames / malformed msgpack).
//
// Alphabet (E-SEQ). REAL canonical msgpack votes: built by a small canonical-msgpack writer
// written from network/vpack/README.md + the codec tags of agreement.unauthenticatedVote, and
// every alphabet vote is cross-checked at start-up against the generated codec
// (protocol.Decode into agreement.UnauthenticatedVote, protocol.Encode must give the same
// bytes back). Dimensions: identities (sender, (p,p1s), (p2,p2s)) from senders {a,b,c,d},
// first-tier key/sig pairs {k1,k2,k3}, second-tier pairs {j1,j2,j3} — a,b,c / k1..k3 / j1..j3
// all hash into ONE bucket of the minimum-size (16 entry = 8 bucket x 2 slot) LRU tables so
// that buckets collide and evict; d lives in another bucket — x rounds {255,256,555}
// (r, r+1, r+300; r-1 arises as 256->255, crossing a varuint size boundary) x periods {0,1}
// x steps {0,1,2,3,253} x proposals {bottom, p (4 fields), q (3 fields, oper absent)}.
//   seq/full16   full product (540 votes), 16-entry tables, all sequences of <= 3 votes
//                (thorough: <= 4)
//   seq/core16-36 state-relevant product (4 identities x rounds x proposals = 36 votes; period
//                and step derived, still varied), 16-entry tables, explored UNTIL NO NEW STATE
//                APPEARS (7 201 states, closes at depth 7): every reachable table state of this
//                alphabet, i.e. vote sequences of any length over it
//   seq/core32-36 same votes on 32-entry tables (a,c collide, b does not), to closure (2 656)
//   seq/window16 NON-INITIAL start: the pair has already exchanged 7 votes with 7 distinct
//                proposals (window full), rounds at 2^64-2; alphabet = {oldest, newest, 2 new,
//                bottom proposals} x {a,b,c} x rounds {2^64-2, 2^64-1, 255} = 45 votes, to
//                closure (1 764 states) — the window wraps and evicts, round deltas run into the
//                uint64 edge.
//   seq/presence16 81 votes whose proposal fields are each absent / explicitly zero / non-zero
//                (non-canonical but valid msgpack that the generated codec decodes to the same
//                vote and the stateless layer reproduces byte for byte), all sequences <= 3:
//                proposals differing only in field PRESENCE must not share a window reference
//   seq/core16-54 (thorough) 6 identities x rounds x proposals, to closure (35 011 states)
// State key = complete encoder dynamicTableState (3 LRU tables incl. MRU bits, proposal
// window incl. head/size, lastRnd), physical layout, hashed: merged states are identical
// objects, nothing is abstracted.
//
// Oracle at every transition: (1) every stage returns nil error for a representable vote;
// (2) StatefulDecoder output == StatelessEncoder output byte-for-byte, and the final msgpack
// == the original msgpack byte-for-byte; (3) encoder and decoder dynamicTableState are equal
// field by field (all tables, MRU bits, window, lastRnd).
//
// E-ENUM parts:
//   enum/lattice   every subset of the 14 vote values being zero/non-zero (2^14, incl. the
//                  deprecated sig.ps) x 7 integer size classes, and for the first two classes
//                  every way of spelling out zero-valued optional fields explicitly: canonical msgpack (cross-checked
//                  with the generated codec) -> CompressVote: either an error (and then the vote
//                  must be one the README/format cannot represent: missing pf/rnd/snd/sig or
//                  non-zero ps) or DecompressVote gives back the exact bytes. A vote the format
//                  can represent must not be rejected.
//   enum/msgpack   every truncation and every single byte x 256 values of 3 msgpack votes, and
//                  every ordering of the keys of the "r" and "prop" maps, into CompressVote:
//                  error, or success such that the decompressed bytes decode (generated codec)
//                  to the SAME vote as the input did — never a different vote, never a panic.
//   enum/frames    seeds = 5 compressed frames captured from real exchanges (all-literal,
//                  all-reference, mixed after evictions, window-ref 7, table refs in 32-entry
//                  tables) together with the decoder state they were produced against.
//                  Mutations: every truncation; every byte position x 256 values; every
//                  (hdr0,hdr1) header pair (65 536); every byte-pair position overwritten with
//                  reference ids {0..2*buckets+1, 255, 256, 0x7fff, 0x8000, 0xfffe, 0xffff}
//                  (empty, evicted, out-of-range slots). Each mutated frame is fed to a fresh
//                  copy of the decoder state. Oracle: error, or success; on success the stateless
//                  layer either rejects the result or produces msgpack that (a) the generated
//                  codec decodes as a vote and (b) re-compresses (CompressVote) to exactly the
//                  frame the stateful decoder emitted, modulo the two reserved hdr0 bits; never a
//                  panic. Also every truncation of stateless frames into StatefulEncoder.Compress
//                  => error, no panic. After an error the pair counts as desynchronised (wsPeer
//                  switches stateful compression off) and is not examined further.
//
// Not covered: sequences longer than the depth bound; table sizes above 32; concurrent use
// (the codec is per-peer single-threaded); compression *ratio* (only a metric);
// non-canonical-but-valid msgpack beyond key order / single-byte edits as encoder input
// (production callers always pass protocol.Encode output, agreement/actions.go).
//
// Mutants (bin/mut, quick tier; all DETECTED):
//   lru_table.go fetch(): MRU bit not touched on a decoder hit      -> C42:desync at depth 3
//   lru_table.go lookup(): MRU bit not touched on an encoder slot-1 hit -> C42:desync at depth 3
//   proposal_window.go byRef(): physical slot off by one             -> C42:stateful-roundtrip, depth 2
//   proposal_window.go byRef(): modulo dropped (only wrong once the window has wrapped)
//                                                                    -> C42:panic in seq/window16 only
//   dynamic_vpack.go Decompress: lastRnd not advanced after a +1 delta -> C42:desync at depth 2
//   lru_table.go fetch(): bound check removed                        -> C42:decoder-panic (enum/frames)
//
// Independent seeded changes: C42-B (propWindow.lookup ignores the presence mask) was MISSED by
// the canonical alphabet and is DETECTED by seq/presence16 (depth 2, C42:stateful-roundtrip);
// C42-A (codec uses its own instead of the negotiated table size) lives in
// network/msgCompressor.go and is DETECTED by part "network" (harness/network/verif_c42_net_test.go).
//
// Finding on the unchanged tree: C42:misordered-r-keys / C42:misordered-prop-keys, see
// /verif/findings/C42-misordered-map-keys.

import (
	"bytes"
	"encoding/binary"
	"fmt"
	"math"
	"reflect"
	"runtime/debug"
	"slices"
	"sync"
	"sync/atomic"
	"testing"
	"time"

	"github.com/algorand/go-algorand/agreement"
	"github.com/algorand/go-algorand/protocol"
	ve "github.com/algorand/go-algorand/verifeng"
)

// ---------------------------------------------------------------------------------------
// canonical msgpack writer for votes (reference, written from the format description)

type c42vote struct {
	pf                 [80]byte
	per                uint64
	dig, encdig, oprop [32]byte
	oper               uint64
	rnd                uint64
	snd                [32]byte
	step               uint64
	p                  [32]byte
	p1s                [64]byte
	p2                 [32]byte
	p2s                [64]byte
	ps                 [64]byte
	s                  [64]byte
	// explicit: optional fields (bitPer, bitDig, bitEncDig, bitOper, bitOprop, bitStep) that are
	// written out although their value is zero — valid msgpack the generated codec decodes to
	// the same vote, which the stateless layer accepts and must reproduce byte for byte
	explicit uint8
}

func c42appendUint(b []byte, v uint64) []byte {
	switch {
	case v <= 0x7f:
		return append(b, byte(v))
	case v <= 0xff:
		return append(b, 0xcc, byte(v))
	case v <= 0xffff:
		return append(b, 0xcd, byte(v>>8), byte(v))
	case v <= 0xffffffff:
		return append(b, 0xce, byte(v>>24), byte(v>>16), byte(v>>8), byte(v))
	}
	b = append(b, 0xcf)
	return binary.BigEndian.AppendUint64(b, v)
}

func c42appendKey(b []byte, k string) []byte {
	b = append(b, 0xa0|byte(len(k)))
	return append(b, k...)
}

func c42appendBin(b []byte, k string, data []byte) []byte {
	b = c42appendKey(b, k)
	b = append(b, 0xc4, byte(len(data)))
	return append(b, data...)
}

func c42zero(b []byte) bool {
	for _, x := range b {
		if x != 0 {
			return false
		}
	}
	return true
}

type c42kv struct {
	k   string
	val []byte // already encoded value
}

func c42appendMap(b []byte, kvs []c42kv) []byte {
	b = append(b, 0x80|byte(len(kvs)))
	for _, e := range kvs {
		b = c42appendKey(b, e.k)
		b = append(b, e.val...)
	}
	return b
}

func c42bin(data []byte) []byte {
	return append([]byte{0xc4, byte(len(data))}, data...)
}

// parts returns the key/value lists of the "prop" and "r" maps (canonical order, empty
// values omitted), so that callers can also emit non-canonical key orders.
func (v *c42vote) parts() (prop, r []c42kv) {
	if !c42zero(v.dig[:]) || v.explicit&bitDig != 0 {
		prop = append(prop, c42kv{"dig", c42bin(v.dig[:])})
	}
	if !c42zero(v.encdig[:]) || v.explicit&bitEncDig != 0 {
		prop = append(prop, c42kv{"encdig", c42bin(v.encdig[:])})
	}
	if v.oper != 0 || v.explicit&bitOper != 0 {
		prop = append(prop, c42kv{"oper", c42appendUint(nil, v.oper)})
	}
	if !c42zero(v.oprop[:]) || v.explicit&bitOprop != 0 {
		prop = append(prop, c42kv{"oprop", c42bin(v.oprop[:])})
	}
	return prop, v.rparts(prop)
}

func (v *c42vote) rparts(prop []c42kv) (r []c42kv) {
	if v.per != 0 || v.explicit&bitPer != 0 {
		r = append(r, c42kv{"per", c42appendUint(nil, v.per)})
	}
	if len(prop) > 0 {
		r = append(r, c42kv{"prop", c42appendMap(nil, prop)})
	}
	if v.rnd != 0 {
		r = append(r, c42kv{"rnd", c42appendUint(nil, v.rnd)})
	}
	if !c42zero(v.snd[:]) {
		r = append(r, c42kv{"snd", c42bin(v.snd[:])})
	}
	if v.step != 0 || v.explicit&bitStep != 0 {
		r = append(r, c42kv{"step", c42appendUint(nil, v.step)})
	}
	return r
}

func (v *c42vote) sigZero() bool {
	return c42zero(v.p[:]) && c42zero(v.p1s[:]) && c42zero(v.p2[:]) && c42zero(v.p2s[:]) && c42zero(v.ps[:]) && c42zero(v.s[:])
}

// assemble writes the top-level map around a given (possibly re-ordered) "r" map.
func (v *c42vote) assemble(r []c42kv) []byte {
	var top []c42kv
	if !c42zero(v.pf[:]) {
		top = append(top, c42kv{"cred", c42appendMap(nil, []c42kv{{"pf", c42bin(v.pf[:])}})})
	}
	if len(r) > 0 {
		top = append(top, c42kv{"r", c42appendMap(nil, r)})
	}
	if !v.sigZero() {
		// OneTimeSignature has no omitempty on its fields: all six always appear
		top = append(top, c42kv{"sig", c42appendMap(nil, []c42kv{
			{"p", c42bin(v.p[:])}, {"p1s", c42bin(v.p1s[:])}, {"p2", c42bin(v.p2[:])},
			{"p2s", c42bin(v.p2s[:])}, {"ps", c42bin(v.ps[:])}, {"s", c42bin(v.s[:])}})})
	}
	return c42appendMap(nil, top)
}

func (v *c42vote) msgpack() []byte {
	_, r := v.parts()
	return v.assemble(r)
}

// representable: what the vpack format (README §1-3) can carry: pf, rnd, snd and the
// signature block are required, sig.ps must be zero.
func (v *c42vote) representable() bool {
	return !c42zero(v.pf[:]) && v.rnd != 0 && !c42zero(v.snd[:]) && !v.sigZero() && c42zero(v.ps[:])
}

// c42codecCheck verifies with the GENERATED codec that b is the canonical encoding of a vote.
func c42codecCheck(b []byte) error {
	var uv agreement.UnauthenticatedVote
	if err := protocol.Decode(b, &uv); err != nil {
		return fmt.Errorf("generated codec rejects reference encoding: %v", err)
	}
	if re := protocol.Encode(&uv); !bytes.Equal(re, b) {
		return fmt.Errorf("reference encoding is not what the generated codec emits:\n ref %x\n gen %x", b, re)
	}
	return nil
}

// c42presenceCheck verifies that m (a vote that spells out some zero-valued optional fields) is
// valid for the generated codec and denotes the same vote as the canonical encoding canon.
func c42presenceCheck(m, canon []byte) error {
	var a, b agreement.UnauthenticatedVote
	if err := protocol.Decode(m, &a); err != nil {
		return fmt.Errorf("generated codec rejects explicit-zero encoding: %v", err)
	}
	if err := protocol.Decode(canon, &b); err != nil {
		return fmt.Errorf("generated codec rejects canonical encoding: %v", err)
	}
	if a != b {
		return fmt.Errorf("explicit-zero encoding denotes a different vote")
	}
	return nil
}

// ---------------------------------------------------------------------------------------
// value material

func c42fill(seed byte, n int) []byte {
	out := make([]byte, n)
	for i := range out {
		out[i] = seed + byte(i)*7 + byte(i>>3)
		if out[i] == 0 {
			out[i] = 0x5a
		}
	}
	return out
}

// c42sender returns a 32-byte address whose addressValue.hash() has the given low byte.
func c42sender(seed, hashLow byte) (a [32]byte) {
	copy(a[:], c42fill(seed, 32))
	a[0] = hashLow ^ a[8] ^ a[16] ^ a[24]
	return a
}

// c42pair returns pk(32) and sig(64) whose pkSigPair.hash() has the given low byte.
func c42pair(seed, hashLow byte) (pk [32]byte, sig [64]byte) {
	copy(pk[:], c42fill(seed, 32))
	copy(sig[:], c42fill(seed+0x31, 64))
	pk[0] = hashLow ^ sig[0]
	return
}

type c42ident struct {
	name string
	snd  [32]byte
	p    [32]byte
	p1s  [64]byte
	p2   [32]byte
	p2s  [64]byte
}

type c42prop struct {
	name               string
	dig, encdig, oprop [32]byte
	oper               uint64
	explicit           uint8 // zero-valued proposal fields spelled out explicitly
}

func c42mkprop(name string, seed byte, fields int, oper uint64) c42prop {
	p := c42prop{name: name, oper: oper}
	if fields&1 != 0 {
		copy(p.dig[:], c42fill(seed, 32))
	}
	if fields&2 != 0 {
		copy(p.encdig[:], c42fill(seed+0x40, 32))
	}
	if fields&4 != 0 {
		copy(p.oprop[:], c42fill(seed+0x80, 32))
	}
	return p
}

type c42op struct {
	name string
	msgp []byte
}

func c42idents() []c42ident {
	// hash low bytes: low 3 bits 5 for a,b,c (same bucket of 8); bit 3 separates b in a
	// 16-bucket table; d is elsewhere.
	sa, sb, sc, sd := c42sender(0x11, 0x05), c42sender(0x22, 0x0d), c42sender(0x33, 0x15), c42sender(0x44, 0x02)
	type pr struct {
		pk  [32]byte
		sig [64]byte
	}
	mk := func(seed, low byte) pr { pk, sig := c42pair(seed, low); return pr{pk, sig} }
	k1, k2, k3 := mk(0x51, 0x03), mk(0x62, 0x0b), mk(0x73, 0x13)
	j1, j2, j3 := mk(0x84, 0x06), mk(0x95, 0x0e), mk(0xa6, 0x16)
	id := func(name string, s [32]byte, k, j pr) c42ident {
		return c42ident{name: name, snd: s, p: k.pk, p1s: k.sig, p2: j.pk, p2s: j.sig}
	}
	return []c42ident{
		id("a/k1/j1", sa, k1, j1),
		id("b/k2/j2", sb, k2, j2),
		id("c/k3/j3", sc, k3, j3),
		id("a/k2/j3", sa, k2, j3), // known sender, other keys: mixed literal/ref
		id("d/k1/j2", sd, k1, j2), // sender in another bucket
		id("b/k3/j1", sb, k3, j1),
	}
}

func c42build(id c42ident, rnd, per, step uint64, pr c42prop, tag byte) *c42vote {
	v := &c42vote{per: per, rnd: rnd, step: step, snd: id.snd, p: id.p, p1s: id.p1s, p2: id.p2, p2s: id.p2s,
		dig: pr.dig, encdig: pr.encdig, oprop: pr.oprop, oper: pr.oper, explicit: pr.explicit}
	// pf and s are per-vote values (never table-compressed): derive from everything
	copy(v.pf[:], c42fill(tag^byte(rnd)^byte(step*11)^id.snd[3], 80))
	copy(v.s[:], c42fill(tag+byte(per)*3+byte(step)+id.p[5], 64))
	return v
}

func c42name(id c42ident, rnd, per, step uint64, pr c42prop) string {
	return fmt.Sprintf("%s r%d p%d s%d %s", id.name, rnd, per, step, pr.name)
}

// ---------------------------------------------------------------------------------------
// state handling

// c42dump is a canonical, lossless serialisation of the table state (empty buckets and
// empty window entries are run-length marked instead of written out).
func c42dump(b []byte, s *dynamicTableState) []byte {
	b = binary.BigEndian.AppendUint64(b[:0], s.lastRnd)
	var zsnd twoSlotBucket[addressValue]
	var zpk twoSlotBucket[pkSigPair]
	b = binary.AppendUvarint(b, uint64(s.sndTable.numBuckets))
	for i := range s.sndTable.buckets {
		if s.sndTable.buckets[i] == zsnd {
			b = append(b, 0)
			continue
		}
		b = append(b, 1)
		b = append(b, s.sndTable.buckets[i].slots[0][:]...)
		b = append(b, s.sndTable.buckets[i].slots[1][:]...)
	}
	b = append(b, s.sndTable.mru...)
	for _, t := range []*lruTable[pkSigPair]{s.pkTable, s.pk2Table} {
		b = binary.AppendUvarint(b, uint64(t.numBuckets))
		for i := range t.buckets {
			if t.buckets[i] == zpk {
				b = append(b, 0)
				continue
			}
			b = append(b, 1)
			for k := 0; k < 2; k++ {
				b = append(b, t.buckets[i].slots[k].pk[:]...)
				b = append(b, t.buckets[i].slots[k].sig[:]...)
			}
		}
		b = append(b, t.mru...)
	}
	w := &s.proposalWindow
	b = append(b, byte(w.head), byte(w.size))
	for i := range w.entries {
		e := &w.entries[i]
		if *e == (proposalEntry{}) {
			b = append(b, 0)
			continue
		}
		b = append(b, 1)
		b = append(b, e.dig[:]...)
		b = append(b, e.encdig[:]...)
		b = append(b, e.oprop[:]...)
		b = append(b, e.operEnc[:]...)
		b = append(b, e.operLen, e.mask)
	}
	return b
}

// c42equal compares two table states field by field; it returns "" or the name of the first
// differing component.
func c42equal(a, b *dynamicTableState) string {
	switch {
	case a.lastRnd != b.lastRnd:
		return "lastRnd"
	case a.proposalWindow != b.proposalWindow:
		return "proposalWindow"
	case a.sndTable.numBuckets != b.sndTable.numBuckets || !slices.Equal(a.sndTable.buckets, b.sndTable.buckets):
		return "sndTable.buckets"
	case !bytes.Equal(a.sndTable.mru, b.sndTable.mru):
		return "sndTable.mru"
	case a.pkTable.numBuckets != b.pkTable.numBuckets || !slices.Equal(a.pkTable.buckets, b.pkTable.buckets):
		return "pkTable.buckets"
	case !bytes.Equal(a.pkTable.mru, b.pkTable.mru):
		return "pkTable.mru"
	case a.pk2Table.numBuckets != b.pk2Table.numBuckets || !slices.Equal(a.pk2Table.buckets, b.pk2Table.buckets):
		return "pk2Table.buckets"
	case !bytes.Equal(a.pk2Table.mru, b.pk2Table.mru):
		return "pk2Table.mru"
	}
	return ""
}

func c42copyState(dst, src *dynamicTableState) {
	dst.lastRnd = src.lastRnd
	dst.proposalWindow = src.proposalWindow
	copy(dst.sndTable.buckets, src.sndTable.buckets)
	copy(dst.sndTable.mru, src.sndTable.mru)
	copy(dst.pkTable.buckets, src.pkTable.buckets)
	copy(dst.pkTable.mru, src.pkTable.mru)
	copy(dst.pk2Table.buckets, src.pk2Table.buckets)
	copy(dst.pk2Table.mru, src.pk2Table.mru)
}

// c42shapeCheck: the dump above must cover every field of the state; if upstream adds a
// field this fails loudly (harness failure, not a verdict) instead of silently ignoring it.
func c42shapeCheck() error {
	want := map[reflect.Type]int{
		reflect.TypeOf(dynamicTableState{}):        5,
		reflect.TypeOf(lruTable[addressValue]{}):   3,
		reflect.TypeOf(lruTable[pkSigPair]{}):      3,
		reflect.TypeOf(twoSlotBucket[pkSigPair]{}): 1,
		reflect.TypeOf(propWindow{}):               3,
		reflect.TypeOf(proposalEntry{}):            6,
		reflect.TypeOf(pkSigPair{}):                2,
	}
	for t, n := range want {
		if t.NumField() != n {
			return fmt.Errorf("type %v has %d fields, harness dump knows %d", t, t.NumField(), n)
		}
	}
	return nil
}

type c42sys struct {
	size     uint
	alpha    []c42op
	stEnc    *StatelessEncoder
	stDec    *StatelessDecoder
	enc      *StatefulEncoder
	dec      *StatefulDecoder
	lastHdr  [2]byte
	encDump  []byte // scratch for the state key
	keyValid bool
	bufs     [5][]byte // scratch output buffers of the stages
	pool     *sync.Pool
	initErr  error
	saved    *atomic.Int64 // metric: bytes saved by the stateful layer
}

func c42newSys(size uint, alpha []c42op) *c42sys {
	enc, err := NewStatefulEncoder(size)
	if err != nil {
		panic(err)
	}
	dec, err := NewStatefulDecoder(size)
	if err != nil {
		panic(err)
	}
	return &c42sys{size: size, alpha: alpha, stEnc: NewStatelessEncoder(), stDec: NewStatelessDecoder(), enc: enc, dec: dec}
}

func (s *c42sys) clone() *c42sys {
	var c *c42sys
	if s.pool != nil {
		if x := s.pool.Get(); x != nil {
			c = x.(*c42sys)
		}
	}
	if c == nil || c.size != s.size {
		c = c42newSys(s.size, s.alpha)
	}
	c42copyState(&c.enc.dynamicTableState, &s.enc.dynamicTableState)
	c42copyState(&c.dec.dynamicTableState, &s.dec.dynamicTableState)
	c.alpha, c.lastHdr, c.initErr, c.saved, c.pool = s.alpha, s.lastHdr, s.initErr, s.saved, s.pool
	return c
}

func (s *c42sys) buf(i, n int) []byte {
	if cap(s.bufs[i]) < n {
		s.bufs[i] = make([]byte, 0, n)
	}
	return s.bufs[i][:0]
}

// send pushes one msgpack vote through the four stages and applies the oracle.
func (s *c42sys) send(msgp []byte) (verr error) {
	defer func() {
		if e := recover(); e != nil {
			verr = ve.Violationf("C42:panic", "panic in the compression pipeline on a valid vote: %v\n%s", e, debug.Stack())
		}
	}()
	sl, err := s.stEnc.CompressVote(s.buf(0, MaxCompressedVoteSize), msgp)
	if err != nil {
		return ve.Violationf("C42:stateless-reject-valid", "StatelessEncoder rejected a representable canonical vote: %v", err)
	}
	slCopy := append(s.buf(3, MaxCompressedVoteSize), sl...)
	comp, err := s.enc.Compress(s.buf(1, MaxCompressedVoteSize), sl)
	if err != nil {
		return ve.Violationf("C42:stateful-compress-error", "StatefulEncoder.Compress failed on a stateless frame: %v", err)
	}
	if !bytes.Equal(sl, slCopy) {
		return ve.Violationf("C42:compress-clobbers-input", "Compress modified its input")
	}
	wire := comp
	sl2, err := s.dec.Decompress(s.buf(2, MaxCompressedVoteSize), wire)
	if err != nil {
		return ve.Violationf("C42:decompress-error", "StatefulDecoder.Decompress rejected the encoder's own frame (hdr %02x %02x): %v", wire[0], wire[1], err)
	}
	if !bytes.Equal(sl2, sl) {
		return ve.Violationf("C42:stateful-roundtrip", "stateful round trip differs (hdr %02x %02x):\n sent %x\n got  %x", wire[0], wire[1], sl, sl2)
	}
	out, err := s.stDec.DecompressVote(s.buf(4, MaxMsgpackVoteSize), sl2)
	if err != nil {
		return ve.Violationf("C42:stateless-decompress-error", "StatelessDecoder rejected a round-tripped frame: %v", err)
	}
	if !bytes.Equal(out, msgp) {
		return ve.Violationf("C42:roundtrip", "decompress(compress(v)) != v:\n sent %x\n got  %x", msgp, out)
	}
	s.keyValid = false
	if diff := c42equal(&s.enc.dynamicTableState, &s.dec.dynamicTableState); diff != "" {
		return ve.Violationf("C42:desync", "encoder and decoder table state differ after this vote in %s (hdr %02x %02x; lastRnd enc=%d dec=%d; window enc head/size=%d/%d dec=%d/%d)",
			diff, wire[0], wire[1], s.enc.lastRnd, s.dec.lastRnd, s.enc.proposalWindow.head, s.enc.proposalWindow.size, s.dec.proposalWindow.head, s.dec.proposalWindow.size)
	}
	s.lastHdr = [2]byte{wire[0], wire[1]}
	if s.saved != nil {
		s.saved.Add(int64(len(sl) - len(wire)))
	}
	return nil
}

func c42seq(r *ve.Run, cov *ve.Coverage, name string, size uint, alpha []c42op, preamble [][]byte, depth int) {
	var saved atomic.Int64
	pool := &sync.Pool{}
	q := &ve.Seq[*c42sys]{
		Name:   name,
		NumOps: len(alpha),
		OpName: func(op int) string { return alpha[op].name },
		New: func() *c42sys {
			s := c42newSys(size, alpha)
			for i, m := range preamble {
				if err := s.send(m); err != nil && s.initErr == nil {
					if v, ok := err.(*ve.Violation); ok {
						s.initErr = ve.Violationf(v.Key, "in preamble vote %d: %s", i, v.Msg)
					} else {
						s.initErr = err
					}
				}
			}
			s.saved = &saved
			s.pool = pool
			return s
		},
		Clone: func(s *c42sys) *c42sys { return s.clone() },
		Apply: func(s *c42sys, op int) (bool, error) {
			if s.initErr != nil {
				return true, s.initErr
			}
			return true, s.send(alpha[op].msgp)
		},
		Key: func(s *c42sys) string {
			s.encDump = c42dump(s.encDump, &s.enc.dynamicTableState)
			return ve.HashKey(s.encDump)
		},
		Close: func(s *c42sys) {
			if s.pool != nil {
				s.pool.Put(s)
			}
		},
		Observe:  func(s *c42sys) string { return fmt.Sprintf("%02x/%02x", s.lastHdr[0], s.lastHdr[1]) },
		MaxDepth: depth,
	}
	res := q.Explore(r)
	cov.AddSeq(res)
	if !res.Exhaustive {
		cov.Exhaustive = false
	}
	r.Note("%s: alphabet=%d depth=%d bytes saved by stateful layer over all transitions=%d", name, len(alpha), depth, saved.Load())
}

// ---------------------------------------------------------------------------------------
// E-ENUM: stateless presence lattice

type c42fail struct {
	r  *ve.Run
	mu sync.Mutex
	n  map[string]int
}

// report forwards at most two concrete cases per violation key.
func (f *c42fail) report(key, what string, replay any) {
	f.mu.Lock()
	if f.n == nil {
		f.n = map[string]int{}
	}
	f.n[key]++
	n := f.n[key]
	f.mu.Unlock()
	if n > 2 {
		return
	}
	f.r.Report(key, what, replay)
}

var c42sizeClasses = []uint64{1, 0x7f, 0x80, 0x100, 0x10000, 1 << 32, math.MaxUint64}

func c42latticeVote(mask int, class int) *c42vote {
	v := &c42vote{}
	iv := c42sizeClasses[class]
	set := func(bit int) bool { return mask&(1<<bit) != 0 }
	if set(0) {
		copy(v.pf[:], c42fill(0x21, 80))
	}
	if set(1) {
		v.per = iv
	}
	if set(2) {
		copy(v.dig[:], c42fill(0x32, 32))
	}
	if set(3) {
		copy(v.encdig[:], c42fill(0x43, 32))
	}
	if set(4) {
		v.oper = iv
	}
	if set(5) {
		copy(v.oprop[:], c42fill(0x54, 32))
	}
	if set(6) {
		v.rnd = iv
	}
	if set(7) {
		copy(v.snd[:], c42fill(0x65, 32))
	}
	if set(8) {
		v.step = iv
	}
	if set(9) {
		copy(v.p[:], c42fill(0x76, 32))
	}
	if set(10) {
		copy(v.p1s[:], c42fill(0x87, 64))
	}
	if set(11) {
		copy(v.p2[:], c42fill(0x98, 32))
	}
	if set(12) {
		copy(v.p2s[:], c42fill(0xa9, 64))
	}
	if set(13) {
		copy(v.s[:], c42fill(0xba, 64))
	}
	if set(14) {
		copy(v.ps[:], c42fill(0xcb, 64))
	}
	return v
}

func c42lattice(r *ve.Run, f *c42fail) {
	nmask := 1 << 15
	ncls := len(c42sizeClasses)
	r.ParallelFor(nmask, func(mask int) {
		enc := NewStatelessEncoder()
		dec := NewStatelessDecoder()
		for cls := 0; cls < ncls; cls++ {
			if cls > 0 && mask&(1<<1|1<<4|1<<6|1<<8) == 0 {
				continue // no integer present: classes are identical
			}
			v := c42latticeVote(mask, cls)
			// which optional fields are zero-valued here and can be spelled out explicitly
			var zeroOpt uint8
			for bit, fl := range map[int]uint8{1: bitPer, 2: bitDig, 3: bitEncDig, 4: bitOper, 5: bitOprop, 8: bitStep} {
				if mask&(1<<bit) == 0 {
					zeroOpt |= fl
				}
			}
			canon := v.msgpack()
			for ex := 0; ex < 64; ex++ {
				if uint8(ex)&^zeroOpt != 0 || (ex != 0 && cls > 1) {
					continue // explicit-zero variants: with the first two integer classes only
				}
				v.explicit = uint8(ex)
				m := v.msgpack()
				r.Eval()
				rep := map[string]any{"engine": "enum", "part": "lattice", "mask": mask, "class": cls, "explicit": ex, "msgpack": fmt.Sprintf("%x", m)}
				if ex == 0 {
					if err := c42codecCheck(m); err != nil {
						f.report("C42:harness-reference-encoding", err.Error(), rep)
						continue
					}
				} else if err := c42presenceCheck(m, canon); err != nil {
					f.report("C42:harness-reference-encoding", err.Error(), rep)
					continue
				}
				if len(m) > MaxMsgpackVoteSize {
					f.report("C42:max-msgpack-size", fmt.Sprintf("canonical vote of %d bytes exceeds MaxMsgpackVoteSize %d", len(m), MaxMsgpackVoteSize), rep)
				}
				sl, err := enc.CompressVote(nil, m)
				if err != nil {
					if v.representable() {
						f.report("C42:stateless-reject-valid", fmt.Sprintf("CompressVote rejected a vote the format can represent (mask %015b class %d): %v", mask, cls, err), rep)
					}
					r.Class("lattice/reject")
					continue
				}
				if len(sl) > MaxCompressedVoteSize {
					f.report("C42:max-compressed-size", fmt.Sprintf("compressed vote of %d bytes exceeds MaxCompressedVoteSize", len(sl)), rep)
				}
				out, err := dec.DecompressVote(nil, sl)
				if err != nil {
					f.report("C42:stateless-decompress-error", fmt.Sprintf("DecompressVote failed on CompressVote output (mask %015b class %d): %v", mask, cls, err), rep)
					continue
				}
				if !bytes.Equal(out, m) {
					f.report("C42:roundtrip", fmt.Sprintf("stateless round trip differs (mask %015b class %d; representable=%v):\n in  %x\n out %x", mask, cls, v.representable(), m, out), rep)
					continue
				}
				r.Class(fmt.Sprintf("lattice/ok/hdr%02x", sl[0]))
			}
		}
	})
}

// ---------------------------------------------------------------------------------------
// E-ENUM: hostile msgpack into the stateless encoder

// c42checkEncoderInput: CompressVote(m) must fail, or produce a frame that decompresses to
// bytes denoting the same vote as m (as judged by the generated codec).
func c42checkEncoderInput(r *ve.Run, f *c42fail, enc *StatelessEncoder, dec *StatelessDecoder, m []byte, what string, keyOverride string) {
	key := func(k string) string {
		if keyOverride != "" {
			return keyOverride
		}
		return k
	}
	r.Eval()
	sl, err := enc.CompressVote(nil, m)
	if err != nil {
		r.Class("msgpack/reject")
		return
	}
	rep := map[string]any{"engine": "enum", "part": "msgpack", "what": what, "msgpack": fmt.Sprintf("%x", m)}
	out, err := dec.DecompressVote(nil, sl)
	if err != nil {
		f.report(key("C42:stateless-decompress-error"), fmt.Sprintf("CompressVote accepted %s but DecompressVote rejects its output: %v", what, err), rep)
		return
	}
	if bytes.Equal(out, m) {
		r.Class("msgpack/accept-identical")
		return
	}
	var vin, vout agreement.UnauthenticatedVote
	errIn := protocol.Decode(m, &vin)
	errOut := protocol.Decode(out, &vout)
	if errIn != nil {
		// the input is not a vote for the generated codec either: nothing was misrepresented
		r.Class("msgpack/accept-nonvote")
		return
	}
	if errOut != nil || vin != vout {
		f.report(key("C42:different-vote"), fmt.Sprintf("CompressVote accepted %s and the pipeline turned it into a DIFFERENT vote (decode err %v):\n in  %x\n out %x\n vin  %+v\n vout %+v", what, errOut, m, out, vin, vout), rep)
		return
	}
	r.Class("msgpack/accept-same-vote")
}

func c42hostileMsgpack(r *ve.Run, f *c42fail, seeds []*c42vote) {
	for si, v := range seeds {
		m := v.msgpack()
		// truncations + single byte edits
		r.ParallelFor(len(m)+1, func(i int) {
			enc, dec := NewStatelessEncoder(), NewStatelessDecoder()
			c42checkEncoderInput(r, f, enc, dec, m[:i], fmt.Sprintf("seed %d truncated to %d", si, i), "")
			if i == len(m) {
				return
			}
			buf := append([]byte(nil), m...)
			for x := 0; x < 256; x++ {
				if byte(x) == m[i] {
					continue
				}
				buf[i] = byte(x)
				c42checkEncoderInput(r, f, enc, dec, buf, fmt.Sprintf("seed %d byte %d := %02x", si, i, x), "")
			}
		})
	}
}

// c42keyOrders: every ordering of the keys of the "r" and "prop" maps (valid msgpack that
// the generated codec decodes to the same vote) into CompressVote.
func c42keyOrders(r *ve.Run, f *c42fail, seeds []*c42vote) {
	for si, v := range seeds {
		prop, _ := v.parts()
		enc, dec := NewStatelessEncoder(), NewStatelessDecoder()
		ve.Permutations(len(prop), func(pp []int) {
			pperm := make([]c42kv, len(prop))
			for i, j := range pp {
				pperm[i] = prop[j]
			}
			rr := v.rparts(pperm)
			ve.Permutations(len(rr), func(rp []int) {
				rperm := make([]c42kv, len(rr))
				names := ""
				canonR, canonP := true, true
				for i, j := range rp {
					rperm[i] = rr[j]
					names += rr[j].k + ","
					canonR = canonR && i == j
				}
				for i, j := range pp {
					canonP = canonP && i == j
				}
				key := ""
				switch {
				case !canonR:
					key = "C42:misordered-r-keys"
				case !canonP:
					key = "C42:misordered-prop-keys"
				}
				c42checkEncoderInput(r, f, enc, dec, v.assemble(rperm), fmt.Sprintf("seed %d with r keys ordered %s prop keys ordered %v", si, names, pp), key)
			})
		})
	}
}

// ---------------------------------------------------------------------------------------
// E-ENUM: malformed compressed frames into the stateful decoder

type c42frameSeed struct {
	name  string
	size  uint
	state *c42sys // decoder (and encoder) state BEFORE the frame
	frame []byte
}

func c42checkFrame(r *ve.Run, f *c42fail, seed *c42frameSeed, frame []byte, what string) {
	r.Eval()
	s := seed.state.clone()
	defer seed.state.pool.Put(s)
	rep := map[string]any{"engine": "enum", "part": "frames", "seed": seed.name, "what": what, "frame": fmt.Sprintf("%x", frame)}
	in := append(s.buf(2, MaxCompressedVoteSize+8), frame...)
	var sl []byte
	var err error
	if r.Guard("C42:decoder-panic", rep, func() {
		sl, err = s.dec.Decompress(s.buf(0, MaxCompressedVoteSize), in)
	}) {
		return
	}
	if err != nil {
		r.Class("frames/stateful-reject")
		return
	}
	var mp []byte
	if r.Guard("C42:decoder-panic", rep, func() {
		mp, err = s.stDec.DecompressVote(s.buf(1, MaxMsgpackVoteSize), sl)
	}) {
		return
	}
	if err != nil {
		r.Class("frames/stateless-reject")
		return
	}
	var uv agreement.UnauthenticatedVote
	if err := protocol.Decode(mp, &uv); err != nil {
		f.report("C42:frame-not-a-vote", fmt.Sprintf("[%s] %s: frame accepted by both decoders but the result is not a decodable vote: %v\n out %x", seed.name, what, err, mp), rep)
		return
	}
	re, err := s.stEnc.CompressVote(s.buf(3, MaxCompressedVoteSize), mp)
	if err != nil {
		// zero-valued required fields written explicitly (e.g. a reference to an empty slot)
		// are still parsed; any rejection here means the decoder emitted something its own
		// encoder does not understand.
		f.report("C42:frame-recompress", fmt.Sprintf("[%s] %s: accepted frame decodes to msgpack that CompressVote rejects: %v\n out %x", seed.name, what, err, mp), rep)
		return
	}
	want := append(s.buf(4, MaxCompressedVoteSize), sl...)
	want[0] &= bitPer | bitDig | bitEncDig | bitOper | bitOprop | bitStep // two reserved bits are ignored by the decoder
	if !bytes.Equal(re, want) {
		f.report("C42:frame-inconsistent", fmt.Sprintf("[%s] %s: accepted frame is not consistent: stateful decoder emitted %x, its msgpack re-compresses to %x", seed.name, what, sl, re), rep)
		return
	}
	if sl[0] != want[0] {
		r.Class("frames/accept-reserved-hdr0-bits")
	} else if bytes.Equal(frame, seed.frame) {
		r.Class("frames/accept-original")
	} else {
		r.Class(fmt.Sprintf("frames/accept/hdr1-%02x", frame[1]))
	}
}

func c42frames(r *ve.Run, f *c42fail, seeds []*c42frameSeed) {
	for _, seed := range seeds {
		seed := seed
		fr := seed.frame
		// unmodified frame must be accepted (sanity of the seed)
		c42checkFrame(r, f, seed, fr, "unmodified")
		// truncations and byte edits
		r.ParallelFor(len(fr), func(i int) {
			c42checkFrame(r, f, seed, fr[:i], fmt.Sprintf("truncated to %d", i))
			buf := append([]byte(nil), fr...)
			for x := 0; x < 256; x++ {
				if byte(x) == fr[i] {
					continue
				}
				buf[i] = byte(x)
				c42checkFrame(r, f, seed, buf, fmt.Sprintf("byte %d := %02x", i, x))
			}
		})
		// trailing garbage
		c42checkFrame(r, f, seed, append(append([]byte(nil), fr...), 0), "one trailing byte")
		// every header pair
		r.ParallelFor(256, func(h0 int) {
			buf := append([]byte(nil), fr...)
			for h1 := 0; h1 < 256; h1++ {
				buf[0], buf[1] = byte(h0), byte(h1)
				c42checkFrame(r, f, seed, buf, fmt.Sprintf("header := %02x %02x", h0, h1))
			}
		})
		// reference ids at every byte-pair position
		ids := []uint16{255, 256, 0x7fff, 0x8000, 0xfffe, 0xffff}
		for id := uint16(0); id < uint16(seed.size)+2; id++ {
			ids = append(ids, id)
		}
		r.ParallelFor(len(fr)-1, func(i int) {
			buf := append([]byte(nil), fr...)
			for _, id := range ids {
				binary.BigEndian.PutUint16(buf[i:], id)
				c42checkFrame(r, f, seed, buf, fmt.Sprintf("bytes %d..%d := ref id %d", i, i+1, id))
			}
		})
		// all-reference header on every prefix-consistent body: hdr1 sweep with refs forced
		// against THIS state is covered by the header sweep above.
	}
}

// c42encoderTruncations: truncated / extended stateless frames into StatefulEncoder.Compress.
func c42encoderTruncations(r *ve.Run, f *c42fail, votes [][]byte) {
	for vi, m := range votes {
		sl, err := NewStatelessEncoder().CompressVote(nil, m)
		if err != nil {
			f.report("C42:stateless-reject-valid", fmt.Sprintf("seed vote rejected: %v", err), nil)
			continue
		}
		for i := 0; i <= len(sl)+1; i++ {
			var in []byte
			if i <= len(sl) {
				in = append([]byte(nil), sl[:i]...)
			} else {
				in = append(append([]byte(nil), sl...), 0x01)
			}
			enc, _ := NewStatefulEncoder(16)
			r.Eval()
			var out []byte
			var err error
			if r.Guard("C42:encoder-panic", map[string]any{"engine": "enum", "part": "enc-trunc", "vote": vi, "len": i}, func() {
				out, err = enc.Compress(nil, in)
			}) {
				continue
			}
			if i == len(sl) {
				if err != nil {
					f.report("C42:stateful-compress-error", fmt.Sprintf("Compress rejected intact frame: %v", err), nil)
				}
				continue
			}
			if err == nil {
				f.report("C42:encoder-accepts-malformed", fmt.Sprintf("StatefulEncoder.Compress accepted a stateless frame cut/extended to %d of %d bytes and produced %x", i, len(sl), out), map[string]any{"engine": "enum", "part": "enc-trunc", "vote": vi, "len": i})
			} else {
				r.Class("enc-trunc/reject")
			}
		}
	}
}

// ---------------------------------------------------------------------------------------

func TestVerif_C42(t *testing.T) {
	r := ve.NewRun("C42", "model_checking")
	if err := c42shapeCheck(); err != nil {
		t.Fatalf("HARNESS: %v", err) // not a verdict
	}
	f := &c42fail{r: r}
	idents := c42idents()
	rounds := []uint64{255, 256, 555}
	periods := []uint64{0, 1}
	steps := []uint64{0, 1, 2, 3, 253}
	props := []c42prop{
		c42mkprop("bottom", 0, 0, 0),
		c42mkprop("p", 0x19, 7, 1),
		c42mkprop("q", 0x2a, 7, 0),
	}

	// full product alphabet
	var full []c42op
	for _, id := range idents {
		for _, rnd := range rounds {
			for _, pr := range props {
				for _, per := range periods {
					for _, st := range steps {
						v := c42build(id, rnd, per, st, pr, 0x07)
						full = append(full, c42op{c42name(id, rnd, per, st, pr), v.msgpack()})
					}
				}
			}
		}
	}
	// core alphabets: state-relevant product, period/step derived (still varied)
	core := func(nid int, rnds []uint64, prs []c42prop) []c42op {
		var out []c42op
		k := 0
		for _, id := range idents[:nid] {
			for _, rnd := range rnds {
				for _, pr := range prs {
					per, st := periods[k%2], steps[k%5]
					k++
					v := c42build(id, rnd, per, st, pr, 0x0b)
					out = append(out, c42op{c42name(id, rnd, per, st, pr), v.msgpack()})
				}
			}
		}
		return out
	}
	core36 := core(4, rounds, props)
	core54 := core(6, rounds, props)
	dFull, dCore, dCore32, dWindow, dCore54 := ve.Pick(3, 4), 40, 40, 40, ve.Pick(0, 40) // 40 = "until no new state appears"

	// window configuration: 7 distinct proposals already exchanged, rounds at the uint64 edge
	const big = math.MaxUint64 - 1
	var wprops []c42prop
	for i := 0; i < 9; i++ {
		fields := []int{7, 1, 3, 5, 7, 2, 6, 7, 4}[i]
		wprops = append(wprops, c42mkprop(fmt.Sprintf("w%d", i), byte(0x30+i*9), fields, uint64(i%3)*200))
	}
	var preamble [][]byte
	for i := 0; i < 7; i++ {
		id := idents[i%2]
		preamble = append(preamble, c42build(id, big, uint64(i%2), uint64(i), wprops[i], 0x0d).msgpack())
	}
	var walpha []c42op
	{
		k := 0
		for _, id := range idents[:3] {
			for _, rnd := range []uint64{big, math.MaxUint64, 255} {
				for _, pr := range []c42prop{wprops[0], wprops[6], wprops[7], wprops[8], props[0]} {
					per, st := periods[k%2], steps[k%5]
					k++
					walpha = append(walpha, c42op{c42name(id, rnd, per, st, pr), c42build(id, rnd, per, st, pr, 0x0e).msgpack()})
				}
			}
		}
	}

	// presence alphabet: every proposal whose four fields are each absent / explicit zero /
	// non-zero (3^4 = 81, the content bytes being the same wherever present): proposals that
	// differ ONLY in which fields are present must stay distinct window entries
	var palpha []c42op
	var palphaCanon [][]byte
	for code := 0; code < 81; code++ {
		st := [4]int{code % 3, code / 3 % 3, code / 9 % 3, code / 27 % 3}
		pr := c42prop{name: fmt.Sprintf("presence[dig,encdig,oper,oprop]=%v", st)}
		base := c42mkprop("", 0x19, 7, 1)
		if st[0] == 2 {
			pr.dig = base.dig
		} else if st[0] == 1 {
			pr.explicit |= bitDig
		}
		if st[1] == 2 {
			pr.encdig = base.encdig
		} else if st[1] == 1 {
			pr.explicit |= bitEncDig
		}
		if st[2] == 2 {
			pr.oper = 1
		} else if st[2] == 1 {
			pr.explicit |= bitOper
		}
		if st[3] == 2 {
			pr.oprop = base.oprop
		} else if st[3] == 1 {
			pr.explicit |= bitOprop
		}
		v := c42build(idents[0], 255, uint64(code%2), steps[code%5], pr, 0x0c)
		palpha = append(palpha, c42op{c42name(idents[0], 255, uint64(code%2), steps[code%5], pr), v.msgpack()})
		v.explicit = 0
		palphaCanon = append(palphaCanon, v.msgpack())
	}
	for i, op := range palpha {
		if err := c42presenceCheck(op.msgp, palphaCanon[i]); err != nil {
			t.Fatalf("HARNESS: presence alphabet vote %s: %v", op.name, err)
		}
	}

	// round-wrap alphabet: from the FRESH state (lastRnd 0), rounds at both ends of uint64, so that
	// every pair (lastRnd, rnd) whose unsigned difference wraps to +1 / -1 is a transition
	var ralpha []c42op
	{
		k := 0
		for _, id := range idents[:2] {
			// (round 0 is not in the alphabet: canonical msgpack omits a zero rnd, the stateless layer
			// requires the field and the sender falls back to the uncompressed vote - no vote exists for round 0)
			for _, rnd := range []uint64{1, 2, math.MaxUint64 - 1, math.MaxUint64} {
				for _, pr := range []c42prop{props[0], props[1]} {
					per, st := periods[k%2], steps[k%5]
					k++
					ralpha = append(ralpha, c42op{c42name(id, rnd, per, st, pr), c42build(id, rnd, per, st, pr, 0x0f).msgpack()})
				}
			}
		}
	}

	// every alphabet vote is a real, canonical vote encoding for the generated codec
	alphabets := map[string][]c42op{"full": full, "core36": core36, "core54": core54, "window": walpha, "roundwrap": ralpha}
	for name, al := range alphabets {
		for _, op := range al {
			if err := c42codecCheck(op.msgp); err != nil {
				t.Fatalf("HARNESS: alphabet %s vote %s: %v", name, op.name, err)
			}
		}
	}
	for i, m := range preamble {
		if err := c42codecCheck(m); err != nil {
			t.Fatalf("HARNESS: preamble vote %d: %v", i, err)
		}
	}

	cov := ve.Coverage{Exhaustive: true}

	// ---- E-ENUM, stateless lattice (cheap) ----
	c42lattice(r, f)
	hostSeeds := []*c42vote{
		c42build(idents[0], 255, 1, 253, props[1], 0x21),       // everything present, 2-byte varuints
		c42build(idents[1], 1, 0, 0, props[0], 0x22),           // minimal vote
		c42build(idents[2], 1<<40, 300, 70000, props[2], 0x23), // wide integers
	}
	// ---- E-SEQ ----
	t0 := time.Now()
	phase := func(name string) {
		r.Note("phase %s done at %.1fs (evaluations so far %d)", name, time.Since(t0).Seconds(), r.Evals())
	}
	phase("lattice")
	if r.Violations() == 0 {
		c42seq(r, &cov, "seq/core16-36", 16, core36, nil, dCore)
	}
	if r.Violations() == 0 {
		c42seq(r, &cov, "seq/full16", 16, full, nil, dFull)
	}
	if r.Violations() == 0 {
		c42seq(r, &cov, "seq/core32-36", 32, core36, nil, dCore32)
	}
	if r.Violations() == 0 {
		c42seq(r, &cov, "seq/window16", 16, walpha, preamble, dWindow)
	}
	if r.Violations() == 0 {
		c42seq(r, &cov, "seq/roundwrap16", 16, ralpha, nil, 40)
	}
	if r.Violations() == 0 {
		c42seq(r, &cov, "seq/presence16", 16, palpha, nil, 3)
	}
	if r.Violations() == 0 && dCore54 > 0 {
		c42seq(r, &cov, "seq/core16-54", 16, core54, nil, dCore54)
	}
	phase("seq")

	// ---- E-ENUM: hostile inputs (only meaningful while the pair stays in sync) ----
	nFrameSeeds := 0
	if r.Violations() == 0 {
		if ve.Thorough() {
			c42hostileMsgpack(r, f, hostSeeds)
		} else {
			c42hostileMsgpack(r, f, hostSeeds[:2])
		}

		// frame seeds captured from real exchanges
		var fseeds []*c42frameSeed
		capture := func(name string, size uint, prefix [][]byte, vote []byte) {
			s := c42newSys(size, nil)
			for i, m := range prefix {
				if err := s.send(m); err != nil {
					f.report("C42:seed", fmt.Sprintf("frame seed %s prefix vote %d: %v", name, i, err), nil)
					return
				}
			}
			before := s.clone()
			before.pool = &sync.Pool{}
			sl, err := s.stEnc.CompressVote(nil, vote)
			if err != nil {
				f.report("C42:stateless-reject-valid", fmt.Sprintf("frame seed %s: %v", name, err), nil)
				return
			}
			fr, err := s.enc.Compress(nil, sl)
			if err != nil {
				f.report("C42:stateful-compress-error", fmt.Sprintf("frame seed %s: %v", name, err), nil)
				return
			}
			fseeds = append(fseeds, &c42frameSeed{name: name, size: size, state: before, frame: append([]byte(nil), fr...)})
			r.Sample(map[string]any{"frame_seed": name, "hdr": fmt.Sprintf("%02x %02x", fr[0], fr[1]), "len": len(fr), "stateless_len": len(sl)})
		}
		vA := c42build(idents[0], 255, 1, 253, props[1], 0x31).msgpack()
		vB := c42build(idents[1], 256, 0, 1, props[2], 0x32).msgpack()
		vC := c42build(idents[2], 555, 1, 2, props[0], 0x33).msgpack()
		vMix := c42build(idents[3], 554, 1, 253, props[1], 0x34).msgpack()
		capture("literal-fresh", 16, nil, vA)
		capture("all-refs", 16, [][]byte{vA}, vA)
		capture("mixed-after-evictions", 16, [][]byte{vA, vB, vC}, vMix)
		capture("window-ref-7", 16, preamble, c42build(idents[0], big, 0, 3, wprops[0], 0x35).msgpack())
		capture("refs-size32", 32, [][]byte{vA, vB, vC}, vB)
		nFrameSeeds = len(fseeds)
		c42frames(r, f, fseeds)
		c42encoderTruncations(r, f, [][]byte{vA, vB, vC})
		phase("hostile frames / msgpack")
	}

	// ---- last: non-canonical key orders into the stateless encoder ----
	c42keyOrders(r, f, hostSeeds)

	cov.Rule = fmt.Sprintf("E-SEQ: BFS over all sequences of real canonical msgpack votes through StatelessEncoder->StatefulEncoder->StatefulDecoder->StatelessDecoder: full product alphabet (%d votes: 6 identities x rounds {255,256,555} x periods {0,1} x steps {0,1,2,3,253} x proposals {bottom,p,q}) to depth %d on 16-entry tables; state-relevant alphabets of %d / %d votes to depth %d / %d on 16-entry and %d votes to depth %d on 32-entry tables; from a non-initial state with a full 7-entry proposal window and rounds at 2^64-2 (%d votes) to depth %d. State key = full encoder dynamicTableState. Oracle per transition: byte-exact round trip at both layers and encoder/decoder table state equality. E-ENUM: 2^15 field-presence subsets x 7 integer size classes through the stateless layer; every truncation / single-byte x 256 / map-key order of msgpack votes into CompressVote; every truncation, single byte x 256, all 65536 header pairs and reference ids at every position of %d captured frames into StatefulDecoder copies",
		len(full), dFull, len(core36), len(core54), dCore, dCore54, len(core36), dCore32, len(walpha), dWindow, nFrameSeeds)
	r.Assume("alphabet votes are produced by a hand-written canonical msgpack writer and cross-checked against the generated codec (protocol.Decode/Encode of agreement.UnauthenticatedVote) — signatures are arbitrary bytes, the codec never verifies them")
	r.Assume("production callers hand CompressVote only protocol.Encode output (agreement/actions.go); non-canonical inputs are explored only as single-byte edits and key re-orderings")
	r.Assume("after any encoder/decoder error the pair is abandoned, as wsPeerMsgCodec switches stateful compression off")
	if r.Finish(cov) > 0 {
		t.Fatal("violations")
	}
}
