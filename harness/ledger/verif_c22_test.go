package ledger

// C22 — Asset supply is conserved and holder rules are enforced.
//
// Engine E-SEQ (explicit-state BFS over operation sequences), level model_checking.
//
// System under test: the real BlockEvaluator (ledger/eval) on a real in-memory Ledger;
// every operation is one transaction pushed through TestTransactionGroup +
// TransactionGroup, so ledger/apply/asset.go and the copy-on-write creatable bookkeeping
// (ledger/eval/cow_creatables.go, cow.go) are what decides acceptance and what moves the
// units. All operations of one trace go into the same block under construction; a fresh
// trace = a fresh evaluator on a shared, never modified ledger (cheap, deterministic).
// Two environments are explored:
//   - "fresh":      no asset exists; manager = freeze = clawback = creator.
//   - "committed":  an asset (total 10, not default-frozen, A opted in and holding 3) was
//                   created in earlier, committed blocks, so the first reads come from the
//                   ledger instead of the block's own modifications; manager = creator,
//                   freeze address = A, clawback address = B (so a holder is the clawback).
//
// Alphabet (accounts C = creator, A, B; one live asset at a time, re-creation after a
// destroy allowed once): create(total in {0,1,10}, default-frozen in {f,t});
// opt-in(X); xfer(X->Y, amt in {0,1,all,all+1}); clawback(X->Y, amt in {1,all}) sent by the
// clawback address; fake-clawback(X->Y,1) sent by an address that is not the clawback;
// freeze(X)/unfreeze(X) sent by the freeze address; close-out(X->Y); close-out with
// AssetCloseTo = the sender itself (alone, or after a 1-unit transfer to another account)
// and close-out(X->Y) after a 1-unit transfer to the third account; config: clear
// clawback / clear freeze / clear manager / "restore all roles" (must not resurrect a
// cleared role); destroy. Operations whose amount coincides with an earlier alphabet
// entry in the current state are disabled (pure duplicates).
// Bound: every sequence up to depth 5 (quick) / 6 (thorough).
//
// Oracle: a reference holdings map written from the property statement and the asset
// section of the ledger spec (boring Go below, c22ref). For every step the reference
// says accept / reject / unspecified and the real verdict is compared both ways; after
// every accepted or rejected step the block is generated from a discarded copy of the
// trace (Final) and the real holdings, frozen flags and asset parameters read from the
// block's state delta (falling back to the ledger for untouched records) are compared
// with the reference, and sum(real holdings) == real AssetParams.Total is checked while
// the asset exists. The state key is the reference state; that is sound because Final
// proves, for every explored state, that the implementation state equals it.
//
// Bracketed (statement does not pin it down, the reference follows the implementation
// and only the resulting state is checked): zero-amount transfers (the code does not
// look at opt-in or freeze for them), close-out of an empty holding to a non-opted-in
// or frozen address, close-out of a frozen holding *to the creator* (documented extra
// path in asset.go), and everything addressed to an already destroyed asset id.
//
// Not covered: two simultaneously live assets, MaxAssetsPerAccount limits, overflow of a
// receiver's balance (total <= 10), inner-transaction asset operations, min-balance
// failures (accounts are rich), rekeyed senders. Trusted: reading holdings from
// StateDelta / Ledger.LookupAsset.
//
// Mutants, all DETECTED by the quick tier (bin/mut ... --only):
//   M1 asset.go AssetTransfer: `takeOut(balances, source, ct.XferAsset, ct.AssetAmount, clawback)` -> `..., true)`
//      (freeze bypass for a non-clawback sender; found after create, optin, freeze, xfer)
//   M2 asset.go AssetConfig destroy: `if assetHolding.Amount != params.Total {` ->
//      `if assetHolding.Amount == 0 && params.Total != 0 {` (destroy while units are out; 4 steps)
//   M3 asset.go putIn: `if rcvHolding.Frozen && !bypassFreeze {` -> `if false && ...` (frozen receiver)
//   M4 asset.go close-out: `bypassFreeze := dstAssetParamsExist` -> `bypassFreeze := true || ...` (5 steps)
//   M5 asset.go AssetConfig: `if !params.Clawback.IsZero() {` -> `if true {` (a cleared clawback can be
//      set again; found by clear clawback + restore roles through the params comparison)

// Independent seeded changes (/verif/seeded): C22-A (the "not zero after closing" check moved
// between takeOut and putIn, so closing a non-empty holding to the sender itself destroys
// the units) was MISSED by the first version (close-out only to other accounts) and is
// DETECTED since the close-to-self / close-with-transfer operations were added; C22-B DETECTED.

import (
	"errors"
	"fmt"
	"os"
	"path/filepath"
	"regexp"
	"runtime/debug"
	"strings"
	"testing"

	"github.com/algorand/go-deadlock"

	"github.com/algorand/go-algorand/config"
	"github.com/algorand/go-algorand/crypto"
	"github.com/algorand/go-algorand/data/basics"
	"github.com/algorand/go-algorand/data/bookkeeping"
	"github.com/algorand/go-algorand/data/transactions"
	"github.com/algorand/go-algorand/data/txntest"
	"github.com/algorand/go-algorand/ledger/eval"
	"github.com/algorand/go-algorand/ledger/ledgercore"
	ledgertesting "github.com/algorand/go-algorand/ledger/testing"
	"github.com/algorand/go-algorand/logging"
	"github.com/algorand/go-algorand/protocol"
	ve "github.com/algorand/go-algorand/verifeng"
)

// ---------------------------------------------------------------- reference model

type c22hold struct {
	In     bool
	Amt    uint64
	Frozen bool
}

// c22ref is the reference state: what the statement/spec say the asset looks like.
type c22ref struct {
	Exists    bool
	Created   int // assets created so far in this history (including a pre-committed one)
	Total     uint64
	DefFrozen bool
	Mgr       bool       // manager role still set
	Frz       bool       // freeze role still set
	Clw       bool       // clawback role still set
	H         [3]c22hold // holdings of the current asset id (left-overs of a destroyed one if !Exists)
	Zomb      [3]int     // left-over holdings of older, replaced asset ids (unreachable by the alphabet)
}

type c22verdict int

const (
	c22Reject c22verdict = iota
	c22Accept
	c22Either
)

func (v c22verdict) String() string { return [...]string{"reject", "accept", "either"}[v] }

const (
	c22kCreate = iota
	c22kOptin
	c22kXfer
	c22kFreeze
	c22kClaw
	c22kClose
	c22kCfgClear
	c22kCfgRestore
	c22kDestroy
	c22kFakeClaw
	c22kCloseX // close-out variants: close-to-self, and close-out combined with a 1-unit transfer
)

var c22kindNames = [...]string{"create", "optin", "xfer", "freeze", "clawback", "closeout", "cfg-clear", "cfg-restore", "destroy", "fake-clawback", "closeout-x"}

type c22op struct {
	kind  int
	x, y  int    // account indices
	sel   int    // amount selector / total / which role
	flag  bool   // default-frozen / frozen
	total uint64 // create
	z     int    // closeout-x: receiver of the 1-unit transfer part (-1: none, amount 0)
}

var c22acct = [...]string{"C", "A", "B"}

func (o c22op) String() string {
	switch o.kind {
	case c22kCreate:
		return fmt.Sprintf("create(total=%d,df=%v)", o.total, o.flag)
	case c22kOptin:
		return fmt.Sprintf("optin(%s)", c22acct[o.x])
	case c22kXfer:
		return fmt.Sprintf("xfer(%s->%s,%s)", c22acct[o.x], c22acct[o.y], [...]string{"0", "1", "all", "all+1"}[o.sel])
	case c22kFreeze:
		return fmt.Sprintf("freeze(%s,%v)", c22acct[o.x], o.flag)
	case c22kClaw:
		return fmt.Sprintf("clawback(%s->%s,%s)", c22acct[o.x], c22acct[o.y], [...]string{"1", "all"}[o.sel])
	case c22kClose:
		return fmt.Sprintf("closeout(%s->%s)", c22acct[o.x], c22acct[o.y])
	case c22kCfgClear:
		return "config(clear " + [...]string{"clawback", "freeze", "manager"}[o.sel] + ")"
	case c22kCfgRestore:
		return "config(restore roles)"
	case c22kDestroy:
		return "destroy"
	case c22kFakeClaw:
		return fmt.Sprintf("fake-clawback(%s->%s,1)", c22acct[o.x], c22acct[o.y])
	case c22kCloseX:
		if o.z < 0 {
			return fmt.Sprintf("closeout(%s->%s)", c22acct[o.x], c22acct[o.y])
		}
		return fmt.Sprintf("closeout(%s->%s, after xfer 1 to %s)", c22acct[o.x], c22acct[o.y], c22acct[o.z])
	}
	return "?"
}

func c22alphabet() []c22op {
	var ops []c22op
	for _, tot := range []uint64{0, 1, 10} {
		for _, df := range []bool{false, true} {
			ops = append(ops, c22op{kind: c22kCreate, total: tot, flag: df})
		}
	}
	for x := 0; x < 3; x++ {
		ops = append(ops, c22op{kind: c22kOptin, x: x})
	}
	pairs := func(f func(x, y int)) {
		for x := 0; x < 3; x++ {
			for y := 0; y < 3; y++ {
				if x != y {
					f(x, y)
				}
			}
		}
	}
	pairs(func(x, y int) {
		for sel := 0; sel < 4; sel++ {
			ops = append(ops, c22op{kind: c22kXfer, x: x, y: y, sel: sel})
		}
	})
	for x := 0; x < 3; x++ {
		ops = append(ops, c22op{kind: c22kFreeze, x: x, flag: true}, c22op{kind: c22kFreeze, x: x, flag: false})
	}
	pairs(func(x, y int) {
		for sel := 0; sel < 2; sel++ {
			ops = append(ops, c22op{kind: c22kClaw, x: x, y: y, sel: sel})
		}
	})
	pairs(func(x, y int) { ops = append(ops, c22op{kind: c22kClose, x: x, y: y}) })
	for sel := 0; sel < 3; sel++ {
		ops = append(ops, c22op{kind: c22kCfgClear, sel: sel})
	}
	ops = append(ops, c22op{kind: c22kCfgRestore}, c22op{kind: c22kDestroy})
	pairs(func(x, y int) { ops = append(ops, c22op{kind: c22kFakeClaw, x: x, y: y}) })
	// close-out aliases: AssetCloseTo == sender (alone, or after sending 1 unit to someone
	// else), and an ordinary close-out that first sends 1 unit to the third account
	for x := 0; x < 3; x++ {
		ops = append(ops, c22op{kind: c22kCloseX, x: x, y: x, z: -1})
	}
	pairs(func(x, y int) { ops = append(ops, c22op{kind: c22kCloseX, x: x, y: x, z: y}) })
	pairs(func(x, y int) { ops = append(ops, c22op{kind: c22kCloseX, x: x, y: y, z: 3 - x - y}) })
	return ops
}

// amount returns the amount an op moves in the given reference state, and whether the
// op is a pure duplicate of an earlier alphabet entry (then it is disabled).
func (o c22op) amount(ref *c22ref) (amt uint64, dup bool) {
	all := uint64(0)
	if ref.H[o.x].In {
		all = ref.H[o.x].Amt
	}
	switch o.kind {
	case c22kXfer:
		switch o.sel {
		case 0:
			return 0, false
		case 1:
			return 1, false
		case 2:
			return all, all <= 1
		default:
			return all + 1, all == 0
		}
	case c22kClaw:
		if o.sel == 0 {
			return 1, false
		}
		return all, all <= 1
	case c22kFakeClaw:
		return 1, false
	case c22kCloseX:
		if o.z >= 0 {
			return 1, false
		}
	}
	return 0, false
}

// judge is the reference rule book: verdict for op in state ref, and the effect to apply
// to the reference if the implementation accepts (for c22Either the reference follows).
func (ref *c22ref) judge(o c22op, amt uint64) (c22verdict, func(r *c22ref)) {
	none := func(*c22ref) {}
	x, y := o.x, o.y
	switch o.kind {
	case c22kCreate:
		return c22Accept, func(r *c22ref) {
			for i := range r.H {
				if r.H[i].In {
					r.Zomb[i]++
				}
				r.H[i] = c22hold{}
			}
			r.Exists, r.Total, r.DefFrozen = true, o.total, o.flag
			r.Created++
			r.Mgr, r.Frz, r.Clw = true, true, true
			r.H[0] = c22hold{In: true, Amt: o.total} // the creator's own holding starts unfrozen
		}
	case c22kOptin:
		if ref.H[x].In {
			return c22Either, none // zero self-transfer of an existing holding
		}
		if !ref.Exists {
			return c22Reject, none
		}
		return c22Accept, func(r *c22ref) { r.H[x] = c22hold{In: true, Frozen: r.DefFrozen} }
	case c22kXfer:
		if amt == 0 {
			return c22Either, none
		}
		hx, hy := ref.H[x], ref.H[y]
		if hx.In && hy.In && !hx.Frozen && !hy.Frozen && hx.Amt >= amt {
			return c22Accept, func(r *c22ref) { r.H[x].Amt -= amt; r.H[y].Amt += amt }
		}
		return c22Reject, none
	case c22kClaw:
		hx, hy := ref.H[x], ref.H[y]
		if ref.Exists && ref.Clw && hx.In && hy.In && hx.Amt >= amt {
			return c22Accept, func(r *c22ref) { r.H[x].Amt -= amt; r.H[y].Amt += amt }
		}
		return c22Reject, none
	case c22kFakeClaw:
		return c22Reject, none
	case c22kFreeze:
		if ref.Exists && ref.Frz && ref.H[x].In {
			return c22Accept, func(r *c22ref) { r.H[x].Frozen = o.flag }
		}
		return c22Reject, none
	case c22kClose:
		hx, hy := ref.H[x], ref.H[y]
		eff := func(r *c22ref) {
			if r.H[y].In {
				r.H[y].Amt += r.H[x].Amt
			}
			r.H[x] = c22hold{}
		}
		if !hx.In {
			return c22Reject, none
		}
		if ref.Exists && x == 0 {
			return c22Reject, none // the creator cannot close out of its own asset
		}
		frozen := hx.Frozen || (hy.In && hy.Frozen)
		if hx.Amt == 0 {
			if hy.In && !frozen {
				return c22Accept, eff
			}
			return c22Either, eff
		}
		if !hy.In {
			return c22Reject, none
		}
		if !frozen {
			return c22Accept, eff
		}
		if y == 0 {
			return c22Either, eff // documented extra path: closing to the creator ignores freeze
		}
		return c22Reject, none
	case c22kCloseX:
		// an asset transfer of amt units to z (if any) followed by closing the rest of x's
		// holding to y, where y may be x itself: then the units have nowhere to go, so a
		// non-empty holding cannot be closed to its own account.
		h := ref.H
		if amt > 0 {
			z := o.z
			if !(h[x].In && h[z].In && !h[x].Frozen && !h[z].Frozen && h[x].Amt >= amt) {
				return c22Reject, none
			}
			h[x].Amt -= amt
			h[z].Amt += amt
		}
		if !h[x].In {
			return c22Reject, none
		}
		if ref.Exists && x == 0 {
			return c22Reject, none
		}
		rem := h[x].Amt
		eff := func(r *c22ref) {
			hh := h
			if y != x && hh[y].In {
				hh[y].Amt += rem
			}
			hh[x] = c22hold{}
			r.H = hh
		}
		if y == x {
			if rem > 0 {
				return c22Reject, none
			}
			return c22Either, eff
		}
		frozen := h[x].Frozen || (h[y].In && h[y].Frozen)
		if rem == 0 {
			if h[y].In && !frozen {
				return c22Accept, eff
			}
			return c22Either, eff
		}
		if !h[y].In {
			return c22Reject, none
		}
		if !frozen {
			return c22Accept, eff
		}
		if y == 0 {
			return c22Either, eff
		}
		return c22Reject, none
	case c22kCfgClear:
		if ref.Exists && ref.Mgr {
			return c22Accept, func(r *c22ref) {
				switch o.sel {
				case 0:
					r.Clw = false
				case 1:
					r.Frz = false
				default:
					r.Mgr = false
				}
			}
		}
		return c22Reject, none
	case c22kCfgRestore:
		if ref.Exists && ref.Mgr {
			return c22Accept, none // a cleared role can never be set again
		}
		return c22Reject, none
	case c22kDestroy:
		if ref.Exists && ref.Mgr && ref.H[0].In && ref.H[0].Amt == ref.Total {
			return c22Accept, func(r *c22ref) { r.Exists = false; r.H[0] = c22hold{} }
		}
		return c22Reject, none
	}
	return c22Either, none
}

// ---------------------------------------------------------------- environment / driver

type c22env struct {
	name    string
	l       *Ledger
	addr    [3]basics.Address
	roles   [3]int // manager, freeze, clawback -> account index
	fake    int    // sender of fake clawbacks (never the clawback address)
	nextHdr bookkeeping.BlockHeader
	proto   config.ConsensusParams
	init    c22ref
	initAid basics.AssetIndex
	ops     []c22op
}

type c22sys struct {
	e    *c22env
	ev   *eval.BlockEvaluator
	ref  c22ref
	aid  basics.AssetIndex
	step int
	obs  string
}

const c22bogusAsset = basics.AssetIndex(987654321) // addressed before any asset was created

func c22openLedger(dir, name string, cv protocol.ConsensusVersion, gb bookkeeping.GenesisBalances) (*Ledger, error) {
	var genHash crypto.Digest
	copy(genHash[:], "verif-c22-genesis-hash")
	genBlock, err := bookkeeping.MakeGenesisBlock(cv, gb, "verif", genHash)
	if err != nil {
		return nil, err
	}
	cfg := config.GetDefaultLocal()
	cfg.Archival = true
	log := logging.NewLogger()
	log.SetLevel(logging.Error)
	return OpenLedger(log, filepath.Join(dir, name), true, ledgercore.InitState{
		Block: genBlock, Accounts: gb.Balances, GenesisHash: genHash}, cfg)
}

func (e *c22env) prepare() error {
	rnd := e.l.Latest()
	hdr, err := e.l.BlockHdr(rnd)
	if err != nil {
		return err
	}
	e.nextHdr = bookkeeping.MakeBlock(hdr).BlockHeader
	e.nextHdr.TimeStamp = hdr.TimeStamp + 1
	e.proto = config.Consensus[e.nextHdr.CurrentProtocol]
	return nil
}

func (e *c22env) newSys() *c22sys {
	ev, err := eval.StartEvaluator(e.l, e.nextHdr, eval.EvaluatorOptions{Generate: true, Validate: true})
	if err != nil {
		panic(fmt.Sprintf("harness: StartEvaluator: %v", err))
	}
	return &c22sys{e: e, ev: ev, ref: e.init, aid: e.initAid}
}

func (s *c22sys) roleAddr(role int, set bool) basics.Address {
	if !set {
		return basics.Address{}
	}
	return s.e.addr[s.e.roles[role]]
}

// build turns an op into a transaction for the current state.
func (s *c22sys) build(o c22op, amt uint64) *txntest.Txn {
	e := s.e
	aid := s.aid
	if aid == 0 {
		aid = c22bogusAsset
	}
	var tx txntest.Txn
	switch o.kind {
	case c22kCreate:
		tx = txntest.Txn{Type: "acfg", Sender: e.addr[0], AssetParams: basics.AssetParams{
			Total: o.total, DefaultFrozen: o.flag, UnitName: "c22",
			Manager: e.addr[e.roles[0]], Reserve: e.addr[0], Freeze: e.addr[e.roles[1]], Clawback: e.addr[e.roles[2]]}}
	case c22kOptin:
		tx = txntest.Txn{Type: "axfer", Sender: e.addr[o.x], XferAsset: aid, AssetReceiver: e.addr[o.x]}
	case c22kXfer:
		tx = txntest.Txn{Type: "axfer", Sender: e.addr[o.x], XferAsset: aid, AssetReceiver: e.addr[o.y], AssetAmount: amt}
	case c22kClaw:
		tx = txntest.Txn{Type: "axfer", Sender: e.addr[e.roles[2]], XferAsset: aid, AssetSender: e.addr[o.x], AssetReceiver: e.addr[o.y], AssetAmount: amt}
	case c22kFakeClaw:
		tx = txntest.Txn{Type: "axfer", Sender: e.addr[e.fake], XferAsset: aid, AssetSender: e.addr[o.x], AssetReceiver: e.addr[o.y], AssetAmount: amt}
	case c22kFreeze:
		tx = txntest.Txn{Type: "afrz", Sender: e.addr[e.roles[1]], FreezeAsset: aid, FreezeAccount: e.addr[o.x], AssetFrozen: o.flag}
	case c22kClose:
		tx = txntest.Txn{Type: "axfer", Sender: e.addr[o.x], XferAsset: aid, AssetReceiver: e.addr[o.y], AssetCloseTo: e.addr[o.y]}
	case c22kCloseX:
		tx = txntest.Txn{Type: "axfer", Sender: e.addr[o.x], XferAsset: aid, AssetCloseTo: e.addr[o.y], AssetAmount: amt}
		if o.z >= 0 {
			tx.AssetReceiver = e.addr[o.z]
		} // else: zero-amount transfer to the zero address, only the close-to matters
	case c22kCfgClear, c22kCfgRestore:
		p := basics.AssetParams{Manager: s.roleAddr(0, s.ref.Mgr), Reserve: e.addr[0], Freeze: s.roleAddr(1, s.ref.Frz), Clawback: s.roleAddr(2, s.ref.Clw)}
		if o.kind == c22kCfgRestore {
			p.Manager, p.Freeze, p.Clawback = s.roleAddr(0, true), s.roleAddr(1, true), s.roleAddr(2, true)
		} else {
			switch o.sel {
			case 0:
				p.Clawback = basics.Address{}
			case 1:
				p.Freeze = basics.Address{}
			default:
				p.Manager = basics.Address{}
			}
		}
		tx = txntest.Txn{Type: "acfg", Sender: e.addr[e.roles[0]], ConfigAsset: aid, AssetParams: p}
	case c22kDestroy:
		tx = txntest.Txn{Type: "acfg", Sender: e.addr[e.roles[0]], ConfigAsset: aid}
	}
	tx.FirstValid = s.ev.Round()
	tx.GenesisHash = e.l.GenesisHash()
	tx.Note = fmt.Sprintf("c22 step %d", s.step) // identical ops in one block must not collide as duplicates
	tx.FillDefaults(e.proto)
	return &tx
}

func c22errClass(err error) string {
	if err == nil {
		return "ok"
	}
	m := err.Error()
	for _, k := range []string{"frozen in recipient", "frozen in", "must optin", "missing from", "clawback not allowed", "freeze not allowed",
		"should be issued by the manager", "cannot destroy asset", "does not exist or has been deleted", "underflow", "cannot close asset ID in allocating account",
		"asset not found in account", "not present in account", "cannot close asset holding", "malformed", "overspend", "below min"} {
		if strings.Contains(m, k) {
			return k
		}
	}
	var abe *ledgercore.AssetBalanceError
	if errors.As(err, &abe) {
		return "asset balance too low"
	}
	m = c22idPattern.ReplaceAllString(m, "<id>") // transaction ids / addresses would make every message distinct
	if len(m) > 60 {
		m = m[:60]
	}
	return m
}

var c22idPattern = regexp.MustCompile(`[A-Z2-7]{52,58}`)

func (s *c22sys) apply(opi int) (bool, error) {
	o := s.e.ops[opi]
	if o.kind == c22kCreate && (s.ref.Exists || s.ref.Created >= 2) {
		return false, nil // one live asset at a time, at most one re-creation
	}
	amt, dup := o.amount(&s.ref)
	if dup {
		return false, nil
	}
	want, effect := s.ref.judge(o, amt)
	tx := s.build(o, amt)
	s.step++
	grp := []transactions.SignedTxn{tx.SignedTxn()}
	err := s.ev.TestTransactionGroup(grp)
	if err == nil {
		err = s.ev.TransactionGroup(transactions.WrapSignedTxnsWithAD(grp)...)
	}
	var pe ledgercore.EvalPanicError
	if errors.As(err, &pe) {
		return true, ve.Violationf("C22:panic", "%v panicked inside the evaluator: %v", o, err)
	}
	accepted := err == nil
	s.obs = fmt.Sprintf("%s/%v/%s", c22kindNames[o.kind], want, c22errClass(err))
	switch {
	case want == c22Accept && !accepted:
		return true, ve.Violationf("C22:"+c22kindNames[o.kind]+"-wrongly-rejected", "%v (amount %d) must be accepted in reference state %+v but the evaluator said: %v", o, amt, s.ref, err)
	case want == c22Reject && accepted:
		return true, ve.Violationf("C22:"+c22kindNames[o.kind]+"-wrongly-accepted", "%v (amount %d) must be rejected in reference state %+v but the evaluator accepted it", o, amt, s.ref)
	}
	if accepted {
		effect(&s.ref)
		if o.kind == c22kCreate {
			s.aid = basics.AssetIndex(s.ev.TestingTxnCounter())
		}
	}
	return true, nil
}

func (s *c22sys) key() string {
	return fmt.Sprintf("%s|%d|%+v", s.e.name, s.aid, s.ref)
}

// readAsset returns the holding / params of (addr, aid) as of the end of the generated block.
func c22readAsset(l *Ledger, d *ledgercore.StateDelta, addr basics.Address, aid basics.AssetIndex) (h *basics.AssetHolding, p *basics.AssetParams, err error) {
	var base ledgercore.AssetResource
	haveBase := false
	getBase := func() error {
		if haveBase {
			return nil
		}
		var e error
		base, e = l.LookupAsset(l.Latest(), addr, aid)
		haveBase = e == nil
		return e
	}
	if hd, ok := d.Accts.GetAssetHolding(addr, aid); ok {
		if !hd.Deleted {
			h = hd.Holding
		}
	} else {
		if err = getBase(); err != nil {
			return
		}
		h = base.AssetHolding
	}
	if pd, ok := d.Accts.GetAssetParams(addr, aid); ok {
		if !pd.Deleted {
			p = pd.Params
		}
	} else {
		if err = getBase(); err != nil {
			return
		}
		p = base.AssetParams
	}
	return
}

// final is destructive (GenerateBlock ends the evaluator): compare the implementation's
// end-of-block asset state with the reference, and check supply conservation.
func (s *c22sys) final() error {
	ub, err := s.ev.GenerateBlock(nil)
	if err != nil {
		return ve.Violationf("C22:generate-block", "GenerateBlock failed after an accepted history: %v", err)
	}
	d := ub.UnfinishedDeltas()
	aid := s.aid
	if aid == 0 {
		aid = c22bogusAsset
	}
	var sum uint64
	var params *basics.AssetParams
	for i := 0; i < 3; i++ {
		h, p, err := c22readAsset(s.e.l, &d, s.e.addr[i], aid)
		if err != nil {
			return ve.Violationf("C22:lookup", "lookup of %s failed: %v", c22acct[i], err)
		}
		want := s.ref.H[i]
		switch {
		case h == nil && want.In:
			return ve.Violationf("C22:holding-missing", "%s should hold asset %d (%+v) but has no holding", c22acct[i], aid, want)
		case h != nil && !want.In:
			return ve.Violationf("C22:holding-unexpected", "%s has holding %+v of asset %d but the reference says not opted in", c22acct[i], *h, aid)
		case h != nil && (h.Amount != want.Amt || h.Frozen != want.Frozen):
			return ve.Violationf("C22:holding-differs", "%s holds %+v of asset %d, reference says %+v", c22acct[i], *h, aid, want)
		}
		if h != nil {
			sum += h.Amount
		}
		if p != nil {
			if i != 0 {
				return ve.Violationf("C22:params-misplaced", "asset params of %d found in non-creator %s", aid, c22acct[i])
			}
			params = p
		}
	}
	if s.ref.Exists {
		if params == nil {
			return ve.Violationf("C22:params-missing", "asset %d should exist but the creator has no params", aid)
		}
		if sum != params.Total {
			return ve.Violationf("C22:supply-not-conserved", "sum of holdings %d != AssetParams.Total %d (reference %+v)", sum, params.Total, s.ref)
		}
		if params.Total != s.ref.Total || params.DefaultFrozen != s.ref.DefFrozen ||
			params.Manager != s.roleAddr(0, s.ref.Mgr) || params.Freeze != s.roleAddr(1, s.ref.Frz) || params.Clawback != s.roleAddr(2, s.ref.Clw) {
			return ve.Violationf("C22:params-differ", "asset params %+v differ from reference %+v", *params, s.ref)
		}
	} else {
		if params != nil {
			return ve.Violationf("C22:params-survive-destroy", "asset %d should not exist but params %+v are present", aid, *params)
		}
		if sum != 0 {
			return ve.Violationf("C22:units-survive-destroy", "asset %d does not exist but %d units are still held", aid, sum)
		}
	}
	return nil
}

func TestVerif_C22(t *testing.T) {
	// harness-only process settings: no lock-order bookkeeping on every mutex operation
	// (it dominates the run time and observes nothing the oracle uses), fewer GC cycles.
	deadlock.Opts.Disable = true
	defer debug.SetGCPercent(debug.SetGCPercent(400))
	r := ve.NewRun("C22", "model_checking")
	dir := ve.ScratchDir("c22")
	defer os.RemoveAll(dir)

	cv := protocol.ConsensusCurrentVersion
	ops := c22alphabet()

	mkenv := func(name string, roles [3]int, fake int, committed bool) *c22env {
		gb, addrs, _ := ledgertesting.NewTestGenesis(ledgertesting.TurnOffRewards)
		l, err := c22openLedger(dir, name, cv, gb)
		if err != nil {
			t.Fatalf("harness: open ledger: %v", err)
		}
		e := &c22env{name: name, l: l, roles: roles, fake: fake, ops: ops}
		copy(e.addr[:], addrs[:3])
		if committed {
			// three committed blocks: create, opt-in of A, transfer of 3 units to A
			ev := nextBlock(t, l)
			txn(t, l, ev, &txntest.Txn{Type: "acfg", Sender: e.addr[0], AssetParams: basics.AssetParams{
				Total: 10, UnitName: "c22", Manager: e.addr[roles[0]], Reserve: e.addr[0], Freeze: e.addr[roles[1]], Clawback: e.addr[roles[2]]}})
			aid := basics.AssetIndex(ev.TestingTxnCounter())
			endBlock(t, l, ev)
			ev = nextBlock(t, l)
			txn(t, l, ev, &txntest.Txn{Type: "axfer", Sender: e.addr[1], XferAsset: aid, AssetReceiver: e.addr[1]})
			endBlock(t, l, ev)
			ev = nextBlock(t, l)
			txn(t, l, ev, &txntest.Txn{Type: "axfer", Sender: e.addr[0], XferAsset: aid, AssetReceiver: e.addr[1], AssetAmount: 3})
			endBlock(t, l, ev)
			e.initAid = aid
			e.init = c22ref{Exists: true, Created: 1, Total: 10, Mgr: true, Frz: true, Clw: true}
			e.init.H[0] = c22hold{In: true, Amt: 7}
			e.init.H[1] = c22hold{In: true, Amt: 3}
		}
		if err := e.prepare(); err != nil {
			t.Fatalf("harness: %v", err)
		}
		return e
	}
	envs := []*c22env{
		mkenv("fresh", [3]int{0, 0, 0}, 1, false),
		mkenv("committed", [3]int{0, 1, 2}, 0, true),
	}
	defer func() {
		for _, e := range envs {
			e.l.Close()
		}
	}()

	depth := ve.Pick(5, 6)
	var cov ve.Coverage
	cov.Exhaustive = true
	for _, e := range envs {
		e := e
		q := &ve.Seq[*c22sys]{
			Name:     "asset/" + e.name,
			NumOps:   len(ops),
			OpName:   func(op int) string { return ops[op].String() },
			New:      e.newSys,
			Apply:    func(s *c22sys, op int) (bool, error) { return s.apply(op) },
			Key:      func(s *c22sys) string { return s.key() },
			Final:    func(s *c22sys) error { return s.final() },
			Observe:  func(s *c22sys) string { return s.obs },
			MaxDepth: depth,
		}
		res := q.Explore(r)
		cov.AddSeq(res)
		if !res.Exhaustive {
			cov.Exhaustive = false
		}
		if r.Violations() > 0 {
			break
		}
	}
	cov.Rule = fmt.Sprintf("BFS over all sequences (depth <= %d) of %d asset operations among creator/A/B pushed through the real BlockEvaluator on a real ledger, in 2 environments (asset created in-block with all roles = creator; asset pre-committed with freeze=A, clawback=B); per step accept/reject compared with a reference rule book, per state the real holdings/frozen flags/params are read back from the generated block and compared with the reference, and sum(holdings)==Total is checked", depth, len(ops))
	r.Assume("state key = reference state; sound because every explored state's implementation holdings/params are proven equal to it by the Final check")
	r.Assume("zero-amount transfers, empty close-outs to non-opted-in/frozen addresses, frozen close-out to the creator and operations on a destroyed asset id are bracketed (reference follows the implementation; resulting state still checked)")
	r.Assume("all operations of a trace are in one block under construction; cross-block persistence of holdings is exercised only by the pre-committed environment")
	if r.Finish(cov) > 0 {
		t.Fatal("violations")
	}
}
