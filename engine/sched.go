//go:build verifshim

package verifeng

// E-SCHED — a cooperative scheduler that explores the interleavings of real goroutines
// running real go-algorand code.
//
//   - Scheduling points: every deadlock.Mutex / RWMutex acquire (through the go-deadlock
//     shim), every util/verifhook.Point (db.atomic.enter/exit are treated as acquire /
//     release of one pseudo-lock per database handle, so two SQLite write transactions
//     are never run against each other), and explicit Sched.Point calls in harness seams.
//   - Quiescence: every execution runs inside a testing/synctest bubble; the controller
//     calls synctest.Wait(), after which every managed thread is parked at a point, done,
//     or durably blocked in an unhooked primitive (channel, sync.Cond, WaitGroup, Sleep).
//   - Exploration: stateless DFS over choice sequences with a preemption bound (iterative
//     context bounding). Choice 0 = keep running the current thread if it is enabled,
//     else the lowest thread id; alternatives cost a preemption when the running thread
//     was still enabled.
//
// Known limits: Go's select among several ready cases and the wake-up order of several
// goroutines released by one channel operation are not owned; goroutines spawned by the
// code under test are unmanaged (their lock operations pass through) and run to their
// next durable block between two scheduling decisions.

import (
	"encoding/json"
	"fmt"
	"runtime/debug"
	"sort"
	"strings"
	"sync"
	"testing"
	"testing/synctest"
	"time"

	"github.com/algorand/go-algorand/util/verifhook"
	deadlock "github.com/algorand/go-deadlock"
)

type schedThread struct {
	s      *Sched
	id     int
	name   string
	resume chan bool // true = go on, false = abort (Goexit)
	state  int       // 0 new/running, 1 at point, 2 done
	pend   schedOp
	panicv any
	stack  string
}

type schedOp struct {
	kind  string // "lock", "rlock", "point:<name>", "start"
	obj   any
	write bool
}

type schedLock struct {
	writer  *schedThread
	readers map[*schedThread]int
}

// SchedPoint describes one scheduling decision of an execution.
type SchedPoint struct {
	Enabled        []int  // thread ids in canonical order
	Chosen         int    // index into Enabled
	RunningEnabled bool   // the previously running thread was among Enabled (index 0)
	Op             string // operation granted
}

// Sched is the scheduler of one execution.
type Sched struct {
	mu       sync.Mutex
	threads  []*schedThread
	cur      *schedThread
	locks    map[any]*schedLock
	Points   []SchedPoint
	Log      []string // granted operations "T1:lock", for determinism checks / replay artefacts
	deadlock string   // non-empty: description of a deadlock / stuck state
	prefix   []int
	diverged string
	// HookFault, if set, is consulted at verifhook points of managed threads and may return an
	// error to inject (e.g. a failing commit). It runs after the point was granted.
	HookFault func(thread string, name string, args []any) error
	// virtual time the controller may let pass while threads are blocked in unhooked waits
	Horizon time.Duration
	names   map[any]string
}

var schedByGid sync.Map // int64 -> *schedThread

var schedInstall sync.Once

func schedInstallHooks() {
	schedInstall.Do(func() {
		deadlock.SetHook(schedLockHook{})
		verifhook.SetHandler(schedVerifHook)
	})
}

func schedCurrent() *schedThread {
	if v, ok := schedByGid.Load(deadlock.GoID()); ok {
		return v.(*schedThread)
	}
	return nil
}

type schedLockHook struct{}

func (schedLockHook) BeforeAcquire(lock any, write bool) bool {
	th := schedCurrent()
	if th == nil {
		return false
	}
	k := "rlock"
	if write {
		k = "lock"
	}
	th.park(schedOp{kind: k, obj: lock, write: write})
	return true
}

func (schedLockHook) AfterAcquire(lock any, write bool) {
	th := schedCurrent()
	if th == nil {
		return
	}
	th.s.acquired(th, lock, write)
}

func (schedLockHook) BeforeRelease(lock any, write bool) bool {
	th := schedCurrent()
	if th == nil {
		return false
	}
	th.s.released(th, lock, write)
	return true
}

type schedDBKey struct{ h any }

func schedVerifHook(name string, args ...any) error {
	th := schedCurrent()
	if th == nil {
		return nil
	}
	s := th.s
	switch name {
	case "db.atomic.enter":
		if len(args) >= 2 {
			if ro, _ := args[1].(bool); !ro {
				k := schedDBKey{args[0]}
				th.park(schedOp{kind: "lock", obj: k, write: true})
				s.acquired(th, k, true)
			}
		}
		return nil
	case "db.atomic.exit":
		if len(args) >= 2 {
			if ro, _ := args[1].(bool); !ro {
				s.released(th, schedDBKey{args[0]}, true)
			}
		}
		return nil
	}
	th.park(schedOp{kind: "point:" + name})
	if s.HookFault != nil {
		return s.HookFault(th.name, name, args)
	}
	return nil
}

func (th *schedThread) park(op schedOp) {
	s := th.s
	s.mu.Lock()
	th.pend = op
	th.state = 1
	s.mu.Unlock()
	if !<-th.resume {
		panic(schedAbort{})
	}
}

type schedAbort struct{}

func (s *Sched) acquired(th *schedThread, lock any, write bool) {
	s.mu.Lock()
	ls := s.locks[lock]
	if ls == nil {
		ls = &schedLock{readers: map[*schedThread]int{}}
		s.locks[lock] = ls
	}
	if write {
		ls.writer = th
	} else {
		ls.readers[th]++
	}
	s.mu.Unlock()
}

func (s *Sched) released(th *schedThread, lock any, write bool) {
	s.mu.Lock()
	if ls := s.locks[lock]; ls != nil {
		if write {
			if ls.writer == th {
				ls.writer = nil
			}
		} else if ls.readers[th] > 0 {
			ls.readers[th]--
			if ls.readers[th] == 0 {
				delete(ls.readers, th)
			}
		}
	}
	s.mu.Unlock()
}

func (s *Sched) enabled(th *schedThread) bool {
	op := th.pend
	if op.kind != "lock" && op.kind != "rlock" {
		return true
	}
	ls := s.locks[op.obj]
	if ls == nil {
		return true
	}
	if ls.writer != nil {
		return false
	}
	if op.write {
		for r := range ls.readers {
			_ = r
			return false
		}
	}
	return true
}

// Go starts a managed thread. It parks immediately; its first step is a scheduling decision.
func (s *Sched) Go(name string, f func()) {
	th := &schedThread{s: s, id: len(s.threads), name: name, resume: make(chan bool)}
	s.mu.Lock()
	s.threads = append(s.threads, th)
	th.pend = schedOp{kind: "start"}
	th.state = 1
	s.mu.Unlock()
	go func() {
		gid := deadlock.GoID()
		schedByGid.Store(gid, th)
		defer func() {
			schedByGid.Delete(gid)
			if e := recover(); e != nil {
				if _, ok := e.(schedAbort); !ok {
					th.panicv = e
					th.stack = string(debug.Stack())
				}
			}
			s.mu.Lock()
			th.state = 2
			s.mu.Unlock()
		}()
		if !<-th.resume {
			return
		}
		f()
	}()
}

// Point is an explicit scheduling point for harness-owned seams.
func (s *Sched) Point(name string) {
	if th := schedCurrent(); th != nil && th.s == s {
		th.park(schedOp{kind: "point:" + name})
	}
}

// ThreadName returns the managed thread name of the calling goroutine ("" if unmanaged).
func ThreadName() string {
	if th := schedCurrent(); th != nil {
		return th.name
	}
	return ""
}

func (s *Sched) opString(th *schedThread) string {
	op := th.pend
	if op.obj != nil {
		return fmt.Sprintf("%s:%s(%s)", th.name, op.kind, s.lockName(op.obj))
	}
	return th.name + ":" + op.kind
}

// lockName gives locks a stable per-execution name (order of first use), because pointer
// values differ between executions.
func (s *Sched) lockName(o any) string {
	if s.names == nil {
		s.names = map[any]string{}
	}
	if n, ok := s.names[o]; ok {
		return n
	}
	n := fmt.Sprintf("L%d", len(s.names))
	if _, ok := o.(schedDBKey); ok {
		n = fmt.Sprintf("DB%d", len(s.names))
	}
	s.names[o] = n
	return n
}

// drive is the controller loop; it must run inside the synctest bubble.
func (s *Sched) drive() {
	horizon := s.Horizon
	if horizon == 0 {
		horizon = 10 * time.Minute
	}
	var slept time.Duration
	quantum := time.Millisecond
	for {
		synctest.Wait()
		s.mu.Lock()
		var en []*schedThread
		allDone := true
		blockedElsewhere := false
		for _, th := range s.threads {
			switch th.state {
			case 1:
				allDone = false
				if s.enabled(th) {
					en = append(en, th)
				}
			case 0:
				allDone = false
				blockedElsewhere = true
			}
		}
		if len(en) == 0 {
			if allDone {
				s.mu.Unlock()
				return
			}
			if blockedElsewhere && slept < horizon {
				// threads are blocked in unhooked waits: let virtual time pass so timers fire
				s.mu.Unlock()
				time.Sleep(quantum)
				slept += quantum
				if quantum < time.Minute {
					quantum *= 4
				}
				continue
			}
			var b strings.Builder
			for _, th := range s.threads {
				switch th.state {
				case 1:
					fmt.Fprintf(&b, "%s waits for %s; ", th.name, s.opString(th))
				case 0:
					fmt.Fprintf(&b, "%s blocked in an unhooked wait; ", th.name)
				}
			}
			s.deadlock = b.String()
			s.mu.Unlock()
			return
		}
		slept, quantum = 0, time.Millisecond
		// canonical order: running thread first if enabled, then ascending id
		sort.Slice(en, func(i, j int) bool { return en[i].id < en[j].id })
		runningEnabled := false
		if s.cur != nil {
			for i, th := range en {
				if th == s.cur {
					copy(en[1:i+1], en[0:i])
					en[0] = th
					runningEnabled = true
					break
				}
			}
		}
		pos := len(s.Points)
		choice := 0
		if pos < len(s.prefix) {
			choice = s.prefix[pos]
			if choice >= len(en) {
				s.diverged = fmt.Sprintf("replay divergence at point %d: choice %d of %d enabled", pos, choice, len(en))
				s.mu.Unlock()
				return
			}
		}
		ids := make([]int, len(en))
		for i, th := range en {
			ids[i] = th.id
		}
		th := en[choice]
		s.Points = append(s.Points, SchedPoint{Enabled: ids, Chosen: choice, RunningEnabled: runningEnabled, Op: s.opString(th)})
		s.Log = append(s.Log, s.opString(th))
		s.cur = th
		th.state = 0
		s.mu.Unlock()
		th.resume <- true
	}
}

// abortParked releases every thread still parked at a point with an abort signal.
func (s *Sched) abortParked() {
	s.mu.Lock()
	var parked []*schedThread
	for _, th := range s.threads {
		if th.state == 1 {
			parked = append(parked, th)
			th.state = 0
		}
	}
	s.mu.Unlock()
	for _, th := range parked {
		th.resume <- false
	}
}

// SchedProgram is one closed concurrent scenario.
type SchedProgram struct {
	Name string
	// Setup builds a fresh system and starts the managed threads with s.Go. The returned
	// check runs after all threads finished (oracle over the final state / recorded
	// observations); the returned cleanup always runs last (close everything so that no
	// goroutine of the bubble survives).
	Setup func(s *Sched) (check func() error, cleanup func())
	// PreemptionBound is the maximum number of preemptions per execution.
	PreemptionBound int
	// MaxExecutions caps the exploration (0 = none); hitting it marks the run capped.
	MaxExecutions int
}

// SchedResult summarises an exploration.
type SchedResult struct {
	Executions int64
	PointsSeen int64
	MaxPoints  int
	Outcomes   int // distinct logs of granted operations
	Exhaustive bool
}

type schedExecResult struct {
	points   []SchedPoint
	log      []string
	err      error
	inconclusive string
}

func schedRunOnce(t *testing.T, p *SchedProgram, prefix []int) (res schedExecResult) {
	schedInstallHooks()
	done := make(chan struct{})
	go func() {
		defer close(done)
		defer func() {
			if e := recover(); e != nil {
				if res.inconclusive != "" {
					res.inconclusive += "; "
				}
				res.inconclusive += fmt.Sprintf("bubble panic: %v", e)
			}
		}()
		synctest.Test(t, func(t *testing.T) {
			s := &Sched{locks: map[any]*schedLock{}, prefix: prefix}
			check, cleanup := p.Setup(s)
			s.drive()
			res.points = append([]SchedPoint(nil), s.Points...)
			res.log = append([]string(nil), s.Log...)
			switch {
			case s.diverged != "":
				res.inconclusive = s.diverged
				s.abortParked()
			case s.deadlock != "":
				res.err = Violationf(p.Name+":deadlock", "deadlock: %s", s.deadlock)
				s.abortParked()
			default:
				for _, th := range s.threads {
					if th.panicv != nil {
						res.err = Violationf(p.Name+":panic", "thread %s panicked: %v\n%s", th.name, th.panicv, truncate(th.stack, 2500))
					}
				}
				if res.err == nil && check != nil {
					res.err = check()
				}
			}
			if cleanup != nil {
				cleanup()
			}
		})
	}()
	select {
	case <-done:
	case <-time.After(60 * time.Second): // real time: the watchdog runs outside the bubble
		res.inconclusive = "watchdog: execution did not quiesce within 60 s real time (a thread is blocked outside the scheduler's view)"
	}
	return res
}

// ExploreSchedules enumerates all schedules of p with at most p.PreemptionBound preemptions.
func ExploreSchedules(t *testing.T, r *Run, p *SchedProgram) SchedResult {
	var out SchedResult
	out.Exhaustive = true
	outcomes := map[string]struct{}{}

	report := func(choices []int, x schedExecResult) {
		key := p.Name + ":violation"
		if v, ok := x.err.(*Violation); ok && v.Key != "" {
			key = v.Key
		}
		// a violation must reproduce identically before it is believed
		for i := 0; i < 4; i++ {
			y := schedRunOnce(t, p, choices)
			if y.err == nil || strings.Join(y.log, ",") != strings.Join(x.log, ",") {
				r.Note("INCONCLUSIVE %s: violation did not reproduce identically on replay %d (%v)", p.Name, i+1, x.err)
				r.Capped()
				return
			}
		}
		r.Report(key, fmt.Sprintf("[%s] schedule %v: %v", p.Name, x.log, x.err),
			map[string]any{"engine": "sched", "program": p.Name, "choices": choices, "granted": x.log})
	}

	if raw := r.ReplayRequest(); raw != nil {
		var req struct {
			Engine  string `json:"engine"`
			Program string `json:"program"`
			Choices []int  `json:"choices"`
		}
		if json.Unmarshal(raw, &req) == nil && req.Engine == "sched" {
			if req.Program == p.Name {
				x := schedRunOnce(t, p, req.Choices)
				if x.err != nil {
					report(req.Choices, x)
				} else if x.inconclusive != "" {
					fmt.Printf("INCONCLUSIVE replay of %s: %s\n", p.Name, x.inconclusive)
				}
				out.Executions = 1
			}
			return out
		}
	}

	// determinism self-test: the default schedule twice
	a := schedRunOnce(t, p, nil)
	b := schedRunOnce(t, p, nil)
	if a.inconclusive != "" || b.inconclusive != "" || strings.Join(a.log, ",") != strings.Join(b.log, ",") {
		r.Note("INCONCLUSIVE %s: default schedule not deterministic or not executable (%s | %s)", p.Name, a.inconclusive, b.inconclusive)
		r.Capped()
		out.Exhaustive = false
		return out
	}

	var explore func(prefix []int)
	stop := false
	explore = func(prefix []int) {
		if stop {
			return
		}
		if r.OutOfTime() || (p.MaxExecutions > 0 && out.Executions >= int64(p.MaxExecutions)) {
			r.Capped()
			out.Exhaustive = false
			stop = true
			return
		}
		x := schedRunOnce(t, p, prefix)
		out.Executions++
		r.Eval()
		out.PointsSeen += int64(len(x.points))
		if len(x.points) > out.MaxPoints {
			out.MaxPoints = len(x.points)
		}
		if x.inconclusive != "" {
			r.Note("INCONCLUSIVE %s prefix %v: %s", p.Name, prefix, x.inconclusive)
			r.Capped()
			out.Exhaustive = false
			stop = true
			return
		}
		lg := strings.Join(x.log, ",")
		if _, ok := outcomes[lg]; !ok {
			outcomes[lg] = struct{}{}
			r.Class(p.Name + "/" + HashKey([]byte(lg)))
			if len(outcomes) <= 3 {
				r.Sample(map[string]any{"program": p.Name, "schedule": x.log})
			}
		}
		choices := make([]int, len(x.points))
		for i, pt := range x.points {
			choices[i] = pt.Chosen
		}
		if x.err != nil {
			report(choices, x)
			stop = true
			return
		}
		// preemptions used before point i
		pre := 0
		for i := 0; i < len(x.points); i++ {
			pt := x.points[i]
			if i >= len(prefix) {
				cost := pre
				if pt.RunningEnabled {
					cost++
				}
				if cost <= p.PreemptionBound {
					for alt := 1; alt < len(pt.Enabled); alt++ {
						np := append(append(make([]int, 0, i+1), choices[:i]...), alt)
						explore(np)
						if stop {
							return
						}
					}
				}
			}
			if pt.RunningEnabled && pt.Chosen != 0 {
				pre++
			}
		}
	}
	explore(nil)
	out.Outcomes = len(outcomes)
	r.Note("%s: executions=%d scheduling_points=%d max_points_per_execution=%d distinct_schedules=%d preemption_bound=%d exhaustive=%v",
		p.Name, out.Executions, out.PointsSeen, out.MaxPoints, out.Outcomes, p.PreemptionBound, out.Exhaustive)
	return out
}

// AddSched accumulates a SchedResult into a Coverage (states = distinct schedules,
// transitions = scheduling decisions, traces = executions on the implementation).
func (c *Coverage) AddSched(s SchedResult) {
	c.States += int64(s.Outcomes)
	c.Transitions += s.PointsSeen
	c.Traces += s.Executions
}
