package ledger

// Plain in-package unit test (package ledger, no explorer, no /verif engine) reproducing
// finding F-KV end to end:
//
//   trackerdb.KvHashBuilderV6(key, value) hashes key||value without separating the two.
//
// TestReproC15KvBoundaryShift
//   1. the leaf of box (name "ab", value "c") equals the leaf of box (name "a", value "bc");
//   2. two REAL ledgers whose histories differ only in that box (same app, same sender, same
//      fees, same minimum balance) commit to the same balances-trie root and totals at every
//      catchpoint, so their labels differ only through the block digest;
//   3. ledger B's genuine catchpoint file verifies (VerifyCatchpoint == nil) on a fresh node
//      that was given ledger A's label and ledger A's block: a node catching up to label A can
//      be handed state B.
// TestReproC16KvBoundaryShift
//   ledger A's own catchpoint file with the box record's boundary shifted
//   ("bx:<app>ab" -> "c"  becomes  "bx:<app>a" -> "bc") still verifies against A's label.
//
// Both tests FAIL while the defect is present and pass once key and value are separated in
// the pre-image (which changes every catchpoint label: needs a new catchpoint version).
//
// Run:  cp repro_test.go <repo>/ledger/zz_repro_c15_test.go && go test ./ledger -run 'TestReproC1[56]Kv'

import (
	"archive/tar"
	"bytes"
	"compress/gzip"
	"context"
	"io"
	"testing"
	"time"

	"github.com/stretchr/testify/require"

	"github.com/algorand/go-algorand/agreement"
	"github.com/algorand/go-algorand/config"
	"github.com/algorand/go-algorand/crypto"
	"github.com/algorand/go-algorand/data/basics"
	"github.com/algorand/go-algorand/data/bookkeeping"
	"github.com/algorand/go-algorand/data/transactions"
	"github.com/algorand/go-algorand/data/txntest"
	"github.com/algorand/go-algorand/ledger/ledgercore"
	"github.com/algorand/go-algorand/ledger/store/trackerdb"
	ledgertesting "github.com/algorand/go-algorand/ledger/testing"
	"github.com/algorand/go-algorand/logging"
	"github.com/algorand/go-algorand/protocol"
)

const reproKvProto = protocol.ConsensusVersion("repro-kv-boundary-shift")

type reproKvSection struct {
	name string
	data []byte
}

type reproKvLedger struct {
	l      *Ledger
	blocks []bookkeeping.Block
	app    basics.AppIndex
	label  string // label of catchpoint round 12
	file   []reproKvSection
}

func reproKvSetup(t *testing.T) {
	p := config.Consensus[protocol.ConsensusCurrentVersion]
	p.ApprovedUpgrades = map[protocol.ConsensusVersion]uint64{}
	p.SeedLookback, p.SeedRefreshInterval, p.MaxBalLookback, p.MaxTxnLife = 2, 2, 8, 8
	p.CatchpointLookback = 4
	p.StateProofInterval = 0
	config.Consensus[reproKvProto] = p
	t.Cleanup(func() { delete(config.Consensus, reproKvProto) })
}

// reproKvRun builds a 20 round history on a real catchpoint-producing ledger: an app is
// created, funded, and one box (name, value) is written; the rest are empty blocks.
func reproKvRun(t *testing.T, genBalances bookkeeping.GenesisBalances, addrs []basics.Address, genHash crypto.Digest, name, value string) *reproKvLedger {
	cfg := config.GetDefaultLocal()
	cfg.CatchpointInterval = 4
	cfg.CatchpointTracking = 2
	cfg.CatchpointFileHistoryLength = -1
	l := newSimpleLedgerFull(t, genBalances, reproKvProto, genHash, cfg)
	res := &reproKvLedger{l: l}
	// flush offers the trackers a commit for everything that may be committed and waits for it
	// (same as upstream's testCatchpointFlushRound)
	flush := func() {
		l.WaitForCommit(l.Latest())
		l.trackers.mu.Lock()
		l.trackers.lastFlushTime = time.Time{}
		l.trackers.mu.Unlock()
		l.trackerMu.Lock()
		l.trackers.committedUpTo(l.Latest())
		l.trackerMu.Unlock()
		l.trackers.waitAccountsWriting()
	}
	block := func(txs ...*txntest.Txn) []transactions.SignedTxnInBlock {
		ev := nextBlock(t, l)
		for _, tx := range txs {
			txn(t, l, ev, tx)
		}
		vb := endBlock(t, l, ev)
		res.blocks = append(res.blocks, vb.Block())
		flush()
		return vb.Block().Payset
	}
	ps := block(&txntest.Txn{Type: "appl", Sender: addrs[0], ClearStateProgram: "int 1", ApprovalProgram: `
		txn ApplicationID
		bz ok
		txn ApplicationArgs 0
		txn ApplicationArgs 1
		box_put
	ok:	int 1`})
	res.app = ps[0].ApplicationID
	block(&txntest.Txn{Type: "pay", Sender: addrs[0], Receiver: res.app.Address(), Amount: 1_000_000})
	block(&txntest.Txn{Type: "appl", Sender: addrs[1], ApplicationID: res.app, ApplicationArgs: [][]byte{[]byte(name), []byte(value)},
		Boxes: []transactions.BoxRef{{Index: 0, Name: []byte(name)}}})
	for len(res.blocks) < 20 {
		block()
	}
	// wait for the catchpoint of round 12
	deadline := time.Now().Add(120 * time.Second)
	for {
		flush()
		if s, err := l.GetCatchpointStream(12); err == nil {
			res.file = reproKvReadFile(t, s)
			s.Close()
			break
		}
		require.True(t, time.Now().Before(deadline), "no catchpoint file for round 12")
		time.Sleep(20 * time.Millisecond)
	}
	for _, s := range res.file {
		if s.name == CatchpointContentFileName {
			var h CatchpointFileHeader
			require.NoError(t, protocol.Decode(s.data, &h))
			res.label = h.Catchpoint
		}
	}
	require.NotEmpty(t, res.label)
	return res
}

func reproKvReadFile(t *testing.T, r io.Reader) []reproKvSection {
	gz, err := gzip.NewReader(r)
	require.NoError(t, err)
	tr := tar.NewReader(gz)
	var out []reproKvSection
	for {
		h, err := tr.Next()
		if err == io.EOF {
			return out
		}
		require.NoError(t, err)
		b, err := io.ReadAll(tr)
		require.NoError(t, err)
		out = append(out, reproKvSection{h.Name, b})
	}
}

// reproKvVerify feeds a catchpoint file to a fresh node that wants `label`, like
// catchup.CatchpointCatchupService does, and returns VerifyCatchpoint's verdict.
func reproKvVerify(t *testing.T, genBalances bookkeeping.GenesisBalances, genHash crypto.Digest, label string, file []reproKvSection, blk bookkeeping.Block) (*Ledger, CatchpointCatchupAccessor, error) {
	cfg := config.GetDefaultLocal()
	fresh := newSimpleLedgerFull(t, genBalances, reproKvProto, genHash, cfg)
	acc := MakeCatchpointCatchupAccessor(fresh, logging.Base())
	ctx := context.Background()
	require.NoError(t, acc.ResetStagingBalances(ctx, true))
	require.NoError(t, acc.SetLabel(ctx, label))
	var progress CatchpointCatchupAccessorProgress
	for _, s := range file {
		require.NoError(t, acc.ProcessStagingBalances(ctx, s.name, s.data, &progress))
	}
	require.NoError(t, acc.BuildMerkleTrie(ctx, nil))
	return fresh, acc, acc.VerifyCatchpoint(ctx, &blk)
}

func TestReproC15KvBoundaryShift(t *testing.T) {
	// 1. leaf level
	if bytes.Equal(trackerdb.KvHashBuilderV6("ab", []byte("c")), trackerdb.KvHashBuilderV6("a", []byte("bc"))) {
		t.Errorf("KvHashBuilderV6(\"ab\",\"c\") == KvHashBuilderV6(\"a\",\"bc\"): distinct KV entries share one trie leaf")
	}

	// 2. two real ledgers
	reproKvSetup(t)
	genBalances, addrs, _ := ledgertesting.NewTestGenesis(ledgertesting.TurnOffRewards)
	var genHash crypto.Digest
	genHash[0] = 0xc1
	a := reproKvRun(t, genBalances, addrs, genHash, "ab", "c")
	defer a.l.Close()
	b := reproKvRun(t, genBalances, addrs, genHash, "a", "bc")
	defer b.l.Close()
	require.Equal(t, a.app, b.app)
	va, err := a.l.LookupKv(20, "bx:"+string(reproKvAppKey(a.app))+"ab")
	require.NoError(t, err)
	require.Equal(t, "c", string(va))
	vb, err := b.l.LookupKv(20, "bx:"+string(reproKvAppKey(b.app))+"a")
	require.NoError(t, err)
	require.Equal(t, "bc", string(vb)) // the two ledgers really hold different boxes
	require.NotEqual(t, a.label, b.label, "labels differ (only) through the block digest")

	// 3. B's genuine file under A's label and A's block
	fresh, acc, verr := reproKvVerify(t, genBalances, genHash, a.label, b.file, a.blocks[11])
	defer fresh.Close()
	if verr == nil {
		t.Errorf("catchpoint file of ledger B (box a=bc) VERIFIES against label %s of ledger A (box ab=c)", a.label)
		// and the node adopts it
		ctx := context.Background()
		require.NoError(t, acc.StoreBalancesRound(ctx, &a.blocks[11]))
		require.NoError(t, acc.StoreFirstBlock(ctx, &a.blocks[11], &agreement.Certificate{}))
		for r := 10; r >= 0; r-- {
			require.NoError(t, acc.StoreBlock(ctx, &a.blocks[r], &agreement.Certificate{}))
		}
		require.NoError(t, acc.CompleteCatchup(ctx))
		got, err := fresh.LookupKv(12, "bx:"+string(reproKvAppKey(a.app))+"a")
		require.NoError(t, err)
		t.Errorf("the node that caught up to A's label now holds box %q=%q, which never existed on chain A", "a", got)
	}
}

func TestReproC16KvBoundaryShift(t *testing.T) {
	reproKvSetup(t)
	genBalances, addrs, _ := ledgertesting.NewTestGenesis(ledgertesting.TurnOffRewards)
	var genHash crypto.Digest
	genHash[0] = 0xc1
	a := reproKvRun(t, genBalances, addrs, genHash, "ab", "c")
	defer a.l.Close()

	// shift the key/value boundary of the box record inside A's own catchpoint file
	tampered := make([]reproKvSection, len(a.file))
	shifted := 0
	for i, s := range a.file {
		tampered[i] = s
		if len(s.name) > 9 && s.name[:9] == "balances." {
			var chunk CatchpointSnapshotChunkV6
			require.NoError(t, protocol.Decode(s.data, &chunk))
			for k := range chunk.KVs {
				kv := &chunk.KVs[k]
				kv.Value = append([]byte{kv.Key[len(kv.Key)-1]}, kv.Value...)
				kv.Key = kv.Key[:len(kv.Key)-1]
				shifted++
			}
			tampered[i].data = protocol.Encode(&chunk)
		}
	}
	require.Equal(t, 1, shifted)

	// sanity: the untouched file verifies
	f0, _, err := reproKvVerify(t, genBalances, genHash, a.label, a.file, a.blocks[11])
	f0.Close()
	require.NoError(t, err)

	fresh, _, verr := reproKvVerify(t, genBalances, genHash, a.label, tampered, a.blocks[11])
	defer fresh.Close()
	if verr == nil {
		t.Errorf("catchpoint file with the box record changed from (\"ab\",\"c\") to (\"a\",\"bc\") still verifies against the producer's label %s", a.label)
	}
}

func reproKvAppKey(app basics.AppIndex) []byte {
	var b [8]byte
	for i := 0; i < 8; i++ {
		b[7-i] = byte(uint64(app) >> (8 * i))
	}
	return b[:]
}

var _ = ledgercore.AccountTotals{}
