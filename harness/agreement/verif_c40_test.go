package agreement

// C40 — Consensus objects have one canonical encoding.
//
// Engine E-ENUM (level exploration). This single harness lives in package agreement because
// agreement's wire types are unexported while every other consensus type is exported and
// none of their packages imports agreement, so one registry can hold them all.
//
// Registry: the msgp-generated types reachable from transactions, blocks, votes / proposals /
// bundles / certificates, account and tracker records, state proofs and the crypto values
// inside them (see c40registry; secrets, provers and agreement's state-machine persistence
// types are not consensus objects and are left out; ledger/encoded uses msgp.Raw, which
// protocol/codec_tester.go documents as not comparable across the two codecs).
//
// Enumerated instances (no randomness). Leaf fields are found by reflection exactly the way
// both codecs see a struct: exported fields, embedded structs flattened, `codec:"-"` and
// unexported fields skipped, nested structs followed to depth 3 (deeper structs, pointers,
// slices, maps are leaves with container-valued boundary sets). Per type:
//   * the zero value and the all-fields-set value,
//   * every ONE-HOT assignment leaf := v for every v of the leaf's boundary set
//       ints {1, 2^7, 2^8, 2^16, 2^32, max} truncated to the kind (+ {-1,-32,-33,-129,min} signed),
//       bool {true}, strings {"a","ab"}, byte slices {empty non-nil, 1 B zero, 1 B}, byte
//       arrays {first byte 1, all 0xff}, slices {empty non-nil, [zero], [set], [set,zero]},
//       maps {empty non-nil, 1 entry, 2 entries (both insertion orders)}, pointers {->zero,
//       ->set}, deep structs {set},
//   * every TWO-HOT assignment of two different leaves (quick: first and last boundary value
//     of each leaf; thorough: every boundary value of each leaf),
//   each on two bases: the zero value, and the zero value with every `required` leaf set
//   (types whose decoder enforces codec:",required" fields).
//
// Oracle per instance x:
//   E  protocol.Encode(x) (generated MarshalMsg) == protocol.EncodeReflect(x) (go-codec)
//   Z  x.MsgIsZero() <=> go-codec omits x from a synthetic struct{F T `codec:"f,omitempty"`}
//      (MsgIsZero is what generated parents consult for omitempty)
//   D  generated UnmarshalMsg (called directly, so a panic is visible) and protocol.DecodeReflect
//      both accept Encode(x); the two decoded values re-encode, with BOTH encoders, to the
//      same bytes as Encode(x)
//   H  for crypto.Hashable types: HashObj(x) == HashObj(decoded via msgp) == HashObj(decoded
//      via go-codec), and when ToBeHashed is the object's own encoding, == Hash(HashID ||
//      EncodeReflect(x)); Transaction.ID / SignedTxn.ID / BlockHeader.Hash / Block.Digest /
//      Block.Hash through their real methods on all three copies
//   M  a map filled in the opposite insertion order encodes to the same bytes (both encoders)
// Documented exceptions bracketed exactly (protocol/codec_tester.go): a decoder may answer
// "missing required field" when a `required` leaf of an emitted struct is zero (counted as
// class required-reject, encoders must still agree); crypto.HashType is an enum and takes every
// valid variant 1..MaxHashType-1 (HashFactory.Validate runs after unmarshal); collections stay <= 2 elements and strings
// <= 2 bytes so every allocbound is respected.
//
// Not covered: values beyond the boundary sets, three or more simultaneously non-default
// leaves (apart from all-set), leaves deeper than 3 nested structs (covered as their own
// registry entry when msgp-generated), JSON encodings, msgp.Raw holders.
//
// Known finding on the unchanged tree (key C40:nonnil-pointer-to-empty-struct:transactions.
// HeartbeatTxnFields, see /verif/findings/C40-hb-pointer-to-empty): attributed precisely — the key
// is used only when nil-ing exactly the non-nil pointers to all-zero structs makes both
// encoders agree.
//
// Mutants (bin/mut, quick tier; all DETECTED, each by a key other than the known finding):
//   data/transactions/msgp_gen.go Transaction.MarshalMsg: Lease omitempty test -> `if false`
//       (field emitted when empty)                 -> C40:encoders-differ (zero value already)
//   agreement/msgp_gen.go proposalValue.MsgIsZero drops the OriginalPeriod conjunct
//       -> C40:msgiszero:agreement.proposalValue and C40:encoders-differ on rawVote / bundles
//   data/transactions/msgp_gen.go Transaction.UnmarshalMsg: "fv" stored into LastValid
//       -> C40:reencode (decode + re-encode changes the bytes)
//   seeded C40-A (AssetParams.MsgIsZero loses Clawback) -> C40:msgiszero + C40:encoders-differ
//   seeded C40-B (HashType.Validate whitelist misses Sha512) -> first MISSED (HashType values were
//       {1,2}); now every enum variant 1..MaxHashType-1 is enumerated -> C40:decode-msgp
//   data/transactions/msgp_gen.go Header.MarshalMsg: "lx" emitted before "lv" (wrong only when
//       BOTH are present)                          -> C40:encoders-differ on the two-hot
//       {LastValid, Lease} and on all-set; no one-hot instance shows it

import (
	"bytes"
	"fmt"
	"math"
	"reflect"
	"regexp"
	"runtime/debug"
	"sort"
	"strings"
	"sync"
	"sync/atomic"
	"testing"

	"github.com/algorand/msgp/msgp"

	"github.com/algorand/go-algorand/crypto"
	"github.com/algorand/go-algorand/crypto/merklearray"
	"github.com/algorand/go-algorand/crypto/merklesignature"
	cstateproof "github.com/algorand/go-algorand/crypto/stateproof"
	"github.com/algorand/go-algorand/data/basics"
	"github.com/algorand/go-algorand/data/bookkeeping"
	"github.com/algorand/go-algorand/data/committee"
	"github.com/algorand/go-algorand/data/stateproofmsg"
	"github.com/algorand/go-algorand/data/transactions"
	"github.com/algorand/go-algorand/ledger/ledgercore"
	"github.com/algorand/go-algorand/ledger/store/trackerdb"
	"github.com/algorand/go-algorand/protocol"
	ve "github.com/algorand/go-algorand/verifeng"
)

type c40codec interface {
	msgp.Marshaler
	msgp.Unmarshaler
	MsgIsZero() bool
}

// c40holder is a synthetic parent with the struct options every consensus struct uses; it lets
// the harness ask go-codec whether it considers a value of T empty (omittable).
type c40holder[T any] struct {
	_struct struct{} `codec:",omitempty,omitemptyarray"`
	F       T        `codec:"f,omitempty,omitemptycheckstruct"`
}

type c40entry struct {
	proto  c40codec
	holder func(ptr any) any // *T -> *c40holder[T] holding a copy
}

func c40reg[T any, PT interface {
	*T
	c40codec
}]() c40entry {
	return c40entry{proto: PT(new(T)), holder: func(ptr any) any { return &c40holder[T]{F: *(ptr.(*T))} }}
}

func c40registry() []c40entry {
	return []c40entry{
		// agreement (wire objects and the hashables used for sortition / seeds)
		c40reg[unauthenticatedVote](), c40reg[vote](), c40reg[rawVote](), c40reg[proposalValue](), c40reg[unauthenticatedProposal](),
		c40reg[proposal](), c40reg[transmittedPayload](), c40reg[unauthenticatedBundle](), c40reg[bundle](), c40reg[Certificate](),
		c40reg[unauthenticatedEquivocationVote](), c40reg[equivocationVote](), c40reg[voteAuthenticator](),
		c40reg[equivocationVoteAuthenticator](), c40reg[proposerSeed](), c40reg[seedInput](), c40reg[selector](), c40reg[period](), c40reg[step](),
		// data/transactions
		c40reg[transactions.ApplicationCallTxnFields](), c40reg[transactions.ApplyData](), c40reg[transactions.AssetConfigTxnFields](), c40reg[transactions.AssetFreezeTxnFields](), c40reg[transactions.AssetTransferTxnFields](), c40reg[transactions.BoxRef](), c40reg[transactions.EvalDelta](), c40reg[transactions.Header](), c40reg[transactions.HeartbeatTxnFields](), c40reg[transactions.HoldingRef](), c40reg[transactions.KeyregTxnFields](), c40reg[transactions.LocalsRef](), c40reg[transactions.LogicSig](), c40reg[transactions.OnCompletion](), c40reg[transactions.PQSig](), c40reg[transactions.PaymentTxnFields](), c40reg[transactions.Payset](), c40reg[transactions.ResourceRef](), c40reg[transactions.SignedTxn](), c40reg[transactions.SignedTxnInBlock](), c40reg[transactions.SignedTxnWithAD](), c40reg[transactions.StateProofTxnFields](), c40reg[transactions.Transaction](), c40reg[transactions.TxGroup](), c40reg[transactions.Txid](),
		// data/bookkeeping
		c40reg[bookkeeping.Block](), c40reg[bookkeeping.BlockHash](), c40reg[bookkeeping.BlockHeader](), c40reg[bookkeeping.Genesis](), c40reg[bookkeeping.GenesisAccountData](), c40reg[bookkeeping.GenesisAllocation](), c40reg[bookkeeping.LightBlockHeader](), c40reg[bookkeeping.ParticipationUpdates](), c40reg[bookkeeping.RewardsState](), c40reg[bookkeeping.StateProofTrackingData](), c40reg[bookkeeping.TxnCommitments](), c40reg[bookkeeping.UpgradeVote](),
		// data/basics
		c40reg[basics.AccountData](), c40reg[basics.Address](), c40reg[basics.AppIndex](), c40reg[basics.AppLocalState](), c40reg[basics.AppParams](), c40reg[basics.AssetHolding](), c40reg[basics.AssetIndex](), c40reg[basics.AssetParams](), c40reg[basics.BalanceRecord](), c40reg[basics.CreatableIndex](), c40reg[basics.CreatableType](), c40reg[basics.DeltaAction](), c40reg[basics.Micros](), c40reg[basics.PQAddressSalt](), c40reg[basics.Participant](), c40reg[basics.Round](), c40reg[basics.StateDelta](), c40reg[basics.StateSchema](), c40reg[basics.StateSchemas](), c40reg[basics.Status](), c40reg[basics.TealKeyValue](), c40reg[basics.TealType](), c40reg[basics.TealValue](), c40reg[basics.ValueDelta](),
		// ledger/ledgercore
		c40reg[ledgercore.AccountTotals](), c40reg[ledgercore.AlgoCount](), c40reg[ledgercore.OnlineRoundParamsData](), c40reg[ledgercore.StateProofVerificationContext](),
		// ledger/store/trackerdb
		c40reg[trackerdb.BaseAccountData](), c40reg[trackerdb.BaseOnlineAccountData](), c40reg[trackerdb.BaseVotingData](), c40reg[trackerdb.CatchpointFirstStageInfo](), c40reg[trackerdb.ResourceFlags](), c40reg[trackerdb.ResourcesData](), c40reg[trackerdb.TxTailRound](), c40reg[trackerdb.TxTailRoundLease](),
		// crypto (public values only)
		c40reg[crypto.Digest](), c40reg[crypto.FalconPublicKey](), c40reg[crypto.FalconSignature](), c40reg[crypto.FalconVerifier](), c40reg[crypto.GenericDigest](), c40reg[crypto.HashFactory](), c40reg[crypto.HashType](), c40reg[crypto.HeartbeatProof](), c40reg[crypto.MultisigSig](), c40reg[crypto.MultisigSubsig](), c40reg[crypto.OneTimeSignature](), c40reg[crypto.OneTimeSignatureSubkeyBatchID](), c40reg[crypto.OneTimeSignatureSubkeyOffsetID](), c40reg[crypto.OneTimeSignatureVerifier](), c40reg[crypto.PublicKey](), c40reg[crypto.Sha512Digest](), c40reg[crypto.Signature](), c40reg[crypto.VrfOutput](), c40reg[crypto.VrfProof](), c40reg[crypto.VrfPubkey](),
		// data/committee
		c40reg[committee.Credential](), c40reg[committee.Seed](), c40reg[committee.UnauthenticatedCredential](),
		// state proofs
		c40reg[merklesignature.Commitment](), c40reg[merklesignature.Signature](), c40reg[merklesignature.Verifier](),
		c40reg[cstateproof.MessageHash](), c40reg[cstateproof.Reveal](), c40reg[cstateproof.StateProof](),
		c40reg[merklearray.Proof](), c40reg[merklearray.SingleLeafProof](),
		c40reg[stateproofmsg.Message](),
		// protocol
		c40reg[protocol.ConsensusVersion](), c40reg[protocol.HashID](), c40reg[protocol.StateProofType](), c40reg[protocol.TxType](),
	}
}

// ---------------------------------------------------------------------------------------
// reflection: leaves and boundary values

const c40maxStructDepth = 3

type c40leaf struct {
	path     string
	steps    []int // >=0 struct field index; <0 array index -(i+1)
	typ      reflect.Type
	required bool
	vals     []reflect.Value
	names    []string
	mapTwin  map[int]reflect.Value // value index -> same map, opposite insertion order
}

func c40tagOpts(tag reflect.StructTag) (name string, opts map[string]string) {
	opts = map[string]string{}
	parts := strings.Split(tag.Get("codec"), ",")
	name = parts[0]
	for _, p := range parts[1:] {
		kv := strings.SplitN(p, "=", 2)
		if len(kv) == 2 {
			opts[kv[0]] = kv[1]
		} else {
			opts[kv[0]] = ""
		}
	}
	return
}

func c40eligible(f reflect.StructField) bool {
	if f.Name == "_struct" {
		return false
	}
	if f.PkgPath != "" && !f.Anonymous {
		return false // unexported: invisible to both codecs
	}
	if name, _ := c40tagOpts(f.Tag); name == "-" {
		return false
	}
	return true
}

var c40hashTypeT = reflect.TypeOf(crypto.HashType(0))
var c40rawT = reflect.TypeOf(msgp.Raw(nil))

func c40isBytes(t reflect.Type) bool { return t.Elem().Kind() == reflect.Uint8 }

// c40set builds the "all fields set" value of a type, bounded in depth.
func c40set(t reflect.Type, depth int, salt byte) reflect.Value {
	v := reflect.New(t).Elem()
	if depth > 7 {
		return v
	}
	switch t.Kind() {
	case reflect.Uint, reflect.Uint8, reflect.Uint16, reflect.Uint32, reflect.Uint64, reflect.Uintptr:
		if t == c40hashTypeT {
			v.SetUint(1)
		} else {
			v.SetUint(uint64(salt%100) + 3)
		}
	case reflect.Int, reflect.Int8, reflect.Int16, reflect.Int32, reflect.Int64:
		v.SetInt(int64(salt%100) + 3)
	case reflect.Bool:
		v.SetBool(true)
	case reflect.String:
		v.SetString(string(rune('b' + salt%20)))
	case reflect.Array:
		for i := 0; i < t.Len(); i++ {
			if c40isBytes(t) {
				v.Index(i).SetUint(uint64(byte(i)*3 + salt + 1))
			} else {
				v.Index(i).Set(c40set(t.Elem(), depth+1, salt+byte(i)))
			}
		}
	case reflect.Slice:
		if t == c40rawT {
			v.SetBytes([]byte{0x01})
			break
		}
		s := reflect.MakeSlice(t, 1, 1)
		if c40isBytes(t) {
			s.Index(0).SetUint(uint64(salt) | 1)
		} else {
			s.Index(0).Set(c40set(t.Elem(), depth+1, salt+1))
		}
		v.Set(s)
	case reflect.Map:
		m := reflect.MakeMap(t)
		m.SetMapIndex(c40set(t.Key(), depth+1, salt+2), c40set(t.Elem(), depth+1, salt+3))
		v.Set(m)
	case reflect.Ptr:
		p := reflect.New(t.Elem())
		p.Elem().Set(c40set(t.Elem(), depth+1, salt))
		v.Set(p)
	case reflect.Struct:
		for i := 0; i < t.NumField(); i++ {
			f := t.Field(i)
			if !c40eligible(f) {
				continue
			}
			fv := c40set(f.Type, depth+1, salt+byte(i)*7+1)
			c40assign(v.Field(i), fv)
		}
	}
	return v
}

// c40assign sets dst (possibly reached through an embedded unexported struct) to src.
func c40assign(dst, src reflect.Value) {
	if dst.CanSet() {
		dst.Set(src)
		return
	}
	// embedded unexported struct: assign its exported fields one by one
	if dst.Kind() == reflect.Struct {
		for i := 0; i < dst.NumField(); i++ {
			if c40eligible(dst.Type().Field(i)) {
				c40assign(dst.Field(i), src.Field(i))
			}
		}
	}
}

func c40uintBoundary(bits int) []uint64 {
	all := []uint64{1, 1 << 7, 1 << 8, 1 << 16, 1 << 32, math.MaxUint64}
	var out []uint64
	seen := map[uint64]bool{}
	maxv := uint64(math.MaxUint64)
	if bits < 64 {
		maxv = (uint64(1) << uint(bits)) - 1
	}
	for _, x := range all {
		if x > maxv {
			x = maxv
		}
		if !seen[x] {
			seen[x] = true
			out = append(out, x)
		}
	}
	return out
}

func c40values(t reflect.Type) (vals []reflect.Value, names []string, twins map[int]reflect.Value) {
	add := func(v reflect.Value, n string) {
		vals = append(vals, v)
		names = append(names, n)
	}
	nv := func() reflect.Value { return reflect.New(t).Elem() }
	switch t.Kind() {
	case reflect.Uint, reflect.Uint8, reflect.Uint16, reflect.Uint32, reflect.Uint64, reflect.Uintptr:
		if t == c40hashTypeT {
			// an enum, not a magnitude: EVERY valid variant (HashFactory.Validate runs after
			// unmarshal and must accept exactly what the encoder can produce: 0 < x < MaxHashType)
			for x := uint64(1); x < uint64(crypto.MaxHashType); x++ {
				v := nv()
				v.SetUint(x)
				add(v, fmt.Sprint(x))
			}
			return
		}
		for _, x := range c40uintBoundary(t.Bits()) {
			v := nv()
			v.SetUint(x)
			add(v, fmt.Sprintf("%#x", x))
		}
	case reflect.Int, reflect.Int8, reflect.Int16, reflect.Int32, reflect.Int64:
		bits := t.Bits()
		for _, x := range c40uintBoundary(bits - 1) {
			v := nv()
			v.SetInt(int64(x))
			add(v, fmt.Sprintf("%#x", x))
		}
		minv := int64(math.MinInt64)
		if bits < 64 {
			minv = -(int64(1) << uint(bits-1))
		}
		seen := map[int64]bool{}
		for _, x := range []int64{-1, -32, -33, -129, minv} {
			if x < minv {
				x = minv
			}
			if seen[x] {
				continue
			}
			seen[x] = true
			v := nv()
			v.SetInt(x)
			add(v, fmt.Sprint(x))
		}
	case reflect.Bool:
		v := nv()
		v.SetBool(true)
		add(v, "true")
	case reflect.String:
		for _, s := range []string{"a", "ab"} {
			v := nv()
			v.SetString(s)
			add(v, fmt.Sprintf("%q", s))
		}
	case reflect.Array:
		if c40isBytes(t) {
			v := nv()
			v.Index(0).SetUint(1)
			add(v, "[1,0...]")
			v = nv()
			for i := 0; i < t.Len(); i++ {
				v.Index(i).SetUint(0xff)
			}
			add(v, "[ff...]")
			if t.Len() > 1 {
				v = nv()
				v.Index(t.Len() - 1).SetUint(1)
				add(v, "[0...,1]")
			}
		} else {
			add(c40set(t, 0, 0x10), "set")
		}
	case reflect.Slice:
		if t == c40rawT {
			return
		}
		if c40isBytes(t) {
			add(reflect.MakeSlice(t, 0, 0), "empty")
			z := reflect.MakeSlice(t, 1, 1)
			add(z, "[00]")
			o := reflect.MakeSlice(t, 1, 1)
			o.Index(0).SetUint(0x81)
			add(o, "[81]")
			return
		}
		add(reflect.MakeSlice(t, 0, 0), "empty")
		add(reflect.MakeSlice(t, 1, 1), "[zero]")
		one := reflect.MakeSlice(t, 1, 1)
		one.Index(0).Set(c40set(t.Elem(), 1, 0x21))
		add(one, "[set]")
		two := reflect.MakeSlice(t, 2, 2)
		two.Index(0).Set(c40set(t.Elem(), 1, 0x33))
		add(two, "[set,zero]")
	case reflect.Map:
		add(reflect.MakeMap(t), "empty")
		k1, k2 := c40set(t.Key(), 1, 0x41), c40set(t.Key(), 1, 0x09)
		m1 := reflect.MakeMap(t)
		m1.SetMapIndex(k1, c40set(t.Elem(), 1, 0x52))
		add(m1, "{k1:set}")
		mz := reflect.MakeMap(t)
		mz.SetMapIndex(reflect.New(t.Key()).Elem(), reflect.New(t.Elem()).Elem())
		add(mz, "{zero:zero}")
		m2 := reflect.MakeMap(t)
		m2.SetMapIndex(k1, c40set(t.Elem(), 1, 0x52))
		m2.SetMapIndex(k2, reflect.New(t.Elem()).Elem())
		add(m2, "{k1:set,k2:zero}")
		m2r := reflect.MakeMap(t)
		m2r.SetMapIndex(k2, reflect.New(t.Elem()).Elem())
		m2r.SetMapIndex(k1, c40set(t.Elem(), 1, 0x52))
		twins = map[int]reflect.Value{len(vals) - 1: m2r}
	case reflect.Ptr:
		add(reflect.New(t.Elem()), "->zero")
		p := reflect.New(t.Elem())
		p.Elem().Set(c40set(t.Elem(), 1, 0x61))
		add(p, "->set")
	case reflect.Struct:
		add(c40set(t, 1, 0x71), "set")
	}
	return
}

func c40leaves(t reflect.Type, path string, steps []int, depth int, required bool, out *[]c40leaf) {
	cp := func(extra int) []int { return append(append([]int(nil), steps...), extra) }
	switch {
	case t.Kind() == reflect.Struct && depth <= c40maxStructDepth:
		n := 0
		for i := 0; i < t.NumField(); i++ {
			f := t.Field(i)
			if !c40eligible(f) {
				continue
			}
			n++
			_, opts := c40tagOpts(f.Tag)
			_, req := opts["required"]
			p := path + "." + f.Name
			d := depth + 1
			if f.Anonymous {
				d = depth // embedded structs are flattened by both codecs
			}
			c40leaves(f.Type, p, cp(i), d, req, out)
		}
		if n == 0 && path != "" {
			return
		}
	case t.Kind() == reflect.Array && !c40isBytes(t) && t.Len() <= 4:
		for i := 0; i < t.Len(); i++ {
			c40leaves(t.Elem(), fmt.Sprintf("%s[%d]", path, i), cp(-(i + 1)), depth, false, out)
		}
	default:
		vals, names, twins := c40values(t)
		if len(vals) == 0 {
			return
		}
		*out = append(*out, c40leaf{path: strings.TrimPrefix(path, "."), steps: steps, typ: t, required: required, vals: vals, names: names, mapTwin: twins})
	}
}

func c40navigate(root reflect.Value, steps []int) reflect.Value {
	v := root
	for _, s := range steps {
		if s >= 0 {
			v = v.Field(s)
		} else {
			v = v.Index(-s - 1)
		}
	}
	return v
}

// ---------------------------------------------------------------------------------------
// per-type plan

type c40atom struct {
	leaf, val int
}

type c40plan struct {
	proto    c40codec
	typ      reflect.Type // element type (proto is *typ)
	name     string
	leaves   []c40leaf
	atoms    []c40atom // all (leaf,value)
	primary  []c40atom // subset used for two-hot
	zeroEnc  []byte
	holder   func(any) any
	hasReq   bool
	nonStruc bool
}

func c40makePlan(e c40entry, thorough bool) *c40plan {
	p := e.proto
	t := reflect.TypeOf(p).Elem()
	pl := &c40plan{proto: p, typ: t, name: t.String()}
	pl.holder = e.holder
	if t.Kind() == reflect.Struct {
		c40leaves(t, "", nil, 0, false, &pl.leaves)
	} else {
		pl.nonStruc = true
		vals, names, twins := c40values(t)
		pl.leaves = []c40leaf{{path: "(self)", typ: t, vals: vals, names: names, mapTwin: twins}}
	}
	for li, l := range pl.leaves {
		if l.required {
			pl.hasReq = true
		}
		for vi := range l.vals {
			pl.atoms = append(pl.atoms, c40atom{li, vi})
		}
		if thorough {
			for vi := range l.vals {
				pl.primary = append(pl.primary, c40atom{li, vi})
			}
		} else {
			pl.primary = append(pl.primary, c40atom{li, 0})
			if len(l.vals) > 1 {
				pl.primary = append(pl.primary, c40atom{li, len(l.vals) - 1})
			}
		}
	}
	return pl
}

func (pl *c40plan) fresh(reqBase bool) reflect.Value {
	x := reflect.New(pl.typ)
	if reqBase {
		for _, l := range pl.leaves {
			if l.required {
				for _, v := range l.vals {
					if !c40deepZero(v) {
						c40assign(c40navigate(x.Elem(), l.steps), c40clone(v))
						break
					}
				}
			}
		}
	}
	return x
}

func (pl *c40plan) apply(x reflect.Value, a c40atom, twin bool) {
	l := &pl.leaves[a.leaf]
	v := l.vals[a.val]
	if twin {
		v = l.mapTwin[a.val]
	}
	c40assign(c40navigate(x.Elem(), l.steps), c40clone(v))
}

// c40clone deep-copies reference-typed boundary values so that instances never share
// backing storage (decoders and encoders must not see aliasing between instances).
func c40clone(v reflect.Value) reflect.Value {
	switch v.Kind() {
	case reflect.Slice:
		if v.IsNil() {
			return v
		}
		s := reflect.MakeSlice(v.Type(), v.Len(), v.Len())
		for i := 0; i < v.Len(); i++ {
			s.Index(i).Set(c40clone(v.Index(i)))
		}
		return s
	case reflect.Map:
		if v.IsNil() {
			return v
		}
		m := reflect.MakeMap(v.Type())
		// preserve insertion order of the source as far as Go exposes it: keys are
		// re-inserted in the order the twin construction used (k order is irrelevant to Go,
		// the point of the twin is a different internal layout history)
		it := v.MapRange()
		for it.Next() {
			m.SetMapIndex(c40clone(it.Key()), c40clone(it.Value()))
		}
		return m
	case reflect.Ptr:
		if v.IsNil() {
			return v
		}
		p := reflect.New(v.Type().Elem())
		p.Elem().Set(c40clone(v.Elem()))
		return p
	case reflect.Struct:
		c := reflect.New(v.Type()).Elem()
		c.Set(v)
		for i := 0; i < v.NumField(); i++ {
			if c.Field(i).CanSet() {
				switch v.Field(i).Kind() {
				case reflect.Slice, reflect.Map, reflect.Ptr, reflect.Struct, reflect.Array:
					c.Field(i).Set(c40clone(v.Field(i)))
				}
			}
		}
		return c
	case reflect.Array:
		c := reflect.New(v.Type()).Elem()
		c.Set(v)
		if !c40isBytes(v.Type()) {
			for i := 0; i < v.Len(); i++ {
				c.Index(i).Set(c40clone(v.Index(i)))
			}
		}
		return c
	}
	return v
}

func (pl *c40plan) describe(atoms []c40atom, reqBase bool) string {
	var parts []string
	for _, a := range atoms {
		l := pl.leaves[a.leaf]
		parts = append(parts, fmt.Sprintf("%s=%s", l.path, l.names[a.val]))
	}
	s := strings.Join(parts, " & ")
	if s == "" {
		s = "(no leaf set)"
	}
	if reqBase {
		s += " [required leaves preset]"
	}
	return s
}

// ---------------------------------------------------------------------------------------
// oracle

type c40ctx struct {
	r        *ve.Run
	mu       sync.Mutex
	n        map[string]int
	reqRej   atomic.Int64
	ptrEmpty atomic.Int64
	boundRej atomic.Int64
	nonzer   atomic.Int64
	hashed   atomic.Int64
}

func (c *c40ctx) report(kind string, pl *c40plan, desc string, detail string) {
	c.reportKey("C40:"+kind+":"+pl.name, pl, desc, detail)
}

func (c *c40ctx) reportKey(key string, pl *c40plan, desc string, detail string) {
	c.mu.Lock()
	c.n[key]++
	n := c.n[key]
	c.mu.Unlock()
	if n > 2 {
		return
	}
	c.r.Report(key, fmt.Sprintf("%s{%s}: %s", pl.name, desc, detail), map[string]any{"engine": "enum", "type": pl.name, "instance": desc})
}

var c40overflowRe = regexp.MustCompile(`length overflow: (\d+) > (\d+)`)

// c40nilEmptyPointers sets every settable non-nil pointer to an all-zero struct (MsgIsZero)
// to nil and returns the pointee type name of the first one found ("" if none).
func c40nilEmptyPointers(v reflect.Value, depth int) string {
	if depth > 12 {
		return ""
	}
	found := ""
	note := func(s string) {
		if found == "" {
			found = s
		}
	}
	switch v.Kind() {
	case reflect.Ptr:
		if v.IsNil() {
			return ""
		}
		if z, ok := v.Interface().(interface{ MsgIsZero() bool }); ok && v.Elem().Kind() == reflect.Struct && z.MsgIsZero() && v.CanSet() {
			name := v.Type().Elem().String()
			v.Set(reflect.Zero(v.Type()))
			return name
		}
		return c40nilEmptyPointers(v.Elem(), depth+1)
	case reflect.Struct:
		for i := 0; i < v.NumField(); i++ {
			if c40eligible(v.Type().Field(i)) {
				note(c40nilEmptyPointers(v.Field(i), depth+1))
			}
		}
	case reflect.Slice, reflect.Array:
		if !c40isBytes(v.Type()) {
			for i := 0; i < v.Len(); i++ {
				note(c40nilEmptyPointers(v.Index(i), depth+1))
			}
		}
	}
	return found
}

// c40diff renders two byte strings around their first difference.
func c40diff(a, b []byte, na, nb string) string {
	i := 0
	for i < len(a) && i < len(b) && a[i] == b[i] {
		i++
	}
	lo := i - 24
	if lo < 0 {
		lo = 0
	}
	win := func(x []byte) string {
		hi := i + 40
		if hi > len(x) {
			hi = len(x)
		}
		if lo > len(x) {
			return ""
		}
		return fmt.Sprintf("%x|%x", x[lo:i], x[i:hi])
	}
	full := ""
	if len(a) <= 200 && len(b) <= 200 {
		full = fmt.Sprintf("\n %s full %x\n %s full %x", na, a, nb, b)
	}
	return fmt.Sprintf("lengths %d/%d, first difference at offset %d\n %s ...%s\n %s ...%s%s", len(a), len(b), i, na, win(a), nb, win(b), full)
}

func c40hashID(x any) (crypto.Digest, bool) {
	h, ok := x.(crypto.Hashable)
	if !ok {
		return crypto.Digest{}, false
	}
	return crypto.HashObj(h), true
}

// check applies the whole oracle to one instance. twin (optional) is the same instance with
// a map filled in the opposite order.
func (c *c40ctx) check(pl *c40plan, x reflect.Value, desc string, twin *reflect.Value) {
	c.r.Eval()
	defer func() {
		if e := recover(); e != nil {
			c.report("panic", pl, desc, fmt.Sprintf("panic: %v\n%s", e, debug.Stack()))
		}
	}()
	obj := x.Interface().(c40codec)
	e1 := protocol.Encode(obj)
	e2 := protocol.EncodeReflect(obj)
	if !bytes.Equal(e1, e2) {
		// attribute the known class "non-nil pointer to an empty struct" precisely: if nil-ing
		// exactly those pointers makes the encoders agree, report it under the pointee's key.
		if pointee := c40nilEmptyPointers(x.Elem(), 0); pointee != "" {
			if f1, f2 := protocol.Encode(obj), protocol.EncodeReflect(obj); bytes.Equal(f1, f2) && bytes.Equal(f2, e2) {
				c.r.Class(pl.name + "/nonnil-pointer-to-empty")
				c.ptrEmpty.Add(1)
				c.reportKey("C40:nonnil-pointer-to-empty-struct:"+pointee, pl, desc,
					fmt.Sprintf("a non-nil *%s pointing at an all-zero struct is emitted as an empty map by the generated MarshalMsg (nil check) but omitted by go-codec (recursive emptiness check): %s", pointee, c40diff(e1, e2, "msgp", "reflect")))
				return
			}
		}
		c.report("encoders-differ", pl, desc, "generated MarshalMsg and go-codec disagree: "+c40diff(e1, e2, "msgp", "reflect"))
		return
	}
	isZeroEnc := bytes.Equal(e1, pl.zeroEnc)
	if !isZeroEnc {
		c.nonzer.Add(1)
	}
	// MsgIsZero is what a generated parent consults for omitempty; go-codec decides by its own
	// recursive emptiness check. Ask go-codec directly through a synthetic omitempty holder.
	wenc := protocol.EncodeReflect(pl.holder(x.Interface()))
	codecEmpty := len(wenc) == 1 && wenc[0] == 0x80
	if z := obj.MsgIsZero(); z != codecEmpty {
		c.report("msgiszero", pl, desc, fmt.Sprintf("MsgIsZero()=%v but go-codec omitempty holder encodes to %x (own encoding %x)", z, wenc, e1))
		return
	}
	if twin != nil {
		t1 := protocol.Encode(twin.Interface().(c40codec))
		t2 := protocol.EncodeReflect(twin.Interface())
		if !bytes.Equal(t1, e1) || !bytes.Equal(t2, e1) {
			c.report("map-order", pl, desc, fmt.Sprintf("map insertion order changes the bytes:\n order A %x\n order B msgp %x\n order B reflect %x", e1, t1, t2))
			return
		}
	}
	// decode through both codecs
	v1 := reflect.New(pl.typ)
	_, err1 := v1.Interface().(c40codec).UnmarshalMsg(e1)
	v2 := reflect.New(pl.typ)
	err2 := protocol.DecodeReflect(e1, v2.Interface())
	if err1 != nil {
		if strings.Contains(err1.Error(), "missing required field") && c.requiredZero(pl, x) {
			c.reqRej.Add(1)
			c.r.Class(pl.name + "/required-reject")
			return
		}
		if m := c40overflowRe.FindStringSubmatch(err1.Error()); m != nil && (m[1] == "1" || m[1] == "2") {
			// the instance holds 1-2 elements where the type declares a smaller allocbound:
			// rejecting is what C41 demands; codec_tester never exceeds a bound either
			c.boundRej.Add(1)
			c.r.Class(pl.name + "/allocbound-reject")
			return
		}
		c.report("decode-msgp", pl, desc, fmt.Sprintf("generated decoder rejects the generated encoding %x: %v", e1, err1))
		return
	}
	if err2 != nil {
		c.report("decode-reflect", pl, desc, fmt.Sprintf("go-codec rejects the encoding %x: %v", e1, err2))
		return
	}
	for _, d := range []struct {
		name string
		v    reflect.Value
	}{{"msgp-decoded", v1}, {"reflect-decoded", v2}} {
		o := d.v.Interface().(c40codec)
		if ee := protocol.Encode(o); !bytes.Equal(ee, e1) {
			c.report("reencode", pl, desc, fmt.Sprintf("%s value re-encodes (msgp) differently:\n first %x\n again %x", d.name, e1, ee))
			return
		}
		if ee := protocol.EncodeReflect(o); !bytes.Equal(ee, e1) {
			c.report("reencode", pl, desc, fmt.Sprintf("%s value re-encodes (go-codec) differently:\n first %x\n again %x", d.name, e1, ee))
			return
		}
	}
	// derived identifiers
	if h0, ok := c40hashID(obj); ok {
		c.hashed.Add(1)
		h1, _ := c40hashID(v1.Interface())
		h2, _ := c40hashID(v2.Interface())
		if h0 != h1 || h0 != h2 {
			c.report("hash", pl, desc, fmt.Sprintf("HashObj differs across copies: original %v msgp-decoded %v reflect-decoded %v", h0, h1, h2))
			return
		}
		id, tb := obj.(crypto.Hashable).ToBeHashed()
		if bytes.Equal(tb, e1) {
			if hr := crypto.Hash(append([]byte(id), e2...)); hr != h0 {
				c.report("hash", pl, desc, fmt.Sprintf("HashObj %v != hash over the go-codec encoding %v", h0, hr))
				return
			}
		}
	}
	switch o := obj.(type) {
	case *transactions.Transaction:
		a, b, d := o.ID(), v1.Interface().(*transactions.Transaction).ID(), v2.Interface().(*transactions.Transaction).ID()
		ref := transactions.Txid(crypto.Hash(append([]byte(protocol.Transaction), e2...)))
		if a != b || a != d || a != ref {
			c.report("txid", pl, desc, fmt.Sprintf("Transaction.ID differs: %v / %v / %v / over go-codec bytes %v", a, b, d, ref))
		}
	case *transactions.SignedTxn:
		a, b, d := o.ID(), v1.Interface().(*transactions.SignedTxn).ID(), v2.Interface().(*transactions.SignedTxn).ID()
		ref := transactions.Txid(crypto.Hash(append([]byte(protocol.Transaction), protocol.EncodeReflect(&o.Txn)...)))
		if a != b || a != d || a != ref {
			c.report("txid", pl, desc, fmt.Sprintf("SignedTxn.ID differs: %v / %v / %v / over go-codec bytes %v", a, b, d, ref))
		}
	case *bookkeeping.BlockHeader:
		a, b, d := o.Hash(), v1.Interface().(*bookkeeping.BlockHeader).Hash(), v2.Interface().(*bookkeeping.BlockHeader).Hash()
		ref := bookkeeping.BlockHash(crypto.Hash(append([]byte(protocol.BlockHeader), e2...)))
		if a != b || a != d || a != ref {
			c.report("blockhash", pl, desc, fmt.Sprintf("BlockHeader.Hash differs: %v / %v / %v / over go-codec bytes %v", a, b, d, ref))
		}
	case *bookkeeping.Block:
		b1, b2 := v1.Interface().(*bookkeeping.Block), v2.Interface().(*bookkeeping.Block)
		ref := crypto.Hash(append([]byte(protocol.BlockHeader), protocol.EncodeReflect(&o.BlockHeader)...))
		if o.Digest() != b1.Digest() || o.Digest() != b2.Digest() || o.Digest() != ref || o.Hash() != b1.Hash() || o.Hash() != b2.Hash() {
			c.report("blockhash", pl, desc, fmt.Sprintf("Block.Digest/Hash differs: %v / %v / %v / over go-codec bytes %v", o.Digest(), b1.Digest(), b2.Digest(), ref))
		}
	}
	if isZeroEnc {
		c.r.Class(pl.name + "/ok-zero-encoding")
	} else {
		c.r.Class(pl.name + "/ok")
	}
}

// requiredZero reports whether some `required` leaf of x is zero (the documented reason for
// a "missing required field" answer). Required-ness inside slice/map/pointer elements is
// found by type: the elements are zero/set values of msgp types with their own required tags.
func (c *c40ctx) requiredZero(pl *c40plan, x reflect.Value) bool {
	return c40anyRequiredZero(x.Elem(), 0)
}

func c40anyRequiredZero(v reflect.Value, depth int) bool {
	if depth > 12 {
		return false
	}
	switch v.Kind() {
	case reflect.Struct:
		t := v.Type()
		for i := 0; i < t.NumField(); i++ {
			f := t.Field(i)
			if !c40eligible(f) {
				continue
			}
			_, opts := c40tagOpts(f.Tag)
			if _, req := opts["required"]; req && c40deepZero(v.Field(i)) {
				return true
			}
			if c40anyRequiredZero(v.Field(i), depth+1) {
				return true
			}
		}
	case reflect.Slice, reflect.Array:
		if v.Kind() == reflect.Slice && v.IsNil() {
			return false
		}
		if c40isBytes(v.Type()) {
			return false
		}
		for i := 0; i < v.Len(); i++ {
			if c40anyRequiredZero(v.Index(i), depth+1) {
				return true
			}
		}
	case reflect.Map:
		it := v.MapRange()
		for it.Next() {
			if c40anyRequiredZero(it.Value(), depth+1) {
				return true
			}
		}
	case reflect.Ptr:
		if !v.IsNil() {
			return c40anyRequiredZero(v.Elem(), depth+1)
		}
	}
	return false
}

func c40deepZero(v reflect.Value) bool {
	switch v.Kind() {
	case reflect.Slice, reflect.Map:
		return v.Len() == 0
	}
	return v.IsZero()
}

// ---------------------------------------------------------------------------------------

func TestVerif_C40(t *testing.T) {
	r := ve.NewRun("C40", "exploration")
	c := &c40ctx{r: r, n: map[string]int{}}
	thorough := ve.Thorough()
	var plans []*c40plan
	var totalLeaves, totalAtoms int
	for _, p := range c40registry() {
		pl := c40makePlan(p, thorough)
		pl.zeroEnc = protocol.Encode(reflect.New(pl.typ).Interface().(c40codec))
		plans = append(plans, pl)
		totalLeaves += len(pl.leaves)
		totalAtoms += len(pl.atoms)
	}
	sort.SliceStable(plans, func(i, j int) bool { return len(plans[i].atoms) < len(plans[j].atoms) })

	type unit struct {
		pl      *c40plan
		reqBase bool
		first   int // index into primary for two-hot rows; -1: zero/all-set/one-hot block
	}
	var units []unit
	for _, pl := range plans {
		bases := []bool{false}
		if pl.hasReq {
			bases = append(bases, true)
		}
		for _, b := range bases {
			units = append(units, unit{pl, b, -1})
			for i := range pl.primary {
				units = append(units, unit{pl, b, i})
			}
		}
	}
	r.ParallelFor(len(units), func(ui int) {
		u := units[ui]
		pl := u.pl
		if u.first < 0 {
			// zero value
			x := pl.fresh(u.reqBase)
			c.check(pl, x, pl.describe(nil, u.reqBase), nil)
			// all-set value
			if !u.reqBase {
				x = reflect.New(pl.typ)
				c40assign(x.Elem(), c40set(pl.typ, 0, 0x05))
				c.check(pl, x, "(all fields set)", nil)
			}
			// one-hot
			for _, a := range pl.atoms {
				x = pl.fresh(u.reqBase)
				pl.apply(x, a, false)
				var twin *reflect.Value
				if _, ok := pl.leaves[a.leaf].mapTwin[a.val]; ok {
					tw := pl.fresh(u.reqBase)
					pl.apply(tw, a, true)
					twin = &tw
				}
				c.check(pl, x, pl.describe([]c40atom{a}, u.reqBase), twin)
			}
			return
		}
		a := pl.primary[u.first]
		for j := u.first + 1; j < len(pl.primary); j++ {
			b := pl.primary[j]
			if b.leaf == a.leaf {
				continue
			}
			x := pl.fresh(u.reqBase)
			pl.apply(x, a, false)
			pl.apply(x, b, false)
			c.check(pl, x, pl.describe([]c40atom{a, b}, u.reqBase), nil)
		}
	})

	var big []string
	for _, pl := range plans[len(plans)-6:] {
		big = append(big, fmt.Sprintf("%s:%d leaves/%d one-hot", pl.name, len(pl.leaves), len(pl.atoms)))
	}
	{
		var ks []string
		for k, n := range c.n {
			ks = append(ks, fmt.Sprintf("%s x%d", k, n))
		}
		sort.Strings(ks)
		for _, k := range ks {
			fmt.Println("C40-KEY", k)
		}
	}
	r.Set("types", len(plans))
	r.Set("leaf_fields", totalLeaves)
	r.Set("one_hot_instances_per_base", totalAtoms)
	r.Set("required_reject_instances", c.reqRej.Load())
	r.Set("allocbound_reject_instances", c.boundRej.Load())
	r.Set("nonnil_pointer_to_empty_instances", c.ptrEmpty.Load())
	r.Set("instances_with_nonzero_encoding", c.nonzer.Load())
	r.Set("instances_hashed", c.hashed.Load())
	r.Note("largest types: %s", strings.Join(big, "; "))
	r.Sample(map[string]any{"type": plans[len(plans)-1].name, "example_leaves": func() []string {
		var s []string
		for i, l := range plans[len(plans)-1].leaves {
			if i%17 == 0 {
				s = append(s, l.path+" "+strings.Join(l.names, "|"))
			}
		}
		return s
	}()})
	r.Assume("go-codec (protocol.CodecHandle: Canonical, RecursiveEmptyCheck) is the reference encoder, as in protocol/codec_tester.go")
	r.Assume("documented exceptions bracketed: `required` leaves may make the generated decoder answer 'missing required field'; crypto.HashType < MaxHashType; msgp.Raw holders (ledger/encoded) excluded")
	n := r.Finish(ve.Coverage{
		Rule: fmt.Sprintf("%d msgp-generated consensus types (transactions, blocks, votes/proposals/bundles/certificates, account & tracker records, state proofs, crypto values): zero value, all-fields-set value, every one-hot (leaf := each boundary value; %d leaves found by reflection to struct depth %d, %d one-hot instances) and every two-hot pair of distinct leaves (%s boundary value per leaf), on the zero base and on the required-leaves-preset base; oracle: Encode==EncodeReflect, MsgIsZero<=>zero encoding, both decoders accept and all four re-encodings reproduce the bytes, derived ids (HashObj / Transaction.ID / BlockHeader.Hash / Block.Digest) equal on all paths, map insertion order irrelevant",
			len(plans), totalLeaves, c40maxStructDepth, totalAtoms, map[bool]string{false: "first and last", true: "every"}[thorough]),
		Exhaustive: true,
	})
	if n > 0 {
		t.Fatal("violations")
	}
}
