package account

// C36 (part 2 of 2) — forward security of participation keys ACROSS PERSISTENCE AND RESTART.
// Part 1 (harness/crypto/verif_c36_test.go) explores crypto.OneTimeSignatureSecrets itself;
// this part explores the two places of this tree that persist the advancing voting keys and
// from which a restarted node reloads them:
//
//   family "partkey":  account.PersistedParticipation over its own sqlite file
//        (FillDBWithParticipationKeys; PersistedParticipation.DeleteOldKeys(round, proto) and
//        waiting for the returned channel, exactly what data.AccountManager.DeleteOldKeys does;
//        RestoreParticipation on restart);
//   family "registry": the participation registry (the object node signing actually reads:
//        AccountManager.Keys -> registry.GetForRound): Insert; DeleteExpired(latestRound, proto)
//        followed by Flush, exactly what node.go does after every round (the key is advanced to
//        latestRound+1); restart = Close and makeParticipationRegistry on the same file.
//
// Engine E-SEQ, level model_checking. Key valid for rounds 2..13, key dilutions {1, 3, 4}
// (6 configurations, each on real file-backed sqlite databases under ve.ScratchDir).
// Alphabet: advance to round R for every R in 1..15 (before the first, every round of the
// range, two past the end; any order: backwards, repeats) and "restart" (close the database,
// reopen it, reload, continue on the RELOADED object). Bound: all sequences of <= 3 (quick) /
// <= 6 (thorough) operations, merged by state key.
//
// After EVERY operation the full sweep runs on BOTH the running object and a freshly reloaded
// copy (a second connection to the same file, reloaded through the same restore code): for
// every round q in 0..last+dilution+1, sig = Voting.Sign(OneTimeIDForRound(q, dilution), msg)
// and Verify under the key's OneTimeSignatureVerifier.
// Oracle, m = highest round the key was advanced to so far ("deletes ephemeral keys for rounds
// strictly older than the given round"):
//   q < m                      => no valid signature, from either object   (forward security)
//   first <= q <= last, q >= m => valid signature, from both objects        (still usable)
//   other q (outside the validity range, not yet passed): not judged — batches are generated
//        whole, so a few rounds outside [first, last] are signable by construction.
// Registry only: DeleteExpired with latestRound > last removes the record (documented);
// nothing is usable afterwards, which the oracle above already demands (m > last).
//
// State key: family, dilution, m (clipped), shape (FirstBatch, #Batches, FirstOffset,
// #Offsets) of the running and of the persisted secrets. Dropped: key bytes (SystemRNG;
// they never decide which identifiers are usable).
//
// Not covered: a crash between the in-memory advance and the completion of the database
// write (the write is asynchronous by design; the node waits for it, and so does the harness),
// several keys in one registry, key dilution 0 (consensus default), state-proof keys.
//
// Unexported identifiers used: makeParticipationRegistry, participationDB (registry family).
//
// Mutants (bin/mut C36 ...; all DETECTED by this part, MISSED by part 1):
//   S1 (seeded C36-B) participation.go: Snapshot taken before DeleteBeforeFineGrained, the
//      database is one advance behind -> C36:reloaded-key-signs-passed-round
//   M5 participationRegistry.go DeleteExpired: advanced records not marked dirty (never
//      flushed) -> same key, registry family
//   M6 participationRegistry.go DeleteExpired: `nextRound := latestRound` (advances one round
//      too few) -> C36:running-key-signs-passed-round
// On the unchanged tree the frontier empties at depth 2-3 in every configuration, i.e. the
// whole reachable state space (14-18 states per configuration) is covered in both tiers.

import (
	"fmt"
	"io"
	"os"
	"path/filepath"
	"sync/atomic"
	"testing"
	"time"

	"github.com/algorand/go-algorand/config"
	"github.com/algorand/go-algorand/crypto"
	"github.com/algorand/go-algorand/data/basics"
	"github.com/algorand/go-algorand/logging"
	"github.com/algorand/go-algorand/protocol"
	"github.com/algorand/go-algorand/util/db"
	ve "github.com/algorand/go-algorand/verifeng"
)

const (
	c36First = basics.Round(2)
	c36Last  = basics.Round(13)
	c36NAdv  = 15 // advance targets 1..15
)

type c36acctMsg struct{ data []byte }

func (m c36acctMsg) ToBeHashed() (protocol.HashID, []byte) { return protocol.Message, m.data }

var c36acctMessage = c36acctMsg{data: []byte("c36 account vote")}
var c36acctSeq atomic.Int64

type c36acctSys struct {
	fam  string
	dil  uint64
	path string
	err  error // harness-level failure while building the instance

	// partkey family
	part PersistedParticipation
	// registry family
	reg *participationDB
	id  ParticipationID

	verifier crypto.OneTimeSignatureVerifier
	m        basics.Round // reference
	runShape string
	dskShape string
}

func c36shape(v *crypto.OneTimeSignatureSecrets) string {
	if v == nil {
		return "none"
	}
	s := v.Snapshot()
	return fmt.Sprintf("fb%d/nb%d/fo%d/no%d", s.FirstBatch, len(s.Batches), s.FirstOffset, len(s.Offsets))
}

func c36openPair(path string) (db.Pair, error) {
	w, err := db.MakeAccessor(path, false, false)
	if err != nil {
		return db.Pair{}, err
	}
	r, err := db.MakeAccessor(path, true, false)
	if err != nil {
		w.Close()
		return db.Pair{}, err
	}
	return db.Pair{Rdb: r, Wdb: w}, nil
}

func c36newSys(dir, fam string, dil uint64) *c36acctSys {
	s := &c36acctSys{fam: fam, dil: dil, path: filepath.Join(dir, fmt.Sprintf("%s-d%d-%d.sqlite", fam, dil, c36acctSeq.Add(1)))}
	var addr basics.Address
	copy(addr[:], "c36 participation key parent....")
	switch fam {
	case "partkey":
		store, err := db.MakeAccessor(s.path, false, false)
		if err != nil {
			s.err = err
			return s
		}
		s.part, s.err = FillDBWithParticipationKeys(store, addr, c36First, c36Last, dil)
		if s.err == nil {
			s.verifier = s.part.Voting.OneTimeSignatureVerifier
		}
	case "registry":
		pair, err := c36openPair(s.path)
		if err != nil {
			s.err = err
			return s
		}
		s.reg, s.err = makeParticipationRegistry(pair, logging.Base())
		if s.err != nil {
			return s
		}
		firstID := basics.OneTimeIDForRound(c36First, dil)
		lastID := basics.OneTimeIDForRound(c36Last, dil)
		p := Participation{Parent: addr, FirstValid: c36First, LastValid: c36Last, KeyDilution: dil,
			Voting: crypto.GenerateOneTimeSignatureSecrets(firstID.Batch, lastID.Batch-firstID.Batch+1),
			VRF:    crypto.GenerateVRFSecrets()}
		s.verifier = p.Voting.OneTimeSignatureVerifier
		s.id, s.err = s.reg.Insert(p)
		if s.err == nil {
			s.err = s.reg.Flush(30 * time.Second)
		}
	}
	return s
}

func (s *c36acctSys) close() {
	switch s.fam {
	case "partkey":
		s.part.Store.Close()
	case "registry":
		if s.reg != nil {
			s.reg.Close()
		}
	}
	for _, suffix := range []string{"", "-wal", "-shm"} {
		os.Remove(s.path + suffix)
	}
}

// running returns the voting secrets the running node would sign round q with.
func (s *c36acctSys) running(q basics.Round) *crypto.OneTimeSignatureSecrets {
	if s.fam == "partkey" {
		return s.part.Voting
	}
	rec, err := s.reg.GetForRound(s.id, q)
	if err != nil {
		return nil
	}
	return rec.Voting
}

// reloaded opens the database a second time and restores the key the way a restart does.
func (s *c36acctSys) reloaded() (v *crypto.OneTimeSignatureSecrets, closeFn func(), err error) {
	if s.fam == "partkey" {
		store, err := db.MakeAccessor(s.path, false, false)
		if err != nil {
			return nil, nil, err
		}
		p, err := RestoreParticipation(store)
		if err != nil {
			store.Close()
			return nil, nil, err
		}
		return p.Voting, store.Close, nil
	}
	pair, err := c36openPair(s.path)
	if err != nil {
		return nil, nil, err
	}
	reg, err := makeParticipationRegistry(pair, logging.Base())
	if err != nil {
		return nil, nil, err
	}
	return reg.Get(s.id).Voting, reg.Close, nil
}

func (s *c36acctSys) sweepOne(who string, get func(q basics.Round) *crypto.OneTimeSignatureSecrets) error {
	for q := basics.Round(0); q <= c36Last+basics.Round(s.dil)+1; q++ {
		id := basics.OneTimeIDForRound(q, s.dil)
		ok := false
		if v := get(q); v != nil {
			ok = s.verifier.Verify(id, c36acctMessage, v.Sign(id, c36acctMessage))
		}
		switch {
		case q < s.m && ok:
			return ve.Violationf("C36:"+who+"-key-signs-passed-round", "[%s, dilution %d] the %s key produces a valid vote signature for round %d although the key was advanced to round %d", s.fam, s.dil, who, q, s.m)
		case q >= s.m && q >= c36First && q <= c36Last && !ok:
			return ve.Violationf("C36:"+who+"-key-cannot-sign-later-round", "[%s, dilution %d] the %s key cannot sign round %d (advanced to %d, valid %d..%d)", s.fam, s.dil, who, q, s.m, c36First, c36Last)
		}
	}
	return nil
}

func (s *c36acctSys) sweep() error {
	s.runShape = c36shape(s.running(c36First))
	if err := s.sweepOne("running", s.running); err != nil {
		return err
	}
	v, closeFn, err := s.reloaded()
	if err != nil {
		return ve.Violationf("C36:reload-error", "[%s, dilution %d] reloading the persisted key failed: %v", s.fam, s.dil, err)
	}
	defer closeFn()
	s.dskShape = c36shape(v)
	return s.sweepOne("reloaded", func(basics.Round) *crypto.OneTimeSignatureSecrets { return v })
}

func (s *c36acctSys) apply(op int) (bool, error) {
	if s.err != nil {
		return true, fmt.Errorf("HARNESS: instance setup failed: %v", s.err)
	}
	proto := config.Consensus[protocol.ConsensusCurrentVersion]
	if op < c36NAdv {
		target := basics.Round(op + 1) // the key is advanced to this round
		switch s.fam {
		case "partkey":
			if err := <-s.part.DeleteOldKeys(target, proto); err != nil {
				return true, ve.Violationf("C36:persist-error", "[partkey, dilution %d] DeleteOldKeys(%d) reported %v", s.dil, target, err)
			}
			if target > s.m {
				s.m = target
			}
		case "registry":
			latest := target - 1 // DeleteExpired keeps the key for latest+1
			if err := s.reg.DeleteExpired(latest, proto); err != nil {
				return true, ve.Violationf("C36:persist-error", "[registry, dilution %d] DeleteExpired(%d) reported %v", s.dil, latest, err)
			}
			if err := s.reg.Flush(30 * time.Second); err != nil {
				return true, ve.Violationf("C36:persist-error", "[registry, dilution %d] Flush after DeleteExpired(%d) reported %v", s.dil, latest, err)
			}
			// the registry advances only keys that are already valid at latest
			if latest >= c36First && target > s.m {
				s.m = target
			}
		}
	} else { // restart: continue on the reloaded object
		switch s.fam {
		case "partkey":
			s.part.Store.Close()
			store, err := db.MakeAccessor(s.path, false, false)
			if err != nil {
				return true, fmt.Errorf("HARNESS: reopen: %v", err)
			}
			p, err := RestoreParticipation(store)
			if err != nil {
				return true, ve.Violationf("C36:reload-error", "[partkey, dilution %d] RestoreParticipation after restart failed: %v", s.dil, err)
			}
			s.part = p
		case "registry":
			s.reg.Close()
			pair, err := c36openPair(s.path)
			if err != nil {
				return true, fmt.Errorf("HARNESS: reopen: %v", err)
			}
			reg, err := makeParticipationRegistry(pair, logging.Base())
			if err != nil {
				return true, ve.Violationf("C36:reload-error", "[registry, dilution %d] reopening the registry failed: %v", s.dil, err)
			}
			s.reg = reg
		}
	}
	return true, s.sweep()
}

func (s *c36acctSys) key() string {
	m := s.m
	if m < c36First {
		m = c36First
	}
	if m > c36Last+1 {
		m = c36Last + 1
	}
	if s.runShape == "" { // initial state: shapes not swept yet
		s.runShape = c36shape(s.running(c36First))
		s.dskShape = s.runShape
	}
	return fmt.Sprintf("%s/d%d/m%d/run:%s/disk:%s", s.fam, s.dil, m, s.runShape, s.dskShape)
}

func TestVerif_C36_account(t *testing.T) {
	r := ve.NewRun("C36", "model_checking")
	logging.Base().SetOutput(io.Discard) // Sign warns on every out-of-range identifier
	dir := ve.ScratchDir("c36-account")
	defer os.RemoveAll(dir)
	depth := ve.Pick(3, 6)
	var cov ve.Coverage
	cov.Exhaustive = true
	for _, fam := range []string{"partkey", "registry"} {
		for _, dil := range []uint64{1, 3, 4} {
			fam, dil := fam, dil
			q := &ve.Seq[*c36acctSys]{
				Name:   fmt.Sprintf("acct/%s/d%d", fam, dil),
				NumOps: c36NAdv + 1,
				OpName: func(op int) string {
					if op < c36NAdv {
						if fam == "registry" {
							return fmt.Sprintf("DeleteExpired(%d)+Flush", op)
						}
						return fmt.Sprintf("DeleteOldKeys(%d)", op+1)
					}
					return "restart"
				},
				New:      func() *c36acctSys { return c36newSys(dir, fam, dil) },
				Close:    func(s *c36acctSys) { s.close() },
				Apply:    func(s *c36acctSys, op int) (bool, error) { return s.apply(op) },
				Key:      func(s *c36acctSys) string { return s.key() },
				Observe:  func(s *c36acctSys) string { return fmt.Sprintf("m%d/%s/%s", s.m, s.runShape, s.dskShape) },
				MaxDepth: depth,
			}
			// the pristine state is swept too
			s0 := c36newSys(dir, fam, dil)
			if s0.err != nil {
				t.Fatalf("HARNESS: cannot create %s instance: %v", fam, s0.err)
			}
			if err := s0.sweep(); err != nil {
				r.Report("C36:initial", fmt.Sprintf("[%s] pristine key: %v", q.Name, err), map[string]any{"engine": "seq", "harness": q.Name, "ops": []int{}})
			}
			s0.close()
			res := q.Explore(r)
			cov.AddSeq(res)
			if !res.Exhaustive {
				cov.Exhaustive = false
			}
			if r.Violations() > 0 {
				break
			}
		}
	}
	cov.Rule = fmt.Sprintf("BFS over all sequences of <= %d operations from {advance the key to round R for R in 1..15 (PersistedParticipation.DeleteOldKeys + wait, resp. registry DeleteExpired(R-1) + Flush), restart (close, reopen, reload, continue on the reloaded object)} for a key valid 2..13 with dilution 1, 3, 4, on real sqlite files, for the part-key file and for the participation registry; after every operation Sign+Verify for every round 0..last+dilution+1 on the running object and on a freshly reloaded copy; reference = highest round advanced to", depth)
	r.Assume("the database write started by an advance is awaited before anything else happens (AccountManager.DeleteOldKeys / node.go do the same); a crash in the middle of that write is not explored")
	r.Assume("state key = (m, shape of running secrets, shape of persisted secrets); key bytes come from SystemRNG and are not part of it")
	if r.Finish(cov) > 0 {
		t.Fatal("violations")
	}
}
