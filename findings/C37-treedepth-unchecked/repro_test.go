package merklearray

// Plain unit test (no explorer) for the C37 finding: Verify / VerifyVectorCommitment never
// compare Proof.TreeDepth with the number of levels actually climbed, so a proof
// "presented for a different tree depth" verifies (ErrUnexpectedTreeDepth is declared in
// merkle.go but never returned).
//
// Run (from /repo, through the verif overlay so that crypto links):
//   cp /verif/findings/C37-treedepth-unchecked/repro_test.go crypto/merklearray/zz_c37_repro_test.go   # scratch worktree only
//   go test -overlay <overlay.json> -run TestReproC37 ./crypto/merklearray
//
// Fails on the unchanged tree, passes once verifyPath rejects l != proof.TreeDepth.

import (
	"fmt"
	"testing"

	"github.com/algorand/go-algorand/crypto"
	"github.com/algorand/go-algorand/protocol"
)

type reproC37Elem string

func (e reproC37Elem) ToBeHashed() (protocol.HashID, []byte) { return protocol.Message, []byte(e) }

type reproC37Array []reproC37Elem

func (a reproC37Array) Length() uint64 { return uint64(len(a)) }
func (a reproC37Array) Marshal(pos uint64) (crypto.Hashable, error) {
	if pos >= uint64(len(a)) {
		return nil, fmt.Errorf("out of range")
	}
	return a[pos], nil
}

func TestReproC37TreeDepthNotBound(t *testing.T) {
	arr := reproC37Array{"a", "b", "c", "d", "e"}
	hf := crypto.HashFactory{HashType: crypto.Sha512_256}

	// 1. plain tree: the same proof verifies with TreeDepth+1 and (positions permitting) TreeDepth-1
	tree, err := Build(arr, hf)
	if err != nil {
		t.Fatal(err)
	}
	proof, err := tree.Prove([]uint64{1})
	if err != nil {
		t.Fatal(err)
	}
	elems := map[uint64]crypto.Hashable{1: arr[1]}
	if err := Verify(tree.Root(), elems, proof); err != nil {
		t.Fatalf("honest proof rejected: %v", err)
	}
	for _, d := range []uint8{proof.TreeDepth + 1, proof.TreeDepth - 1, 63} {
		p := *proof
		p.TreeDepth = d
		if err := Verify(tree.Root(), elems, &p); err == nil {
			t.Errorf("plain tree of depth %d: proof with TreeDepth=%d accepted", proof.TreeDepth, d)
		}
	}

	// 2. vector commitment: position binding depends on the unchecked field. The element at
	// position j of a depth-d commitment also verifies as position 2j with TreeDepth d+1
	// (and 4j with d+2, ...), although position 2j holds a different element.
	vc, err := BuildVectorCommitmentTree(arr, hf)
	if err != nil {
		t.Fatal(err)
	}
	vproof, err := vc.Prove([]uint64{1})
	if err != nil {
		t.Fatal(err)
	}
	if err := VerifyVectorCommitment(vc.Root(), map[uint64]crypto.Hashable{1: arr[1]}, vproof); err != nil {
		t.Fatalf("honest vc proof rejected: %v", err)
	}
	p := *vproof
	p.TreeDepth = vproof.TreeDepth + 1
	if err := VerifyVectorCommitment(vc.Root(), map[uint64]crypto.Hashable{2: arr[1]}, &p); err == nil {
		t.Errorf("vector commitment: element %q of position 1 accepted at position 2 (which holds %q) by raising TreeDepth %d -> %d",
			arr[1], arr[2], vproof.TreeDepth, p.TreeDepth)
	}
	p.TreeDepth = vproof.TreeDepth + 2
	if err := VerifyVectorCommitment(vc.Root(), map[uint64]crypto.Hashable{4: arr[1]}, &p); err == nil {
		t.Errorf("vector commitment: element %q of position 1 accepted at position 4 (which holds %q) with TreeDepth %d", arr[1], arr[4], p.TreeDepth)
	}
	// position 0 verifies under any depth
	v0, _ := vc.Prove([]uint64{0})
	p0 := *v0
	p0.TreeDepth = v0.TreeDepth + 1
	if err := VerifyVectorCommitment(vc.Root(), map[uint64]crypto.Hashable{0: arr[0]}, &p0); err == nil {
		t.Errorf("vector commitment: proof for position 0 accepted with TreeDepth %d instead of %d", p0.TreeDepth, v0.TreeDepth)
	}
}
