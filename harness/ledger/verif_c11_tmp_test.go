package ledger

import (
	"testing"
	"time"
	"fmt"
)

func TestC11Timing(t *testing.T) {
	c11RegisterProto()
	for _, mem := range []bool{true, false} {
	for k := 0; k < 16; k++ {
		t0 := time.Now()
		d, err := c11Open(0, mem)
		if err != nil { t.Fatal(err) }
		t1 := time.Now()
		for i := 0; i < 3; i++ {
		ev, err := d.startEval()
		if err != nil { t.Fatal(err) }
		_, err = d.endBlock(ev)
		if err != nil { t.Fatal(err) }
		}
		t2 := time.Now()
		d.flush()
		t3 := time.Now()
		d.reload()
		t4 := time.Now()
		if err := d.reopen(); err != nil { t.Fatal(err) }
		if d.l.Latest() != 3 || d.dbRound() != 3 { t.Fatal("lost state", d.l.Latest(), d.dbRound()) }
		t5 := time.Now()
		d.close()
		if k%5 == 0 { fmt.Println(mem, "open", t1.Sub(t0), "3blk", t2.Sub(t1), "flush", t3.Sub(t2), "reload", t4.Sub(t3), "reopen", t5.Sub(t4), "close", time.Since(t5)) }
	}
	}
}
