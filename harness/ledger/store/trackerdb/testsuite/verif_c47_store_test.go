package testsuite

// C47 — backend plumbing: opening the two real trackerdb stores, raw (backend-private)
// dumps used for the canonical state key and for restoring a base state, and the
// reflection-free/unsafe-free access path to the live Pebble key space.

import (
	"bytes"
	"context"
	"database/sql"
	"fmt"
	"io"
	"reflect"
	"sort"
	"strings"
	"sync/atomic"

	"github.com/algorand/go-algorand/config"
	"github.com/algorand/go-algorand/ledger/store/trackerdb"
	"github.com/algorand/go-algorand/ledger/store/trackerdb/generickv"
	"github.com/algorand/go-algorand/ledger/store/trackerdb/pebbledbdriver"
	"github.com/algorand/go-algorand/ledger/store/trackerdb/sqlitedriver"
	"github.com/algorand/go-algorand/logging"
	"github.com/algorand/go-algorand/protocol"
	"github.com/algorand/go-algorand/util/db"
)

var c47dbCounter atomic.Int64

// c47kvRaw is the raw view of the Pebble store: the driver's own kvstore object, which
// implements both generickv.KvRead and generickv.KvWrite.
type c47kvRaw interface {
	generickv.KvRead
	generickv.KvWrite
}

// c47table describes one SQLite table for dump/restore.
type c47table struct {
	name      string
	cols      []string
	useRowid  bool // table has an implicit rowid that is not aliased by an INTEGER PRIMARY KEY column
	orderBy   string
	selectSQL string
	insertSQL string
	selStmt   *sql.Stmt
}

// c47pair is one pair of freshly opened, migrated stores.
type c47pair struct {
	sq    trackerdb.Store
	kv    trackerdb.Store
	sqw   *sql.DB  // SQLite write handle (raw dump / restore only)
	kvraw c47kvRaw // nil when the raw access path is not available (then no Clone)
	tabs  []c47table
	proto config.ConsensusParams

	// long-lived readers (created once per pair)
	rd [2]*c47readers
}

type c47readers struct {
	name string
	st   trackerdb.Store
	ar   trackerdb.AccountsReader
	arx  trackerdb.AccountsReaderExt
	oar  trackerdb.OnlineAccountsReader
	spr  trackerdb.SpVerificationCtxReader
}

func c47quietLog() logging.Logger {
	log := logging.NewLogger()
	log.SetOutput(io.Discard)
	log.SetLevel(logging.Error)
	return log
}

// c47openPair opens both backends exactly as their Open functions do (the SQLite one is
// opened through db.OpenPair + sqlitedriver.MakeStore, which is the body of
// sqlitedriver.Open, so that the harness keeps the write handle for raw dumps) and runs the
// real migrations to trackerdb.AccountDBVersion with no genesis accounts.
func c47openPair() (*c47pair, error) {
	log := c47quietLog()
	n := c47dbCounter.Add(1)
	proto := config.Consensus[protocol.ConsensusCurrentVersion]
	p := &c47pair{proto: proto}

	pair, err := db.OpenPair(fmt.Sprintf("c47-%d.sqlite", n), true)
	if err != nil {
		return nil, fmt.Errorf("sqlite open: %w", err)
	}
	pair.Rdb.SetLogger(log)
	pair.Wdb.SetLogger(log)
	p.sq = sqlitedriver.MakeStore(pair)
	p.sqw = pair.Wdb.Handle

	p.kv, err = pebbledbdriver.Open(fmt.Sprintf("c47-%d", n), true, proto, log)
	if err != nil {
		p.sq.Close()
		return nil, fmt.Errorf("pebble open: %w", err)
	}
	params := trackerdb.Params{InitProto: protocol.ConsensusCurrentVersion}
	if _, err = p.sq.RunMigrations(context.Background(), params, log, trackerdb.AccountDBVersion); err != nil {
		p.close()
		return nil, fmt.Errorf("sqlite migrations: %w", err)
	}
	if _, err = p.kv.RunMigrations(context.Background(), params, log, trackerdb.AccountDBVersion); err != nil {
		p.close()
		return nil, fmt.Errorf("pebble migrations: %w", err)
	}
	p.kvraw = c47findKvRaw(p.kv)
	if err = p.loadTables(); err != nil {
		p.close()
		return nil, err
	}
	for i, st := range []trackerdb.Store{p.sq, p.kv} {
		r := &c47readers{name: []string{"sqlite", "pebble"}[i], st: st}
		if r.ar, err = st.MakeAccountsOptimizedReader(); err != nil {
			p.close()
			return nil, err
		}
		if r.arx, err = st.MakeAccountsReader(); err != nil {
			p.close()
			return nil, err
		}
		if r.oar, err = st.MakeOnlineAccountsOptimizedReader(); err != nil {
			p.close()
			return nil, err
		}
		r.spr = st.MakeSpVerificationCtxReader()
		p.rd[i] = r
	}
	return p, nil
}

func (p *c47pair) close() {
	for _, r := range p.rd {
		if r != nil {
			if r.ar != nil {
				r.ar.Close()
			}
			if r.oar != nil {
				r.oar.Close()
			}
		}
	}
	for _, t := range p.tabs {
		if t.selStmt != nil {
			t.selStmt.Close()
		}
	}
	if p.sq != nil {
		p.sq.Close()
	}
	if p.kv != nil {
		p.kv.Close()
	}
}

// c47findKvRaw reaches the driver's raw kv object through exported (embedded) fields only:
// pebbledbdriver.trackerStore embeds trackerdb.Reader, which holds a generickv reader that
// embeds generickv.KvRead — the *pebbledbdriver.kvstore, which also implements KvWrite.
// Returns nil if the layout is different (the harness then falls back to fresh replays).
func c47findKvRaw(st trackerdb.Store) (out c47kvRaw) {
	defer func() {
		if recover() != nil {
			out = nil
		}
	}()
	v := reflect.ValueOf(st)
	if v.Kind() == reflect.Ptr {
		v = v.Elem()
	}
	f := v.FieldByName("Reader")
	if !f.IsValid() || !f.CanInterface() {
		return nil
	}
	rv := reflect.ValueOf(f.Interface())
	if rv.Kind() == reflect.Ptr {
		rv = rv.Elem()
	}
	g := rv.FieldByName("KvRead")
	if !g.IsValid() || !g.CanInterface() {
		return nil
	}
	raw, ok := g.Interface().(c47kvRaw)
	if !ok {
		return nil
	}
	return raw
}

func (p *c47pair) loadTables() error {
	rows, err := p.sqw.Query("SELECT name, sql FROM sqlite_master WHERE type='table' AND name NOT LIKE 'sqlite_%' ORDER BY name")
	if err != nil {
		return err
	}
	type ts struct{ name, sql string }
	var all []ts
	for rows.Next() {
		var t ts
		if err = rows.Scan(&t.name, &t.sql); err != nil {
			rows.Close()
			return err
		}
		all = append(all, t)
	}
	rows.Close()
	for _, t := range all {
		tab := c47table{name: t.name}
		withoutRowid := strings.Contains(strings.ToUpper(t.sql), "WITHOUT ROWID")
		ir, err := p.sqw.Query("PRAGMA table_info(" + t.name + ")")
		if err != nil {
			return err
		}
		intPK := ""
		npk := 0
		for ir.Next() {
			var cid, notnull, pk int
			var name, typ string
			var dflt any
			if err = ir.Scan(&cid, &name, &typ, &notnull, &dflt, &pk); err != nil {
				ir.Close()
				return err
			}
			tab.cols = append(tab.cols, name)
			if pk > 0 {
				npk++
				if strings.EqualFold(typ, "INTEGER") {
					intPK = name
				}
			}
		}
		ir.Close()
		aliased := npk == 1 && intPK != ""
		tab.useRowid = !withoutRowid && !aliased
		sel := strings.Join(tab.cols, ", ")
		ins := append([]string{}, tab.cols...)
		switch {
		case tab.useRowid:
			sel = "rowid, " + sel
			ins = append([]string{"rowid"}, ins...)
			tab.orderBy = "rowid"
		case aliased:
			tab.orderBy = intPK
		default:
			tab.orderBy = strings.Join(tab.cols, ", ")
		}
		tab.selectSQL = "SELECT " + sel + " FROM " + t.name + " ORDER BY " + tab.orderBy
		tab.insertSQL = "INSERT INTO " + t.name + "(" + strings.Join(ins, ", ") + ") VALUES(" + strings.TrimSuffix(strings.Repeat("?,", len(ins)), ",") + ")"
		if tab.selStmt, err = p.sqw.Prepare(tab.selectSQL); err != nil {
			return err
		}
		p.tabs = append(p.tabs, tab)
	}
	return nil
}

// c47dump is the raw content of both stores.
type c47dump struct {
	sqRows [][][]any // per table, per row, values (int64 / []byte / string / float64 / nil)
	sqText []string  // per table canonical text
	kvKeys [][]byte
	kvVals [][]byte
	text   string // canonical text of everything (the state key is a digest of it)
}

func c47valText(b *strings.Builder, v any) {
	switch x := v.(type) {
	case nil:
		b.WriteString("N")
	case int64:
		fmt.Fprintf(b, "i%d", x)
	case float64:
		fmt.Fprintf(b, "f%v", x)
	case []byte:
		fmt.Fprintf(b, "b%x", x)
	case string:
		fmt.Fprintf(b, "s%q", x)
	case bool:
		fmt.Fprintf(b, "B%v", x)
	default:
		fmt.Fprintf(b, "?%T:%v", v, v)
	}
}

func (p *c47pair) dump(withKV bool) (*c47dump, error) {
	d := &c47dump{}
	var all strings.Builder
	for _, t := range p.tabs {
		rows, err := t.selStmt.Query()
		if err != nil {
			return nil, fmt.Errorf("dump %s: %w", t.name, err)
		}
		n := len(t.cols)
		if t.useRowid {
			n++
		}
		var trows [][]any
		var tb strings.Builder
		for rows.Next() {
			vals := make([]any, n)
			ptrs := make([]any, n)
			for i := range vals {
				ptrs[i] = &vals[i]
			}
			if err = rows.Scan(ptrs...); err != nil {
				rows.Close()
				return nil, err
			}
			for i, v := range vals {
				if bs, ok := v.([]byte); ok {
					vals[i] = append([]byte{}, bs...)
				}
				c47valText(&tb, vals[i])
				tb.WriteByte(',')
			}
			tb.WriteByte(';')
			trows = append(trows, vals)
		}
		if err = rows.Err(); err != nil {
			rows.Close()
			return nil, err
		}
		rows.Close()
		d.sqRows = append(d.sqRows, trows)
		d.sqText = append(d.sqText, tb.String())
		if tb.Len() > 0 {
			all.WriteString(t.name)
			all.WriteByte('{')
			all.WriteString(tb.String())
			all.WriteByte('}')
		}
	}
	if withKV && p.kvraw != nil {
		it := p.kvraw.NewIter(nil, nil, false)
		all.WriteString("|KV|")
		for it.Next() {
			k := it.Key()
			v, err := it.Value()
			if err != nil {
				it.Close()
				return nil, err
			}
			d.kvKeys = append(d.kvKeys, k)
			d.kvVals = append(d.kvVals, v)
			fmt.Fprintf(&all, "%x=%x;", k, v)
		}
		it.Close()
	}
	d.text = all.String()
	return d, nil
}

// restore brings both stores back to the content recorded in base (cur is the current
// content). Only rows/keys that differ are touched.
func (p *c47pair) restore(base, cur *c47dump) error {
	var changed []int
	for i := range p.tabs {
		if base.sqText[i] != cur.sqText[i] {
			changed = append(changed, i)
		}
	}
	if len(changed) > 0 {
		tx, err := p.sqw.Begin()
		if err != nil {
			return err
		}
		for _, i := range changed {
			t := p.tabs[i]
			if _, err = tx.Exec("DELETE FROM " + t.name); err != nil {
				tx.Rollback()
				return fmt.Errorf("restore %s: %w", t.name, err)
			}
			for _, row := range base.sqRows[i] {
				if _, err = tx.Exec(t.insertSQL, row...); err != nil {
					tx.Rollback()
					return fmt.Errorf("restore %s: %w", t.name, err)
				}
			}
		}
		if err = tx.Commit(); err != nil {
			return err
		}
	}
	if p.kvraw != nil {
		// both key lists are sorted (iterator order)
		i, j := 0, 0
		for i < len(base.kvKeys) || j < len(cur.kvKeys) {
			var c int
			switch {
			case i >= len(base.kvKeys):
				c = 1
			case j >= len(cur.kvKeys):
				c = -1
			default:
				c = bytes.Compare(base.kvKeys[i], cur.kvKeys[j])
			}
			switch {
			case c < 0:
				if err := p.kvraw.Set(base.kvKeys[i], base.kvVals[i]); err != nil {
					return err
				}
				i++
			case c > 0:
				if err := p.kvraw.Delete(cur.kvKeys[j]); err != nil {
					return err
				}
				j++
			default:
				if !bytes.Equal(base.kvVals[i], cur.kvVals[j]) {
					if err := p.kvraw.Set(base.kvKeys[i], base.kvVals[i]); err != nil {
						return err
					}
				}
				i++
				j++
			}
		}
	}
	return nil
}

// c47sortedStrings returns the sorted keys of a string-keyed map.
func c47sortedStrings[V any](m map[string]V) []string {
	out := make([]string, 0, len(m))
	for k := range m {
		out = append(out, k)
	}
	sort.Strings(out)
	return out
}
