package verifeng

import (
	"encoding/json"
	"fmt"
	"sort"
	"sync"
)

// Violation is an oracle failure with a stable key (used to match known findings).
type Violation struct {
	Key string
	Msg string
}

func (v *Violation) Error() string { return v.Msg }

// Violationf builds a Violation.
func Violationf(key, format string, a ...any) *Violation {
	return &Violation{Key: key, Msg: fmt.Sprintf(format, a...)}
}

// Seq describes an explicit-state exploration of operation sequences on a real object
// (bundled with its reference model) — engine E-SEQ.
//
// A state is identified with the shortest (then lexicographically least) operation
// sequence reaching it; successors are obtained by replaying that sequence on a fresh
// instance and applying one more operation (or by Clone when offered). Key must be a
// canonical form of everything that can influence the future observable behaviour.
type Seq[S any] struct {
	Name   string
	NumOps int
	OpName func(op int) string
	New    func() S
	Clone  func(S) S // optional deep copy
	Close  func(S)   // optional
	// Apply performs op on implementation and reference, compares their observations,
	// and returns enabled=false when op is not part of the alphabet in this state (the
	// instance is then discarded). err != nil is an oracle violation.
	Apply     func(s S, op int) (enabled bool, err error)
	Key       func(s S) string
	Invariant func(s S) error // optional, evaluated in every state (must not mutate)
	// Final, if set, is a destructive check run on the instance after Key was taken and
	// just before it is discarded (e.g. a query that has side effects in the real code).
	Final func(s S) error
	MaxDepth  int
	MaxStates int // 0 = unlimited
	// Observe, if set, returns a label for the distinct-outcome count (evidence only).
	Observe func(s S) string
}

// SeqResult summarises a Seq exploration.
type SeqResult struct {
	States, Transitions, Traces int64
	DepthCompleted              int
	Exhaustive                  bool // all sequences up to MaxDepth explored (no cap hit)
	FrontierEmptied             bool // no unexplored state remains at all
}

type seqNode struct {
	ops []int
	key string
}

func (q *Seq[S]) names(ops []int) []string {
	out := make([]string, len(ops))
	for i, o := range ops {
		if q.OpName != nil {
			out[i] = q.OpName(o)
		} else {
			out[i] = fmt.Sprint(o)
		}
	}
	return out
}

func (q *Seq[S]) replay(ops []int) (S, error) {
	s := q.New()
	for i, o := range ops {
		en, err := q.Apply(s, o)
		if err != nil {
			return s, fmt.Errorf("replay divergence at step %d (%v): violation %v", i, q.names(ops[:i+1]), err)
		}
		if !en {
			return s, fmt.Errorf("replay divergence at step %d (%v): op not enabled", i, q.names(ops[:i+1]))
		}
	}
	return s, nil
}

func (q *Seq[S]) report(r *Run, ops []int, err error) {
	key := q.Name + ":" + truncate(err.Error(), 80)
	if v, ok := err.(*Violation); ok && v.Key != "" {
		key = v.Key
	}
	r.Report(key, fmt.Sprintf("[%s] after ops %v: %v", q.Name, q.names(ops), err),
		map[string]any{"engine": "seq", "harness": q.Name, "ops": ops, "op_names": q.names(ops)})
}

// Explore runs the BFS. It records evaluations/classes/samples on r and returns counts.
func (q *Seq[S]) Explore(r *Run) SeqResult {
	var res SeqResult
	// replay mode
	if raw := r.ReplayRequest(); raw != nil {
		var req struct {
			Engine  string `json:"engine"`
			Harness string `json:"harness"`
			Ops     []int  `json:"ops"`
		}
		if json.Unmarshal(raw, &req) == nil && req.Engine == "seq" && req.Harness == q.Name {
			s := q.New()
			for i, o := range req.Ops {
				en, err := q.Apply(s, o)
				if err == nil && en && q.Invariant != nil {
					err = q.Invariant(s)
				}
				if err != nil {
					q.report(r, req.Ops[:i+1], err)
					break
				}
				if !en {
					fmt.Printf("REPLAY: op %d not enabled\n", i)
					break
				}
				if i == len(req.Ops)-1 && q.Final != nil {
					if err := q.Final(s); err != nil {
						q.report(r, req.Ops, err)
					}
				}
			}
			res.States, res.Transitions, res.Traces = 1, int64(len(req.Ops)), 1
			return res
		}
		if req.Engine == "seq" {
			return res // replay addressed to another harness of the same check
		}
	}

	// determinism self-test + initial state
	s0 := q.New()
	k0 := q.Key(s0)
	if q.Invariant != nil {
		if err := q.Invariant(s0); err != nil {
			q.report(r, nil, err)
		}
	}
	if q.Close != nil {
		q.Close(s0)
	}
	s0b := q.New()
	if k := q.Key(s0b); k != k0 {
		r.Note("INCONCLUSIVE nondeterminism: harness %s initial key differs between two fresh instances", q.Name)
		r.Capped()
		if q.Close != nil {
			q.Close(s0b)
		}
		return res
	}
	if q.Close != nil {
		q.Close(s0b)
	}

	seen := map[string]struct{}{k0: {}}
	frontier := []seqNode{{ops: nil, key: k0}}
	res.States = 1
	var mu sync.Mutex
	obs := map[string]struct{}{}
	res.Exhaustive = true

	for depth := 0; depth < q.MaxDepth && len(frontier) > 0; depth++ {
		type cand struct {
			ops []int
			key string
		}
		var cands []cand
		var trans, traces int64
		stopped := false
		r.ParallelFor(len(frontier), func(i int) {
			n := frontier[i]
			var base S
			haveBase := false
			if q.Clone != nil {
				b, err := q.replay(n.ops)
				if err != nil {
					r.Note("INCONCLUSIVE %v", err)
					r.Capped()
					return
				}
				base, haveBase = b, true
			}
			var local []cand
			var lt, ltr int64
			for op := 0; op < q.NumOps; op++ {
				var s S
				if haveBase {
					s = q.Clone(base)
				} else {
					var err error
					s, err = q.replay(n.ops)
					if err != nil {
						r.Note("INCONCLUSIVE %v", err)
						r.Capped()
						return
					}
				}
				ltr++
				en, err := q.Apply(s, op)
				ops := append(append(make([]int, 0, len(n.ops)+1), n.ops...), op)
				if err == nil && en && q.Invariant != nil {
					err = q.Invariant(s)
				}
				if err != nil {
					q.report(r, ops, err)
					if q.Close != nil {
						q.Close(s)
					}
					lt++
					continue
				}
				if !en {
					if q.Close != nil {
						q.Close(s)
					}
					continue
				}
				lt++
				r.Eval()
				k := q.Key(s)
				if q.Observe != nil {
					o := q.Observe(s)
					mu.Lock()
					obs[o] = struct{}{}
					mu.Unlock()
				}
				if q.Final != nil {
					if err := q.Final(s); err != nil {
						q.report(r, ops, err)
						if q.Close != nil {
							q.Close(s)
						}
						continue
					}
				}
				local = append(local, cand{ops: ops, key: k})
				if q.Close != nil {
					q.Close(s)
				}
			}
			if haveBase && q.Close != nil {
				q.Close(base)
			}
			mu.Lock()
			cands = append(cands, local...)
			trans += lt
			traces += ltr
			mu.Unlock()
		})
		res.Transitions += trans
		res.Traces += traces
		if r.WasCapped() {
			stopped = true
		}
		// deterministic dedupe: sort candidates by (key, ops)
		sort.Slice(cands, func(a, b int) bool {
			if cands[a].key != cands[b].key {
				return cands[a].key < cands[b].key
			}
			return lessInts(cands[a].ops, cands[b].ops)
		})
		var next []seqNode
		for _, c := range cands {
			if _, ok := seen[c.key]; ok {
				continue
			}
			seen[c.key] = struct{}{}
			next = append(next, seqNode{ops: c.ops, key: c.key})
			r.Class(q.Name + "/" + c.key)
		}
		res.States += int64(len(next))
		if stopped {
			res.Exhaustive = false
			break
		}
		res.DepthCompleted = depth + 1
		if len(next) > 0 {
			r.Sample(map[string]any{"harness": q.Name, "depth": depth + 1, "ops": q.names(next[len(next)/2].ops)})
		}
		frontier = next
		if q.MaxStates > 0 && len(seen) >= q.MaxStates {
			r.Capped()
			r.Note("%s: state cap %d hit at depth %d", q.Name, q.MaxStates, depth+1)
			res.Exhaustive = false
			break
		}
		if r.Violations() > 0 {
			res.Exhaustive = false
			break
		}
	}
	// Exhaustive means: every operation sequence of length <= MaxDepth (modulo state
	// merging by Key) was explored; FrontierEmptied additionally means no new state
	// exists beyond the explored depth, i.e. the whole reachable space was covered.
	res.FrontierEmptied = len(frontier) == 0
	r.Note("%s: states=%d transitions=%d depth_completed=%d frontier_left=%d distinct_observations=%d max_depth=%d",
		q.Name, res.States, res.Transitions, res.DepthCompleted, len(frontier), len(obs), q.MaxDepth)
	return res
}

func lessInts(a, b []int) bool {
	for i := 0; i < len(a) && i < len(b); i++ {
		if a[i] != b[i] {
			return a[i] < b[i]
		}
	}
	return len(a) < len(b)
}

// AddSeq accumulates a SeqResult into a Coverage.
func (c *Coverage) AddSeq(s SeqResult) {
	c.States += s.States
	c.Transitions += s.Transitions
	c.Traces += s.Traces
}
