package logic

// C31 — AVM evaluation is total and bounded for every program.
//
// Engine E-ENUM, level exploration. Everything below is enumerated completely (no sampling);
// every case is real bytecode run through the real CheckSignature/CheckContract and
// EvalSignatureFull/EvalContract with an EvalTracer attached.
//
//	(a) EVERY byte string of length <= 2 (quick) / <= 3 (thorough: for the newest version in both
//	    modes and for v1, v4, v8, v13 in signature mode; <= 2 elsewhere) after the version byte, for every version byte 0..LogicVersion+1, both modes,
//	    args in {none, one maximal arg (4096-byte lsig arg / 2048-byte app arg)}, under the
//	    consensus parameters that introduced the AVM version and under vFuture.
//	(b) for every entry of the opcode table (every opcode, and every version at which its
//	    encoding/behaviour was redefined), at the first and last version of its validity:
//	    all immediates from a boundary set (0, 1, max, first invalid, every field index, truncated/
//	    overflowing varints, oversized constants; for every varint-carrying immediate — v13+ branch
//	    offsets, pushint, pushbytes length, int/bytes list counts, elements and item lengths — the
//	    position dependent raw varints 2^63-1-j, 2^63+j, 2^64-1-j, MaxInt64-pc-j and negations for
//	    j in 0..len(program)+3 (+14 for branches), non-minimal 10-byte and overlong 11-byte encodings) x all operand tuples of the stack-value grid
//	    {uint 0,1,2^64-1 (+ the two existing application ids 888, 1056); bytes "",1,8,32,64,4095,
//	    4096 B} at its arity (full product up to arity 4 — thorough: 5 —, reduced grid + star above),
//	    plus every single type-incorrect position; in six contexts (plain; constant blocks + four
//	    extra stack values; inside callsub+proto; inside callsub; after a successful inner payment;
//	    inside an open inner transaction), both modes, with the largest poolable budget.
//	(c) all ordered opcode PAIRS (o1;o2) of the newest version over a reduced grid of variants
//	    (immediate x operand tuple) per opcode, at top level and inside a `callsub`/`proto 2 1`
//	    frame (thorough: also inside an open inner transaction and after an inner payment);
//	    carried state: scratch, frames, callsub/retsub, loads/stores, boxes, inner txns.
//	(d) budget edge: for every opcode variant a backward-branch loop `L: push args; op; pop results;
//	    b L`, run with the remaining budget at the 1st and 2nd execution of the opcode equal to
//	    cost-1, cost, cost+1; and the same loop without the pops (stack growth to the limit);
//	    in signature mode, application mode, inside an open inner transaction, and as a
//	    ClearState call (unpooled budget rule).
//
// Oracle (the property statement only):
//   - the result is accept / reject / error; the error is never the package's panicError
//     (a recovered internal panic), Check* never returns one either, and no Go panic escapes;
//   - after every SUCCESSFUL step: stack depth <= 1000, every byte value that the step could
//     have produced <= 4096 bytes (whole stack and scratch re-scanned at program end), and the
//     cost accumulated so far <= the budget supplied by the harness, where the cost of a step
//     is the SPECIFIED cost of the opcode (table c31specCost below, transcribed from the
//     DocCost entries of langspec_v1..v13.json), so an evaluator that undercharges an opcode is
//     noticed (a step charged less than the specified cost is reported directly as well);
//   - the number of executed steps never exceeds the budget (every opcode costs >= 1): unbounded
//     execution is reported instead of hanging the run.
//
// A byte value > 4096 (or depth > 1000) that exists only at a FAILING step is not a violation:
// step()'s generic post-checks are the documented enforcement for e.g. concat.
//
// Not covered: programs longer than the stated bounds; triples of opcodes; inner application
// calls (need >= 6 instructions); the cost of sumhash512 (v14 has no langspec) is taken from
// the evaluator; linear costs are checked against floor(len/chunk) (never more than the spec).
//
// Mutants (VERIF_REPO=<worktree> bin/mut C31 data/transactions/logic/<file> ... --only), all DETECTED:
//   1. eval.go step(): generic result-size check `> maxStringSize` -> `> maxStringSize+1`
//      (concat of 4096+1 bytes then SUCCEEDS with a 4097-byte value; opConcat itself has no check)
//   2. eval.go substring(): `end < start` test removed (recovered slice panic -> panicError)
//   3. opcodes.go: sqrt `costly(4)` -> `costly(3)` (step charged less than the specified cost)
//   4. eval.go step(): `len(cx.Stack) > maxStackDepth` -> `> maxStackDepth+1` (needs a loop /
//      recursion that reaches depth 1001)
//   5. frames.go opFrameDig: `idx < 0` test removed (needs callsub WITHOUT proto, then frame_dig -128:
//      recovered index panic)
//   6. eval.go checkStep(): immediate-size test disabled (CheckSignature/CheckContract recover a panic)
//   7. eval.go remainingBudget(): pooled application budget reported one too high (a loop runs one
//      cost unit past the budget: needs ~11200 steps)
//   8. (independently seeded, /verif/seeded/C31-A) branchTargetVarint tests only one side of the
//      target range per branch direction: a forward offset within ~len(program) of MaxInt64 wraps
//      negative and Check/Eval recover an index panic — found by the position dependent raw
//      varint immediates MaxInt64-pc-j of part (b).
// An off-by-one in opBytesZero's own length test is NOT property-breaking (step()'s generic check
// still fails the program) and is therefore not used as a mutant.

import (
	"encoding/binary"
	"encoding/hex"
	"encoding/json"
	"errors"
	"fmt"
	"io"
	"math"
	"os"
	"runtime"
	"runtime/debug"
	"sort"
	"strings"
	"sync"
	"sync/atomic"
	"testing"

	"github.com/algorand/go-algorand/config"
	"github.com/algorand/go-algorand/data/basics"
	"github.com/algorand/go-algorand/data/transactions"
	"github.com/algorand/go-algorand/logging"
	"github.com/algorand/go-algorand/protocol"
	ve "github.com/algorand/go-algorand/verifeng"
)

const (
	c31maxDepth = 1000 // "The maximum stack depth is 1000" (README)
	c31maxBytes = 4096 // "byte-arrays may not exceed 4096 bytes in length" (README)
)

// ---------------------------------------------------------------------------------------
// specified opcode costs (langspec_v1..v13.json "DocCost"); everything not listed costs 1.

type c31lin struct{ base, per, chunk, depth int }

func (l c31lin) cost(stack []stackValue) (int, bool) {
	if l.per == 0 {
		return l.base, true
	}
	if len(stack) <= l.depth {
		return 0, false
	}
	n := len(stack[len(stack)-1-l.depth].Bytes)
	return l.base + l.per*(n/l.chunk), true // floor: never more than the specified cost
}

var c31fieldCosts = map[byte][]c31lin{
	0x05: {{base: 1700}, {base: 2500}}, // ecdsa_verify Secp256k1, Secp256r1
	0x06: {{base: 650}, {base: 2400}},  // ecdsa_pk_decompress
	0xe0: {{base: 125}, {base: 170}, {base: 205}, {base: 290}},
	0xe1: {{base: 1810}, {base: 3430}, {base: 2950}, {base: 6530}},
	0xe2: {{8000, 7400, 64, 0}, {8000, 7400, 128, 0}, {13000, 10000, 96, 0}, {13000, 10000, 192, 0}},
	0xe3: {{3600, 90, 32, 0}, {7200, 270, 32, 0}, {6500, 95, 32, 0}, {14850, 485, 32, 0}},
	0xe4: {{base: 20}, {base: 3100}, {base: 1850}, {base: 2340}},
	0xe5: {{base: 630}, {base: 3300}, {base: 1950}, {base: 8150}},
	0xe6: {{10, 550, 32, 0}, {10, 550, 32, 0}},
	0xe7: {{7, 350, 32, 0}, {7, 350, 32, 0}},
}

var c31flatCosts = map[byte]c31lin{
	0x04: {base: 1900}, 0x07: {base: 2000}, 0x1f: {base: 20},
	0x5e: {1, 1, 16, 0},  // base64_decode "1 + 1 per 16 bytes of A"
	0x5f: {25, 2, 7, 1},  // json_ref "25 + 2 per 7 bytes of A" (A is below B)
	0x84: {base: 1900}, 0x85: {base: 1700},
	0x87: {15, 2, 32, 0}, // sha512
	0x92: {base: 4}, 0x95: {base: 10}, 0x96: {base: 40}, 0x98: {base: 130},
	0xa0: {base: 10}, 0xa1: {base: 10}, 0xa2: {base: 20}, 0xa3: {base: 20}, 0xaa: {base: 20},
	0xab: {base: 6}, 0xac: {base: 6}, 0xad: {base: 6}, 0xae: {base: 4},
	0xd0: {base: 5700},
}

// c31specCost returns the specified cost of the instruction at pc (known=false: no specification
// available or the instruction cannot be decoded; the evaluator's own charge is used then).
func c31specCost(version uint64, prog []byte, pc int, stack []stackValue) (int, bool) {
	op := prog[pc]
	switch op {
	case 0x01, 0x02, 0x03: // sha256 keccak256 sha512_256: 7/26/9 in v1, 35/130/45 from v2
		old := map[byte]int{0x01: 7, 0x02: 26, 0x03: 9}
		cur := map[byte]int{0x01: 35, 0x02: 130, 0x03: 45}
		if version < 2 {
			return old[op], true
		}
		return cur[op], true
	case 0x86: // sumhash512: no langspec for v14
		return 0, false
	}
	if fc, ok := c31fieldCosts[op]; ok {
		if pc+1 >= len(prog) || int(prog[pc+1]) >= len(fc) {
			return 0, false
		}
		return fc[prog[pc+1]].cost(stack)
	}
	if l, ok := c31flatCosts[op]; ok {
		return l.cost(stack)
	}
	return 1, true
}

// opcodes that can modify the mock ledger (an environment that executed one is not reused)
var c31dirtyOps = func() (d [256]bool) {
	for _, b := range []byte{0x66, 0x67, 0x68, 0x69, 0x76, 0xb3, 0xb9, 0xbb, 0xbc, 0xbf, 0xd2, 0xd3, 0xd4} {
		d[b] = true
	}
	return
}()

// ---------------------------------------------------------------------------------------
// tracer: the per-step oracle

type c31abort struct{}

type c31pre struct {
	height, cost, spec, pc int
	known                  bool
	top                    bool
}

type c31tracer struct {
	NullEvalTracer
	budget      int // opcode budget supplied by the harness
	credit      int // budget added by the protocol for inner application calls
	innerCredit int
	total       int // accumulated specified cost of executed steps
	charged     int // accumulated cost charged by the evaluator
	steps       int
	nesting     int
	pre         []c31pre
	dirty       bool
	vkey, vwhat string

	watchPC     int // part (d): pc of the opcode under test (top-level program), -1: none
	watchBefore []int
	watchDelta  []int
	watchOK     int // successful executions of the instruction at watchPC
}

func (t *c31tracer) fail(key, what string) {
	if t.vkey == "" {
		t.vkey, t.vwhat = key, what
	}
}

func c31opName(cx *EvalContext, pc int) string {
	if pc < 0 || pc >= len(cx.program) || cx.version > LogicVersion {
		return "?"
	}
	spec := &opsByOpcode[cx.version][cx.program[pc]]
	if spec.SubOps != nil && pc+1 < len(cx.program) && int(cx.program[pc+1]) < len(spec.SubOps) && spec.SubOps[cx.program[pc+1]].Name != "" {
		return spec.SubOps[cx.program[pc+1]].Name
	}
	if spec.Name == "" {
		return fmt.Sprintf("0x%02x", cx.program[pc])
	}
	return spec.Name
}

func (t *c31tracer) BeforeProgram(cx *EvalContext) {
	t.nesting++
	if cx.GetCaller() != nil {
		t.credit += t.innerCredit
	}
}

func (t *c31tracer) AfterProgram(cx *EvalContext, pass bool, evalError error) {
	t.nesting--
	if evalError != nil {
		return
	}
	if len(cx.Stack) > c31maxDepth {
		t.fail("C31:depth", fmt.Sprintf("program ended successfully with stack depth %d", len(cx.Stack)))
	}
	for i := range cx.Stack {
		if len(cx.Stack[i].Bytes) > c31maxBytes {
			t.fail("C31:size", fmt.Sprintf("program ended successfully with a %d-byte value at stack[%d]", len(cx.Stack[i].Bytes), i))
		}
	}
	for i := range cx.Scratch {
		if len(cx.Scratch[i].Bytes) > c31maxBytes {
			t.fail("C31:size", fmt.Sprintf("program ended successfully with a %d-byte value in scratch[%d]", len(cx.Scratch[i].Bytes), i))
		}
	}
}

func (t *c31tracer) BeforeOpcode(cx *EvalContext) {
	t.steps++
	if t.steps > t.budget+t.credit+16 {
		t.fail("C31:unbounded", fmt.Sprintf("%d steps executed with a budget of %d (every opcode costs at least 1)", t.steps, t.budget+t.credit))
		panic(c31abort{})
	}
	op := cx.program[cx.pc]
	if c31dirtyOps[op] {
		t.dirty = true
	}
	spec, known := c31specCost(cx.version, cx.program, cx.pc, cx.Stack)
	top := t.nesting == 1
	if top && cx.pc == t.watchPC {
		t.watchBefore = append(t.watchBefore, t.charged)
	}
	t.pre = append(t.pre, c31pre{height: len(cx.Stack), cost: cx.cost, spec: spec, known: known, pc: cx.pc, top: top})
}

func (t *c31tracer) AfterOpcode(cx *EvalContext, evalError error) {
	if len(t.pre) == 0 {
		return
	}
	p := t.pre[len(t.pre)-1]
	t.pre = t.pre[:len(t.pre)-1]
	delta := cx.cost - p.cost
	t.charged += delta
	if p.top && p.pc == t.watchPC {
		t.watchDelta = append(t.watchDelta, delta)
	}
	if delta > 0 { // the opcode was charged, i.e. it passed the static checks and ran
		c := delta
		if p.known {
			if delta < p.spec {
				t.fail("C31:undercharge:"+c31opName(cx, p.pc), fmt.Sprintf("%s at pc=%d (v%d) was charged %d, its specified cost is %d", c31opName(cx, p.pc), p.pc, cx.version, delta, p.spec))
			}
			c = p.spec
		}
		t.total += c
	}
	if evalError != nil {
		return
	}
	if p.top && p.pc == t.watchPC {
		t.watchOK++
	}
	name := func() string { return c31opName(cx, p.pc) }
	if t.total > t.budget+t.credit {
		t.fail("C31:budget:"+name(), fmt.Sprintf("after successful %s at pc=%d the accumulated specified cost is %d > budget %d", name(), p.pc, t.total, t.budget+t.credit))
	}
	if rem := cx.remainingBudget(); rem < 0 {
		t.fail("C31:budget-negative:"+name(), fmt.Sprintf("after successful %s at pc=%d the remaining budget is %d", name(), p.pc, rem))
	}
	if len(cx.Stack) > c31maxDepth {
		t.fail("C31:depth:"+name(), fmt.Sprintf("after successful %s at pc=%d the stack depth is %d", name(), p.pc, len(cx.Stack)))
	}
	from := p.height - 8
	if from < 0 {
		from = 0
	}
	for i := from; i < len(cx.Stack); i++ {
		if len(cx.Stack[i].Bytes) > c31maxBytes {
			t.fail("C31:size:"+name(), fmt.Sprintf("after successful %s at pc=%d stack[%d] holds %d bytes", name(), p.pc, i, len(cx.Stack[i].Bytes)))
		}
	}
}

// ---------------------------------------------------------------------------------------
// environments

const (
	c31sig = 0
	c31app = 1
)

var c31modeName = [2]string{"sig", "app"}

type c31key struct {
	mode   int
	proto  *config.ConsensusParams
	bigArg bool
	clear  bool // application mode: the call is a ClearState call (separate, unpooled budget rule)
}

type c31env struct {
	key       c31key
	ep        *EvalParams
	defBudget int
	pooled    bool
}

// c31ledger pins the only nondeterministic answer of the package's mock ledger.
type c31ledger struct{ *Ledger }

func (l c31ledger) PrevTimestamp() int64 { return 1_700_000_000 }

var (
	c31sink   logging.Logger
	c31pools  sync.Map // c31key -> *sync.Pool
	c31fresh  = os.Getenv("VERIF_C31_FRESH") != ""
	c31big    = c31fill(4096, 0x5a)
	c31appArg = c31fill(2048, 0x3c)
	c31run    *ve.Run
	c31nviol  atomic.Int64
)

func c31fill(n int, seed byte) []byte {
	b := make([]byte, n)
	for i := range b {
		b[i] = byte(i)*31 + seed
	}
	return b
}

func c31sampleReceiver() basics.Address {
	tx := makeSampleTxn()
	return tx.Txn.Receiver
}

const c31boxName = "boxname8"

func c31newLedger(tx *transactions.SignedTxn) c31ledger {
	led := NewLedger(map[basics.Address]uint64{
		tx.Txn.Sender:   1_000_000_000,
		tx.Txn.Receiver: 500_000_000,
	})
	appAddr := basics.AppIndex(888).Address()
	led.NewAccount(appAddr, 2_000_000_000)
	app := makeApp(1, 1, 2, 2)
	led.NewApp(tx.Txn.Sender, 888, app)
	// foreign app 1056 (same creator: a "family" member that allows foreign box access)
	foreign := makeApp(0, 0, 1, 1)
	foreign.ApprovalProgram = c31fill(5000, 5) // larger than the maximal byte value (app_params_get)
	foreign.ExtraProgramPages = 2
	led.NewApp(tx.Txn.Sender, 1056, foreign)
	led.NewApp(tx.Txn.Receiver, 1100, makeApp(0, 0, 1, 1))
	_ = led.SetForeignBoxReads(1056, true)
	_ = led.SetFamilyBoxAccess(1056, true)
	led.NewAccount(basics.AppIndex(1056).Address(), 1_000_000_000)
	led.NewGlobal(888, c31boxName, "global-bytes-value")
	led.NewGlobal(888, "a", 7)
	led.NewGlobal(1056, c31boxName, 9)
	led.NewLocals(tx.Txn.Sender, 888)
	led.NewLocal(tx.Txn.Sender, 888, c31boxName, 3)
	led.NewLocals(tx.Txn.Receiver, 888)
	led.NewAsset(tx.Txn.Sender, 1055, basics.AssetParams{Total: 1000, Decimals: 1, UnitName: "u", AssetName: "asset", URL: "url", Manager: tx.Txn.Sender})
	led.NewAsset(tx.Txn.Receiver, 1077, basics.AssetParams{Total: 5})
	led.NewHolding(tx.Txn.Receiver, 1055, 10, false)
	_ = led.NewBox(888, c31boxName, c31fill(64, 1), appAddr)
	_ = led.NewBox(1056, c31boxName, c31fill(64, 2), basics.AppIndex(1056).Address())
	// a box larger than the maximal byte value, named by the 32-byte grid value: reading it whole
	// must fail, it must never appear on the stack
	_ = led.NewBox(888, string(c31addr32), c31fill(5000, 4), appAddr)
	return c31ledger{led}
}

func c31newEnv(k c31key) *c31env {
	e := &c31env{key: k}
	tx := makeSampleTxn()
	// ids above 255 (vFuture forbids "low" resource ids); rounds 1 and 2 are available to `block`
	tx.Txn.ForeignAssets = []basics.AssetIndex{1055, 1077}
	tx.Txn.ForeignApps = []basics.AppIndex{1056, 1100, 1111}
	tx.Txn.FirstValid = 3
	tx.Txn.LastValid = 1000
	tx.Txn.ApprovalProgram = c31fill(5000, 6) // larger than the maximal byte value (txn ApprovalProgram)
	tx.Txn.ClearStateProgram = c31fill(100, 7)
	tx.Txn.Boxes = []transactions.BoxRef{{Index: 0, Name: []byte(c31boxName)}, {Index: 0, Name: []byte("a")}, {Index: 0, Name: c31addr32},
		{Index: 1, Name: []byte(c31boxName)}, {Index: 1, Name: []byte("a")}}
	second := transactions.SignedTxn{}
	second.Txn.Type = protocol.PaymentTx
	second.Txn.Amount.Raw = 42
	second.Txn.Fee.Raw = 1066
	second.Txn.FirstValid = 42
	second.Txn.LastValid = 1066
	second.Txn.Sender = tx.Txn.Receiver
	second.Txn.Receiver = tx.Txn.Sender
	if k.mode == c31sig {
		tx.Txn.RekeyTo = basics.Address{} // a rekeying txn would forbid v0/v1 programs
		tx.Txn.Type = protocol.PaymentTx
		tx.Lsig.Logic = []byte{1}
		if k.bigArg {
			tx.Lsig.Args = [][]byte{c31big}
		}
		led := c31newLedger(&tx)
		e.ep = NewSigEvalParams([]transactions.SignedTxn{tx, second}, k.proto, led)
		e.defBudget = int(k.proto.LogicSigMaxCost)
		e.pooled = e.ep.PooledLogicSigBudget != nil
	} else {
		tx.Txn.Type = protocol.ApplicationCallTx
		tx.Txn.ApplicationID = 888
		tx.Txn.Fee.Raw = 50_000 // fee credit for inner transactions
		if k.bigArg {
			tx.Txn.ApplicationArgs = [][]byte{c31appArg}
		}
		if k.clear {
			tx.Txn.OnCompletion = transactions.ClearStateOC
		}
		led := c31newLedger(&tx)
		// txn 0 is an earlier application call of the group ("already executed", see c31eval),
		// the program under test runs as txn 1
		first := transactions.SignedTxn{}
		first.Txn.Type = protocol.ApplicationCallTx
		first.Txn.ApplicationID = 1100
		first.Txn.Sender = tx.Txn.Receiver
		first.Txn.Fee.Raw = 1000
		first.Txn.FirstValid = 3
		first.Txn.LastValid = 1000
		e.ep = NewAppEvalParams(transactions.WrapSignedTxnsWithAD([]transactions.SignedTxn{first, tx, second}), k.proto, &transactions.SpecialAddresses{})
		e.ep.Ledger = led
		e.ep.SigLedger = led
		e.defBudget = k.proto.MaxAppProgramCost
		e.pooled = e.ep.PooledApplicationBudget != nil
		if k.clear && k.proto.IsolateClearState {
			e.pooled = false // a ClearState program may use at most MaxAppProgramCost whatever the pool holds
		}
	}
	e.ep.logger = c31sink
	return e
}

func c31getEnv(k c31key) *c31env {
	if c31fresh {
		return c31newEnv(k)
	}
	p, ok := c31pools.Load(k)
	if !ok {
		p, _ = c31pools.LoadOrStore(k, &sync.Pool{})
	}
	if e, _ := p.(*sync.Pool).Get().(*c31env); e != nil {
		return e
	}
	return c31newEnv(k)
}

func c31putEnv(e *c31env) {
	if c31fresh {
		return
	}
	if p, ok := c31pools.Load(e.key); ok {
		p.(*sync.Pool).Put(e)
	}
}

// ---------------------------------------------------------------------------------------
// running one program

const c31appGI = 1 // group index of the application call under test

var c31pastScratch = func() (s scratchSpace) {
	s[0] = stackValue{Uint: 7}
	s[1] = stackValue{Bytes: []byte("past")}
	s[255] = stackValue{Bytes: c31fill(4096, 3)}
	return
}()

const (
	c31accept = 0
	c31reject = 1
	c31error  = 2
)

var c31kindName = [3]string{"accept", "reject", "error"}

type c31replay struct {
	Part            string `json:"part"`
	Mode            string `json:"mode"`
	Proto           string `json:"consensus"`
	LogicSigVersion uint64 `json:"consensus_logicsigversion"`
	BigArg          bool   `json:"big_arg"`
	Clear           bool   `json:"clear_state,omitempty"`
	Budget          int    `json:"budget"`
	Program         string `json:"program_hex"`
	Note            string `json:"note,omitempty"`
}

type c31res struct {
	kind     int
	checkErr bool
	tr       *c31tracer
	err      error
}

func c31protoName(p *config.ConsensusParams) string {
	return fmt.Sprintf("logicsigversion=%d,pooling(sig=%v,app=%v)", p.LogicSigVersion, p.EnableLogicSigCostPooling, p.EnableAppCostPooling)
}

func c31violation(key, what string, rp c31replay) {
	if c31nviol.Add(1) > 40 {
		return
	}
	c31run.Report(key, what, rp)
}

func c31isPanic(err error) (panicError, bool) {
	var pe panicError
	if errors.As(err, &pe) {
		return pe, true
	}
	return pe, false
}

// c31eval checks and evaluates prog. budget 0 means the default budget of the consensus params.
func c31eval(part string, k c31key, prog []byte, budget int, watchPC int) (res c31res) {
	e := c31getEnv(k)
	tr := &c31tracer{watchPC: watchPC}
	res.tr = tr
	reuse := false
	rp := func(note string) c31replay {
		return c31replay{Part: part, Mode: c31modeName[k.mode], Proto: c31protoName(k.proto), LogicSigVersion: k.proto.LogicSigVersion, BigArg: k.bigArg, Clear: k.clear, Budget: tr.budget, Program: hex.EncodeToString(prog), Note: note}
	}
	defer func() {
		if x := recover(); x != nil {
			res.kind = c31error
			c31violation("C31:go-panic", fmt.Sprintf("Go panic escaped Check/Eval of program %s: %v\n%s", c31short(prog), x, c31trunc(string(debug.Stack()), 2500)), rp("go panic"))
			return
		}
		if reuse && !tr.dirty {
			c31putEnv(e)
		}
	}()
	ep := e.ep
	b := budget
	if b == 0 || !e.pooled {
		b = e.defBudget
	}
	tr.budget = b
	if k.proto.EnableAppCostPooling {
		tr.innerCredit = k.proto.MaxAppProgramCost
	}
	var cerr error
	var pass bool
	var err error
	if k.mode == c31sig {
		if e.pooled {
			*ep.PooledLogicSigBudget = b
		}
		ep.TxnGroup[0].Lsig.Logic = prog
		ep.Tracer = nil
		cerr = CheckSignature(0, ep)
		if e.pooled {
			*ep.PooledLogicSigBudget = b
		}
		ep.Tracer = tr
		pass, _, err = EvalSignatureFull(0, ep)
	} else {
		ep.reset()
		ep.Trace = nil
		// what the earlier application call (txn 0) left behind: its scratch space and the id of
		// the application it created (for gload*/gaid*)
		ep.pastScratch[0] = &c31pastScratch
		ep.TxnGroup[0].ApplyData.ApplicationID = 1100
		if e.pooled {
			*ep.PooledApplicationBudget = b
		}
		ep.Tracer = nil
		cerr = CheckContract(prog, c31appGI, ep)
		if e.pooled {
			*ep.PooledApplicationBudget = b
		}
		ep.Tracer = tr
		pass, _, err = EvalContract(prog, c31appGI, 888, ep)
	}
	ep.Tracer = nil
	res.checkErr = cerr != nil
	res.err = err
	if pe, ok := c31isPanic(cerr); ok {
		c31violation("C31:check-panic", fmt.Sprintf("Check recovered an internal panic on program %s: %v", c31short(prog), pe.PanicValue), rp("check"))
	}
	switch {
	case err != nil:
		res.kind = c31error
		if pe, ok := c31isPanic(err); ok {
			if _, mine := pe.PanicValue.(c31abort); !mine {
				c31violation("C31:eval-panic", fmt.Sprintf("Eval recovered an internal panic (panicError) on program %s: %v\n%s", c31short(prog), pe.PanicValue, c31trunc(pe.StackTrace, 1800)), rp("eval"))
			}
			tr.dirty = true
		}
	case pass:
		res.kind = c31accept
	default:
		res.kind = c31reject
	}
	if tr.vkey != "" {
		c31violation(tr.vkey, tr.vwhat+" — program "+c31short(prog), rp(""))
	}
	reuse = true
	return res
}

func c31short(p []byte) string {
	if len(p) > 60 {
		return fmt.Sprintf("%s..(%d bytes)..%s", hex.EncodeToString(p[:24]), len(p), hex.EncodeToString(p[len(p)-24:]))
	}
	return hex.EncodeToString(p)
}

func c31trunc(s string, n int) string {
	if len(s) > n {
		return s[:n] + "…"
	}
	return s
}

// ---------------------------------------------------------------------------------------
// consensus parameters

var c31future = func() *config.ConsensusParams { p := config.Consensus[protocol.ConsensusFuture]; return &p }()

// c31native returns the consensus parameters that first supported AVM version v.
func c31native(v uint64) *config.ConsensusParams {
	if v == 0 {
		v = 1
	}
	for _, cv := range []protocol.ConsensusVersion{protocol.ConsensusV18, protocol.ConsensusV24, protocol.ConsensusV26, protocol.ConsensusV28,
		protocol.ConsensusV30, protocol.ConsensusV31, protocol.ConsensusV34, protocol.ConsensusV36, protocol.ConsensusV38, protocol.ConsensusV39,
		protocol.ConsensusV40, protocol.ConsensusV41, protocol.ConsensusV42} {
		if p, ok := config.Consensus[cv]; ok && p.LogicSigVersion == v {
			c31nativeMu.Lock()
			defer c31nativeMu.Unlock()
			if q, ok := c31nativeCache[v]; ok {
				return q
			}
			q := p
			c31nativeCache[v] = &q
			return &q
		}
	}
	return c31future
}

var (
	c31nativeMu    sync.Mutex
	c31nativeCache = map[uint64]*config.ConsensusParams{}
)

// ---------------------------------------------------------------------------------------
// part (a): every byte string

type c31tally struct {
	mu sync.Mutex
	m  map[string]int64
}

func (t *c31tally) add(local map[string]int64) {
	t.mu.Lock()
	for k, v := range local {
		t.m[k] += v
	}
	t.mu.Unlock()
}

// outcomes sums the tallies by outcome kind (last component of the class key).
func (t *c31tally) outcomes() map[string]int64 {
	out := map[string]int64{}
	for k, v := range t.m {
		for kind := range c31kindName {
			suf := "|" + c31kindName[kind]
			if len(k) > len(suf) && k[len(k)-len(suf):] == suf {
				out[c31kindName[kind]] += v
			}
		}
	}
	return out
}

func c31partA(r *ve.Run) {
	type task struct {
		v      uint64
		mode   int
		bigArg bool
		proto  *config.ConsensusParams
		maxLen int
		clear  bool
	}
	var tasks []task
	deepLen := ve.Pick(2, 3)
	add := func(v uint64, mode int, big bool, p *config.ConsensusParams, ml int) {
		// when begin() rejects the version before looking at any instruction (version newer than
		// the evaluator/consensus, or v0/v1 in application mode) the bytes after it cannot matter:
		// length <= 1 is enumerated there.
		if v > LogicVersion || v > p.LogicSigVersion || (mode == c31app && v < appsEnabledVersion) {
			ml = 1
		}
		tasks = append(tasks, task{v, mode, big, p, ml, false})
	}
	// ClearState call of the newest version (its budget is not pooled)
	tasks = append(tasks, task{LogicVersion, c31app, false, c31future, 2, true})
	for v := uint64(0); v <= LogicVersion+1; v++ {
		for mode := 0; mode < 2; mode++ {
			// vFuture, no arg: every version. Thorough: length 3 for the newest version (both
			// modes) and, in signature mode, for v1, v4 (back branches), v8 (frames) and v13
			// (varint branches); every other configuration stays at length 2 (2^24 programs per
			// configuration, ~100 M programs in total, is what fits the thorough budget).
			ml := 2
			if v == LogicVersion || (mode == c31sig && (v == 1 || v == backBranchEnabledVersion || v == fpVersion || v == varintBranchVersion)) {
				ml = deepLen
			}
			add(v, mode, false, c31future, ml)
			// maximal argument: newest version, and the oldest version of the mode
			if v == LogicVersion || (mode == c31sig && v == 1) || (mode == c31app && v == appsEnabledVersion) {
				add(v, mode, true, c31future, 2)
			}
			// the consensus release that introduced the version (no cost pooling etc. in old ones)
			if n := c31native(v); n != c31future && v >= 1 && v <= LogicVersion {
				add(v, mode, false, n, 2)
			}
		}
	}
	var evals atomic.Int64
	tally := &c31tally{m: map[string]int64{}}
	// one unit = (task, first byte); plus one unit per task for the programs without instructions
	r.ParallelFor(len(tasks)*257, func(i int) {
		tk := tasks[i/257]
		b0 := i % 257
		k := c31key{mode: tk.mode, proto: tk.proto, bigArg: tk.bigArg, clear: tk.clear}
		var cnt [3]int64
		n := 0
		run := func(prog []byte) {
			res := c31eval("a", k, prog, 0, -1)
			cnt[res.kind]++
			n++
		}
		ver := c31uvarint(nil, tk.v)
		first := "none"
		if b0 == 256 {
			run([]byte{})
			run(append([]byte{}, ver...))
			// a truncated and an over-long version varint
			run([]byte{0x80})
			run([]byte{0xff, 0xff, 0xff, 0xff, 0xff, 0xff, 0xff, 0xff, 0xff, 0xff, 0x01})
		} else {
			first = fmt.Sprintf("%02x", b0)
			buf := make([]byte, 0, len(ver)+3)
			buf = append(buf, ver...)
			buf = append(buf, byte(b0))
			run(append([]byte{}, buf...))
			if tk.maxLen >= 2 {
				for b1 := 0; b1 < 256; b1++ {
					p2 := append(append([]byte{}, buf...), byte(b1))
					run(p2)
					if tk.maxLen >= 3 {
						for b2 := 0; b2 < 256; b2++ {
							run(append(append([]byte{}, p2...), byte(b2)))
						}
						if r.OutOfTime() {
							break
						}
					}
				}
			}
		}
		local := map[string]int64{}
		for kind, c := range cnt {
			if c > 0 {
				local[fmt.Sprintf("a|v%d|%s|%s|%s", tk.v, c31modeName[tk.mode], first, c31kindName[kind])] = c
			}
		}
		tally.add(local)
		evals.Add(int64(n))
		r.EvalN(n)
	})
	for k := range tally.m {
		r.Class(k)
	}
	r.Set("a_outcomes", tally.outcomes())
	r.Set("a_programs", evals.Load())
	r.Set("a_configurations", len(tasks))
	r.Set("a_max_len_after_version", fmt.Sprintf("2; %d for the newest version (both modes) and for v1, v4, v8, v13 in signature mode (vFuture, no arg)", deepLen))
}

func c31uvarint(dst []byte, x uint64) []byte {
	var tmp [binary.MaxVarintLen64]byte
	n := binary.PutUvarint(tmp[:], x)
	return append(dst, tmp[:n]...)
}

// ---------------------------------------------------------------------------------------
// program builder

type c31val struct {
	b   []byte
	u   uint64
	isB bool
}

func (v c31val) String() string {
	if v.isB {
		if len(v.b) > 12 {
			return fmt.Sprintf("bytes[%d]", len(v.b))
		}
		return "0x" + hex.EncodeToString(v.b)
	}
	return fmt.Sprintf("%d", v.u)
}

type c31pb struct {
	version uint64
	ints    []uint64
	bytess  [][]byte
	body    []byte
}

func (p *c31pb) push(v c31val) {
	if p.version >= 3 {
		if v.isB {
			p.body = append(p.body, 0x80)
			p.body = c31uvarint(p.body, uint64(len(v.b)))
			p.body = append(p.body, v.b...)
		} else {
			p.body = append(p.body, 0x81)
			p.body = c31uvarint(p.body, v.u)
		}
		return
	}
	if v.isB {
		p.bytess = append(p.bytess, v.b)
		p.body = append(p.body, 0x27, byte(len(p.bytess)-1))
	} else {
		p.ints = append(p.ints, v.u)
		p.body = append(p.body, 0x21, byte(len(p.ints)-1))
	}
}

func (p *c31pb) raw(b ...byte) { p.body = append(p.body, b...) }

// header returns version byte(s) and, before v3, the constant blocks.
func (p *c31pb) header() []byte {
	out := c31uvarint(nil, p.version)
	if len(p.ints) > 0 {
		out = append(out, 0x20)
		out = c31uvarint(out, uint64(len(p.ints)))
		for _, x := range p.ints {
			out = c31uvarint(out, x)
		}
	}
	if len(p.bytess) > 0 {
		out = append(out, 0x26)
		out = c31uvarint(out, uint64(len(p.bytess)))
		for _, b := range p.bytess {
			out = c31uvarint(out, uint64(len(b)))
			out = append(out, b...)
		}
	}
	return out
}

func (p *c31pb) program() []byte { return append(p.header(), p.body...) }

// ---------------------------------------------------------------------------------------
// opcode table entries, immediates, operand grids

type c31entry struct {
	spec     *OpSpec
	from, to uint64
}

func c31entries() []c31entry {
	var out []c31entry
	for i := range OpSpecs {
		s := &OpSpecs[i]
		to := uint64(LogicVersion)
		for j := range OpSpecs {
			o := &OpSpecs[j]
			if o.Opcode == s.Opcode && o.SubOpcode == s.SubOpcode && o.Version > s.Version && o.Version-1 < to {
				to = o.Version - 1
			}
		}
		out = append(out, c31entry{s, s.Version, to})
	}
	return out
}

func c31encode(s *OpSpec, imm []byte) []byte {
	out := []byte{s.Opcode}
	if s.SubOpcode != 0 {
		out = append(out, s.SubOpcode)
	}
	return append(out, imm...)
}

func c31rep(b byte, n int) []byte {
	out := make([]byte, n)
	for i := range out {
		out[i] = b
	}
	return out
}

// c31immAlts returns the boundary alternatives of one immediate; alternative 0 is benign.
func c31immAlts(im immediate) [][]byte {
	maxU := append(c31rep(0xff, 9), 0x01)      // 2^64-1
	overflow := append(c31rep(0xff, 10), 0x01) // does not fit 64 bits
	switch im.kind {
	case immByte:
		if im.Group != nil {
			// field immediates: every field index, the first invalid one and 255
			n := len(im.Group.Names)
			var alts [][]byte
			for i := 0; i <= n && i < 256; i++ {
				alts = append(alts, []byte{byte(i)})
			}
			if n < 255 {
				alts = append(alts, []byte{255})
			}
			return alts
		}
		return [][]byte{{0}, {1}, {2}, {255}}
	case immInt8:
		return [][]byte{{0}, {1}, {0x7f}, {0x80}, {0xff}}
	case immLabel:
		return [][]byte{{0, 0}, {0, 1}, {0x7f, 0xff}, {0xff, 0xff}, {0xff, 0xfd}, {0x80, 0x00}}
	case immVarintLabel:
		return [][]byte{{0x00}, {0x02}, {0x01}, {0x05}, {0xfe, 0xff, 0x03}, {0xff, 0xff, 0x03}, {0x80}, overflow}
	case immInt:
		return [][]byte{{0}, {1}, maxU, overflow, {0x80}}
	case immBytes:
		return [][]byte{{0}, {1, 'a'}, append([]byte{0x80, 0x20}, c31big...), append(append([]byte{0x81, 0x20}, c31big...), 0), {0x7f}, overflow}
	case immInts:
		return [][]byte{{0}, {1, 5}, {2, 0, 1}, append([]byte{0xe9, 0x07}, make([]byte, 1001)...), {0xff, 0x7f}, {0x80}, {1, 0x80}}
	case immBytess:
		return [][]byte{{0}, {1, 0}, {1, 1, 'a'}, {2, 0, 0}, append([]byte{0xe9, 0x07}, make([]byte, 1001)...),
			append(append([]byte{1, 0x81, 0x20}, c31big...), 0), append([]byte{1, 0x80, 0x20}, c31big...), {1, 0x7f}, {0x80}}
	case immLabels:
		return [][]byte{{0}, {1, 0, 0}, {2, 0, 0, 0xff, 0xff}, {0xff}, {1, 0x7f, 0xff}, {1, 0xff, 0xfb}}
	}
	return [][]byte{{0}}
}

// c31uv / c31sv: raw minimal encodings of an unsigned / signed (zigzag) varint.
func c31uv(x uint64) []byte { return c31uvarint(nil, x) }
func c31sv(x int64) []byte {
	var tmp [binary.MaxVarintLen64]byte
	return append([]byte{}, tmp[:binary.PutVarint(tmp[:], x)]...)
}

// c31wide: the non-minimal 10-byte encoding of a small unsigned varint value (< 128).
func c31wide(x byte) []byte { return append(append([]byte{x | 0x80}, c31rep(0x80, 8)...), 0x00) }

// c31hasVarint: the immediate is (or starts with) a varint whose value the evaluator uses in
// position arithmetic.
func c31hasVarint(im immediate) bool {
	switch im.kind {
	case immVarintLabel, immInt, immBytes, immInts, immBytess:
		return true
	}
	return false
}

// c31varintAlts: boundary varints as RAW BYTES for an instruction at pc of a program of about
// plen bytes (they depend on the position: the interesting values are those for which
// pc + size + value crosses 2^63 or 2^64).
//   - unsigned (pushint value, pushbytes length, int/bytes list counts, element values, item
//     lengths): 2^63-1-j, 2^63+j, 2^64-1-j for j in 0..plen+3; non-minimal 10-byte encodings of
//     0,1,2; 11-byte (overlong) encodings;
//   - signed branch offsets (v13+ b/bz/bnz/callsub): MaxInt64-pc-j and its negation for
//     j in 0..plen+14 (covers both sides of the wrap of pc+size+offset), MinInt64+j, MaxInt64-j
//     for j in 0..3, non-minimal and overlong encodings.
func c31varintAlts(im immediate, pc, plen int) [][]byte {
	long0 := append(c31rep(0x80, 10), 0x00)  // 11 bytes, value would be 0
	longF := append(c31rep(0xff, 10), 0x01)  // 11 bytes, overflows
	long9 := append(c31rep(0xff, 9), 0x02)   // 10 bytes, overflows 64 bits
	wides := [][]byte{c31wide(0), c31wide(1), c31wide(2), long0, longF, long9}
	var uvals []uint64
	for j := 0; j <= plen+3; j++ {
		uvals = append(uvals, uint64(math.MaxInt64)-uint64(j), uint64(1)<<63+uint64(j), math.MaxUint64-uint64(j))
	}
	var out [][]byte
	switch im.kind {
	case immVarintLabel:
		for j := 0; j <= plen+14; j++ {
			off := int64(math.MaxInt64) - int64(pc) - int64(j)
			out = append(out, c31sv(off), c31sv(-off))
		}
		for j := int64(0); j <= 3; j++ {
			out = append(out, c31sv(math.MinInt64+j), c31sv(math.MaxInt64-j))
		}
		out = append(out, wides...)
		out = append(out, append(append([]byte{0x81}, c31rep(0x80, 8)...), 0x00)) // offset -1 in 10 bytes
	case immInt:
		for _, v := range uvals {
			out = append(out, c31uv(v))
		}
		out = append(out, wides...)
	case immBytes:
		for _, v := range uvals {
			out = append(out, c31uv(v), append(c31uv(v), 'x', 'y'))
		}
		out = append(out, wides...)
		out = append(out, append(c31wide(1), 'a'))
	case immInts:
		for _, v := range uvals {
			out = append(out, c31uv(v), append([]byte{1}, c31uv(v)...))
		}
		out = append(out, wides...)
		out = append(out, append(c31wide(1), 5), append([]byte{1}, c31wide(1)...), append([]byte{1}, longF...))
	case immBytess:
		for _, v := range uvals {
			out = append(out, c31uv(v), append([]byte{1}, c31uv(v)...), append(append([]byte{1}, c31uv(v)...), 'x'))
		}
		out = append(out, wides...)
		out = append(out, append(c31wide(1), 1, 'a'), append(append([]byte{1}, c31wide(1)...), 'a'), append([]byte{1}, longF...))
	}
	return out
}

// c31immProduct: all combinations of the alternatives of the opcode's immediates.
func c31immProduct(s *OpSpec, perImm int) [][]byte {
	return c31immProductAt(s, perImm, -1, 0)
}

// c31immProductAt additionally includes the position dependent varint boundaries when pc >= 0.
func c31immProductAt(s *OpSpec, perImm int, pc, plen int) [][]byte {
	out := [][]byte{{}}
	for _, im := range s.Immediates {
		alts := c31immAlts(im)
		if pc >= 0 && c31hasVarint(im) {
			alts = append(append([][]byte{}, alts...), c31varintAlts(im, pc, plen)...)
		}
		if perImm > 0 && len(alts) > perImm {
			alts = alts[:perImm]
		}
		var next [][]byte
		for _, pre := range out {
			for _, a := range alts {
				next = append(next, append(append([]byte{}, pre...), a...))
			}
		}
		out = next
	}
	return out
}

var (
	// the 64-byte grid value is a JSON object (so that json_ref has a success path) whose key is
	// the 1-byte grid value "a"
	c31json64 = func() []byte {
		b := []byte(`{"a":"bcd","k":7,"o":{"x":1}}`)
		for len(b) < 64 {
			b = append(b, ' ')
		}
		return b
	}()
	// a second 64-byte value: the generator (1,2) of BN254 G1, so that the ec_* opcodes have
	// success paths
	c31bn254g1 = func() []byte { b := make([]byte, 64); b[31] = 1; b[63] = 2; return b }()
	c31addr32  = func() []byte { a := c31sampleReceiver(); return a[:] }()
	c31uGrid  = []c31val{{u: 0}, {u: 1}, {u: math.MaxUint64}}
	// the full grid adds the two uints that name existing applications (the running app and a
	// foreign app of the same creator), otherwise no app_box_*/app_params_* success path exists
	c31uGridFull = []c31val{{u: 0}, {u: 1}, {u: math.MaxUint64}, {u: 888}, {u: 1056}}
	c31bGrid  = []c31val{{isB: true, b: []byte{}}, {isB: true, b: []byte("a")}, {isB: true, b: []byte(c31boxName)}, {isB: true, b: c31addr32},
		{isB: true, b: c31json64}, {isB: true, b: c31bn254g1}, {isB: true, b: c31big[:4095]}, {isB: true, b: c31big}}
	c31bGrid3 = []c31val{{isB: true, b: []byte{}}, {isB: true, b: c31addr32}, {isB: true, b: c31big}}
	c31aGrid3 = []c31val{{u: 1}, {isB: true, b: []byte(c31boxName)}, {isB: true, b: c31big}}
)

func c31grid(t avmType, reduced bool) []c31val {
	switch t {
	case avmUint64:
		if reduced {
			return c31uGrid
		}
		return c31uGridFull
	case avmBytes:
		if reduced {
			return c31bGrid3
		}
		return c31bGrid
	case avmAny:
		if reduced {
			return c31aGrid3
		}
		return append(append([]c31val{}, c31uGridFull...), c31bGrid...)
	}
	return nil
}

func c31default(t avmType) c31val {
	if t == avmBytes {
		return c31val{isB: true, b: c31addr32}
	}
	return c31val{u: 1}
}

func c31argTypes(s *OpSpec) []avmType {
	var out []avmType
	for _, t := range s.Arg.Types {
		if t.AVMType != avmNone {
			out = append(out, t.AVMType)
		}
	}
	return out
}

func c31productVals(doms [][]c31val) [][]c31val {
	out := [][]c31val{{}}
	for _, d := range doms {
		var next [][]c31val
		for _, pre := range out {
			for _, v := range d {
				next = append(next, append(append([]c31val{}, pre...), v))
			}
		}
		out = next
	}
	return out
}

// c31tuples: operand tuples for part (b).
func c31tuples(types []avmType) [][]c31val {
	if len(types) == 0 {
		return [][]c31val{{}}
	}
	var out [][]c31val
	if len(types) <= ve.Pick(4, 5) {
		doms := make([][]c31val, len(types))
		for i, t := range types {
			doms[i] = c31grid(t, false)
		}
		out = c31productVals(doms)
	} else {
		doms := make([][]c31val, len(types))
		for i, t := range types {
			doms[i] = c31grid(t, true)
			switch t {
			case avmUint64:
				doms[i] = append(append([]c31val{}, doms[i]...), c31val{u: 888})
			case avmBytes:
				doms[i] = append(append([]c31val{}, doms[i]...), c31val{isB: true, b: []byte(c31boxName)})
			}
		}
		out = c31productVals(doms)
		for i, t := range types { // star: full grid at one position, the others at (888 | address)
			for _, v := range c31grid(t, false) {
				tu := make([]c31val, len(types))
				for j, tj := range types {
					tu[j] = c31default(tj)
					if tj == avmUint64 {
						tu[j] = c31val{u: 888}
					} else if tj == avmBytes {
						tu[j] = c31val{isB: true, b: []byte(c31boxName)}
					}
				}
				tu[i] = v
				out = append(out, tu)
			}
		}
	}
	// every single type-incorrect position
	for i, t := range types {
		if t == avmAny {
			continue
		}
		tu := make([]c31val, len(types))
		for j, tj := range types {
			tu[j] = c31default(tj)
		}
		if t == avmUint64 {
			tu[i] = c31val{isB: true, b: []byte(c31boxName)}
		} else {
			tu[i] = c31val{u: 1}
		}
		out = append(out, tu)
	}
	return out
}

var c31prefill = []c31val{{u: 7}, {isB: true, b: []byte("x")}, {u: 0}, {isB: true, b: c31addr32}}

// contexts in which part (b) places the opcode under test
const (
	c31ctxPlain      = iota // nothing before the operands
	c31ctxPrefill           // constant blocks defined and four extra values below the operands
	c31ctxFrame             // inside a subroutine (callsub; with `proto 2 1` from v8)
	c31ctxSub               // inside a subroutine without proto
	c31ctxAfterInner        // application mode: after a successful inner payment
	c31ctxInInner           // application mode: inside an open inner transaction (after itxn_begin)
	c31nctx
)

var c31ctxName = [c31nctx]string{"plain", "prefill", "frame", "sub", "after-inner", "in-inner"}

func c31ctxOK(ctx int, version uint64, mode int) bool {
	switch ctx {
	case c31ctxFrame:
		return version >= 4
	case c31ctxSub:
		return version >= fpVersion // identical to c31ctxFrame before proto existed
	case c31ctxAfterInner, c31ctxInInner:
		return mode == c31app && version >= 5
	}
	return true
}

// c31prologue emits the context prefix; it returns the bytes to append after the opcode.
func c31prologue(pb *c31pb, ctx int) (epilogue []byte) {
	switch ctx {
	case c31ctxPrefill:
		if pb.version >= 3 { // before v3 the builder itself emits the constant blocks
			pb.raw(0x20, 4, 0, 1, 2, 3) // intcblock 0 1 2 3
			pb.raw(0x26, 4, 0, 1, 'a', 8)
			pb.raw([]byte(c31boxName)...)
			pb.raw(32)
			pb.raw(c31addr32...)
		}
		for _, v := range c31prefill {
			pb.push(v)
		}
	case c31ctxFrame, c31ctxSub:
		pb.push(c31val{u: 5})
		pb.push(c31val{isB: true, b: []byte("xy")})
		if pb.version >= varintBranchVersion {
			pb.raw(0x88, 0x02, 0x43) // callsub +1; return
		} else {
			pb.raw(0x88, 0x00, 0x01, 0x43)
		}
		if pb.version >= fpVersion && ctx == c31ctxFrame {
			pb.raw(0x8a, 2, 1) // proto 2 1
		}
		return []byte{0x89} // retsub
	case c31ctxAfterInner, c31ctxInInner:
		pb.raw(0xb1)                  // itxn_begin
		pb.push(c31val{u: 1})         // pay
		pb.raw(0xb2, byte(TypeEnum)) // itxn_field TypeEnum
		if ctx == c31ctxAfterInner {
			pb.raw(0xb3) // itxn_submit
		}
	}
	return nil
}

// ---------------------------------------------------------------------------------------
// part (b): one opcode, all immediates x all operand tuples

func c31partB(r *ve.Run) {
	entries := c31entries()
	type task struct {
		e       c31entry
		version uint64
		mode    int
		ctx     int
	}
	var tasks []task
	for _, e := range entries {
		vs := []uint64{e.from}
		if e.to != e.from {
			vs = append(vs, e.to)
		}
		if e.from == 1 {
			vs = append(vs, 0)
		}
		for _, v := range vs {
			for mode := 0; mode < 2; mode++ {
				for ctx := 0; ctx < c31nctx; ctx++ {
					if c31ctxOK(ctx, v, mode) {
						tasks = append(tasks, task{e, v, mode, ctx})
					}
				}
			}
		}
	}
	tally := &c31tally{m: map[string]int64{}}
	var evals atomic.Int64
	r.ParallelFor(len(tasks), func(i int) {
		tk := tasks[i]
		s := tk.e.spec
		staticImms := c31immProduct(s, 0)
		dynamic := false
		for _, im := range s.Immediates {
			dynamic = dynamic || c31hasVarint(im)
		}
		tuples := c31tuples(c31argTypes(s))
		k := c31key{mode: tk.mode, proto: c31future}
		// the largest budget a transaction group can pool
		budget := 16 * int(c31future.LogicSigMaxCost)
		if tk.mode == c31app {
			budget = 16 * c31future.MaxAppProgramCost
		}
		local := map[string]int64{}
		var cnt [3]int64
		var okN int64
		n := 0
		for _, tu := range tuples {
			pre := c31pb{version: tk.version}
			epi := c31prologue(&pre, tk.ctx)
			for _, v := range tu {
				pre.push(v)
			}
			prefix := pre.program()
			oppc := len(prefix)
			imms := staticImms
			if dynamic {
				// the varint boundaries depend on where the instruction sits
				imms = c31immProductAt(s, 0, oppc, oppc+len(c31encode(s, nil))+11+len(epi))
			}
			for _, imm := range imms {
				prog := make([]byte, 0, oppc+len(imm)+8)
				prog = append(prog, prefix...)
				prog = append(prog, c31encode(s, imm)...)
				prog = append(prog, epi...)
				res := c31eval("b", k, prog, budget, oppc)
				cnt[res.kind]++
				if res.tr.watchOK > 0 {
					okN++
				}
				n++
			}
			if r.OutOfTime() {
				break
			}
		}
		for kind, c := range cnt {
			if c > 0 {
				local[fmt.Sprintf("b|v%d|%s|%s|%s", tk.version, c31modeName[tk.mode], s.Name, c31kindName[kind])] = c
			}
		}
		local["bok|"+c31modeName[tk.mode]+"|"+s.Name] = okN
		tally.add(local)
		evals.Add(int64(n))
		r.EvalN(n)
	})
	var never []string
	for k, c := range tally.m {
		if len(k) > 4 && k[:4] == "bok|" {
			if c == 0 {
				never = append(never, k[4:])
			}
			continue
		}
		r.Class(k)
	}
	sort.Strings(never)
	r.Set("b_opcodes_never_succeeding", never)
	r.Set("b_outcomes", tally.outcomes())
	r.Set("b_cases", evals.Load())
	r.Set("b_table_entries", len(entries))
}

// ---------------------------------------------------------------------------------------
// parts (c) and (d): opcode variants of the newest version

type c31inst struct {
	name string
	enc  []byte
	args []c31val
	nret int
	sig  bool // allowed in signature mode
}

func c31variants(full bool) []c31inst {
	var out []c31inst
	for _, s0 := range OpcodesByVersion(LogicVersion) {
		s := s0
		types := c31argTypes(&s)
		imms := c31immProduct(&s, 3)
		if len(imms) > 3 {
			// keep the all-0, all-1 and all-max rows of the product
			pick := [][]byte{imms[0], imms[len(imms)/2], imms[len(imms)-1]}
			imms = pick
		}
		tuple := func(k int) []c31val {
			tu := make([]c31val, len(types))
			for j, t := range types {
				g := c31grid(t, true)
				tu[j] = g[k%len(g)]
			}
			return tu
		}
		nret := 0
		for _, t := range s.Return.Types {
			if t.AVMType != avmNone {
				nret++
			}
		}
		seen := map[string]bool{}
		add := func(imm []byte, k int) {
			tu := tuple(k)
			key := hex.EncodeToString(imm) + "/" + fmt.Sprint(tu)
			if seen[key] {
				return
			}
			seen[key] = true
			out = append(out, c31inst{name: s.Name, enc: c31encode(&s, imm), args: tu, nret: nret, sig: s.Modes&ModeSig != 0})
		}
		nt := 3
		if len(types) == 0 {
			nt = 1
		}
		if full {
			for _, imm := range imms {
				for k := 0; k < nt; k++ {
					add(imm, k)
				}
			}
		} else {
			for k := 0; k < 3; k++ {
				add(imms[k%len(imms)], k%nt)
			}
		}
	}
	return out
}

func c31emit(pb *c31pb, in *c31inst) {
	for _, v := range in.args {
		pb.push(v)
	}
	pb.raw(in.enc...)
}

func c31partC(r *ve.Run) {
	vars := c31variants(true)
	nv := len(vars)
	// contexts: top level, inside callsub+proto; thorough adds (application mode) inside an open
	// inner transaction and after a successful inner payment
	ctxs := []int{c31ctxPlain, c31ctxFrame}
	if ve.Thorough() {
		ctxs = append(ctxs, c31ctxInInner, c31ctxAfterInner)
	}
	tally := &c31tally{m: map[string]int64{}}
	var evals atomic.Int64
	// unit = (o1 variant, mode)
	r.ParallelFor(nv*2, func(i int) {
		o1 := &vars[i/2]
		mode := i % 2
		if mode == c31sig && !o1.sig {
			return
		}
		k := c31key{mode: mode, proto: c31future}
		local := map[string]int64{}
		n := 0
		for j := range vars {
			o2 := &vars[j]
			if mode == c31sig && !o2.sig {
				continue
			}
			for _, ctx := range ctxs {
				if !c31ctxOK(ctx, LogicVersion, mode) {
					continue
				}
				pb := c31pb{version: LogicVersion}
				// frame context: pushint 5; pushbytes "xy"; callsub +1; return; proto 2 1; o1; o2; retsub
				epi := c31prologue(&pb, ctx)
				c31emit(&pb, o1)
				c31emit(&pb, o2)
				pb.raw(epi...)
				res := c31eval("c", k, pb.program(), 0, -1)
				local[fmt.Sprintf("c|%s|%s|%s", c31modeName[mode], o1.name, c31kindName[res.kind])]++
				n++
			}
		}
		tally.add(local)
		evals.Add(int64(n))
		r.EvalN(n)
	})
	for k := range tally.m {
		r.Class(k)
	}
	r.Set("c_outcomes", tally.outcomes())
	r.Set("c_pairs_run", evals.Load())
	r.Set("c_variants", nv)
}

func c31partD(r *ve.Run) {
	vars := c31variants(true)
	tally := &c31tally{m: map[string]int64{}}
	var evals atomic.Int64
	// configurations: signature, application, application inside an open inner transaction,
	// application ClearState call
	type dcfg struct {
		name  string
		mode  int
		ctx   int
		clear bool
	}
	cfgs := []dcfg{{"sig", c31sig, c31ctxPlain, false}, {"app", c31app, c31ctxPlain, false}, {"app-in-inner", c31app, c31ctxInInner, false}, {"app-clear", c31app, c31ctxPlain, true}}
	r.ParallelFor(len(vars)*len(cfgs), func(i int) {
		in := &vars[i/len(cfgs)]
		cf := cfgs[i%len(cfgs)]
		if cf.mode == c31sig && !in.sig {
			return
		}
		k := c31key{mode: cf.mode, proto: c31future, clear: cf.clear}
		local := map[string]int64{}
		n := 0
		for _, pops := range []bool{true, false} {
			pb := c31pb{version: LogicVersion}
			c31prologue(&pb, cf.ctx)
			for _, v := range in.args {
				pb.push(v)
			}
			oppc := len(pb.header()) + len(pb.body)
			pb.raw(in.enc...)
			if pops {
				for q := 0; q < in.nret; q++ {
					pb.raw(0x48) // pop
				}
			}
			// b L: varint offset measured from the start of the branch instruction
			bpc := len(pb.header()) + len(pb.body)
			start := len(pb.header())
			var tmp [binary.MaxVarintLen64]byte
			m := binary.PutVarint(tmp[:], int64(start-bpc))
			pb.raw(0x42)
			pb.raw(tmp[:m]...)
			prog := pb.program()
			res := c31eval("d", k, prog, 0, oppc)
			local[fmt.Sprintf("d|%s|%s|%s", cf.name, in.name, c31kindName[res.kind])]++
			n++
			if !pops || cf.clear {
				continue
			}
			tr := res.tr
			for it := 0; it < 2 && it < len(tr.watchBefore) && it < len(tr.watchDelta); it++ {
				if tr.watchDelta[it] <= 0 {
					continue
				}
				for _, d := range []int{-1, 0, 1} {
					b := tr.watchBefore[it] + tr.watchDelta[it] + d
					if b <= 0 {
						continue
					}
					// the loop can only end by an error; the tracer oracle decides
					res2 := c31eval("d", k, prog, b, oppc)
					local[fmt.Sprintf("d|%s|%s|edge%+d|%s", cf.name, in.name, d, c31kindName[res2.kind])]++
					n++
				}
			}
		}
		tally.add(local)
		evals.Add(int64(n))
		r.EvalN(n)
	})
	for k := range tally.m {
		r.Class(k)
	}
	r.Set("d_outcomes", tally.outcomes())
	r.Set("d_runs", evals.Load())
}

// ---------------------------------------------------------------------------------------

func TestVerif_C31(t *testing.T) {
	r := ve.NewRun("C31", "exploration")
	c31run = r
	c31sink = logging.NewLogger()
	c31sink.SetOutput(io.Discard)
	// every evaluation allocates a fresh ~10 KB EvalContext; the live heap is tiny, so a lazier
	// collector only saves time
	// (an untouched ballast makes the collector run once per ~512 MB of garbage and keeps the
	// scavenger from returning the pages in between)
	ballast := make([]byte, 512<<20)
	defer runtime.KeepAlive(ballast)
	r.Assume("the cost of an opcode is the DocCost of langspec_v1..v13.json (transcribed in the harness; linear parts rounded down); sumhash512 (v14, no langspec) is trusted")
	r.Assume("environment: the package's mock Ledger (PrevTimestamp pinned) with app 888, boxes, assets, locals; consensus params vFuture and, for part (a), the release that introduced each AVM version")
	r.Assume("a byte value > 4096 or depth > 1000 existing only at a failing step is not a violation (step()'s generic post-check is the enforcement)")

	if raw := r.ReplayRequest(); raw != nil { // bin/vcheck C31 --replay <file>: re-run exactly that program
		var rq c31replay
		if err := json.Unmarshal(raw, &rq); err != nil {
			t.Fatalf("bad replay file: %v", err)
		}
		prog, _ := hex.DecodeString(rq.Program)
		k := c31key{proto: c31future, bigArg: rq.BigArg, clear: rq.Clear}
		if rq.Mode == "app" {
			k.mode = c31app
		}
		if rq.LogicSigVersion != 0 && rq.LogicSigVersion != c31future.LogicSigVersion {
			k.proto = c31native(rq.LogicSigVersion)
		}
		res := c31eval("replay", k, prog, rq.Budget, -1)
		fmt.Printf("REPLAY C31 %s program=%s -> %s err=%v violation=%q %s\n", rq.Mode, c31short(prog), c31kindName[res.kind], res.err, res.tr.vkey, res.tr.vwhat)
		r.EvalN(1)
		r.Class("replay/" + c31kindName[res.kind])
		r.Class("replay")
		if r.Finish(ve.Coverage{Rule: "replay of one recorded program", Exhaustive: false}) > 0 {
			t.Fatalf("violation reproduced")
		}
		return
	}
	if dbg := os.Getenv("VERIF_C31_DEBUG"); dbg != "" { // development aid: mode:hexprogram[,mode:hexprogram...]
		for _, item := range strings.Split(dbg, ",") {
			mode := c31sig
			if strings.HasPrefix(item, "app:") {
				mode = c31app
			}
			prog, _ := hex.DecodeString(item[strings.Index(item, ":")+1:])
			res := c31eval("debug", c31key{mode: mode, proto: c31future}, prog, 16*700, -1)
			fmt.Printf("C31-DEBUG %s -> %s err=%v steps=%d total=%d viol=%s\n", item, c31kindName[res.kind], res.err, res.tr.steps, res.tr.total, res.tr.vkey)
		}
		return
	}
	parts := os.Getenv("VERIF_C31_PARTS")
	want := func(p string) bool { return parts == "" || c31containsByte(parts, p[0]) }
	if want("b") {
		c31partB(r)
	}
	if want("c") {
		c31partC(r)
	}
	if want("d") {
		c31partD(r)
	}
	if want("a") {
		c31partA(r)
	}
	r.Sample(map[string]any{"part": "a", "program_hex": "0e3100b0", "meaning": "v14: txn Sender; log"})
	r.Sample(map[string]any{"part": "b", "meaning": "v14 app: prefill; pushbytes 4095B; pushbytes 'a'; concat"})
	r.Sample(map[string]any{"part": "c", "meaning": "v14 app: callsub; return; proto 2 1; pushint 1; store 255; pushint 1; loads; retsub"})
	r.Sample(map[string]any{"part": "d", "meaning": "v14 sig: L: pushint 1; sqrt; pop; b L with budget c-1,c,c+1 at the 1st/2nd sqrt"})
	nv := r.Finish(ve.Coverage{
		Rule:       "(a) every byte string <= 2 (thorough: <= 3, see a_max_len_after_version) after every version byte 0..LogicVersion+1, both modes, with/without a maximal arg, native and vFuture consensus; (b) every opcode-table entry x boundary immediates x stack-value grid tuples (+ each type-incorrect position), with/without extra stack, both modes; (c) all ordered pairs of opcode variants, top-level and inside a proto frame; (d) back-branch loops with remaining budget cost-1/cost/cost+1 and stack-growth loops; classes = (part, version, mode, opcode or first byte, outcome)",
		Exhaustive: true,
	})
	if nv > 0 {
		t.Fatalf("%d violations", nv)
	}
}

func c31containsByte(s string, b byte) bool {
	for i := 0; i < len(s); i++ {
		if s[i] == b {
			return true
		}
	}
	return false
}

