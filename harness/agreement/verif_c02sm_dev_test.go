package agreement

import (
	"sync/atomic"
	ve "github.com/algorand/go-algorand/verifeng"
	"fmt"
	"os"
	"strings"
	"testing"
)

// dev aid: print a lock-step execution of a configuration; C02DEV_DEV="idx:kind,..." picks an
// alternative event kind at the given decision indexes, default = first enabled event.
func TestVerif_C02smdev(t *testing.T) {
	cfgs := c02Configs(0)
	b := cfgs[0]
	if n := os.Getenv("C02DEV_CFG"); n != "" {
		for _, c := range cfgs {
			if c.name == n {
				b = c
			}
		}
	}
	devAt := map[int]string{}
	for _, part := range strings.Split(os.Getenv("C02DEV_DEV"), ",") {
		var i int
		var k string
		if n, _ := fmt.Sscanf(part, "%d:%s", &i, &k); n == 2 {
			devAt[i] = k
		}
	}
	verbose := os.Getenv("C02DEV_V") != ""
	s := eagrNewSys(b.cfg)
	out := &eagrOut{trace: true}
	s.boot(out)
	s.fixBarrier()
	for i := 0; i < 200; i++ {
		evs := b.enabled(s)
		if len(evs) == 0 {
			break
		}
		e := evs[0]
		if k, ok := devAt[i]; ok {
			found := false
			for _, x := range evs {
				if x.K == k {
					e = x
					found = true
					break
				}
			}
			if !found {
				fmt.Printf("    (deviation %s not enabled at %d)\n", k, i)
			}
		}
		out = &eagrOut{trace: true}
		if err := s.apply(e, out); err != nil {
			t.Fatal(err)
		}
		fmt.Printf("%3d %v   [enabled %d] devs=%v\n", i, e, len(evs), s.devs)
		if verbose {
			for _, sub := range out.subs {
				fmt.Printf("        n%d %-70s -> %v\n", sub.node, sub.event, sub.acts)
			}
		}
		for _, m := range out.equivoc {
			fmt.Printf("        EQUIVOCATION %s\n", m)
		}
		if out.panicMsg != "" {
			fmt.Printf("        PANIC %s\n", out.panicMsg)
		}
		for _, c := range out.commits {
			fmt.Printf("        COMMIT n%d r%d p%d %s\n", c.node, c.act.Certificate.Round, c.period, eagrPV(c.act.Certificate.Proposal))
		}
	}
	for _, n := range s.nodes {
		fmt.Printf("node %d: round %d period %d step %d passive %v\n", n.id, n.p.Round, n.p.Period, n.p.Step, n.passive)
	}
}

func TestVerif_C02smdev2(t *testing.T) {
	r := ve.NewRun("C02", "fault_enumeration")
	b := c02Configs(0)[0]
	var n, rel2, c2, tk, small, zeroPersist, tk2, tk3 int64
	var key48, key49 [16]byte
	{
		devAt := map[int]string{21: "crash", 24: "crash"}
		s := eagrNewSys(b.cfg)
		out := &eagrOut{}
		s.boot(out)
		s.fixBarrier()
		for i := 0; i < 50; i++ {
			evs := b.enabled(s)
			e := evs[0]
			if k, ok := devAt[i]; ok {
				for _, x := range evs {
					if x.K == k {
						e = x
						break
					}
				}
			}
			s = s.clone()
			out = &eagrOut{}
			s.apply(e, out)
			if i == 48 {
				key48 = s.key()
			}
			if i == 49 {
				key49 = s.key()
				fmt.Printf("dev step 49: %v panic=%q conflicts=%v\n", e, out.panicMsg, out.conflicts)
			}
		}
	}
	b.onStep = func(pre *eagrSys, e eagrEv, post *eagrSys, out *eagrOut, path func() []eagrEv) {
		if pre.key() == key48 {
			fmt.Printf("EXPLORER from key48: %v -> post==key49:%v panic=%q conflicts=%v path=%v\n", e, post.key() == key49, out.panicMsg, out.conflicts, path())
		}
		for _, m := range out.equivoc {
			if atomic.AddInt64(&n, 1) <= 2 {
				fmt.Printf("EQUIVOC %s\n path %v\n", m, path())
			}
		}
		if e.K == "crash" && pre.nodes[e.N].crashes == 1 {
			if _, ok := pre.nodes[e.N].released[eagrRPS{1, 0, 1}]; ok {
				if len(pre.nodes[e.N].disk) < 1000 {
					atomic.AddInt64(&small, 1)
				}
				if atomic.AddInt64(&c2, 1) <= 3 {
					nn := post.nodes[e.N]
					fmt.Printf("second crash after soft release: node %d disk=%d bytes, post round=%d period=%d step=%d loop=%d ghost=%d passive=%v\n", e.N, len(pre.nodes[e.N].disk), nn.p.Round, nn.p.Period, nn.p.Step, len(nn.loop), len(nn.released), nn.passive)
				}
			}
		}
		if e.K == "loop" && len(post.nodes[e.N].disk) < 1000 && post.nodes[e.N].disk != nil {
			atomic.AddInt64(&zeroPersist, 1)
		}
		if e.K == "tick" {
			for j, nn := range post.nodes {
				if nn.crashes >= 2 && e.Idx&(1<<uint(j)) != 0 {
					atomic.AddInt64(&tk2, 1)
					if len(nn.disk) < 1000 {
						atomic.AddInt64(&tk3, 1)
					}
					if _, ok := nn.released[eagrRPS{1, 0, 1}]; ok && atomic.AddInt64(&tk, 1) <= 3 {
						fmt.Printf("tick of node %d after 2 crashes with earlier soft release: step now %d loop=%d\n", j, nn.p.Step, len(nn.loop))
					}
				}
			}
		}
		if e.K == "loop" && post.nodes[e.N].crashes >= 2 && len(out.released) > 0 {
			if atomic.AddInt64(&rel2, 1) <= 3 {
				fmt.Printf("release after 2 crashes: %v ghost=%v trackVotes=%v\n", out.released[0].R, post.nodes[e.N].released, post.cfg.trackVotes)
			}
		}
	}
	res := b.run(r)
	fmt.Printf("states=%d transitions=%d equivocs=%d rel2=%d crashes=%d c2=%d tk=%d\n", res.states, res.transitions, n, rel2, res.stats.crashes, c2, tk)
	fmt.Printf("small-disk second crashes=%d loop steps with small disk=%d\n", small, zeroPersist)
	// walk the hand-made double-crash path and look every state up in the visited set
	{
		devAt := map[int]string{21: "crash", 24: "crash"}
		s := eagrNewSys(b.cfg)
		out := &eagrOut{}
		s.boot(out)
		s.fixBarrier()
		fmt.Printf("init visited=%v\n", b.lastVisited.has(s.key()))
		for i := 0; i < 60; i++ {
			evs := b.enabled(s)
			if len(evs) == 0 {
				break
			}
			e := evs[0]
			if k, ok := devAt[i]; ok {
				for _, x := range evs {
					if x.K == k {
						e = x
						break
					}
				}
			}
			s = s.clone()
			out = &eagrOut{}
			s.apply(e, out)
			fmt.Printf("%3d %-60v visited=%v devs=%v\n", i, e, b.lastVisited.has(s.key()), s.devs)
		}
	}
	fmt.Printf("ticks by twice-crashed nodes=%d, of which with zero-state disk at tick time=%d\n", tk2, tk3)
}
