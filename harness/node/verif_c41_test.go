package node

// C41 — Decoding untrusted bytes is safe and bounded. Part "node": the network-priority
// handshake messages (node/msgp_gen.go) and rpcs.EncodedBlockCert, the block+certificate
// envelope a catching-up node decodes from untrusted peers. Engine, mutations and oracle:
// verif_c41_engine_test.go (identical copy of the one in harness/agreement).

import (
	"fmt"
	"testing"

	"github.com/algorand/go-algorand/config/bounds"
	"github.com/algorand/go-algorand/crypto"
	"github.com/algorand/go-algorand/crypto/merklearray"
	cstateproof "github.com/algorand/go-algorand/crypto/stateproof"
	"github.com/algorand/go-algorand/data/bookkeeping"
	"github.com/algorand/go-algorand/data/transactions"
	"github.com/algorand/go-algorand/protocol"
	"github.com/algorand/go-algorand/rpcs"
	ve "github.com/algorand/go-algorand/verifeng"
)

func c41nodeBounds() c41bounds {
	return c41bounds{
		expr: map[string]int{
			"node:netPrioChallengeSizeBase64Encoded":           netPrioChallengeSizeBase64Encoded,
			"bounds.MaxVoteThreshold":                          bounds.MaxVoteThreshold,
			"crypto:maxMultisig":                               255, // unexported crypto.maxMultisig
			"crypto:MaxHashDigestSize":                         crypto.MaxHashDigestSize,
			"crypto/merklearray:MaxEncodedTreeDepth+1":         merklearray.MaxEncodedTreeDepth + 1,
			"crypto/merklearray:MaxNumLeavesOnEncodedTree/2":   merklearray.MaxNumLeavesOnEncodedTree / 2,
			"crypto/stateproof:MaxReveals":                     cstateproof.MaxReveals,
			"crypto/stateproof:VotersAllocBound":               cstateproof.VotersAllocBound,
			"bounds.EncodedMaxAppLocalStates":                  bounds.EncodedMaxAppLocalStates,
			"bounds.EncodedMaxAppParams":                       bounds.EncodedMaxAppParams,
			"bounds.EncodedMaxAssetsPerAccount":                bounds.EncodedMaxAssetsPerAccount,
			"bounds.EncodedMaxKeyValueEntries":                 bounds.EncodedMaxKeyValueEntries,
			"bounds.MaxAppBytesKeyLen":                         bounds.MaxAppBytesKeyLen,
			"bounds.MaxAppBytesValueLen":                       bounds.MaxAppBytesValueLen,
			"bounds.MaxAssetNameBytes":                         bounds.MaxAssetNameBytes,
			"bounds.MaxAssetURLBytes":                          bounds.MaxAssetURLBytes,
			"bounds.MaxAssetUnitNameBytes":                     bounds.MaxAssetUnitNameBytes,
			"bounds.MaxAvailableAppProgramLen":                 bounds.MaxAvailableAppProgramLen,
			"bounds.MaxStateDeltaKeys":                         bounds.MaxStateDeltaKeys,
			"data/bookkeeping:MaxInitialGenesisAllocationSize": bookkeeping.MaxInitialGenesisAllocationSize,
			"bounds.MaxGenesisIDLen":                           bounds.MaxGenesisIDLen,
			"bounds.MaxMarkAbsent":                             bounds.MaxMarkAbsent,
			"bounds.MaxProposedExpiredOnlineAccounts":          bounds.MaxProposedExpiredOnlineAccounts,
			"crypto.Sha256Size":                                crypto.Sha256Size,
			"crypto.SumhashDigestSize":                         crypto.SumhashDigestSize,
			"crypto.DigestSize":                                crypto.DigestSize,
			"protocol.NumStateProofTypes":                      protocol.NumStateProofTypes,
			"data/transactions:EvalMaxArgs":                    transactions.EvalMaxArgs,
			"data/transactions:MaxLogicSigArgSize":             transactions.MaxLogicSigArgSize,
			"bounds.MaxAppAccess":                              bounds.MaxAppAccess,
			"bounds.MaxBytesKeyValueLen":                       bounds.MaxBytesKeyValueLen,
			"bounds.MaxEvalDeltaAccounts":                      bounds.MaxEvalDeltaAccounts,
			"bounds.MaxInnerTransactionsPerDelta":              bounds.MaxInnerTransactionsPerDelta,
			"bounds.MaxLogCalls":                               bounds.MaxLogCalls,
			"bounds.MaxLogicSigMaxSize":                        bounds.MaxLogicSigMaxSize,
			"bounds.MaxTxGroupSize":                            bounds.MaxTxGroupSize,
			"bounds.MaxTxnNoteBytes":                           bounds.MaxTxnNoteBytes,
			"crypto.MaxPQPublicKeySize":                        crypto.MaxPQPublicKeySize,
			"crypto.MaxPQSignatureSize":                        crypto.MaxPQSignatureSize,
			// unexported constants of data/transactions (application.go), value 32 each
			"data/transactions:encodedMaxAccounts":        32,
			"data/transactions:encodedMaxApplicationArgs": 32,
			"data/transactions:encodedMaxBoxes":           32,
			"data/transactions:encodedMaxForeignApps":     32,
			"data/transactions:encodedMaxForeignAssets":   32,
		},
		typ: map[string][]int{
			"data/transactions.Payset":  {100000},
			"data/basics.StateDelta":    {bounds.MaxStateDeltaKeys, bounds.MaxAppBytesKeyLen},
			"data/basics.TealKeyValue":  {bounds.EncodedMaxKeyValueEntries, bounds.MaxAppBytesKeyLen},
			"crypto.GenericDigest":      {crypto.MaxHashDigestSize},
			"protocol.ConsensusVersion": {bounds.MaxConsensusVersionLen},
			"protocol.TxType":           {7}, // unexported protocol.txTypeMaxLen
			"crypto/merklearray.Layer":  {merklearray.MaxNumLeavesOnEncodedTree},
		},
	}
}

// c41nodeNests: {"block":{"txns":[ T_n ]}} where T_n is a valid transaction whose inner
// transactions nest n levels deep; beyond the decoder's 255-call depth budget it must be refused.
func c41nodeNests() map[string][]byte {
	txn := []byte{0xa3, 't', 'x', 'n', 0x82, 0xa3, 's', 'n', 'd', 0xc4, 0x20}
	for i := 0; i < 32; i++ {
		txn = append(txn, byte(i+1))
	}
	txn = append(txn, 0xa4, 't', 'y', 'p', 'e', 0xa3, 'p', 'a', 'y')
	out := map[string][]byte{}
	for _, n := range []int{8, 90, 120, 127, 128, 250, 256, 300, 5000, 50000} {
		b := []byte{0x81, 0xa5, 'b', 'l', 'o', 'c', 'k', 0x81, 0xa4, 't', 'x', 'n', 's', 0x91}
		for i := 0; i < n; i++ {
			b = append(b, 0x82, 0xa2, 'd', 't', 0x81, 0xa3, 'i', 't', 'x', 0x91)
		}
		b = append(b, 0x81)
		b = append(b, txn...)
		for i := 0; i < n; i++ {
			b = append(b, txn...)
		}
		label := fmt.Sprintf("block with inner transactions nested %d deep (map form)", n)
		if n >= 256 {
			label = "must-reject: " + label
		} else if n <= 90 {
			label = "expect-accept: " + label
		}
		out[label] = b
	}
	return out
}

func TestVerif_C41_node(t *testing.T) {
	r := ve.NewRun("C41", "exploration")
	p := c41newPart(r, "node", c41nodeBounds())
	p.run([]c41target{
		{proto: new(netPrioResponse), pairs: true},
		{proto: new(netPrioResponseSigned), pairs: true},
		{proto: new(rpcs.EncodedBlockCert), hostile: c41nodeNests()},
	})
	if p.sanity.Load() > 0 {
		t.Fatalf("HARNESS: %d hand-made inputs that must be acceptable were rejected (see evidence notes) — not a verdict", p.sanity.Load())
	}
	n := r.Finish(ve.Coverage{
		Rule:       "part node: netPrioResponse, netPrioResponseSigned, rpcs.EncodedBlockCert — same seeds, mutation classes (T,B,H,K,N,P,O) and oracle as part agreement",
		Exhaustive: true,
	})
	if n > 0 {
		t.Fatal("violations")
	}
}
