package network

// C42 (part "network") — vote compression stays in sync across a real connection codec pair.
//
// The vpack part (harness/network/vpack) explores the encoder/decoder pair with equal table
// sizes. This part covers the other anchor of the property, network/msgCompressor.go: the
// per-connection wsPeerMsgCodec that creates the stateful encoder/decoder from the NEGOTIATED
// table size.
//
// Enumerated: every pair of node settings (A, B), each from {vote compression disabled,
// stateless only (table size 0), 16, 32, 64, 128, 256, 512, 1024, 2048} = 100 pairs. For each
// pair the two ends are built the way wsPeer builds them: each node's feature string is
// produced by the real setHeaders() from its settings, parsed by the real decodePeerFeatures()
// on the other side, and makeWsPeerMsgCodec() is called on a wsPeer carrying the local
// settings and the remote features. Then EVERY sequence of <= 3 (quick) / <= 4 (thorough)
// messages over the alphabet {A->B, B->A} x 4 voter identities is exchanged; the identities
// (sender, (p,p1s), (p2,p2s)) are repeated so that table references are emitted, and their
// table hashes have bits set above the bucket mask of the smaller tables (0x3ff, 0x155, 0x2aa,
// 0x007), so codecs with different table sizes compute different reference ids. The sending
// and receiving glue replicates the few lines of wsNetwork.innerBroadcast / wsPeer.writeLoopSendMsg
// / wsPeer.readLoop that surround the codec (stateless compression of the broadcast copy when the
// peer advertised vpack, compress(), abort message on a compression error, decompress(), abort
// message + drop on a decompression error, incoming abort switches the stateful layer off).
//
// Oracle: (1) both ends agree on whether the stateful layer is on and on the table size, and
// that size is min(sizeA, sizeB) (off if either end has compression disabled or size 0);
// (2) every delivered vote is byte-identical to the vote sent at that position — never a
// silently altered vote; (3) between two honest ends no compression/decompression error and no
// abort occurs and no vote is dropped (receiver state stays identical to sender state); (4) if
// an error does occur the abort must leave the stateful layer off on BOTH ends and later votes
// must still arrive intact (as AV).
//
// Not covered: the websocket transport itself, message reordering (the connection is FIFO),
// hostile frames (vpack part, enum/frames).

import (
	"bytes"
	"errors"
	"fmt"
	"net/http"
	"reflect"
	"runtime/debug"
	"testing"

	"github.com/algorand/go-algorand/agreement"
	"github.com/algorand/go-algorand/logging"
	"github.com/algorand/go-algorand/protocol"
	ve "github.com/algorand/go-algorand/verifeng"
)

type c42netSetting struct {
	name    string
	enabled bool
	size    uint
}

func (s c42netSetting) TelemetryGUID() string                  { return "" }
func (s c42netSetting) InstanceName() string                   { return "c42" }
func (s c42netSetting) GetGenesisID() string                   { return "g" }
func (s c42netSetting) PublicAddress() string                  { return "" }
func (s c42netSetting) RandomID() string                       { return "" }
func (s c42netSetting) SupportedProtoVersions() []string       { return SupportedProtocolVersions }
func (s c42netSetting) VoteCompressionEnabled() bool           { return s.enabled }
func (s c42netSetting) StatefulVoteCompressionTableSize() uint { return s.size }

// c42netFill: deterministic non-zero bytes.
func c42netFill(seed byte, n int) []byte {
	out := make([]byte, n)
	for i := range out {
		out[i] = seed + byte(i)*7 + byte(i>>3)
		if out[i] == 0 {
			out[i] = 0x5a
		}
	}
	return out
}

// c42netVote builds a real canonical vote (generated codec) for identity id with table hashes
// whose low 16 bits are h.
func c42netVote(id int, h uint16, rnd uint64, step uint64) []byte {
	var v agreement.UnauthenticatedVote
	snd := c42netFill(byte(0x11*(id+1)), 32)
	// sender hash = xor of the four little-endian 64-bit words: control its two low bytes
	snd[0] = byte(h) ^ snd[8] ^ snd[16] ^ snd[24]
	snd[1] = byte(h>>8) ^ snd[9] ^ snd[17] ^ snd[25]
	copy(v.R.Sender[:], snd)
	reflect.ValueOf(&v.R.Round).Elem().SetUint(rnd)
	reflect.ValueOf(&v.R.Step).Elem().SetUint(step)
	reflect.ValueOf(&v.R.Period).Elem().SetUint(uint64(id % 2))
	copy(v.R.Proposal.BlockDigest[:], c42netFill(0x41, 32))
	copy(v.R.Proposal.EncodingDigest[:], c42netFill(0x52, 32))
	copy(v.R.Proposal.OriginalProposer[:], c42netFill(0x63, 32))
	copy(v.Cred.Proof[:], c42netFill(byte(0x21+id)+byte(rnd)+byte(step), 80))
	pk, p1s := c42netFill(byte(0x31*(id+1)), 32), c42netFill(byte(0x35*(id+1)), 64)
	// pk-table hash = le64(pk[:8]) ^ le64(sig[:8])
	pk[0], pk[1] = byte(h)^p1s[0], byte(h>>8)^p1s[1]
	copy(v.Sig.PK[:], pk)
	copy(v.Sig.PK1Sig[:], p1s)
	pk2, p2s := c42netFill(byte(0x3b*(id+1)), 32), c42netFill(byte(0x3d*(id+1)), 64)
	pk2[0], pk2[1] = byte(h)^p2s[0], byte(h>>8)^p2s[1]
	copy(v.Sig.PK2[:], pk2)
	copy(v.Sig.PK2Sig[:], p2s)
	copy(v.Sig.Sig[:], c42netFill(byte(0x71+id)+byte(step), 64))
	return protocol.Encode(&v)
}

type c42netEnd struct {
	set   c42netSetting
	peer  *wsPeer // the local wsPeer object representing the REMOTE node
	codec *wsPeerMsgCodec
}

func c42netFeatures(s c42netSetting) string {
	h := http.Header{}
	setHeaders(h, "2.2", s)
	return h.Get(PeerFeaturesHeader)
}

func c42netMakeEnd(local, remote c42netSetting) *c42netEnd {
	wp := &wsPeer{}
	wp.wsPeerCore.log = logging.Base()
	wp.wsPeerCore.originAddress = "c42-" + remote.name
	wp.enableVoteCompression = local.enabled
	wp.voteCompressionTableSize = local.size
	wp.features = decodePeerFeatures("2.2", c42netFeatures(remote))
	return &c42netEnd{set: local, peer: wp, codec: makeWsPeerMsgCodec(wp)}
}

// c42netConn is one FIFO connection between two ends.
type c42netConn struct {
	end      [2]*c42netEnd
	aborts   int
	errs     []string
	dropped  int
	vpFrames int
}

// send transmits one vote from end[from] to the other end and returns what is delivered to the
// handler there (nil if the message was dropped).
func (c *c42netConn) send(from int, vote []byte) []byte {
	snd, rcv := c.end[from], c.end[1-from]
	tbytes := []byte(protocol.AgreementVoteTag)
	// wsNetwork.preparePeerData / innerBroadcast
	data := append(append([]byte(nil), tbytes...), vote...)
	if snd.set.enabled && snd.peer.vpackVoteCompressionSupported() {
		if comp, logMsg := vpackCompressVote(tbytes, vote); logMsg == "" {
			data = comp
		} else {
			c.errs = append(c.errs, "stateless compression failed: "+logMsg)
		}
	}
	// wsPeer.writeLoopSendMsg
	var wire [][]byte
	compressed, err := snd.codec.compress(protocol.AgreementVoteTag, data)
	if err != nil {
		var vcErr *voteCompressionError
		if errors.As(err, &vcErr) {
			snd.codec.switchOffStatefulVoteCompression()
			wire = append(wire, append([]byte(protocol.VotePackedTag), voteCompressionAbortMessage))
			c.aborts++
		}
		c.errs = append(c.errs, "compress: "+err.Error())
		wire = append(wire, data)
	} else if compressed != nil {
		wire = append(wire, compressed)
		c.vpFrames++
	} else {
		wire = append(wire, data)
	}
	// wsPeer.readLoop on the other end
	var delivered []byte
	for _, frame := range wire {
		tag := protocol.Tag(frame[:2])
		out, err := rcv.codec.decompress(tag, append([]byte(nil), frame[2:]...))
		if err != nil {
			c.errs = append(c.errs, "decompress: "+err.Error())
			var vcErr *voteCompressionError
			if errors.As(err, &vcErr) {
				// handleVPError: abort message travels back and is processed by the sender's read loop
				c.aborts++
				_, _ = snd.codec.decompress(protocol.VotePackedTag, []byte{voteCompressionAbortMessage})
			}
			c.dropped++
			continue
		}
		if out == nil {
			continue // control message
		}
		delivered = out
	}
	if delivered == nil {
		c.dropped++
	}
	return delivered
}

func TestVerif_C42_network(t *testing.T) {
	r := ve.NewRun("C42", "model_checking")
	settings := []c42netSetting{{"off", false, 0}, {"stateless", true, 0}}
	for _, s := range []uint{16, 32, 64, 128, 256, 512, 1024, 2048} {
		settings = append(settings, c42netSetting{fmt.Sprint(s), true, s})
	}
	hashes := []uint16{0x03ff, 0x0155, 0x02aa, 0x0007}
	depth := ve.Pick(3, 4)
	nOps := 2 * len(hashes)
	// all sequences of 1..depth ops
	var seqs [][]int
	var gen func(prefix []int)
	gen = func(prefix []int) {
		if len(prefix) > 0 {
			seqs = append(seqs, append([]int(nil), prefix...))
		}
		if len(prefix) == depth {
			return
		}
		for op := 0; op < nOps; op++ {
			gen(append(prefix, op))
		}
	}
	gen(nil)
	type job struct{ a, b c42netSetting }
	var jobs []job
	for _, a := range settings {
		for _, b := range settings {
			jobs = append(jobs, job{a, b})
		}
	}
	var votesSent, vpFrames, traces int64
	reported := map[string]int{}
	rep := func(key, what string, replay any) {
		r.Report(key, what, replay) // Report is mutex-protected; the first 5 are kept
		_ = reported
	}
	type acc struct{ votes, vp, traces int64 }
	accs := make([]acc, len(jobs))
	r.ParallelFor(len(jobs), func(ji int) {
		a, b := jobs[ji].a, jobs[ji].b
		pair := a.name + "/" + b.name
		// (1) negotiation outcome
		wantOn := a.enabled && b.enabled && a.size > 0 && b.size > 0
		wantSize := min(a.size, b.size)
		ea, eb := c42netMakeEnd(a, b), c42netMakeEnd(b, a)
		onA, onB := ea.codec.statefulVoteEnabled.Load(), eb.codec.statefulVoteEnabled.Load()
		r.Eval()
		if onA != onB || onA != wantOn || (wantOn && (ea.codec.statefulVoteTableSize != wantSize || eb.codec.statefulVoteTableSize != wantSize)) {
			rep("C42:negotiated-size-mismatch", fmt.Sprintf("settings %s: stateful layer A on=%v size=%d, B on=%v size=%d; expected on=%v size=min=%d on both ends (features A=%q B=%q)",
				pair, onA, ea.codec.statefulVoteTableSize, onB, eb.codec.statefulVoteTableSize, wantOn, wantSize, c42netFeatures(a), c42netFeatures(b)),
				map[string]any{"engine": "enum", "part": "network", "pair": pair})
		}
		r.Class(fmt.Sprintf("net/%s/stateful=%v", pair, onA && onB))
		for _, seq := range seqs {
			conn := &c42netConn{end: [2]*c42netEnd{c42netMakeEnd(a, b), c42netMakeEnd(b, a)}}
			names := make([]string, 0, len(seq))
			bad := false
			for i, op := range seq {
				from, id := op/len(hashes), op%len(hashes)
				vote := c42netVote(id, hashes[id], 1000+uint64(i%2), uint64(i%3))
				names = append(names, fmt.Sprintf("%s:id%d", []string{"A->B", "B->A"}[from], id))
				var got []byte
				panicked := r.Guard("C42:codec-panic", map[string]any{"engine": "enum", "part": "network", "pair": pair, "ops": names}, func() {
					got = conn.send(from, vote)
				})
				accs[ji].votes++
				r.Eval()
				if panicked {
					bad = true
					break
				}
				replay := map[string]any{"engine": "enum", "part": "network", "pair": pair, "ops": append([]string(nil), names...)}
				if got != nil && !bytes.Equal(got, vote) {
					rep("C42:vote-altered-in-transit", fmt.Sprintf("settings %s, messages %v: the vote delivered differs from the vote sent (codec errors so far: %v)\n sent %x\n got  %x", pair, names, conn.errs, vote, got), replay)
					bad = true
					break
				}
				if got == nil || len(conn.errs) > 0 || conn.aborts > 0 {
					rep("C42:honest-abort", fmt.Sprintf("settings %s, messages %v: honest traffic caused codec errors %v (aborts %d, dropped %d)", pair, names, conn.errs, conn.aborts, conn.dropped), replay)
					// (4) after the abort both ends must be off
					if conn.end[0].codec.statefulVoteEnabled.Load() || conn.end[1].codec.statefulVoteEnabled.Load() {
						rep("C42:abort-incomplete", fmt.Sprintf("settings %s, messages %v: after an abort the stateful layer is still on at one end", pair, names), replay)
					}
					bad = true
					break
				}
			}
			accs[ji].traces++
			accs[ji].vp += int64(conn.vpFrames)
			if !bad && conn.vpFrames > 0 {
				r.Class(fmt.Sprintf("net/%s/vp-frames", pair))
			}
		}
	})
	for _, a := range accs {
		votesSent += a.votes
		vpFrames += a.vp
		traces += a.traces
	}
	r.Set("network_pairs", len(jobs))
	r.Set("network_sequences_per_pair", len(seqs))
	r.Set("network_votes_sent", votesSent)
	r.Set("network_vp_frames", vpFrames)
	r.Sample(map[string]any{"part": "network", "pair": "16/2048", "features_16": c42netFeatures(settings[2]), "features_2048": c42netFeatures(settings[9])})
	r.Assume("the send/receive glue around the codec replicates wsNetwork.innerBroadcast, wsPeer.writeLoopSendMsg and wsPeer.readLoop (tag handling, abort message, drop on error); the websocket transport is a FIFO list")
	if vpFrames == 0 {
		t.Fatalf("HARNESS: no VP frame was ever produced — the driver is vacuous\n%s", debug.Stack())
	}
	n := r.Finish(ve.Coverage{
		Rule:        fmt.Sprintf("part network: for all %d pairs of node settings (compression off, stateless only, table sizes 16..2048) two real wsPeerMsgCodec ends built from the real feature strings; every sequence of <= %d messages over {A->B,B->A} x 4 repeated voter identities (%d sequences per pair) exchanged through compress/decompress with the surrounding wsPeer glue; negotiated size equal on both ends and = min, every delivered vote byte-identical, no error/abort/drop between honest ends", len(jobs), depth, len(seqs)),
		States:      traces,
		Transitions: votesSent,
		Traces:      traces,
		Exhaustive:  true,
	})
	if n > 0 {
		t.Fatal("violations")
	}
}
