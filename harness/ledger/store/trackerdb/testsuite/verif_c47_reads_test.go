package testsuite

// C47 — read sweeps. Every read of the sweep is executed on one backend and rendered as a
// list of named fields (backend-private Ref handles reduced to "nil / not nil"); the two
// renderings are compared field by field by c47compare.

import (
	"context"
	"fmt"
	"sort"
	"strings"

	"github.com/algorand/go-algorand/data/basics"
	"github.com/algorand/go-algorand/ledger/ledgercore"
	"github.com/algorand/go-algorand/ledger/store/trackerdb"
	"github.com/algorand/go-algorand/protocol"
)

// c47obs is one rendered read result. f[0] is always the error text ("" = no error); list
// fields have a name ending in "*" and hold items joined by "\x1e".
type c47obs struct {
	method string
	args   string
	names  []string
	vals   []string
	// expect, when set, renders what the documented semantics give for this read (used only
	// to say WHICH backend deviates once the two disagree); it returns false when the
	// documentation leaves the case open.
	expect func(e *c47obs) bool
}

func (o *c47obs) add(name, val string) {
	o.names = append(o.names, name)
	o.vals = append(o.vals, val)
}

func (o *c47obs) addf(name, format string, a ...any) { o.add(name, fmt.Sprintf(format, a...)) }

func (o *c47obs) list(name string, items []string) { o.add(name+"*", strings.Join(items, "\x1e")) }

func (o *c47obs) String() string {
	var b strings.Builder
	for i := range o.names {
		fmt.Fprintf(&b, "%s=%s ", o.names[i], strings.ReplaceAll(o.vals[i], "\x1e", " ; "))
	}
	return b.String()
}

type c47sink struct {
	obs []c47obs
}

// read runs one read with panic capture.
func (k *c47sink) read(method, args string, f func(o *c47obs) error) {
	o := c47obs{method: method, args: args}
	o.add("err", "")
	func() {
		defer func() {
			if r := recover(); r != nil {
				o.names, o.vals = o.names[:1], o.vals[:1]
				o.vals[0] = fmt.Sprintf("PANIC: %v", r)
			}
		}()
		if err := f(&o); err != nil {
			o.vals[0] = err.Error()
			if o.vals[0] == "" {
				o.vals[0] = "error"
			}
		}
	}()
	k.obs = append(k.obs, o)
}

// expectation attaches a documented-semantics rendering to the read just performed.
func (k *c47sink) expectation(f func(e *c47obs) bool) { k.obs[len(k.obs)-1].expect = f }

// c47compare returns "" when the two renderings agree, else the aspect that differs.
// Error-ness is compared first; when both calls failed the remaining fields are not
// compared (results accompanying an error are unspecified).
func c47compare(a, b *c47obs) (aspect, av, bv string) {
	ae, be := a.vals[0] != "", b.vals[0] != ""
	if ae != be {
		return "error-ness", a.vals[0], b.vals[0]
	}
	if ae {
		return "", "", ""
	}
	n := len(a.names)
	if len(b.names) < n {
		n = len(b.names)
	}
	for i := 1; i < n; i++ {
		if a.vals[i] == b.vals[i] {
			continue
		}
		name := a.names[i]
		if strings.HasSuffix(name, "*") {
			name = strings.TrimSuffix(name, "*")
			as, bs := strings.Split(a.vals[i], "\x1e"), strings.Split(b.vals[i], "\x1e")
			if a.vals[i] == "" {
				as = nil
			}
			if b.vals[i] == "" {
				bs = nil
			}
			if len(as) != len(bs) {
				return name + "-count", a.vals[i], b.vals[i]
			}
			sa, sb := append([]string{}, as...), append([]string{}, bs...)
			sort.Strings(sa)
			sort.Strings(sb)
			if strings.Join(sa, "\x1e") == strings.Join(sb, "\x1e") {
				return name + "-order", a.vals[i], b.vals[i]
			}
			return name + "-items", a.vals[i], b.vals[i]
		}
		return name, a.vals[i], b.vals[i]
	}
	if len(a.names) != len(b.names) {
		return "shape", fmt.Sprint(a.names), fmt.Sprint(b.names)
	}
	return "", "", ""
}

func c47enc(v any) string { return fmt.Sprintf("%x", protocol.EncodeReflect(v)) }

func c47A(a int) string { return string(rune('A' + a)) }

// ---- accounts / resources / creatables -------------------------------------------------

// c47resLists renders a resource list as parallel per-field lists, so that a disagreement is
// classified by the field that differs (ids and their order / rounds / refs / data / creators).
func c47resLists(o *c47obs, n int, at func(i int) *trackerdb.PersistedResourcesData, creator func(i int) basics.Address) {
	var ids, rnds, refs, data, crs []string
	for i := 0; i < n; i++ {
		d := at(i)
		ids = append(ids, fmt.Sprintf("#%d", d.Aidx))
		rnds = append(rnds, fmt.Sprintf("#%d:%d", d.Aidx, d.Round))
		refs = append(refs, fmt.Sprintf("#%d:%v", d.Aidx, d.AcctRef != nil))
		data = append(data, fmt.Sprintf("#%d:%s", d.Aidx, c47enc(&d.Data)))
		if creator != nil {
			c := creator(i)
			crs = append(crs, fmt.Sprintf("#%d:%x", d.Aidx, c[:4]))
		}
	}
	o.list("ids", ids)
	o.list("item-rounds", rnds)
	o.list("item-refs", refs)
	o.list("item-data", data)
	if creator != nil {
		o.list("item-creators", crs)
	}
}

func c47sweepAccounts(k *c47sink, rd *c47readers, nAddr int) {
	ctx := context.Background()
	k.read("AccountsRound", "", func(o *c47obs) error {
		r, err := rd.arx.AccountsRound()
		o.addf("round", "%d", r)
		return err
	})
	k.read("TotalAccounts", "", func(o *c47obs) error {
		n, err := rd.arx.TotalAccounts(ctx)
		o.addf("total", "%d", n)
		return err
	})
	k.read("TotalResources", "", func(o *c47obs) error {
		n, err := rd.arx.TotalResources(ctx)
		o.addf("total", "%d", n)
		return err
	})
	for a := 0; a < nAddr; a++ {
		addr := c47addrs[a]
		k.read("LookupAccount", c47A(a), func(o *c47obs) error {
			d, err := rd.ar.LookupAccount(addr)
			o.addf("round", "%d", d.Round)
			o.addf("ref-nil", "%v", d.Ref == nil)
			o.addf("addr", "%x", d.Addr[:4])
			o.add("data", c47enc(&d.AccountData))
			return err
		})
		var ref trackerdb.AccountRef
		k.read("LookupAccountRowID", c47A(a), func(o *c47obs) error {
			r, err := rd.arx.LookupAccountRowID(addr)
			ref = r
			o.addf("ref-nil", "%v", r == nil)
			return err
		})
		k.read("LookupAccountAddressFromAddressID", c47A(a), func(o *c47obs) error {
			got, err := rd.arx.LookupAccountAddressFromAddressID(ctx, ref)
			o.addf("addr", "%x", got[:4])
			return err
		})
		k.read("LookupAllResources", c47A(a), func(o *c47obs) error {
			ds, rnd, err := rd.ar.LookupAllResources(addr)
			o.addf("round", "%d", rnd)
			c47resLists(o, len(ds), func(i int) *trackerdb.PersistedResourcesData { return &ds[i] }, nil)
			return err
		})
		for s := 0; s <= c47nAidx; s++ {
			aidx, ct := basics.CreatableIndex(99), basics.AssetCreatable
			if s < c47nAidx {
				aidx, ct = c47aidx[s], c47ctype[s]
			}
			k.read("LookupResources", fmt.Sprintf("%s,#%d,%v", c47A(a), aidx, ct), func(o *c47obs) error {
				d, err := rd.ar.LookupResources(addr, aidx, ct)
				o.addf("round", "%d", d.Round)
				o.addf("ref-nil", "%v", d.AcctRef == nil)
				o.addf("aidx", "%d", d.Aidx)
				o.add("data", c47enc(&d.Data))
				return err
			})
			if s < c47nAidx {
				other := basics.AppCreatable
				if ct == basics.AppCreatable {
					other = basics.AssetCreatable
				}
				k.read("LookupResources", fmt.Sprintf("%s,#%d,%v(wrong type)", c47A(a), aidx, other), func(o *c47obs) error {
					d, err := rd.ar.LookupResources(addr, aidx, other)
					o.addf("round", "%d", d.Round)
					o.addf("ref-nil", "%v", d.AcctRef == nil)
					o.add("data", c47enc(&d.Data))
					return err
				})
			}
			k.read("LookupResourceDataByAddrID", fmt.Sprintf("%s,#%d", c47A(a), aidx), func(o *c47obs) error {
				b, err := rd.arx.LookupResourceDataByAddrID(ref, aidx)
				o.addf("data", "%x", b)
				return err
			})
		}
	}
	for s := 0; s < c47nAidx; s++ {
		for _, ct := range []basics.CreatableType{basics.AssetCreatable, basics.AppCreatable} {
			k.read("LookupCreator", fmt.Sprintf("#%d,%v", c47aidx[s], ct), func(o *c47obs) error {
				addr, ok, rnd, err := rd.ar.LookupCreator(c47aidx[s], ct)
				o.addf("round", "%d", rnd)
				o.addf("ok", "%v", ok)
				o.addf("creator", "%x", addr[:4])
				return err
			})
		}
	}
}

// c47sweepLimited renders LookupLimitedResources for all cursors/limits (used for the
// SQLite-vs-expectation check; the KV backend returns "not supported").
func c47limitedCalls() (out [][3]int) {
	for _, min := range []int{0, 1, 2, 3} {
		for _, max := range []int{0, 1, 2, 5} {
			for ct := 0; ct < 2; ct++ {
				out = append(out, [3]int{min, max, ct})
			}
		}
	}
	return
}

func c47limLists(o *c47obs, ds []trackerdb.PersistedResourcesDataWithCreator) {
	c47resLists(o, len(ds), func(i int) *trackerdb.PersistedResourcesData { return &ds[i].PersistedResourcesData }, func(i int) basics.Address { return ds[i].Creator })
}

func c47sweepLimited(k *c47sink, rd *c47readers, nAddr int) {
	for a := 0; a < nAddr; a++ {
		for _, c := range c47limitedCalls() {
			ct := []basics.CreatableType{basics.AssetCreatable, basics.AppCreatable}[c[2]]
			k.read("LookupLimitedResources", fmt.Sprintf("%s,min=%d,max=%d,%v", c47A(a), c[0], c[1], ct), func(o *c47obs) error {
				ds, rnd, err := rd.ar.LookupLimitedResources(c47addrs[a], basics.CreatableIndex(c[0]), uint64(c[1]), ct)
				o.addf("round", "%d", rnd)
				c47limLists(o, ds)
				return err
			})
		}
	}
}

// ---- application kv ---------------------------------------------------------------------

var c47prefixes = []string{"", "a", "a\x00", "a\xff", "ab", "b", "c", "\xfe", "\xff", "\xff\xff", "\xff\xff\xff"}

// c47kvContent returns the sorted live keys and their values according to the bookkeeping.
func c47kvContent(m *c47model) (keys []string, vals map[string][]byte) {
	vals = map[string][]byte{}
	for i, v := range m.kv {
		if v >= 0 {
			keys = append(keys, c47keys[i])
			vals[c47keys[i]] = c47vals[v]
		}
	}
	sort.Strings(keys)
	return
}

func c47strangePrefix(p string) bool { return strings.Trim(p, "\xff") == "" }

func c47sweepKV(k *c47sink, rd *c47readers, m *c47model, full bool) {
	k.read("TotalKVs", "", func(o *c47obs) error {
		n, err := rd.arx.TotalKVs(context.Background())
		o.addf("total", "%d", n)
		return err
	})
	for _, key := range append(c47keys[:], "zz") {
		k.read("LookupKeyValue", fmt.Sprintf("%q", key), func(o *c47obs) error {
			pv, err := rd.ar.LookupKeyValue(key)
			o.addf("round", "%d", pv.Round)
			o.addf("value-nil", "%v", pv.Value == nil)
			o.addf("value", "%x", pv.Value)
			return err
		})
	}
	// contract (ledger/acctupdates.go lookupKeysByPrefix): the database is consulted only while
	// resultCount < maxKeyNum; results holds the keys seen in the in-memory deltas (true = live,
	// false = deleted in a later round, not counted)
	type pfxCall struct {
		prefix string
		max    uint64
		pre    int // 0 none, 1 {"a":true} count 1, 2 {"a":false} count 0
	}
	var pcs []pfxCall
	for _, p := range c47prefixes {
		for _, m := range []uint64{1, 2, 100} {
			pcs = append(pcs, pfxCall{p, m, 0})
		}
	}
	pcs = append(pcs, pfxCall{"a", 2, 1}, pfxCall{"a", 100, 1}, pfxCall{"a", 2, 2}, pfxCall{"a", 100, 2})
	for _, c := range pcs {
		k.read("LookupKeysByPrefix", fmt.Sprintf("%q,max=%d,prefilled=%s", c.prefix, c.max, []string{"none", "a:live", "a:deleted"}[c.pre]), func(o *c47obs) error {
			results := map[string]bool{}
			count := uint64(0)
			switch c.pre {
			case 1:
				results["a"] = true
				count = 1
			case 2:
				results["a"] = false
			}
			rnd, err := rd.ar.LookupKeysByPrefix(c.prefix, c.max, results, count)
			o.addf("round", "%d", rnd)
			var keys, flags []string
			for _, key := range c47sortedStrings(results) {
				keys = append(keys, fmt.Sprintf("%q", key))
				flags = append(flags, fmt.Sprintf("%q:%v", key, results[key]))
			}
			o.list("keys", keys)
			o.list("flags", flags)
			return err
		})
		k.expectation(func(e *c47obs) bool {
			// keys with the prefix, ascending, not already known from the deltas, until maxKeyNum
			if c47strangePrefix(c.prefix) {
				return false
			}
			results := map[string]bool{}
			count := uint64(0)
			switch c.pre {
			case 1:
				results["a"] = true
				count = 1
			case 2:
				results["a"] = false
			}
			live, _ := c47kvContent(m)
			for _, key := range live {
				if count == c.max {
					break
				}
				if !strings.HasPrefix(key, c.prefix) {
					continue
				}
				if _, ok := results[key]; ok {
					continue
				}
				results[key] = true
				count++
			}
			e.addf("round", "%d", m.round)
			var keys, flags []string
			for _, key := range c47sortedStrings(results) {
				keys = append(keys, fmt.Sprintf("%q", key))
				flags = append(flags, fmt.Sprintf("%q:%v", key, results[key]))
			}
			e.list("keys", keys)
			e.list("flags", flags)
			return true
		})
	}
	type curCall struct {
		prefix, cursor string
		limit, maxB    uint64
		vals           bool
		excl           map[string][]byte
	}
	var ccs []curCall
	cursors := []string{"", "a", "a\x00", "a\xff", "\xff"}
	limits := []uint64{0, 1, 2}
	if full {
		cursors = append(cursors, "ab", "b", "\xff\xff", "0")
		limits = append(limits, 3, 100)
	}
	for _, p := range c47prefixes {
		for _, cu := range cursors {
			for _, l := range limits {
				ccs = append(ccs, curCall{p, cu, l, 0, true, nil})
			}
		}
		ccs = append(ccs, curCall{p, "", 0, 0, false, nil}, curCall{p, "", 1, 0, false, nil})
	}
	for _, p := range []string{"a", "b", "\xff"} {
		for _, mb := range []uint64{1, 2, 3, 4} {
			ccs = append(ccs, curCall{p, "", 0, mb, true, nil}, curCall{p, "", 2, mb, false, nil})
		}
		for _, l := range []uint64{0, 1} {
			ccs = append(ccs, curCall{p, "", l, 0, true, map[string][]byte{"a\x00": nil, "\xff": {1}}})
			ccs = append(ccs, curCall{p, "a", l, 0, true, map[string][]byte{"ab": nil, "\xff\xff": nil}})
		}
	}
	for _, c := range ccs {
		k.read("LookupKeysByPrefixCursor", fmt.Sprintf("%q,cursor=%q,limit=%d,maxBytes=%d,values=%v,exclude=%v", c.prefix, c.cursor, c.limit, c.maxB, c.vals, c47sortedStrings(c.excl)), func(o *c47obs) error {
			rnd, res, more, err := rd.ar.LookupKeysByPrefixCursor(c.prefix, c.cursor, c.limit, c.maxB, c.vals, c.excl)
			o.addf("round", "%d", rnd)
			var keys, vals []string
			for _, kv := range res {
				keys = append(keys, fmt.Sprintf("%q", kv.Key))
				vals = append(vals, fmt.Sprintf("%q=%x(nil=%v)", kv.Key, kv.Value, kv.Value == nil))
			}
			o.list("keys", keys)
			o.addf("more", "%v", more)
			o.list("values", vals)
			return err
		})
		k.expectation(func(e *c47obs) bool {
			// interface comment of LookupKeysByPrefixCursor: keys with the prefix strictly after
			// the cursor, not in exclude, ascending; at most limit (0 = unlimited) and maxBytes
			// (0 = unlimited, first item always returned); more = another qualifying key exists
			if c47strangePrefix(c.prefix) {
				return false
			}
			live, content := c47kvContent(m)
			var keys, vals []string
			var bytesAcc uint64
			more := false
			for _, key := range live {
				if !strings.HasPrefix(key, c.prefix) || key <= c.cursor {
					continue
				}
				if _, ex := c.excl[key]; ex {
					continue
				}
				var v []byte
				if c.vals {
					v = content[key]
				}
				sz := uint64(len(key) + len(v))
				if (c.limit > 0 && uint64(len(keys)) >= c.limit) || (c.maxB > 0 && bytesAcc+sz > c.maxB && len(keys) > 0) {
					more = true
					break
				}
				bytesAcc += sz
				keys = append(keys, fmt.Sprintf("%q", key))
				vals = append(vals, fmt.Sprintf("%q=%x(nil=%v)", key, v, !c.vals))
			}
			e.addf("round", "%d", m.round)
			e.list("keys", keys)
			e.addf("more", "%v", more)
			e.list("values", vals)
			return true
		})
	}
}

// ---- online accounts --------------------------------------------------------------------

func c47onLists(o *c47obs, ds []trackerdb.PersistedOnlineAccountData) {
	var ids, rnds, refs, data []string
	for i := range ds {
		d := &ds[i]
		id := fmt.Sprintf("%x@%d", d.Addr[:1], d.UpdRound)
		ids = append(ids, id)
		rnds = append(rnds, fmt.Sprintf("%s:%d", id, d.Round))
		refs = append(refs, fmt.Sprintf("%s:%v", id, d.Ref != nil))
		data = append(data, fmt.Sprintf("%s:%s", id, c47enc(&d.AccountData)))
	}
	o.list("rows", ids)
	o.list("row-rounds", rnds)
	o.list("row-refs", refs)
	o.list("row-data", data)
}

// c47onRow is one stored online-account row (from the raw SQLite dump; the harness has
// already checked that both stores hold the same rows).
type c47onRow struct {
	addr basics.Address
	upd  uint64
	norm uint64
	data []byte
}

func c47sweepOnline(k *c47sink, rd *c47readers, nAddr int, clock uint64, orpHi uint64, rewardUnit uint64, rows func() ([]c47onRow, bool)) {
	ctx := context.Background()
	k.read("AccountsRound", "", func(o *c47obs) error {
		r, err := rd.arx.AccountsRound()
		o.addf("round", "%d", r)
		return err
	})
	k.read("TotalOnlineAccountRows", "", func(o *c47obs) error {
		n, err := rd.arx.TotalOnlineAccountRows(ctx)
		o.addf("total", "%d", n)
		return err
	})
	k.read("TotalOnlineRoundParams", "", func(o *c47obs) error {
		n, err := rd.arx.TotalOnlineRoundParams(ctx)
		o.addf("total", "%d", n)
		return err
	})
	for a := 0; a < nAddr; a++ {
		addr := c47addrs[a]
		for r := uint64(0); r <= clock+1; r++ {
			k.read("LookupOnline", fmt.Sprintf("%s,rnd=%d", c47A(a), r), func(o *c47obs) error {
				d, err := rd.oar.LookupOnline(addr, basics.Round(r))
				o.addf("round", "%d", d.Round)
				o.addf("ref-nil", "%v", d.Ref == nil)
				o.addf("addr", "%x", d.Addr[:1])
				o.addf("updround", "%d", d.UpdRound)
				o.add("data", c47enc(&d.AccountData))
				return err
			})
		}
		k.read("LookupOnlineHistory", c47A(a), func(o *c47obs) error {
			ds, rnd, err := rd.oar.LookupOnlineHistory(addr)
			o.addf("round", "%d", rnd)
			c47onLists(o, ds)
			return err
		})
		k.read("LookupOnlineAccountDataByAddress", c47A(a), func(o *c47obs) error {
			ref, data, err := rd.arx.LookupOnlineAccountDataByAddress(addr)
			o.addf("ref-nil", "%v", ref == nil)
			o.addf("data", "%x", data)
			return err
		})
	}
	for _, max := range []uint64{0, 1, 2, 3} {
		k.read("OnlineAccountsAll", fmt.Sprintf("max=%d", max), func(o *c47obs) error {
			ds, err := rd.arx.OnlineAccountsAll(max)
			c47onLists(o, ds)
			return err
		})
	}
	for r := uint64(0); r <= clock+1; r++ {
		for _, off := range []uint64{0, 1, 2} {
			for _, n := range []uint64{0, 1, 2, 3} {
				k.read("AccountsOnlineTop", fmt.Sprintf("rnd=%d,offset=%d,n=%d", r, off, n), func(o *c47obs) error {
					m, err := rd.arx.AccountsOnlineTop(basics.Round(r), off, n, rewardUnit)
					var addrs, items []string
					for addr, oa := range m {
						addrs = append(addrs, fmt.Sprintf("%x", addr[:1]))
						if oa == nil {
							items = append(items, fmt.Sprintf("%x nil", addr[:1]))
							continue
						}
						items = append(items, fmt.Sprintf("%x addr=%x algos=%d base=%d norm=%d first=%d last=%d sp=%x", addr[:1], oa.Address[:1], oa.MicroAlgos.Raw, oa.RewardsBase, oa.NormalizedOnlineBalance, oa.VoteFirstValid, oa.VoteLastValid, oa.StateProofID[:2]))
					}
					sort.Strings(addrs)
					sort.Strings(items)
					o.list("accounts", addrs)
					o.list("account-data", items)
					return err
				})
				k.expectation(func(e *c47obs) bool {
					// doc comment of AccountsOnlineTop: latest entry per address not newer than rnd,
					// online only, sorted by normalized balance then address (descending), top
					// offset .. offset+n-1
					all, ok := rows()
					if !ok {
						return false
					}
					latest := map[basics.Address]c47onRow{}
					for _, row := range all {
						if row.upd <= r {
							if cur, ok := latest[row.addr]; !ok || cur.upd < row.upd {
								latest[row.addr] = row
							}
						}
					}
					var cand []c47onRow
					for _, row := range latest {
						if row.norm > 0 {
							cand = append(cand, row)
						}
					}
					sort.Slice(cand, func(i, j int) bool {
						if cand[i].norm != cand[j].norm {
							return cand[i].norm > cand[j].norm
						}
						return string(cand[i].addr[:]) > string(cand[j].addr[:])
					})
					var addrs, items []string
					for i := off; i < off+n && i < uint64(len(cand)); i++ {
						row := cand[i]
						var d trackerdb.BaseOnlineAccountData
						if protocol.Decode(row.data, &d) != nil {
							return false
						}
						nb := basics.NormalizedOnlineAccountBalance(basics.Online, d.RewardsBase, d.MicroAlgos, rewardUnit)
						addrs = append(addrs, fmt.Sprintf("%x", row.addr[:1]))
						items = append(items, fmt.Sprintf("%x addr=%x algos=%d base=%d norm=%d first=%d last=%d sp=%x", row.addr[:1], row.addr[:1], d.MicroAlgos.Raw, d.RewardsBase, nb, d.VoteFirstValid, d.VoteLastValid, d.StateProofID[:2]))
					}
					sort.Strings(addrs)
					sort.Strings(items)
					e.list("accounts", addrs)
					e.list("account-data", items)
					return true
				})
			}
		}
		for _, vr := range []uint64{0, 5, 6, 51} {
			k.read("ExpiredOnlineAccountsForRound", fmt.Sprintf("rnd=%d,voteRnd=%d", r, vr), func(o *c47obs) error {
				m, err := rd.arx.ExpiredOnlineAccountsForRound(basics.Round(r), basics.Round(vr), rewardUnit, 0)
				var addrs, items []string
				for addr, oa := range m {
					addrs = append(addrs, fmt.Sprintf("%x", addr[:1]))
					if oa == nil {
						items = append(items, fmt.Sprintf("%x nil", addr[:1]))
						continue
					}
					items = append(items, fmt.Sprintf("%x %+v", addr[:1], *oa))
				}
				sort.Strings(addrs)
				sort.Strings(items)
				o.list("accounts", addrs)
				o.list("account-data", items)
				return err
			})
		}
	}
	c47sweepRoundParams(k, rd, orpHi)
}

func c47sweepRoundParams(k *c47sink, rd *c47readers, orpHi uint64) {
	for r := uint64(0); r <= orpHi+1; r++ {
		k.read("LookupOnlineRoundParams", fmt.Sprintf("rnd=%d", r), func(o *c47obs) error {
			d, err := rd.oar.LookupOnlineRoundParams(basics.Round(r))
			o.add("data", c47enc(&d))
			return err
		})
	}
	k.read("AccountsOnlineRoundParams", "", func(o *c47obs) error {
		ds, end, err := rd.arx.AccountsOnlineRoundParams()
		o.addf("endround", "%d", end)
		var items []string
		for i := range ds {
			items = append(items, c47enc(&ds[i]))
		}
		o.list("params", items)
		return err
	})
}

// ---- rounds, totals, tx tail, state proof contexts -----------------------------------------

func c47sweepRound(k *c47sink, rd *c47readers) {
	k.read("AccountsRound", "", func(o *c47obs) error {
		r, err := rd.arx.AccountsRound()
		o.addf("round", "%d", r)
		return err
	})
}

func c47sweepTails(k *c47sink, rd *c47readers, m *c47model, tail, totals, sp bool) {
	ctx := context.Background()
	c47sweepRound(k, rd)
	if totals {
		k.read("AccountsHashRound", "", func(o *c47obs) error {
			r, err := rd.arx.AccountsHashRound(ctx)
			o.addf("round", "%d", r)
			return err
		})
		for _, staging := range []bool{false, true} {
			k.read("AccountsTotals", fmt.Sprintf("staging=%v", staging), func(o *c47obs) error {
				t, err := rd.arx.AccountsTotals(ctx, staging)
				o.add("totals", c47enc(&t))
				return err
			})
		}
	}
	if tail {
		seen := map[uint64]bool{}
		for _, dbr := range []uint64{m.round, m.tailNext - 1, m.tailNext, 0} {
			if seen[dbr] {
				continue
			}
			seen[dbr] = true
			k.read("LoadTxTail", fmt.Sprintf("dbRound=%d", dbr), func(o *c47obs) error {
				rd2, hashes, base, err := rd.arx.LoadTxTail(ctx, basics.Round(dbr))
				o.addf("base", "%d", base)
				var items, hs []string
				for _, t := range rd2 {
					items = append(items, c47enc(t))
				}
				for _, h := range hashes {
					hs = append(hs, fmt.Sprintf("%x", h[:6]))
				}
				o.list("tails", items)
				o.list("hashes", hs)
				return err
			})
		}
	}
	if sp {
		for r := m.spLo - 256; r <= m.spNext; r += 256 {
			k.read("LookupSPContext", fmt.Sprintf("rnd=%d", r), func(o *c47obs) error {
				c, err := rd.spr.LookupSPContext(basics.Round(r))
				if err == nil {
					o.addf("nil", "%v", c == nil)
					if c != nil {
						o.add("ctx", c47enc(c))
					}
				}
				return err
			})
		}
		k.read("GetAllSPContexts", "", func(o *c47obs) error {
			cs, err := rd.spr.GetAllSPContexts(ctx)
			var items []string
			for i := range cs {
				items = append(items, c47enc(&cs[i]))
			}
			o.list("contexts", items)
			return err
		})
	}
}

var _ = ledgercore.AccountTotals{}
