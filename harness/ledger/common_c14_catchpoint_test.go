package ledger

// Shared catchpoint driver of the checks C14, C15(b) and C16 (all identifiers c14-prefixed;
// this file is mounted for every check of package ledger and must always compile).
//
// It provides
//   - two private consensus versions (copies of ConsensusCurrentVersion with small
//     CatchpointLookback / MaxBalLookback / MaxTxnLife / SeedLookback so that catchpoint
//     rounds are reached within ~20 blocks; variant B additionally has state proofs with a
//     tiny interval, so the voters tracker stalls and extends the online history),
//   - a deterministic genesis (8 accounts, 2 of them online with fixed keys),
//   - a block builder on top of the real BlockEvaluator (upstream helpers nextBlock / txn /
//     endBlock) producing deterministic block histories with account / asset / app / box churn,
//   - c14Node: a REAL Ledger with catchpoint tracking enabled, fed with the blocks through
//     Ledger.AddBlock, whose flush decisions are controlled deterministically: the only
//     wall-clock input of trackerRegistry.scheduleCommit (lastFlushTime) is pinned before
//     every block to "interval passed" or "interval not passed", and a passive probe tracker
//     appended to the registry provides the barrier "notifyCommit(r) finished",
//   - observation helpers (labels per catchpoint round, first stage info, balances trie root
//     at the current tracker DB round, catchpoint file contents),
//   - the catchpoint restore procedure of catchup.CatchpointCatchupService re-played on the
//     real CatchpointCatchupAccessor.
//
// Unexported identifiers of package ledger this file depends on: Ledger.trackers
// (trackerRegistry: mu, lastFlushTime, trackers, dbRound, waitAccountsWriting), Ledger.trackerMu,
// Ledger.reloadLedger, Ledger.catchpoint.catchpointStore, ledgerTracker interface,
// deferredCommitRange/deferredCommitContext, catchpointStage1Decoder (not used), the upstream
// test helpers nextBlock/txn/endBlock/newSimpleLedgerFull are NOT used except nextBlock, txn, endBlock.

import (
	"archive/tar"
	"bytes"
	"compress/gzip"
	"context"
	"errors"
	"fmt"
	"io"
	"os"
	"path/filepath"
	"sort"
	"strings"
	"sync"
	"sync/atomic"
	"testing"
	"time"

	"github.com/algorand/go-deadlock"
	"github.com/sirupsen/logrus"

	"github.com/algorand/go-algorand/agreement"
	"github.com/algorand/go-algorand/config"
	"github.com/algorand/go-algorand/crypto"
	"github.com/algorand/go-algorand/crypto/merkletrie"
	"github.com/algorand/go-algorand/data/basics"
	"github.com/algorand/go-algorand/data/bookkeeping"
	"github.com/algorand/go-algorand/data/transactions"
	"github.com/algorand/go-algorand/data/txntest"
	"github.com/algorand/go-algorand/ledger/ledgercore"
	"github.com/algorand/go-algorand/ledger/store/trackerdb"
	"github.com/algorand/go-algorand/logging"
	"github.com/algorand/go-algorand/protocol"
)

// ---------------------------------------------------------------------------------------------
// consensus versions

const (
	c14ProtoA = protocol.ConsensusVersion("verif-c14-A") // CatchpointLookback 4, no state proofs
	c14ProtoB = protocol.ConsensusVersion("verif-c14-B") // CatchpointLookback 6, state proofs every 4 rounds (never produced => stall)
	c14ProtoC = protocol.ConsensusVersion("verif-c14-C") // ConsensusV39 scaled like A: legacy (V7) catchpoint files, no payouts/heartbeat

	c14CatchpointInterval = 4
)

var c14ProtoOnce sync.Once

// c14RegisterProtos installs the private consensus versions. Must be called before any
// ledger is opened (config.Consensus is a plain map).
func c14RegisterProtos() {
	c14ProtoOnce.Do(func() {
		a := config.Consensus[protocol.ConsensusCurrentVersion]
		a.ApprovedUpgrades = map[protocol.ConsensusVersion]uint64{}
		a.SeedLookback = 2
		a.SeedRefreshInterval = 2
		a.MaxBalLookback = 8
		a.MaxTxnLife = 8
		a.CatchpointLookback = 4
		a.StateProofInterval = 0
		a.RewardsRateRefreshInterval = 4
		config.Consensus[c14ProtoA] = a

		b := a
		b.ApprovedUpgrades = map[protocol.ConsensusVersion]uint64{}
		b.CatchpointLookback = 6
		// state proofs every 4 rounds, never produced: the voters tracker pins the online history
		// at round 2 (first state proof round 8 - interval - voters lookback), i.e. below the
		// MaxBalLookback horizon of every first stage from accounts round 10 on, so that the
		// "history held back" branch of finishFirstStage (onlineExcludeBefore) is exercised.
		b.StateProofInterval = 4
		b.StateProofVotersLookback = 2
		config.Consensus[c14ProtoB] = b

		// legacy catchpoint format: files carry no onlineaccounts / onlineroundparamstail sections and
		// the catchup accessor rebuilds those tables from the restored accounts and totals.
		// Based on the last released version with that format (v39): payouts, heartbeats and the V8
		// format were enabled together in v40, so no real protocol combines them with legacy files.
		c := config.Consensus[protocol.ConsensusV39]
		c.ApprovedUpgrades = map[protocol.ConsensusVersion]uint64{}
		c.SeedLookback = a.SeedLookback
		c.SeedRefreshInterval = a.SeedRefreshInterval
		c.MaxBalLookback = a.MaxBalLookback
		c.MaxTxnLife = a.MaxTxnLife
		c.CatchpointLookback = a.CatchpointLookback
		c.StateProofInterval = 0
		c.RewardsRateRefreshInterval = a.RewardsRateRefreshInterval
		config.Consensus[c14ProtoC] = c

		// MakeLabel logs through logging.Base() at Info level; keep the test output readable.
		// go-deadlock's lock-order bookkeeping (a stack capture per Lock) is a debugging aid that
		// production nodes run without (config DeadlockDetection); it would dominate the run time.
		deadlock.Opts.Disable = true
		logging.Base().SetLevel(logging.Error)
		logging.Base().SetOutput(io.Discard)
	})
}

// ---------------------------------------------------------------------------------------------
// genesis

type c14Genesis struct {
	proto    protocol.ConsensusVersion
	balances bookkeeping.GenesisBalances
	addrs    []basics.Address // 8 funded accounts; [0],[1] online
	fresh    []basics.Address // 4 addresses that do not exist at genesis
	init     ledgercore.InitState
}

func c14FilledBytes(n int, seed byte) []byte {
	b := make([]byte, n)
	for i := range b {
		b[i] = seed + byte(i*7)
	}
	return b
}

func c14MakeGenesis(proto protocol.ConsensusVersion) *c14Genesis {
	c14RegisterProtos()
	g := &c14Genesis{proto: proto}
	sink, _ := basics.UnmarshalChecksumAddress("YTPRLJ2KK2JRFSZZNAF57F3K5Y2KCG36FZ5OSYLW776JJGAUW5JXJBBD7Q")
	pool, _ := basics.UnmarshalChecksumAddress("242H5OXHUEBYCGGWB3CQ6AZAMQB5TMCWJGHCGQOZPEIVQJKOO7NZXUXDQA")
	accts := map[basics.Address]basics.AccountData{}
	for i := 0; i < 12; i++ {
		var seed crypto.Seed
		seed[0] = byte(i + 1)
		seed[1] = 0xc1
		sec := crypto.GenerateSignatureSecrets(seed)
		addr := basics.Address(sec.SignatureVerifier)
		if i >= 8 {
			g.fresh = append(g.fresh, addr)
			continue
		}
		g.addrs = append(g.addrs, addr)
		ad := basics.AccountData{MicroAlgos: basics.MicroAlgos{Raw: 500_000_000_000 + uint64(i)*1_000_000}, Status: basics.Offline}
		if i < 2 {
			ad.Status = basics.Online
			ad.VoteFirstValid = 0
			ad.VoteLastValid = 10_000
			ad.VoteKeyDilution = 100
			copy(ad.VoteID[:], c14FilledBytes(len(ad.VoteID), byte(0x10+i)))
			copy(ad.SelectionID[:], c14FilledBytes(len(ad.SelectionID), byte(0x20+i)))
			copy(ad.StateProofID[:], c14FilledBytes(len(ad.StateProofID), byte(0x30+i)))
		}
		accts[addr] = ad
	}
	accts[sink] = basics.AccountData{MicroAlgos: basics.MicroAlgos{Raw: 1_000_000_000}, Status: basics.NotParticipating}
	accts[pool] = basics.AccountData{MicroAlgos: basics.MicroAlgos{Raw: 900_000_000_000_000}}
	g.balances = bookkeeping.MakeTimestampedGenesisBalances(accts, sink, pool, 1_700_000_000) // no wall clock in the genesis block
	var genHash crypto.Digest
	copy(genHash[:], c14FilledBytes(32, 0x77))
	blk, err := bookkeeping.MakeGenesisBlock(proto, g.balances, "verif-c14", genHash)
	if err != nil {
		panic(fmt.Sprintf("c14 genesis: %v", err))
	}
	g.init = ledgercore.InitState{Block: blk, Accounts: g.balances.Balances, GenesisHash: genHash}
	return g
}

// ---------------------------------------------------------------------------------------------
// logging: count warnings/errors emitted by the ledger of one node

type c14LogHook struct {
	mu   sync.Mutex
	msgs []string
	n    int
}

func (h *c14LogHook) Levels() []logrus.Level {
	return []logrus.Level{logrus.WarnLevel, logrus.ErrorLevel}
}

func (h *c14LogHook) Fire(e *logrus.Entry) error {
	h.mu.Lock()
	h.n++
	if len(h.msgs) < 20 {
		h.msgs = append(h.msgs, e.Level.String()+": "+e.Message)
	}
	h.mu.Unlock()
	return nil
}

func (h *c14LogHook) snapshot() (int, []string) {
	h.mu.Lock()
	defer h.mu.Unlock()
	return h.n, append([]string{}, h.msgs...)
}

func c14NewLogger() (logging.Logger, *c14LogHook) {
	lg := logging.NewLogger()
	lg.SetOutput(io.Discard)
	lg.SetLevel(logging.Warn)
	h := &c14LogHook{}
	lg.AddHook(h)
	return lg, h
}

// ---------------------------------------------------------------------------------------------
// the probe tracker: passive member of the tracker registry

type c14FlushRec struct {
	OldBase, NewBase basics.Round
	FirstStage       bool
	SecondStage      bool
}

type c14Probe struct {
	// block: while set, the probe (last tracker of the registry) answers produceCommittingTask
	// with nil, which makes trackerRegistry.scheduleCommit drop the commit it was about to
	// schedule: the node "lags with its flushes" (commit syncer busy / deferredCommits full).
	block     atomic.Bool
	mu        sync.Mutex
	committed basics.Round // highest round passed to committedUpTo
	cond      *sync.Cond
	flushes   []c14FlushRec
}

func c14NewProbe() *c14Probe {
	p := &c14Probe{}
	p.cond = sync.NewCond(&p.mu)
	return p
}

func (p *c14Probe) loadFromDisk(ledgerForTracker, basics.Round) error          { return nil }
func (p *c14Probe) newBlock(bookkeeping.Block, ledgercore.StateDelta)          {}
func (p *c14Probe) prepareCommit(*deferredCommitContext) error                 { return nil }
func (p *c14Probe) close()                                                     {}
func (p *c14Probe) handleUnorderedCommit(*deferredCommitContext)               {}
func (p *c14Probe) handlePrepareCommitError(*deferredCommitContext)            {}
func (p *c14Probe) handleCommitError(*deferredCommitContext)                   {}
func (p *c14Probe) postCommitUnlocked(context.Context, *deferredCommitContext) {}
func (p *c14Probe) clearCommitRoundRetry(context.Context, *deferredCommitContext) {
}
func (p *c14Probe) commitRound(context.Context, trackerdb.TransactionScope, *deferredCommitContext) error {
	return nil
}
func (p *c14Probe) produceCommittingTask(_ basics.Round, _ basics.Round, dcr *deferredCommitRange) *deferredCommitRange {
	if p.block.Load() {
		return nil
	}
	return dcr
}
func (p *c14Probe) committedUpTo(rnd basics.Round) (basics.Round, basics.Round) {
	p.mu.Lock()
	if rnd > p.committed {
		p.committed = rnd
	}
	p.cond.Broadcast()
	p.mu.Unlock()
	return rnd, 0
}
func (p *c14Probe) postCommit(_ context.Context, dcc *deferredCommitContext) {
	p.mu.Lock()
	p.flushes = append(p.flushes, c14FlushRec{OldBase: dcc.oldBase, NewBase: dcc.newBase(), FirstStage: dcc.catchpointFirstStage, SecondStage: dcc.catchpointSecondStage})
	p.mu.Unlock()
}
func (p *c14Probe) waitCommitted(rnd basics.Round) {
	p.mu.Lock()
	for p.committed < rnd {
		p.cond.Wait()
	}
	p.mu.Unlock()
}

// ---------------------------------------------------------------------------------------------
// node

type c14NodeCfg struct {
	// Stored: archival node that also writes catchpoint files; otherwise a non-archival node
	// that only tracks labels (CatchpointTracking=1).
	Stored          bool
	InMem           bool
	MaxAcctLookback uint64 // 0 = default (4)
	NoLRU           bool   // config DisableLedgerLRUCache (also avoids the 100k-entry cache buffers at every open/reload)
	// LateEnable: the node starts with catchpoint tracking switched off (CatchpointTracking=-1)
	// and gets the configuration above at its first restart (an operator enabling catchpoints):
	// the balances trie is then rebuilt from the account / kv tables by initializeHashes.
	LateEnable bool
}

type c14Node struct {
	gen    *c14Genesis
	cfg    config.Local
	ncfg   c14NodeCfg
	prefix string
	l      *Ledger
	probe  *c14Probe
	log    logging.Logger
	hook   *c14LogHook
	ops    int64 // executed operations (blocks added, reloads)
	// configuration to switch to at the next restart (LateEnable)
	cfgAfter *config.Local
}

// setTracking arranges for the NEXT restart to switch catchpoint tracking off
// (CatchpointTracking=-1, an operator disabling catchpoints) or back to the node's own
// catchpoint configuration.
func (n *c14Node) setTracking(on bool) {
	cfg := c14LocalConfig(n.ncfg)
	if !on {
		cfg.CatchpointTracking = -1
	}
	n.cfgAfter = &cfg
}

// tracking reports whether the node currently maintains the balances trie / labels.
func (n *c14Node) tracking() bool { return n.l.catchpoint.catchpointEnabled() }

func c14LocalConfig(nc c14NodeCfg) config.Local {
	cfg := config.GetDefaultLocal()
	cfg.CatchpointInterval = c14CatchpointInterval
	cfg.CatchpointFileHistoryLength = -1 // keep every catchpoint file
	if nc.Stored {
		cfg.Archival = true
		cfg.CatchpointTracking = 2
	} else {
		cfg.Archival = false
		cfg.CatchpointTracking = 1
	}
	if nc.MaxAcctLookback != 0 {
		cfg.MaxAcctLookback = nc.MaxAcctLookback
	}
	cfg.DisableLedgerLRUCache = nc.NoLRU
	// irrelevant for the property, expensive to allocate at every OpenLedger
	cfg.VerifiedTranscationsCacheSize = 64
	cfg.TxPoolSize = 64
	cfg.LedgerSynchronousMode = 0 // no fsync: crash consistency is not the subject here
	cfg.AccountsRebuildSynchronousMode = 0
	return cfg
}

// c14OpenNode opens a fresh ledger under dir (a directory the caller owns).
func c14OpenNode(gen *c14Genesis, dir string, name string, nc c14NodeCfg) (*c14Node, error) {
	c14RegisterProtos()
	n := &c14Node{gen: gen, ncfg: nc, cfg: c14LocalConfig(nc), prefix: filepath.Join(dir, name)}
	if nc.LateEnable {
		after := n.cfg
		n.cfgAfter = &after
		n.cfg.CatchpointTracking = -1
	}
	n.log, n.hook = c14NewLogger()
	n.probe = c14NewProbe()
	if err := n.open(); err != nil {
		return nil, err
	}
	return n, nil
}

func (n *c14Node) open() error {
	l, err := OpenLedger(n.log, n.prefix, n.ncfg.InMem, n.gen.init, n.cfg)
	if err != nil {
		return err
	}
	n.l = l
	n.attachProbe()
	return nil
}

func (n *c14Node) attachProbe() {
	n.l.trackerMu.Lock()
	n.l.trackers.mu.Lock()
	n.l.trackers.trackers = append(n.l.trackers.trackers, n.probe)
	n.l.trackers.mu.Unlock()
	n.l.trackerMu.Unlock()
	n.probe.mu.Lock()
	n.probe.committed = 0
	n.probe.mu.Unlock()
}

func (n *c14Node) close() {
	if n.l != nil {
		n.l.Close()
		n.l = nil
	}
}

// settle waits until the block queue syncer finished notifyCommit(rnd) and every commit it
// scheduled completed.
func (n *c14Node) settle(rnd basics.Round) {
	n.l.WaitForCommit(rnd)
	n.probe.waitCommitted(rnd)
	// notifyCommit holds trackerMu for the whole trackers.committedUpTo (incl. scheduleCommit)
	n.l.trackerMu.Lock()
	n.l.trackerMu.Unlock() //nolint:staticcheck
	n.l.trackers.waitAccountsWriting()
}

// addBlock feeds one block (re-evaluated by the real evaluator inside AddBlock). flush says
// whether trackerRegistry.scheduleCommit sees "balancesFlushInterval passed" for the commit
// attempt triggered by this block.
func (n *c14Node) addBlock(blk bookkeeping.Block, flush bool) error {
	tr := &n.l.trackers
	tr.mu.Lock()
	if flush {
		tr.lastFlushTime = time.Time{}
	} else {
		tr.lastFlushTime = time.Now().Add(1000 * time.Hour)
	}
	tr.mu.Unlock()
	if err := n.l.AddBlock(blk, agreement.Certificate{}); err != nil {
		return err
	}
	n.settle(blk.Round())
	atomic.AddInt64(&n.ops, 1)
	return nil
}

// addBatch feeds several consecutive blocks that the block queue persists in ONE batch (what
// happens when blocks arrive faster than the block database commits, e.g. during catchup):
// the syncer is stopped, the blocks are queued, the syncer is started again and handles the
// whole queue at once, so the trackers see a single committedUpTo(last).
func (n *c14Node) addBatch(blks []bookkeeping.Block, flush bool) error {
	if len(blks) == 1 {
		return n.addBlock(blks[0], flush)
	}
	tr := &n.l.trackers
	tr.mu.Lock()
	if flush {
		tr.lastFlushTime = time.Time{}
	} else {
		tr.lastFlushTime = time.Now().Add(1000 * time.Hour)
	}
	tr.mu.Unlock()
	n.l.blockQ.stop()
	var err error
	for _, blk := range blks {
		if err = n.l.AddBlock(blk, agreement.Certificate{}); err != nil {
			break
		}
		atomic.AddInt64(&n.ops, 1)
	}
	if err0 := n.l.blockQ.start(); err0 != nil && err == nil {
		err = err0
	}
	if err != nil {
		return err
	}
	n.settle(blks[len(blks)-1].Round())
	return nil
}

// crashCommit performs the commit that notifyCommit would schedule now, but only up to and
// including the tracker database transaction (prepareCommit of every tracker, commitRound of
// every tracker + UpdateAccountsRound inside one transaction - the first half of
// trackerRegistry.commitRound, like upstream's commitSyncPartial) and then stops: postCommit and
// postCommitUnlocked never run. Together with the restart that the caller performs next this is
// a process crash right after the commit became durable; the restarted catchpoint tracker has
// to finish first stages / catchpoints from the records in the database (recoverFromCrash).
// Returns false when there was nothing to commit.
func (n *c14Node) crashCommit() (bool, error) {
	l := n.l
	// The voters tracker loads its trees in background goroutines that read through
	// onlineAccounts; a reader that finds the database ahead of the in-memory round waits for
	// postCommit, which never comes after a crash (in a real crash the process is gone, here
	// the restart would wait for that goroutine forever). Let them finish first.
	l.acctsOnline.voters.loadWaitGroup.Wait()
	rnd, _ := l.LatestCommitted()
	tr := &l.trackers
	dcc := &deferredCommitContext{}
	// what notifyCommit -> trackerRegistry.committedUpTo -> scheduleCommit would do now
	l.trackerMu.Lock()
	maxLookback := basics.Round(0)
	for _, lt := range tr.trackers {
		if _, lookback := lt.committedUpTo(rnd); lookback > maxLookback {
			maxLookback = lookback
		}
	}
	dcc.deferredCommitRange = deferredCommitRange{lookback: maxLookback}
	was := n.probe.block.Swap(false)
	tr.mu.RLock()
	cdr := tr.produceCommittingTask(rnd, tr.dbRound, &dcc.deferredCommitRange)
	tr.mu.RUnlock()
	n.probe.block.Store(was)
	l.trackerMu.Unlock()
	if cdr == nil || cdr.offset == 0 {
		return false, nil
	}
	dcc.deferredCommitRange = *cdr
	// first half of trackerRegistry.commitRound (runs on the commit syncer, without trackerMu)
	dcc.flushTime = time.Now()
	newBase := dcc.newBase()
	tr.mu.RLock()
	for _, lt := range tr.trackers {
		if err := lt.prepareCommit(dcc); err != nil {
			tr.mu.RUnlock()
			return false, fmt.Errorf("prepareCommit: %v", err)
		}
	}
	tr.mu.RUnlock()
	// (same retry discipline as the real commitRound: a retried transaction must first drop the
	// in-memory trie changes of the failed attempt)
	err := tr.dbs.TransactionWithRetryClearFn(func(ctx context.Context, tx trackerdb.TransactionScope) error {
		aw, err := tx.MakeAccountsWriter()
		if err != nil {
			return err
		}
		for _, lt := range tr.trackers {
			if err := lt.commitRound(ctx, tx, dcc); err != nil {
				return err
			}
		}
		return aw.UpdateAccountsRound(newBase)
	}, func(ctx context.Context) {
		for _, lt := range tr.trackers {
			if lt, ok := lt.(trackerCommitLifetimeHandlers); ok {
				lt.clearCommitRoundRetry(ctx, dcc)
			}
		}
	})
	if err != nil {
		return false, fmt.Errorf("commit transaction: %v", err)
	}
	atomic.AddInt64(&n.ops, 1)
	return true, nil
}

// reload is Ledger.reloadLedger (the in-process restart used by catchup / tests).
func (n *c14Node) reload() error {
	// reloadLedger's replay decides by itself (from round numbers only) whether to flush and then
	// overwrites lastFlushTime, so no pinning is needed here. No notifyCommit is in flight:
	// every addBlock settles first.
	if n.cfgAfter != nil {
		n.cfg = *n.cfgAfter
		n.cfgAfter = nil
		n.l.trackerMu.Lock()
		n.l.cfg = n.cfg
		n.l.trackerMu.Unlock()
	}
	if err := n.l.reloadLedger(); err != nil {
		return err
	}
	n.attachProbe()
	n.l.trackers.waitAccountsWriting()
	atomic.AddInt64(&n.ops, 1)
	return nil
}

// reopen closes the ledger and opens it again from its files (a process restart). Only for
// file backed nodes.
func (n *c14Node) reopen() error {
	if n.ncfg.InMem {
		return errors.New("c14: reopen of an in-memory node")
	}
	n.l.Close()
	n.l = nil
	if n.cfgAfter != nil {
		n.cfg = *n.cfgAfter
		n.cfgAfter = nil
	}
	if err := n.open(); err != nil {
		return err
	}
	n.l.trackers.waitAccountsWriting()
	atomic.AddInt64(&n.ops, 1)
	return nil
}

func (n *c14Node) dbRound() basics.Round {
	return n.l.trackers.getDbRound()
}

// trieRoot returns the root of the persisted balances trie, read through a private Trie
// object (the tracker's own trie and its cache are not touched).
func (n *c14Node) trieRoot() (root crypto.Digest, err error) {
	err = n.l.trackerDBs.Transaction(func(ctx context.Context, tx trackerdb.TransactionScope) error {
		mc, err0 := tx.MakeMerkleCommitter(false)
		if err0 != nil {
			return err0
		}
		trie, err0 := merkletrie.MakeTrie(mc, trackerdb.TrieMemoryConfig)
		if err0 != nil {
			return err0
		}
		root, err0 = trie.RootHash()
		return err0
	})
	return
}

// firstStage returns the first stage record of accounts round r, if present.
func (n *c14Node) firstStage(r basics.Round) (trackerdb.CatchpointFirstStageInfo, bool, error) {
	crw, err := n.l.trackerDBs.MakeCatchpointReaderWriter()
	if err != nil {
		return trackerdb.CatchpointFirstStageInfo{}, false, err
	}
	return crw.SelectCatchpointFirstStageInfo(context.Background(), r)
}

// c14Section is one tar member of a catchpoint file.
type c14Section struct {
	Name string
	Data []byte
}

// c14ReadCatchpointFile decodes the gzip+tar container.
func c14ReadCatchpointFile(r io.Reader) ([]c14Section, error) {
	gz, err := gzip.NewReader(r)
	if err != nil {
		return nil, err
	}
	defer gz.Close()
	tr := tar.NewReader(gz)
	var out []c14Section
	for {
		h, err := tr.Next()
		if err == io.EOF {
			return out, nil
		}
		if err != nil {
			return nil, err
		}
		b, err := io.ReadAll(tr)
		if err != nil {
			return nil, err
		}
		out = append(out, c14Section{Name: h.Name, Data: b})
	}
}

// catchpointFile returns the sections of the catchpoint file of the given round
// (ErrNoEntry when the node has none).
func (n *c14Node) catchpointFile(round basics.Round) ([]c14Section, error) {
	s, err := n.l.GetCatchpointStream(round)
	if err != nil {
		return nil, err
	}
	defer s.Close()
	return c14ReadCatchpointFile(s)
}

func c14DecodeHeader(secs []c14Section) (CatchpointFileHeader, error) {
	for _, s := range secs {
		if s.Name == CatchpointContentFileName {
			var h CatchpointFileHeader
			err := protocol.Decode(s.Data, &h)
			return h, err
		}
	}
	return CatchpointFileHeader{}, errors.New("no content section")
}

// ---------------------------------------------------------------------------------------------
// histories

// c14AppSource: a small application with global / local / box operations selected by arg 0.
const c14AppSource = `
txn ApplicationID
bz ok
txn OnCompletion
int NoOp
!=
bnz ok
txn NumAppArgs
bz ok
txn ApplicationArgs 0
byte "bput"
==
bz n1
txn ApplicationArgs 1
txn ApplicationArgs 2
box_put
b ok
n1:
txn ApplicationArgs 0
byte "bdel"
==
bz n2
txn ApplicationArgs 1
box_del
pop
b ok
n2:
txn ApplicationArgs 0
byte "gset"
==
bz n3
txn ApplicationArgs 1
txn ApplicationArgs 2
app_global_put
b ok
n3:
txn ApplicationArgs 0
byte "gdel"
==
bz n4
txn ApplicationArgs 1
app_global_del
b ok
n4:
txn ApplicationArgs 0
byte "lset"
==
bz n5
txn Sender
txn ApplicationArgs 1
txn ApplicationArgs 2
app_local_put
b ok
n5:
txn ApplicationArgs 0
byte "ldel"
==
bz n6
txn Sender
txn ApplicationArgs 1
app_local_del
b ok
n6:
txn ApplicationArgs 0
byte "gint"
==
bz n7
txn ApplicationArgs 1
txn ApplicationArgs 2
btoi
app_global_put
b ok
n7:
txn ApplicationArgs 0
byte "bres"
==
bz bad
txn ApplicationArgs 1
txn ApplicationArgs 2
btoi
box_resize
b ok
bad:
err
ok:
int 1
`

type c14History struct {
	Name   string
	Proto  protocol.ConsensusVersion
	Gen    *c14Genesis
	Blocks []bookkeeping.Block // Blocks[i] is round i+1
	Txns   int
}

func (h *c14History) rounds() int { return len(h.Blocks) }

// c14Builder builds a history on a generator ledger with the real BlockEvaluator.
type c14Builder struct {
	t     testing.TB
	gen   *c14Genesis
	l     *Ledger
	h     *c14History
	notes int
}

func c14NewBuilder(t testing.TB, name string, proto protocol.ConsensusVersion, dir string) *c14Builder {
	gen := c14MakeGenesis(proto)
	cfg := config.GetDefaultLocal()
	cfg.Archival = true
	cfg.DisableLedgerLRUCache = true
	cfg.VerifiedTranscationsCacheSize = 64
	cfg.TxPoolSize = 64
	lg, _ := c14NewLogger()
	l, err := OpenLedger(lg, filepath.Join(dir, "gen-"+name), true, gen.init, cfg)
	if err != nil {
		t.Fatalf("c14 builder %s: OpenLedger: %v", name, err)
	}
	return &c14Builder{t: t, gen: gen, l: l, h: &c14History{Name: name, Proto: proto, Gen: gen}}
}

// block evaluates the transactions into the next block; returns the ApplyData of each.
func (b *c14Builder) block(txs ...*txntest.Txn) []transactions.SignedTxnInBlock {
	ev := nextBlock(b.t, b.l)
	for _, tx := range txs {
		if tx.Note == nil {
			b.notes++
			tx.Note = fmt.Sprintf("n%d", b.notes)
		}
		txn(b.t, b.l, ev, tx)
	}
	vb := endBlock(b.t, b.l, ev)
	b.h.Blocks = append(b.h.Blocks, vb.Block())
	b.h.Txns += len(txs)
	return vb.Block().Payset
}

func (b *c14Builder) empty(n int) {
	for i := 0; i < n; i++ {
		b.block()
	}
}

func (b *c14Builder) finish() *c14History {
	// read the blocks back from the generator (exactly what a peer would serve)
	for i := range b.h.Blocks {
		blk, err := b.l.Block(basics.Round(i + 1))
		if err != nil {
			b.t.Fatalf("c14 builder: Block(%d): %v", i+1, err)
		}
		b.h.Blocks[i] = blk
	}
	b.l.Close()
	return b.h
}

func (b *c14Builder) createApp(sender basics.Address) basics.AppIndex {
	ps := b.block(&txntest.Txn{Type: "appl", Sender: sender, ApprovalProgram: c14AppSource, ClearStateProgram: "int 1",
		GlobalStateSchema: basics.StateSchema{NumUint: 2, NumByteSlice: 2}, LocalStateSchema: basics.StateSchema{NumUint: 1, NumByteSlice: 2}})
	return ps[0].ApplicationID
}

func c14Call(sender basics.Address, app basics.AppIndex, args ...string) *txntest.Txn {
	tx := &txntest.Txn{Type: "appl", Sender: sender, ApplicationID: app}
	for _, a := range args {
		tx.ApplicationArgs = append(tx.ApplicationArgs, []byte(a))
	}
	if len(args) >= 2 && strings.HasPrefix(args[0], "b") {
		tx.Boxes = []transactions.BoxRef{{Index: 0, Name: []byte(args[1])}}
	}
	return tx
}

func c14Pay(from, to basics.Address, amt uint64) *txntest.Txn {
	return &txntest.Txn{Type: "pay", Sender: from, Receiver: to, Amount: amt}
}

func c14Axfer(asset basics.AssetIndex, from, to basics.Address, amt uint64) *txntest.Txn {
	return &txntest.Txn{Type: "axfer", Sender: from, AssetReceiver: to, XferAsset: asset, AssetAmount: amt}
}

func c14KeyregOnline(addr basics.Address, tag byte) *txntest.Txn {
	tx := &txntest.Txn{Type: "keyreg", Sender: addr, VoteKeyDilution: 50, VoteLast: 5000}
	copy(tx.VotePK[:], c14FilledBytes(len(tx.VotePK), tag))
	copy(tx.SelectionPK[:], c14FilledBytes(len(tx.SelectionPK), tag+1))
	copy(tx.StateProofPK[:], c14FilledBytes(len(tx.StateProofPK), tag+2))
	return tx
}

// c14Variant parametrises the "mixed" history so that C15(b) can build pairs of histories
// whose final states differ in exactly one entry.
type c14Variant struct {
	BoxName   string
	BoxValue  string
	XferAmt   uint64
	GlobalVal string
	LocalVal  string
	PayAmt    uint64
	Rounds    int
}

func c14DefaultVariant() c14Variant {
	return c14Variant{BoxName: "ab", BoxValue: "c", XferAmt: 5, GlobalVal: "gv1", LocalVal: "lv1", PayAmt: 1000, Rounds: 24}
}

// c14HistMixed: accounts, one asset, one app with global/local/box state; every kind of entry
// is modified in consecutive rounds (so lazy flushes see the same entry modified twice in one
// commit range) and some entries come and go.
func c14HistMixed(t testing.TB, dir string, name string, proto protocol.ConsensusVersion, v c14Variant) *c14History {
	b := c14NewBuilder(t, name, proto, dir)
	a := b.gen.addrs
	// r1
	ps := b.block(c14Pay(a[2], a[3], v.PayAmt),
		&txntest.Txn{Type: "acfg", Sender: a[1], AssetParams: basics.AssetParams{Total: 1000, UnitName: "u1", AssetName: "asset1", Manager: a[1], Reserve: a[1], Freeze: a[1], Clawback: a[1]}})
	asa := ps[1].ConfigAsset
	// r2
	app := b.createApp(a[0])
	// r3
	b.block(c14Pay(a[0], app.Address(), 2_000_000), c14Axfer(asa, a[2], a[2], 0),
		&txntest.Txn{Type: "appl", Sender: a[2], ApplicationID: app, OnCompletion: transactions.OptInOC})
	// r4
	b.block(c14Axfer(asa, a[1], a[2], v.XferAmt), c14Call(a[0], app, "gset", "k1", v.GlobalVal))
	// r5
	b.block(c14Call(a[0], app, "bput", v.BoxName, v.BoxValue), c14Call(a[2], app, "lset", "l1", v.LocalVal))
	// r6: same entries again
	b.block(c14Axfer(asa, a[1], a[2], 3), c14Call(a[3], app, "gint", "cnt", "\x00\x00\x00\x00\x00\x00\x00\x07"))
	// r7
	b.block()
	// r8
	b.block(c14KeyregOnline(a[3], 0x51), c14Pay(a[4], b.gen.fresh[0], 300_000))
	// r9
	b.block(c14Axfer(asa, a[2], a[1], 2), c14Call(a[0], app, "bput", "x", "yz"))
	// r10
	b.block(c14Call(a[0], app, "bput", "tmp", "12345"), c14Pay(a[4], b.gen.fresh[1], 250_000))
	// r11: tmp box deleted again; fresh[1] closes back
	b.block(c14Call(a[0], app, "bdel", "tmp"), &txntest.Txn{Type: "pay", Sender: b.gen.fresh[1], Receiver: a[4], Amount: 0, CloseRemainderTo: a[4]})
	// r12
	b.block(&txntest.Txn{Type: "afrz", Sender: a[1], FreezeAccount: a[2], FreezeAsset: asa, AssetFrozen: true})
	// r13: clawback
	b.block(&txntest.Txn{Type: "axfer", Sender: a[1], AssetSender: a[2], AssetReceiver: a[1], XferAsset: asa, AssetAmount: 1})
	// r14
	b.block(&txntest.Txn{Type: "pay", Sender: a[5], Receiver: a[5], Amount: 0, RekeyTo: a[6]})
	// r15
	b.block(c14Call(a[2], app, "lset", "l2", "second"), c14Pay(a[6], a[7], 77))
	// r16
	b.block(&txntest.Txn{Type: "keyreg", Sender: a[3]}) // offline
	for len(b.h.Blocks) < v.Rounds {
		r := len(b.h.Blocks) + 1
		if r%3 == 0 {
			b.block()
		} else {
			b.block(c14Pay(a[r%8], a[(r+3)%8], uint64(r)))
		}
	}
	return b.finish()
}

// c14HistBoxes: KV churn: boxes created, replaced, resized, deleted and re-created, several
// times within a few rounds.
func c14HistBoxes(t testing.TB, dir string, proto protocol.ConsensusVersion, rounds int) *c14History {
	b := c14NewBuilder(t, "boxes", proto, dir)
	a := b.gen.addrs
	app := b.createApp(a[0])                                                          // r1
	b.block(c14Pay(a[0], app.Address(), 5_000_000))                                   // r2
	b.block(c14Call(a[1], app, "bput", "a", "1"))                                     // r3
	b.block(c14Call(a[1], app, "bput", "b", "22"))                                    // r4
	b.block(c14Call(a[2], app, "bput", "a", "2"))                                     // r5 replace
	b.block(c14Call(a[2], app, "bput", "a", "3"))                                     // r6 replace again
	b.block(c14Call(a[2], app, "bdel", "b"))                                          // r7
	b.block(c14Call(a[3], app, "bput", "b", "22"))                                    // r8 re-created with the old content
	b.block(c14Call(a[3], app, "bres", "a", "\x00\x00\x00\x00\x00\x00\x00\x04"))      // r9 resize
	b.block(c14Call(a[3], app, "bput", "c", ""))                                      // r10 empty box
	b.block(c14Call(a[1], app, "bput", "t", "x"), c14Call(a[2], app, "bdel", "t"))    // r11 came and went in one block
	b.block(c14Call(a[1], app, "bput", "t2", "x"))                                    // r12
	b.block(c14Call(a[1], app, "bdel", "t2"), c14Call(a[4], app, "bput", "e", ""))    // r13 t2 came and went across blocks; zero-length box e created
	b.block(c14Call(a[1], app, "bput", "a", "zzzz"), c14Call(a[4], app, "bdel", "e")) // r14 zero-length box deleted in the next round
	b.block(c14Call(a[1], app, "bdel", "c"))                                          // r15
	for len(b.h.Blocks) < rounds {
		r := len(b.h.Blocks) + 1
		switch r % 4 {
		case 0:
			b.block(c14Call(a[r%8], app, "bput", "r", fmt.Sprintf("%04d", r)))
		case 1:
			b.block()
		case 2:
			b.block(c14Call(a[r%8], app, "bput", fmt.Sprintf("k%d", r), "v"))
		default:
			b.block(c14Call(a[r%8], app, "bdel", fmt.Sprintf("k%d", r-1)))
		}
	}
	return b.finish()
}

// c14HistAssets: two assets; holdings modified in consecutive rounds, opt-in/close-out,
// an asset created and destroyed within a few rounds.
func c14HistAssets(t testing.TB, dir string, proto protocol.ConsensusVersion, rounds int) *c14History {
	b := c14NewBuilder(t, "assets", proto, dir)
	a := b.gen.addrs
	mk := func(s basics.Address, name string, total uint64) *txntest.Txn {
		return &txntest.Txn{Type: "acfg", Sender: s, AssetParams: basics.AssetParams{Total: total, UnitName: name, AssetName: name, Manager: s, Reserve: s, Freeze: s, Clawback: s}}
	}
	ps := b.block(mk(a[0], "A", 1_000_000), mk(a[1], "B", 500)) // r1
	asA, asB := ps[0].ConfigAsset, ps[1].ConfigAsset
	b.block(c14Axfer(asA, a[2], a[2], 0), c14Axfer(asA, a[3], a[3], 0), c14Axfer(asB, a[2], a[2], 0)) // r2
	b.block(c14Axfer(asA, a[0], a[2], 10))                                                            // r3
	b.block(c14Axfer(asA, a[0], a[2], 10))                                                            // r4
	b.block(c14Axfer(asA, a[2], a[3], 5))                                                             // r5
	b.block(c14Axfer(asA, a[3], a[2], 5))                                                             // r6 a3 back to 0
	b.block(c14Axfer(asB, a[1], a[2], 100))                                                           // r7
	ps = b.block(mk(a[4], "T", 7))                                                                    // r8 temp asset
	asT := ps[0].ConfigAsset
	b.block(&txntest.Txn{Type: "acfg", Sender: a[4], ConfigAsset: asT})                                                                                              // r9 destroyed
	b.block(&txntest.Txn{Type: "axfer", Sender: a[3], AssetReceiver: a[0], XferAsset: asA, AssetCloseTo: a[0]})                                                      // r10 close-out
	b.block(c14Axfer(asA, a[3], a[3], 0))                                                                                                                            // r11 opt-in again
	b.block(&txntest.Txn{Type: "acfg", Sender: a[0], ConfigAsset: asA, AssetParams: basics.AssetParams{Manager: a[5], Reserve: a[0], Freeze: a[0], Clawback: a[0]}}) // r12 reconfigure
	b.block(&txntest.Txn{Type: "afrz", Sender: a[0], FreezeAccount: a[2], FreezeAsset: asA, AssetFrozen: true})                                                      // r13
	b.block(&txntest.Txn{Type: "afrz", Sender: a[0], FreezeAccount: a[2], FreezeAsset: asA, AssetFrozen: false})                                                     // r14 back
	for len(b.h.Blocks) < rounds {
		r := len(b.h.Blocks) + 1
		if r%2 == 0 {
			b.block(c14Axfer(asA, a[0], a[2], uint64(r)), c14Axfer(asB, a[1], a[2], 1))
		} else {
			b.block(c14Axfer(asA, a[2], a[0], uint64(r-1)))
		}
	}
	return b.finish()
}

// c14HistAccounts: account creation / closing / re-creation, key registration on and off,
// rekeying, empty blocks; online stake changes in consecutive rounds.
func c14HistAccounts(t testing.TB, dir string, proto protocol.ConsensusVersion, rounds int) *c14History {
	return c14HistAccountsNamed(t, dir, "accounts", proto, rounds)
}

func c14HistAccountsNamed(t testing.TB, dir string, name string, proto protocol.ConsensusVersion, rounds int) *c14History {
	b := c14NewBuilder(t, name, proto, dir)
	a := b.gen.addrs
	f := b.gen.fresh
	b.block(c14Pay(a[2], f[0], 1_000_000), c14Pay(a[2], f[1], 1_000_000))                               // r1
	b.block(c14KeyregOnline(a[2], 0x61))                                                                // r2
	b.block(c14Pay(a[0], a[2], 5_000_000))                                                              // r3 online stake changes
	b.block(c14Pay(a[2], a[0], 1_000_000))                                                              // r4
	b.block(&txntest.Txn{Type: "pay", Sender: f[0], Receiver: a[3], Amount: 1, CloseRemainderTo: a[3]}) // r5 closed
	b.block(c14Pay(a[3], f[0], 200_000))                                                                // r6 re-created
	b.block(&txntest.Txn{Type: "keyreg", Sender: a[2]})                                                 // r7 offline
	b.block(c14KeyregOnline(a[2], 0x71))                                                                // r8 online again, other keys
	b.block()                                                                                           // r9
	b.block(&txntest.Txn{Type: "pay", Sender: a[4], Receiver: a[4], Amount: 0, RekeyTo: a[5]})          // r10
	b.block(c14KeyregOnline(f[1], 0x81))                                                                // r11 a fresh account goes online
	b.block(&txntest.Txn{Type: "keyreg", Sender: a[1]})                                                 // r12 genesis online account goes offline
	b.block(&txntest.Txn{Type: "keyreg", Sender: a[6], Nonparticipation: true})                         // r13
	for len(b.h.Blocks) < rounds {
		r := len(b.h.Blocks) + 1
		switch r % 3 {
		case 0:
			b.block()
		case 1:
			b.block(c14Pay(a[0], a[2], uint64(1000*r)))
		default:
			b.block(c14Pay(a[2], f[1], uint64(10*r)), c14Pay(f[1], a[7], 5))
		}
	}
	return b.finish()
}

// c14HistApps: two applications, global and local state churn, opt-in / close-out / clear,
// application deletion.
func c14HistApps(t testing.TB, dir string, proto protocol.ConsensusVersion, rounds int) *c14History {
	b := c14NewBuilder(t, "apps", proto, dir)
	a := b.gen.addrs
	app1 := b.createApp(a[0]) // r1
	app2 := b.createApp(a[1]) // r2
	optin := func(s basics.Address, app basics.AppIndex) *txntest.Txn {
		return &txntest.Txn{Type: "appl", Sender: s, ApplicationID: app, OnCompletion: transactions.OptInOC}
	}
	b.block(optin(a[2], app1), optin(a[3], app1), optin(a[2], app2))                                                       // r3
	b.block(c14Call(a[2], app1, "lset", "k", "v1"), c14Call(a[0], app1, "gset", "g", "1"))                                 // r4
	b.block(c14Call(a[2], app1, "lset", "k", "v2"), c14Call(a[0], app1, "gset", "g", "2"))                                 // r5
	b.block(c14Call(a[2], app1, "ldel", "k"), c14Call(a[0], app1, "gdel", "g"))                                            // r6
	b.block(c14Call(a[2], app1, "lset", "k", "v1"), c14Call(a[0], app1, "gset", "g", "1"))                                 // r7 back to r4's values
	b.block(&txntest.Txn{Type: "appl", Sender: a[3], ApplicationID: app1, OnCompletion: transactions.CloseOutOC})          // r8
	b.block(&txntest.Txn{Type: "appl", Sender: a[2], ApplicationID: app2, OnCompletion: transactions.ClearStateOC})        // r9
	b.block(c14Call(a[4], app2, "gint", "n", "\x00\x00\x00\x00\x00\x00\x00\x01"))                                          // r10
	b.block(c14Call(a[4], app2, "gint", "n", "\x00\x00\x00\x00\x00\x00\x00\x02"))                                          // r11
	b.block(&txntest.Txn{Type: "appl", Sender: a[1], ApplicationID: app2, OnCompletion: transactions.DeleteApplicationOC}) // r12
	b.block(optin(a[3], app1))                                                                                             // r13 again
	for len(b.h.Blocks) < rounds {
		r := len(b.h.Blocks) + 1
		if r%2 == 0 {
			b.block(c14Call(a[3], app1, "lset", "k", fmt.Sprintf("r%d", r)), c14Call(a[5], app1, "gset", "h", fmt.Sprintf("r%d", r)))
		} else {
			b.block(c14Call(a[3], app1, "ldel", "k"))
		}
	}
	return b.finish()
}

// c14HistQuiet: mostly empty blocks; rewards level moves, a payment now and then.
func c14HistQuiet(t testing.TB, dir string, proto protocol.ConsensusVersion, rounds int) *c14History {
	b := c14NewBuilder(t, "quiet", proto, dir)
	a := b.gen.addrs
	for len(b.h.Blocks) < rounds {
		r := len(b.h.Blocks) + 1
		if r%5 == 2 {
			b.block(c14Pay(a[3], a[4], uint64(r)))
		} else {
			b.block()
		}
	}
	return b.finish()
}

// ---------------------------------------------------------------------------------------------
// running a history on a node

// c14Obs is what one run of a history on one node made observable.
type c14Obs struct {
	Labels      map[basics.Round]string                             // catchpoint round -> label
	FirstStage  map[basics.Round]trackerdb.CatchpointFirstStageInfo // accounts round -> record
	Roots       map[basics.Round]crypto.Digest                      // tracker db round -> balances trie root
	Flushes     []c14FlushRec
	LogProblems int
	LogMsgs     []string
}

func c14NewObs() *c14Obs {
	return &c14Obs{Labels: map[basics.Round]string{}, FirstStage: map[basics.Round]trackerdb.CatchpointFirstStageInfo{}, Roots: map[basics.Round]crypto.Digest{}}
}

// observe records everything visible now.
func (n *c14Node) observe(o *c14Obs, lastSeenDB *basics.Round) error {
	if lbl := n.l.GetLastCatchpointLabel(); lbl != "" {
		r, _, err := ledgercore.ParseCatchpointLabel(lbl)
		if err != nil {
			return fmt.Errorf("unparsable label %q: %v", lbl, err)
		}
		if old, ok := o.Labels[r]; ok && old != lbl {
			return fmt.Errorf("label of round %d changed within one run: %s -> %s", r, old, lbl)
		}
		o.Labels[r] = lbl
	}
	db := n.dbRound()
	if !n.tracking() {
		return nil
	}
	if db != *lastSeenDB || len(o.Roots) == 0 {
		root, err := n.trieRoot()
		if err != nil {
			return fmt.Errorf("trie root at db round %d: %v", db, err)
		}
		o.Roots[db] = root
		*lastSeenDB = db
		proto := config.Consensus[n.gen.proto]
		for r := basics.Round(0); r <= db; r++ {
			if (uint64(r)+proto.CatchpointLookback)%c14CatchpointInterval != 0 {
				continue
			}
			if _, ok := o.FirstStage[r]; ok {
				continue
			}
			info, ok, err := n.firstStage(r)
			if err != nil {
				return err
			}
			if ok {
				o.FirstStage[r] = info
			}
		}
	}
	return nil
}

// c14Plan describes one run: the flush decision per round and where to restart.
type c14Plan struct {
	Flush     []bool // Flush[i]: decision for round i+1
	RestartAt int    // restart after this round (0 = never)
	Reopen    bool   // restart by close+open instead of reloadLedger (file backed only)
	// rounds BurstStart .. BurstStart+BurstLen-1 are persisted by the block queue as one batch
	// (0 = every block on its own); the flush decision of the last round of the batch applies.
	BurstStart, BurstLen int
	// Crash: after round RestartAt the pending commit is executed up to the database transaction
	// only (crashCommit) and the node restarts. During the CrashLag rounds before (and
	// including) RestartAt the node does not commit at all, so the crashed commit covers a
	// longer range.
	Crash    bool
	CrashLag int
	// tracking pause: restart with catchpoint tracking switched OFF after round PauseAt, restart
	// with tracking ON again after round ResumeAt (0 = no pause). While paused the node keeps
	// flushing according to Flush; the balances trie is not maintained and must be rebuilt from
	// the tables at the resume.
	PauseAt, ResumeAt int
}

// c14Run replays the history on the node according to the plan.
func c14Run(n *c14Node, h *c14History, p c14Plan) (*c14Obs, error) {
	return c14RunHook(n, h, p, nil)
}

// c14RunHook is c14Run with a callback after every step (step = rounds added so far).
func c14RunHook(n *c14Node, h *c14History, p c14Plan, hook func(step int, restarted bool, o *c14Obs)) (*c14Obs, error) {
	o := c14NewObs()
	restarted := false
	last := basics.Round(0)
	if err := n.observe(o, &last); err != nil {
		return o, err
	}
	for i := 0; i < len(h.Blocks); i++ {
		batch := h.Blocks[i : i+1]
		if p.BurstLen > 1 && i+1 == p.BurstStart {
			end := min(i+p.BurstLen, len(h.Blocks))
			if p.RestartAt > i+1 && p.RestartAt < end {
				end = p.RestartAt
			}
			batch = h.Blocks[i:end]
			i = end - 1
		}
		fl := true
		if i < len(p.Flush) {
			fl = p.Flush[i]
		}
		if p.Crash && i+1 > p.RestartAt-p.CrashLag && i+1 <= p.RestartAt {
			n.probe.block.Store(true)
		}
		if err := n.addBatch(batch, fl); err != nil {
			return o, fmt.Errorf("AddBlock(%d..%d): %v", batch[0].Round(), i+1, err)
		}
		if err := n.observe(o, &last); err != nil {
			return o, err
		}
		if hook != nil {
			hook(i+1, restarted, o)
		}
		if p.ResumeAt > p.PauseAt && (i+1 == p.PauseAt || i+1 == p.ResumeAt) {
			n.setTracking(i+1 == p.ResumeAt)
			var err error
			if p.Reopen {
				err = n.reopen()
			} else {
				err = n.reload()
			}
			if err != nil {
				return o, fmt.Errorf("restart (tracking pause) after round %d: %v", i+1, err)
			}
			restarted = true
			if err := n.observe(o, &last); err != nil {
				return o, err
			}
			if hook != nil {
				hook(i+1, restarted, o)
			}
		}
		if p.RestartAt == i+1 {
			var err error
			if p.Crash {
				if _, err = n.crashCommit(); err != nil {
					return o, fmt.Errorf("crash commit after round %d: %v", i+1, err)
				}
				n.probe.block.Store(false)
			}
			if p.Reopen {
				err = n.reopen()
			} else {
				err = n.reload()
			}
			if err != nil {
				return o, fmt.Errorf("restart after round %d: %v", i+1, err)
			}
			restarted = true
			if err := n.observe(o, &last); err != nil {
				return o, err
			}
			if hook != nil {
				hook(i+1, restarted, o)
			}
		}
	}
	// catchpoint files (stored nodes): the header carries the label of its round, which also
	// recovers labels that were never the *last* label at an observation point.
	if n.ncfg.Stored {
		for r := basics.Round(c14CatchpointInterval); int(r) <= len(h.Blocks); r += c14CatchpointInterval {
			secs, err := n.catchpointFile(r)
			if err != nil {
				var ne ledgercore.ErrNoEntry
				if errors.As(err, &ne) {
					continue
				}
				return o, fmt.Errorf("catchpoint file %d: %v", r, err)
			}
			hdr, err := c14DecodeHeader(secs)
			if err != nil {
				return o, fmt.Errorf("catchpoint file %d header: %v", r, err)
			}
			if old, ok := o.Labels[r]; ok && old != hdr.Catchpoint {
				return o, fmt.Errorf("catchpoint file %d carries label %s but the tracker announced %s", r, hdr.Catchpoint, old)
			}
			o.Labels[r] = hdr.Catchpoint
		}
	}
	n.probe.mu.Lock()
	o.Flushes = append(o.Flushes, n.probe.flushes...)
	n.probe.mu.Unlock()
	o.LogProblems, o.LogMsgs = n.hook.snapshot()
	return o, nil
}

func c14SortedRounds[V any](m map[basics.Round]V) []basics.Round {
	out := make([]basics.Round, 0, len(m))
	for r := range m {
		out = append(out, r)
	}
	sort.Slice(out, func(i, j int) bool { return out[i] < out[j] })
	return out
}

// ---------------------------------------------------------------------------------------------
// restoring a catchpoint file (what catchup.CatchpointCatchupService does, on the real accessor)

// c14BlockSource is "the network": serves authentic blocks.
type c14BlockSource func(basics.Round) (bookkeeping.Block, bool)

type c14RestoreResult struct {
	Stage string // stage that rejected ("" = accepted up to and including VerifyCatchpoint)
	Err   error
}

// c14Stage feeds sections + label through the accessor up to VerifyCatchpoint +
// StoreBalancesRound + StoreFirstBlock (the latter two only when store is set). It does not
// adopt anything yet.
func c14Stage(l *Ledger, label string, secs []c14Section, src c14BlockSource, store bool) (acc CatchpointCatchupAccessor, topBlk bookkeeping.Block, res c14RestoreResult) {
	ctx := context.Background()
	acc = MakeCatchpointCatchupAccessor(l, l.log)
	fail := func(stage string, err error) (CatchpointCatchupAccessor, bookkeeping.Block, c14RestoreResult) {
		return acc, topBlk, c14RestoreResult{Stage: stage, Err: err}
	}
	if err := acc.ResetStagingBalances(ctx, true); err != nil {
		return fail("harness:ResetStagingBalances", err)
	}
	if err := acc.SetLabel(ctx, label); err != nil {
		return fail("harness:SetLabel", err)
	}
	var progress CatchpointCatchupAccessorProgress
	for _, s := range secs {
		if len(s.Data) < 1 {
			// ledgerFetcher.getPeerLedger refuses tar members of size < 1
			return fail("fetcher:empty-section", fmt.Errorf("section %s has size %d", s.Name, len(s.Data)))
		}
		if err := acc.ProcessStagingBalances(ctx, s.Name, s.Data, &progress); err != nil {
			return fail("ProcessStagingBalances", err)
		}
	}
	if err := acc.BuildMerkleTrie(ctx, nil); err != nil {
		return fail("BuildMerkleTrie", err)
	}
	rnd, err := acc.GetCatchupBlockRound(ctx)
	if err != nil {
		return fail("GetCatchupBlockRound", err)
	}
	blk, ok := src(rnd)
	if !ok {
		return fail("fetchBlock", fmt.Errorf("the network has no block %d", rnd))
	}
	topBlk = blk
	if err := acc.VerifyCatchpoint(ctx, &blk); err != nil {
		return fail("VerifyCatchpoint", err)
	}
	if !store {
		return acc, topBlk, c14RestoreResult{}
	}
	if err := acc.StoreBalancesRound(ctx, &blk); err != nil {
		return fail("StoreBalancesRound", err)
	}
	if err := acc.StoreFirstBlock(ctx, &blk, &agreement.Certificate{}); err != nil {
		return fail("StoreFirstBlock", err)
	}
	return acc, topBlk, c14RestoreResult{}
}

// c14Adopt downloads the preceding blocks like processStageBlocksDownload and completes the
// catchup (switching tables and reloading the ledger).
func c14Adopt(acc CatchpointCatchupAccessor, top bookkeeping.Block, src c14BlockSource) error {
	ctx := context.Background()
	proto := config.Consensus[top.CurrentProtocol]
	lookback := max(proto.MaxTxnLife+proto.DeeperBlockHeaderHistory+proto.CatchpointLookback, proto.MaxBalLookback)
	if proto.StateProofInterval != 0 {
		// lookbackForStateproofsSupport: keep everything since the oldest expected state proof
		nxt := top.StateProofTracking[protocol.StateProofBasic].StateProofNextRound
		low := nxt.SubSaturate(basics.Round(proto.StateProofInterval)).SubSaturate(basics.Round(proto.StateProofInterval)).SubSaturate(basics.Round(proto.StateProofVotersLookback))
		if lb := uint64(top.Round().SubSaturate(low)); lb > lookback {
			lookback = lb
		}
	}
	if lookback >= uint64(top.Round()) {
		lookback = uint64(top.Round() - 1)
	}
	prev := top
	for i := uint64(1); i <= lookback; i++ {
		r := top.Round() - basics.Round(i)
		blk, ok := src(r)
		if !ok {
			return fmt.Errorf("the network has no block %d", r)
		}
		if prev.BlockHeader.Branch != blk.Hash() {
			return fmt.Errorf("block %d does not chain", r)
		}
		if err := acc.StoreBlock(ctx, &blk, &agreement.Certificate{}); err != nil {
			return fmt.Errorf("StoreBlock(%d): %v", r, err)
		}
		prev = blk
	}
	return acc.CompleteCatchup(ctx)
}

// c14StateDump is a canonical rendering of the tracker database tables that make up "the
// state" (accounts, resources, kv, totals, online accounts, online round params).
func c14StateDump(l *Ledger) (map[string]string, error) {
	out := map[string]string{}
	err := l.trackerDBs.Snapshot(func(ctx context.Context, tx trackerdb.SnapshotScope) error {
		ar, err := tx.MakeAccountsReader()
		if err != nil {
			return err
		}
		rnd, err := ar.AccountsRound()
		if err != nil {
			return err
		}
		out["round"] = fmt.Sprint(rnd)
		tot, err := ar.AccountsTotals(ctx, false)
		if err != nil {
			return err
		}
		out["totals"] = fmt.Sprintf("%x", protocol.EncodeReflect(&tot))
		it := tx.MakeEncodedAccountsBatchIter()
		for {
			bals, _, err := it.Next(ctx, 1000, 100000)
			if err != nil {
				return err
			}
			if len(bals) == 0 {
				break
			}
			for _, b := range bals {
				k := fmt.Sprintf("acct/%x", b.Address[:])
				out[k] += fmt.Sprintf("[%x]", []byte(b.AccountData))
				var cidxs []uint64
				for c := range b.Resources {
					cidxs = append(cidxs, c)
				}
				sort.Slice(cidxs, func(i, j int) bool { return cidxs[i] < cidxs[j] })
				for _, c := range cidxs {
					out[fmt.Sprintf("res/%x/%d", b.Address[:], c)] = fmt.Sprintf("%x", []byte(b.Resources[c]))
				}
			}
		}
		it.Close()
		kvs, err := tx.MakeKVsIter(ctx)
		if err != nil {
			return err
		}
		for kvs.Next() {
			k, v, err := kvs.KeyValue()
			if err != nil {
				return err
			}
			out[fmt.Sprintf("kv/%x", k)] = fmt.Sprintf("%x", v)
		}
		kvs.Close()
		oa, err := tx.MakeOrderedOnlineAccountsIter(ctx, false, 0)
		if err != nil {
			return err
		}
		for oa.Next() {
			item, err := oa.GetItem()
			if err != nil {
				return err
			}
			out[fmt.Sprintf("online/%x/%d", item.Address[:], item.UpdateRound)] = fmt.Sprintf("%x", protocol.Encode(item))
		}
		oa.Close()
		orp, err := tx.MakeOnlineRoundParamsIter(ctx, false, 0)
		if err != nil {
			return err
		}
		for orp.Next() {
			item, err := orp.GetItem()
			if err != nil {
				return err
			}
			out[fmt.Sprintf("orp/%d", item.Round)] = fmt.Sprintf("%x", protocol.Encode(item))
		}
		orp.Close()
		return nil
	})
	return out, err
}

func c14DiffDumps(a, b map[string]string, skipPrefix ...string) []string {
	var d []string
	skip := func(k string) bool {
		for _, p := range skipPrefix {
			if strings.HasPrefix(k, p) {
				return true
			}
		}
		return false
	}
	for k, v := range a {
		if skip(k) {
			continue
		}
		if w, ok := b[k]; !ok {
			d = append(d, "-"+k)
		} else if w != v {
			d = append(d, "~"+k)
		}
	}
	for k := range b {
		if skip(k) {
			continue
		}
		if _, ok := a[k]; !ok {
			d = append(d, "+"+k)
		}
	}
	sort.Strings(d)
	return d
}

// ---------------------------------------------------------------------------------------------
// decoded file

type c14File struct {
	secs []c14Sec
}

type c14Sec struct {
	name   string
	kind   string // "header", "sp", "chunk", "raw"
	header CatchpointFileHeader
	sp     catchpointStateProofVerificationContext
	chunk  CatchpointSnapshotChunkV6
	raw    []byte
}

func c14Decode(secs []c14Section) (*c14File, error) {
	f := &c14File{}
	for _, s := range secs {
		d := c14Sec{name: s.Name}
		switch {
		case s.Name == CatchpointContentFileName:
			d.kind = "header"
			if err := protocol.Decode(s.Data, &d.header); err != nil {
				return nil, err
			}
		case s.Name == catchpointSPVerificationFileName:
			d.kind = "sp"
			if err := protocol.Decode(s.Data, &d.sp); err != nil {
				return nil, err
			}
		case strings.HasPrefix(s.Name, catchpointBalancesFileNamePrefix):
			d.kind = "chunk"
			if err := protocol.Decode(s.Data, &d.chunk); err != nil {
				return nil, err
			}
		default:
			d.kind = "raw"
			d.raw = append([]byte{}, s.Data...)
		}
		f.secs = append(f.secs, d)
	}
	return f, nil
}

func (f *c14File) encode() []c14Section {
	out := make([]c14Section, 0, len(f.secs))
	for i := range f.secs {
		s := &f.secs[i]
		var b []byte
		switch s.kind {
		case "header":
			b = protocol.Encode(&s.header)
		case "sp":
			b = protocol.Encode(&s.sp)
		case "chunk":
			b = protocol.Encode(&s.chunk)
		default:
			b = s.raw
		}
		out = append(out, c14Section{Name: s.name, Data: b})
	}
	return out
}

func (f *c14File) chunkIdx() []int {
	var out []int
	for i := range f.secs {
		if f.secs[i].kind == "chunk" {
			out = append(out, i)
		}
	}
	return out
}

func c14RemoveAll(dir string) {
	_ = os.RemoveAll(dir)
}

var _ = bytes.Equal
