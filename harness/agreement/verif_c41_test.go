package agreement

// C41 — Decoding untrusted bytes is safe and bounded. Part "agreement": the agreement wire
// types (votes, bundles, proposals / transmittedPayload, certificates) and every exported
// network-/disk-facing type importable from here: SignedTxn (as gossiped), SignedTxnInBlock,
// Block / BlockHeader (as served by catchup), account and tracker records as stored on disk,
// state proofs. The engine, mutations and oracle are described in verif_c41_engine_test.go.
// Other parts: network (identity / meta messages), node (netprio messages, catchpoint chunks,
// EncodedBlockCert), data (transaction-group decoding of the txn handler).
//
// Known finding on the unchanged tree: keys C41:map-key-bound-unenforced:basics.TealKeyValue /
// basics.StateDelta (/verif/findings/C41-map-key-bound-unenforced).
//
// Mutants (bin/mut, quick tier, all five parts run; all DETECTED in the final harness):
//   agreement/msgp_gen.go  Certificate "Votes" allocbound check -> `if false`
//       -> C41:above-bound (33 700 elements allocated from a dc-mutated header; also seen through
//          rpcs.EncodedBlockCert in part node)
//   data/transactions/msgp_gen.go  Transaction "note" allocbound check -> `if false`
//       -> C41:above-bound-accepted (over-bound instance, 4097-byte note)
//   data/transactions/msgp_gen.go  EvalDelta.InnerTxns allocbound check disabled
//       -> C41:above-bound (40 644 inner transactions allocated)
//   network/msgp_gen.go  identityChallenge.PublicAddress check in the STRUCT-FROM-ARRAY path
//       -> first MISSED (seeds were map-form only); the harness was strengthened with array-form
//          seeds and array-form over-bound instances -> C41:above-bound-accepted
//   ledger/msgp_gen.go  CatchpointSnapshotChunkV6.Balances check in the struct-from-array path
//       -> first MISSED, DETECTED after the same strengthening (C41:above-bound)
//   seeded C41-A (LogicSig.Args inner bound compared with the outer count) -> C41:above-bound-accepted
//       (level-1 over-bound instance, both encodings)
//   seeded C41-B (EvalDelta "itx" restarts the depth budget) -> first MISSED (the nested inputs lacked
//       the required "txn", so an unrelated error satisfied the oracle); now the nests are valid
//       transactions, <= 100 levels must be accepted, >= 256 must be refused
//       -> C41:nesting-limit-not-enforced
//   data/txHandler.go  decodeMsg: group slice growth removed -> C41:panic:data.decodeMsg
//   data/txHandler.go  decodeMsg: group limit 2x -> C41:above-bound:data.decodeMsg (17 txns)

import (
	"bytes"
	"testing"

	"github.com/algorand/go-algorand/config/bounds"
	"github.com/algorand/go-algorand/crypto"
	"github.com/algorand/go-algorand/crypto/merklearray"
	"github.com/algorand/go-algorand/crypto/merklesignature"
	cstateproof "github.com/algorand/go-algorand/crypto/stateproof"
	"github.com/algorand/go-algorand/data/basics"
	"github.com/algorand/go-algorand/data/bookkeeping"
	"github.com/algorand/go-algorand/data/committee"
	"github.com/algorand/go-algorand/data/stateproofmsg"
	"github.com/algorand/go-algorand/data/transactions"
	"github.com/algorand/go-algorand/ledger/ledgercore"
	"github.com/algorand/go-algorand/ledger/store/trackerdb"
	"github.com/algorand/go-algorand/protocol"
	ve "github.com/algorand/go-algorand/verifeng"
)

func c41agreementBounds() c41bounds {
	return c41bounds{
		expr: map[string]int{
			"bounds.MaxVoteThreshold":                          bounds.MaxVoteThreshold,
			"crypto:maxMultisig":                               255, // unexported crypto.maxMultisig
			"crypto:MaxHashDigestSize":                         crypto.MaxHashDigestSize,
			"crypto/merklearray:MaxEncodedTreeDepth+1":         merklearray.MaxEncodedTreeDepth + 1,
			"crypto/merklearray:MaxNumLeavesOnEncodedTree/2":   merklearray.MaxNumLeavesOnEncodedTree / 2,
			"crypto/stateproof:MaxReveals":                     cstateproof.MaxReveals,
			"crypto/stateproof:VotersAllocBound":               cstateproof.VotersAllocBound,
			"bounds.EncodedMaxAppLocalStates":                  bounds.EncodedMaxAppLocalStates,
			"bounds.EncodedMaxAppParams":                       bounds.EncodedMaxAppParams,
			"bounds.EncodedMaxAssetsPerAccount":                bounds.EncodedMaxAssetsPerAccount,
			"bounds.EncodedMaxKeyValueEntries":                 bounds.EncodedMaxKeyValueEntries,
			"bounds.MaxAppBytesKeyLen":                         bounds.MaxAppBytesKeyLen,
			"bounds.MaxAppBytesValueLen":                       bounds.MaxAppBytesValueLen,
			"bounds.MaxAssetNameBytes":                         bounds.MaxAssetNameBytes,
			"bounds.MaxAssetURLBytes":                          bounds.MaxAssetURLBytes,
			"bounds.MaxAssetUnitNameBytes":                     bounds.MaxAssetUnitNameBytes,
			"bounds.MaxAvailableAppProgramLen":                 bounds.MaxAvailableAppProgramLen,
			"bounds.MaxStateDeltaKeys":                         bounds.MaxStateDeltaKeys,
			"data/bookkeeping:MaxInitialGenesisAllocationSize": bookkeeping.MaxInitialGenesisAllocationSize,
			"bounds.MaxGenesisIDLen":                           bounds.MaxGenesisIDLen,
			"bounds.MaxMarkAbsent":                             bounds.MaxMarkAbsent,
			"bounds.MaxProposedExpiredOnlineAccounts":          bounds.MaxProposedExpiredOnlineAccounts,
			"crypto.Sha256Size":                                crypto.Sha256Size,
			"crypto.SumhashDigestSize":                         crypto.SumhashDigestSize,
			"crypto.DigestSize":                                crypto.DigestSize,
			"protocol.NumStateProofTypes":                      protocol.NumStateProofTypes,
			"data/transactions:EvalMaxArgs":                    transactions.EvalMaxArgs,
			"data/transactions:MaxLogicSigArgSize":             transactions.MaxLogicSigArgSize,
			"bounds.MaxAppAccess":                              bounds.MaxAppAccess,
			"bounds.MaxBytesKeyValueLen":                       bounds.MaxBytesKeyValueLen,
			"bounds.MaxEvalDeltaAccounts":                      bounds.MaxEvalDeltaAccounts,
			"bounds.MaxInnerTransactionsPerDelta":              bounds.MaxInnerTransactionsPerDelta,
			"bounds.MaxLogCalls":                               bounds.MaxLogCalls,
			"bounds.MaxLogicSigMaxSize":                        bounds.MaxLogicSigMaxSize,
			"bounds.MaxTxGroupSize":                            bounds.MaxTxGroupSize,
			"bounds.MaxTxnNoteBytes":                           bounds.MaxTxnNoteBytes,
			"crypto.MaxPQPublicKeySize":                        crypto.MaxPQPublicKeySize,
			"crypto.MaxPQSignatureSize":                        crypto.MaxPQSignatureSize,
			// unexported constants of data/transactions (application.go), value 32 each
			"data/transactions:encodedMaxAccounts":        32,
			"data/transactions:encodedMaxApplicationArgs": 32,
			"data/transactions:encodedMaxBoxes":           32,
			"data/transactions:encodedMaxForeignApps":     32,
			"data/transactions:encodedMaxForeignAssets":   32,
		},
		typ: map[string][]int{
			"data/transactions.Payset":  {100000},
			"data/basics.StateDelta":    {bounds.MaxStateDeltaKeys, bounds.MaxAppBytesKeyLen},
			"data/basics.TealKeyValue":  {bounds.EncodedMaxKeyValueEntries, bounds.MaxAppBytesKeyLen},
			"crypto.GenericDigest":      {crypto.MaxHashDigestSize},
			"protocol.ConsensusVersion": {bounds.MaxConsensusVersionLen},
			"protocol.TxType":           {7}, // unexported protocol.txTypeMaxLen
			"crypto/merklearray.Layer":  {merklearray.MaxNumLeavesOnEncodedTree},
		},
	}
}

// c41innerNest builds a VALID transaction whose inner transactions nest n levels deep:
//
//	{"dt":{"itx":[ {"dt":{"itx":[ ... {"txn":T} ... ]},"txn":T} ]},"txn":T}
//
// (every level carries the required "txn" with sender and type, so nothing but the depth limit
// can make the decoder refuse it). The recursive ApplyData/EvalDelta/InnerTxns path is the one
// place where a message controls the decoder's recursion depth.
func c41innerNest(n int) []byte {
	txn := []byte{0xa3, 't', 'x', 'n', 0x82, 0xa3, 's', 'n', 'd', 0xc4, 0x20}
	for i := 0; i < 32; i++ {
		txn = append(txn, byte(i+1))
	}
	txn = append(txn, 0xa4, 't', 'y', 'p', 'e', 0xa3, 'p', 'a', 'y')
	var b bytes.Buffer
	for i := 0; i < n; i++ {
		b.Write([]byte{0x82, 0xa2, 'd', 't', 0x81, 0xa3, 'i', 't', 'x', 0x91})
	}
	b.WriteByte(0x81)
	b.Write(txn)
	for i := 0; i < n; i++ {
		b.Write(txn)
	}
	return b.Bytes()
}

func c41nests() map[string][]byte {
	out := map[string][]byte{}
	// every level costs two nested UnmarshalMsgWithState calls (SignedTxnWithAD, EvalDelta) and the
	// budget is 255 (protocol.maxMsgpDecodeDepth): up to 100 levels must be accepted, 256 levels
	// and more MUST be refused. (The largest input is kept at 50 000 levels so that even a decoder
	// without any limit survives it: a stack overflow is fatal, not a verdict.)
	for _, n := range []int{1, 8, 60, 100, 120, 127, 128, 129, 250, 256, 300, 1000, 5000, 50000} {
		label := "inner transactions nested " + itoa41(n) + " deep (map form)"
		if n >= 256 {
			label = "must-reject: " + label
		} else if n <= 100 {
			label = "expect-accept: " + label
		}
		out[label] = c41innerNest(n)
	}
	return out
}

func itoa41(n int) string {
	s := ""
	if n == 0 {
		return "0"
	}
	for n > 0 {
		s = string(rune('0'+n%10)) + s
		n /= 10
	}
	return s
}

func TestVerif_C41_agreement(t *testing.T) {
	r := ve.NewRun("C41", "exploration")
	p := c41newPart(r, "agreement", c41agreementBounds())
	nests := c41nests()
	blockNests := map[string][]byte{}
	for l, b := range nests {
		// a block whose payset holds one such transaction: {"txns":[ <nest> ]}
		blockNests[l] = append([]byte{0x81, 0xa4, 't', 'x', 'n', 's', 0x91}, b...)
	}
	targets := []c41target{
		// agreement wire types
		{proto: new(unauthenticatedVote), pairs: true},
		{proto: new(unauthenticatedBundle)},
		{proto: new(unauthenticatedProposal), hostile: blockNests, thoroughOnly: true},
		{proto: new(transmittedPayload), hostile: blockNests},
		{proto: new(Certificate)},
		{proto: new(unauthenticatedEquivocationVote)},
		// transactions and blocks
		{proto: new(transactions.SignedTxn)},
		{proto: new(transactions.SignedTxnInBlock), hostile: nests, thoroughOnly: true},
		{proto: new(transactions.SignedTxnWithAD), hostile: nests, thoroughOnly: true},
		{proto: new(transactions.ApplyData), thoroughOnly: true},
		{proto: new(transactions.EvalDelta), thoroughOnly: true},
		{proto: new(transactions.LogicSig)},
		{proto: new(transactions.Payset), thoroughOnly: true},
		{proto: new(bookkeeping.Block), hostile: blockNests, thoroughOnly: true},
		{proto: new(bookkeeping.BlockHeader)},
		{proto: new(bookkeeping.LightBlockHeader)},
		// account / tracker records as stored on disk and in catchpoints
		{proto: new(basics.AccountData)},
		{proto: new(basics.BalanceRecord)},
		{proto: new(basics.AppParams)},
		{proto: new(basics.AssetParams)},
		{proto: new(basics.TealKeyValue)},
		{proto: new(basics.StateDelta)},
		{proto: new(trackerdb.BaseAccountData)},
		{proto: new(trackerdb.BaseOnlineAccountData)},
		{proto: new(trackerdb.ResourcesData)},
		{proto: new(trackerdb.TxTailRound)}, // declared allocbound=- : reported as not explored
		{proto: new(trackerdb.CatchpointFirstStageInfo)},
		{proto: new(ledgercore.OnlineRoundParamsData)},
		{proto: new(ledgercore.AccountTotals)},
		{proto: new(ledgercore.StateProofVerificationContext)},
		// crypto / state proofs
		{proto: new(crypto.MultisigSig)},
		{proto: new(crypto.OneTimeSignature), pairs: true},
		{proto: new(committee.UnauthenticatedCredential)},
		{proto: new(merklesignature.Signature)},
		{proto: new(merklesignature.Verifier)},
		{proto: new(merklearray.Proof)},
		{proto: new(cstateproof.StateProof)},
		{proto: new(stateproofmsg.Message)},
	}
	p.run(targets)
	if p.sanity.Load() > 0 {
		t.Fatalf("HARNESS: %d hand-made inputs that must be acceptable were rejected (see evidence notes) — not a verdict", p.sanity.Load())
	}
	r.Assume("allocbound values come from the constants named in the codec tags (exported ones referenced directly; the unexported crypto.maxMultisig=255, transactions.encodedMax*=32, protocol.txTypeMaxLen=7 are transcribed)")
	r.Assume("UnmarshalMsg is invoked directly; protocol.DecodeMsgp's recover() is therefore never what keeps a panic from escaping")
	n := r.Finish(ve.Coverage{
		Rule:       "part agreement: for each of the registered wire/disk types, 2-3 valid seeds (all fields set, 1- and 2-element collections): every truncation; every byte x 17-marker alphabet; every array/map/bin/str header re-declared {0,n-1,n+1,15,16,31,32,255,256,65536, then bound+1 and 2^32-1 where safe}; unknown and duplicate map keys; 300-deep nesting in place of every value; inner-transaction recursion 1..50000 levels deep (256 and more must be refused); all pairs of structural bytes x 4 markers for votes and one-time signatures; bound+1 over-bound instances for every bounded collection",
		Exhaustive: true,
	})
	if n > 0 {
		t.Fatal("violations")
	}
}
