package agreement

// C04 — Bundles and certificates are accepted only if they prove a quorum.
//
// Engine E-ENUM (exhaustive small-scope enumeration) on the REAL
// unauthenticatedBundle.verify / verifyAsync and Certificate.Authenticate with REAL
// signatures (one-time signatures, VRF credentials, sortition), under private consensus
// versions whose committee size equals the total online stake, so the weight of a
// credential is exactly the stake of its account (sortition with p = 1).
//
// Variants (accounts, stake -> weight, thresholds):
//   w123   : 3 accounts 1,2,3 (committee 6), threshold 4 for every step
//   u1111  : 4 accounts 1,1,1,1 (committee 4), threshold 3 for every step
//   w123mix: 3 accounts 1,2,3, thresholds soft 4, cert 5, next 3, late 4, redo 5, down 6
//   every ledger additionally holds an online account with zero stake ("z"); a further key
//   set ("ghost") is not in the ledger at all.
// Enumerated base bundles, per variant: steps {soft, cert, next, next+1, late, redo, down}
//   x header value {v, bottom} x ALL 2^n voter subsets x all placements of <= 1
//   equivocation pair (none, or any one member of the subset) x 5 kinds of pair
//   ((v,w) (w,v) (v,v') (w,v') (v,bottom) resp. for bottom (bottom,v) (v,bottom) (v,w)
//   (w,v') (bottom,w); v' has the block digest of v but another encoding digest).
//   All entries carry genuine signatures/credentials for exactly the claimed
//   (round, period, step, value), so e.g. "bottom in a cert" is tested with votes really
//   signed for bottom.
// On every base bundle that is accepted or just below the threshold, EVERY single mutation
//   of the list in c04Mutations is applied: duplicate voter (vote/vote appended and
//   adjacent, vote/eq, eq/vote, eq/eq plain and swapped), drop the heaviest voter, header
//   round / period / step (each other step and propose) / value (bottom, other digest,
//   other encoding digest, other original proposer, other original period), an
//   equivocation pair made identical, a vote turned into an identical pair, a signature
//   made for another round | period | step | value | by another sender, a credential of
//   another step | round | period | sender, a flipped bit in signature / credential, an
//   entry relabelled to another sender / to an address unknown to the ledger, padding with
//   a zero-stake voter (as vote and as pair) or a voter unknown to the ledger, and the whole
//   bundle honestly re-made for another round / period / value (for certificates).
// For quorums, the real makeBundle is called for every order of the votes; its output
//   must be accepted.
// Every bundle with step cert (and one call for the others) also goes through
//   Certificate.Authenticate against three blocks: the block whose digest is in v
//   (round 1), another round-1 block (its digest is in w), a round-2 block.
// Every single (account, round, period, step, value) vote used as building block is first
//   passed through the real unauthenticatedVote.verify.
//
// Oracle — reference predicate from the property statement, decided from the provenance
//   of each entry (who signed what), never from the implementation:
//     valid(b) := step != propose AND voters distinct AND every entry's signature was made
//       by the claimed sender for exactly (round, period, step, value) of the header (for a
//       pair: for its two DIFFERENT values) AND its credential was made by the sender for
//       (round, period, step) AND the sender has stake AND no bottom in soft/cert votes AND
//       sum of stakes >= threshold(step).
//   accepted => valid(b) (and the returned bundle reports exactly the reference weight);
//   Authenticate accepted => step == cert AND value != bottom AND round and digest are the
//   block's AND valid(b). Conversely every output of the real makeBundle on a quorum of
//   legal votes must be accepted (nothing else is required to be accepted: e.g. over-long
//   bundles are rejected by the code, which is not an alarm).
// Not covered: more than 4 accounts, more than one equivocation pair in a base bundle,
//   context cancellation, ledger errors (key-validity windows: see verif_c04_keywindow_test.go),
//   weights other than stake (p < 1 sortition), the PKSigOld field (unused by design).
// Unexported identifiers used: unauthenticatedBundle(.verify,.verifyAsync), voteAuthenticator,
//   equivocationVoteAuthenticator, makeBundle, makeVote, membership, rawVote,
//   unauthenticatedVote(.verify), vote, equivocationVote, proposalValue, bottom, step consts,
//   makeTestLedgerWithConsensusVersion (upstream test helper).
// Tiers: quick mutates the accepted / just-below bases without pair and with pair kinds
//   (v,w) / (v,v') (resp. (bottom,v) / (v,w)); thorough mutates the bases of all 5 kinds.
//   Base bundles, makeBundle orders and certificates are always complete.
// Mutants (bin/mut, quick tier), all DETECTED:
//   1. bundle.go verifyAsync: duplicate check of equivocation votes removed
//      (`if voters[ev.Sender] {` -> `if false {`)            -> C04:accepted-duplicate-voter
//   2. vote.go: equivocation pair compared on BlockDigest only -> C04:rejected-makebundle-output
//      (a genuine (v, v') pair packed by makeBundle is refused)
//   3. vote.go: identical-pair check removed                  -> C04:accepted-identical-pair
//   4. vote.go: second vote of a pair not verified (uv0 twice) -> C04:accepted-invalid-pair-vote
//   5. certificate.go: round check dropped in claimsToAuthenticate -> C04:cert-accepted-wrong-claim
//   6. bundle.go: quorum test off by one (weight+1)           -> C04:accepted-below-threshold
//   7. types.go reachesQuorum: redo uses the late threshold   -> C04:accepted-below-threshold
//      (own; only visible with per-step thresholds, variant w123mix)
//   8. vote.go: bottom allowed in soft/cert votes             -> C04:vote-accepted-invalid
//   9. certificate.go: `if c.Step != cert` dropped            -> C04:cert-accepted-wrong-claim
//  10. seeded /verif/seeded/C04-r2A: vote.go compares VoteLastValid with BalanceRound(round)
//      -> key-window family, C04:vote-accepted-outside-key-window / C04:accepted-outside-key-window

import (
	"context"
	"encoding/json"
	"fmt"
	"io"
	"sort"
	"strings"
	"sync"
	"testing"

	"github.com/algorand/go-algorand/config"
	"github.com/algorand/go-algorand/crypto"
	"github.com/algorand/go-algorand/data/basics"
	"github.com/algorand/go-algorand/data/bookkeeping"
	"github.com/algorand/go-algorand/data/committee"
	"github.com/algorand/go-algorand/logging"
	"github.com/algorand/go-algorand/protocol"
	ve "github.com/algorand/go-algorand/verifeng"
)

const (
	c04Bot = iota // bottom
	c04V          // the value whose digest is block 0's
	c04W          // another value (digest of block 1)
	c04VE         // v with another encoding digest
	c04VP         // v with another original proposer
	c04VO         // v with another original period
	c04NVals
)

var c04ValNames = [c04NVals]string{"bot", "v", "w", "v.enc", "v.prop", "v.per"}

var c04Steps = []step{soft, cert, next, next + 1, late, redo, down}

// c04OtherStep is the "another step" used by single-entry mutations.
var c04OtherStep = map[step]step{soft: cert, cert: soft, next: next + 1, next + 1: next, late: redo, redo: down, down: late}

// provenance of a signature / credential
type c04Sig struct {
	Acct, R, P int
	S          step
	Val        int
	Flip       bool
}

type c04Cred struct {
	Acct, R, P int
	S          step
	Flip       bool
}

type c04Vote struct {
	Sender int
	Sig    c04Sig
	Cred   c04Cred
}

type c04Eq struct {
	Sender int
	Props  [2]int
	Sigs   [2]c04Sig
	Cred   c04Cred
}

// c04B is the model of a bundle: header + entries with provenance.
type c04B struct {
	R, P  int
	S     step
	Val   int
	Votes []c04Vote
	Eqs   []c04Eq
}

func (m *c04B) clone() *c04B {
	c := *m
	c.Votes = append([]c04Vote(nil), m.Votes...)
	c.Eqs = append([]c04Eq(nil), m.Eqs...)
	return &c
}

func (m *c04B) String() string {
	var b strings.Builder
	fmt.Fprintf(&b, "(r%d p%d s%d %s)", m.R, m.P, m.S, c04ValNames[m.Val])
	sg := func(s c04Sig) string {
		f := ""
		if s.Flip {
			f = "~"
		}
		return fmt.Sprintf("%ssig[%d|r%d p%d s%d %s]", f, s.Acct, s.R, s.P, s.S, c04ValNames[s.Val])
	}
	cr := func(c c04Cred) string {
		f := ""
		if c.Flip {
			f = "~"
		}
		return fmt.Sprintf("%scred[%d|r%d p%d s%d]", f, c.Acct, c.R, c.P, c.S)
	}
	for _, v := range m.Votes {
		fmt.Fprintf(&b, " V{%d %s %s}", v.Sender, sg(v.Sig), cr(v.Cred))
	}
	for _, q := range m.Eqs {
		fmt.Fprintf(&b, " E{%d (%s,%s) %s %s %s}", q.Sender, c04ValNames[q.Props[0]], c04ValNames[q.Props[1]], sg(q.Sigs[0]), sg(q.Sigs[1]), cr(q.Cred))
	}
	return b.String()
}

func c04GenuineVote(a int, m *c04B) c04Vote {
	return c04Vote{Sender: a, Sig: c04Sig{Acct: a, R: m.R, P: m.P, S: m.S, Val: m.Val}, Cred: c04Cred{Acct: a, R: m.R, P: m.P, S: m.S}}
}

func c04GenuineEq(a int, m *c04B, p0, p1 int) c04Eq {
	return c04Eq{Sender: a, Props: [2]int{p0, p1},
		Sigs: [2]c04Sig{{Acct: a, R: m.R, P: m.P, S: m.S, Val: p0}, {Acct: a, R: m.R, P: m.P, S: m.S, Val: p1}},
		Cred: c04Cred{Acct: a, R: m.R, P: m.P, S: m.S}}
}

type c04Variant struct {
	name   string
	stakes []uint64 // real accounts
	thr    map[step]uint64
}

type c04Outcome struct {
	accepted bool
	msg      string
	weight   uint64 // weight reported by the returned bundle
	entries  int
}

type c04Env struct {
	v       c04Variant
	n       int      // accounts with stake
	stakes  []uint64 // n real, then z (0), then ghost (0, not in ledger)
	version protocol.ConsensusVersion
	params  config.ConsensusParams
	ledger  Ledger
	avv     *AsyncVoteVerifier
	addrs   []basics.Address
	vals    [c04NVals]proposalValue
	blocks  [3]bookkeeping.Block
	sigs    map[c04Sig]crypto.OneTimeSignature
	creds   map[c04Cred]committee.UnauthenticatedCredential
	good    map[c04Sig]vote // verified votes (real verify succeeded)
	memo    sync.Map        // encoded bundle -> c04Outcome
	cmemo   sync.Map        // encoded bundle + block -> error text
}

func (env *c04Env) thr(s step) uint64 {
	if t, ok := env.v.thr[s]; ok {
		return t
	}
	return env.v.thr[next] // every step > cert that is not late/redo/down is a next step
}

func c04Legal(s step, val int) bool {
	switch s {
	case propose, soft, cert, late, redo:
		return val != c04Bot
	case down:
		return val == c04Bot
	}
	return true
}

func c04MakeEnv(v c04Variant) (*c04Env, error) {
	env := &c04Env{v: v, n: len(v.stakes), version: protocol.ConsensusVersion("verif-c04-" + v.name),
		sigs: map[c04Sig]crypto.OneTimeSignature{}, creds: map[c04Cred]committee.UnauthenticatedCredential{}, good: map[c04Sig]vote{}}
	var total uint64
	for _, w := range v.stakes {
		total += w
	}
	env.stakes = append(append([]uint64{}, v.stakes...), 0, 0)
	p := config.Consensus[protocol.ConsensusCurrentVersion]
	p.NumProposers = total
	p.SoftCommitteeSize, p.SoftCommitteeThreshold = total, v.thr[soft]
	p.CertCommitteeSize, p.CertCommitteeThreshold = total, v.thr[cert]
	p.NextCommitteeSize, p.NextCommitteeThreshold = total, v.thr[next]
	p.LateCommitteeSize, p.LateCommitteeThreshold = total, v.thr[late]
	p.RedoCommitteeSize, p.RedoCommitteeThreshold = total, v.thr[redo]
	p.DownCommitteeSize, p.DownCommitteeThreshold = total, v.thr[down]
	p.ApprovedUpgrades = map[protocol.ConsensusVersion]uint64{}
	config.Consensus[env.version] = p
	env.params = p

	na := env.n + 2
	state := map[basics.Address]basics.AccountData{}
	vrfs := make([]*crypto.VRFSecrets, na)
	ots := make([]crypto.OneTimeSigner, na)
	env.addrs = make([]basics.Address, na)
	for i := 0; i < na; i++ {
		var seed [32]byte
		copy(seed[:], fmt.Sprintf("verif-c04-%s-acct-%d", v.name, i))
		pk, sk := crypto.VrfKeygenFromSeed(seed)
		vrfs[i] = &crypto.VRFSecrets{PK: pk, SK: sk}
		ots[i].OneTimeSignatureSecrets = crypto.GenerateOneTimeSignatureSecretsRNG(0, 2, crypto.MakePRNG(seed[:]))
		env.addrs[i] = basics.Address(crypto.Hash(seed[:]))
		if i <= env.n { // the ghost is not in the ledger
			state[env.addrs[i]] = basics.AccountData{
				Status:      basics.Online,
				MicroAlgos:  basics.MicroAlgos{Raw: env.stakes[i]},
				SelectionID: pk,
				VoteID:      ots[i].OneTimeSignatureVerifier,
			}
		}
	}
	version := env.version
	env.ledger = makeTestLedgerWithConsensusVersion(state, func(basics.Round) (protocol.ConsensusVersion, error) { return version, nil })
	env.avv = MakeAsyncVoteVerifier(nil)

	// blocks and values
	env.blocks[0] = bookkeeping.Block{BlockHeader: bookkeeping.BlockHeader{Round: 1, TimeStamp: 1000}}
	env.blocks[1] = bookkeeping.Block{BlockHeader: bookkeeping.BlockHeader{Round: 1, TimeStamp: 2000}}
	env.blocks[2] = bookkeeping.Block{BlockHeader: bookkeeping.BlockHeader{Round: 2, TimeStamp: 3000}}
	h := func(s string) crypto.Digest { return crypto.Hash([]byte("verif-c04-" + s)) }
	vv := proposalValue{OriginalPeriod: 0, OriginalProposer: env.addrs[0], BlockDigest: env.blocks[0].Digest(), EncodingDigest: h("enc-v")}
	env.vals[c04Bot] = bottom
	env.vals[c04V] = vv
	env.vals[c04W] = proposalValue{OriginalPeriod: 0, OriginalProposer: env.addrs[1], BlockDigest: env.blocks[1].Digest(), EncodingDigest: h("enc-w")}
	env.vals[c04VE] = vv
	env.vals[c04VE].EncodingDigest = h("enc-v2")
	env.vals[c04VP] = vv
	env.vals[c04VP].OriginalProposer = env.addrs[1]
	env.vals[c04VO] = vv
	env.vals[c04VO].OriginalPeriod = 1
	for i := 0; i < c04NVals; i++ {
		for j := 0; j < i; j++ {
			if env.vals[i] == env.vals[j] {
				return nil, fmt.Errorf("values %d and %d coincide", i, j)
			}
		}
	}

	// building blocks: one signature per (account, round, period, step, value) and one
	// credential per (account, round, period, step), in a fixed order.
	for a := 0; a < na; a++ {
		for r := 1; r <= 2; r++ {
			for pr := 0; pr <= 1; pr++ {
				for _, s := range c04Steps {
					mb, err := membership(env.ledger, env.addrs[a], basics.Round(r), period(pr), s)
					if err != nil {
						return nil, fmt.Errorf("membership: %v", err)
					}
					cred := committee.MakeCredential(&vrfs[a].SK, mb.Selector)
					env.creds[c04Cred{Acct: a, R: r, P: pr, S: s}] = cred
					for val := 0; val < c04NVals; val++ {
						rv := rawVote{Sender: env.addrs[a], Round: basics.Round(r), Period: period(pr), Step: s, Proposal: env.vals[val]}
						var sig crypto.OneTimeSignature
						if c04Legal(s, val) {
							uv, err := makeVote(rv, ots[a], vrfs[a], env.ledger) // the real vote constructor
							if err != nil {
								return nil, fmt.Errorf("makeVote: %v", err)
							}
							if uv.Cred != cred || uv.R != rv {
								return nil, fmt.Errorf("makeVote returned another credential / raw vote than requested")
							}
							sig = uv.Sig
						} else { // makeVote refuses these by design; sign by hand
							id := basics.OneTimeIDForRound(rv.Round, ots[a].KeyDilution(p.DefaultKeyDilution))
							sig = ots[a].Sign(id, rv)
						}
						if (sig == crypto.OneTimeSignature{}) {
							return nil, fmt.Errorf("empty signature")
						}
						env.sigs[c04Sig{Acct: a, R: r, P: pr, S: s, Val: val}] = sig
					}
				}
			}
		}
	}
	return env, nil
}

func (env *c04Env) sig(s c04Sig) crypto.OneTimeSignature {
	f := s.Flip
	s.Flip = false
	x := env.sigs[s]
	if f {
		x.Sig[9] ^= 0x04
	}
	return x
}

func (env *c04Env) cred(c c04Cred) committee.UnauthenticatedCredential {
	f := c.Flip
	c.Flip = false
	x := env.creds[c]
	if f {
		x.Proof[40] ^= 0x10
	}
	return x
}

// build renders the model as the real wire object.
func (env *c04Env) build(m *c04B) unauthenticatedBundle {
	ub := unauthenticatedBundle{Round: basics.Round(m.R), Period: period(m.P), Step: m.S, Proposal: env.vals[m.Val]}
	for _, v := range m.Votes {
		ub.Votes = append(ub.Votes, voteAuthenticator{Sender: env.addrs[v.Sender], Cred: env.cred(v.Cred), Sig: env.sig(v.Sig)})
	}
	for _, q := range m.Eqs {
		ub.EquivocationVotes = append(ub.EquivocationVotes, equivocationVoteAuthenticator{Sender: env.addrs[q.Sender], Cred: env.cred(q.Cred),
			Sigs: [2]crypto.OneTimeSignature{env.sig(q.Sigs[0]), env.sig(q.Sigs[1])}, Proposals: [2]proposalValue{env.vals[q.Props[0]], env.vals[q.Props[1]]}})
	}
	return ub
}

// voteOK: is (sender, sig, cred) a valid vote for (r, p, s, val)? Decided by provenance.
func (env *c04Env) voteOK(sender int, sg c04Sig, cr c04Cred, r, p int, s step, val int) bool {
	if sender >= env.n || env.stakes[sender] == 0 { // no stake / unknown to the ledger
		return false
	}
	if sg != (c04Sig{Acct: sender, R: r, P: p, S: s, Val: val}) {
		return false
	}
	if cr != (c04Cred{Acct: sender, R: r, P: p, S: s}) {
		return false
	}
	if (s == soft || s == cert || s == propose) && val == c04Bot {
		return false
	}
	return true
}

// refValid is the reference predicate; reason names the first failed clause.
func (env *c04Env) refValid(m *c04B) (ok bool, reason string, weight uint64) {
	if m.S == propose {
		return false, "propose-step", 0
	}
	seen := map[int]bool{}
	for _, v := range m.Votes {
		if seen[v.Sender] {
			return false, "duplicate-voter", 0
		}
		seen[v.Sender] = true
	}
	for _, q := range m.Eqs {
		if seen[q.Sender] {
			return false, "duplicate-voter", 0
		}
		seen[q.Sender] = true
	}
	for _, v := range m.Votes {
		if !env.voteOK(v.Sender, v.Sig, v.Cred, m.R, m.P, m.S, m.Val) {
			return false, "invalid-vote", 0
		}
		weight += env.stakes[v.Sender]
	}
	for _, q := range m.Eqs {
		if q.Props[0] == q.Props[1] {
			return false, "identical-pair", 0
		}
		for k := 0; k < 2; k++ {
			if !env.voteOK(q.Sender, q.Sigs[k], q.Cred, m.R, m.P, m.S, q.Props[k]) {
				return false, "invalid-pair-vote", 0
			}
		}
		weight += env.stakes[q.Sender]
	}
	if weight < env.thr(m.S) {
		return false, "below-threshold", weight
	}
	return true, "valid", weight
}

// realVerify runs the real unauthenticatedBundle.verify (memoized on the encoding).
func (env *c04Env) realVerify(ub unauthenticatedBundle) c04Outcome {
	key := string(protocol.Encode(&ub))
	if o, ok := env.memo.Load(key); ok {
		return o.(c04Outcome)
	}
	b, err := ub.verify(context.Background(), env.ledger, env.avv)
	var o c04Outcome
	if err == nil {
		o.accepted = true
		for _, v := range b.Votes {
			o.weight += v.Cred.Weight
		}
		for _, q := range b.EquivocationVotes {
			o.weight += q.Cred.Weight
		}
		o.entries = len(b.Votes) + len(b.EquivocationVotes)
	} else {
		o.msg = err.Error()
	}
	env.memo.Store(key, o)
	return o
}

// realAuthenticate runs the real Certificate.Authenticate (memoized); "" = authenticated.
func (env *c04Env) realAuthenticate(ub unauthenticatedBundle, blk int) string {
	key := fmt.Sprintf("%d|%s", blk, protocol.Encode(&ub))
	if o, ok := env.cmemo.Load(key); ok {
		return o.(string)
	}
	res := ""
	if err := Certificate(ub).Authenticate(env.blocks[blk], env.ledger, env.avv); err != nil {
		res = err.Error()
		if res == "" {
			res = "error"
		}
	}
	env.cmemo.Store(key, res)
	return res
}

type c04Ctx struct {
	r    *ve.Run
	env  *c04Env
	base int // index of the base case (replay)

	mu                                   *sync.Mutex
	nAccepted, nRejected, nValidRejected *int64
	nCert, nCertOK                       *int64
	validRejected                        map[string]int64 // why the code rejected reference-valid bundles (evidence only)
}

func (c *c04Ctx) replay(m *c04B, what string) map[string]any {
	return map[string]any{"engine": "enum", "variant": c.env.v.name, "index": c.base, "case": what, "bundle": m.String()}
}

// check pushes one model bundle through the real code and applies the oracle.
func (c *c04Ctx) check(m *c04B, what string, must bool) bool {
	env := c.env
	ub := env.build(m)
	valid, reason, weight := env.refValid(m)
	o := env.realVerify(ub)
	c.r.Eval()
	cls := "rejected"
	if o.accepted {
		cls = "accepted"
	}
	c.r.Class(fmt.Sprintf("%s/s%d/%s/%s/%s", env.v.name, m.S, what, reason, cls))
	c.mu.Lock()
	if o.accepted {
		*c.nAccepted++
	} else {
		*c.nRejected++
		if valid {
			*c.nValidRejected++
			why := o.msg
			if k := strings.Index(why, ":"); k > 0 && strings.Contains(why, "bundle too large") {
				why = "bundle too large (more entries than the threshold)"
			} else if len(why) > 70 {
				why = why[:70]
			}
			c.validRejected[why]++
		}
	}
	c.mu.Unlock()
	if o.accepted && !valid {
		c.r.Report("C04:accepted-"+reason, fmt.Sprintf("[%s] %s: bundle ACCEPTED by unauthenticatedBundle.verify although the reference says %s (reference weight %d, threshold %d): %s", env.v.name, what, reason, weight, env.thr(m.S), m), c.replay(m, what))
	}
	if o.accepted && valid && (o.weight != weight || o.entries != len(m.Votes)+len(m.Eqs)) {
		c.r.Report("C04:accepted-weight", fmt.Sprintf("[%s] %s: accepted bundle reports weight %d over %d entries, reference weight %d over %d entries: %s", env.v.name, what, o.weight, o.entries, weight, len(m.Votes)+len(m.Eqs), m), c.replay(m, what))
	}
	if must && !o.accepted {
		c.r.Report("C04:rejected-makebundle-output", fmt.Sprintf("[%s] %s: output of makeBundle on a quorum REJECTED (%s): %s", env.v.name, what, o.msg, m), c.replay(m, what))
	}
	// certificates
	blocks := []int{0}
	if m.S == cert {
		blocks = []int{0, 1, 2}
	}
	for _, k := range blocks {
		res := env.realAuthenticate(ub, k)
		claims := m.S == cert && m.Val != c04Bot && basics.Round(m.R) == env.blocks[k].Round() && env.vals[m.Val].BlockDigest == env.blocks[k].Digest()
		c.mu.Lock()
		*c.nCert++
		if res == "" {
			*c.nCertOK++
		}
		c.mu.Unlock()
		c.r.Eval()
		if m.S == cert {
			c.r.Class(fmt.Sprintf("%s/cert/b%d/%s/claims=%v/%s/ok=%v", env.v.name, k, what, claims, reason, res == ""))
		}
		if res == "" && !(claims && valid) {
			why := reason
			if !claims {
				why = "wrong-claim"
			}
			c.r.Report("C04:cert-accepted-"+why, fmt.Sprintf("[%s] %s: Certificate.Authenticate ACCEPTED for block %d (round %d) although reference says claims=%v, %s: %s", env.v.name, what, k, env.blocks[k].Round(), claims, reason, m), c.replay(m, what))
		}
		if must && claims && res != "" {
			c.r.Report("C04:cert-rejected-makebundle-output", fmt.Sprintf("[%s] %s: certificate made by makeBundle for block %d REJECTED (%s): %s", env.v.name, what, k, res, m), c.replay(m, what))
		}
	}
	return o.accepted
}

// c04Mutations returns every single mutation of m.
func (env *c04Env) c04Mutations(m *c04B) (names []string, out []*c04B) {
	add := func(name string, b *c04B) {
		names = append(names, name)
		out = append(out, b)
	}
	n := env.n
	zAcct, ghost := n, n+1
	inBundle := map[int]bool{}
	for _, v := range m.Votes {
		inBundle[v.Sender] = true
	}
	for _, q := range m.Eqs {
		inBundle[q.Sender] = true
	}
	other := func(a int) int { // another staked account, preferably not in the bundle
		for d := 1; d < n; d++ {
			if b := (a + d) % n; !inBundle[b] {
				return b
			}
		}
		return (a + 1) % n
	}
	otherVal := func(v int) int {
		if v == c04W {
			return c04V
		}
		return c04W
	}
	pair := func() (int, int) { // a pair that is legal in every step
		return c04V, c04W
	}
	sigMuts := func(s c04Sig) (ns []string, ss []c04Sig) {
		x := s
		x.R = 3 - s.R
		ns, ss = append(ns, "sig-other-round"), append(ss, x)
		x = s
		x.P = 1 - s.P
		ns, ss = append(ns, "sig-other-period"), append(ss, x)
		x = s
		x.S = c04OtherStep[s.S]
		ns, ss = append(ns, "sig-other-step"), append(ss, x)
		x = s
		x.Val = otherVal(s.Val)
		ns, ss = append(ns, "sig-other-value"), append(ss, x)
		if s.Val == c04V {
			x = s
			x.Val = c04VE
			ns, ss = append(ns, "sig-other-encoding-digest"), append(ss, x)
		}
		x = s
		x.Acct = other(s.Acct)
		ns, ss = append(ns, "sig-other-sender"), append(ss, x)
		x = s
		x.Flip = true
		ns, ss = append(ns, "sig-bitflip"), append(ss, x)
		return
	}
	credMuts := func(c c04Cred) (ns []string, cs []c04Cred) {
		x := c
		x.S = c04OtherStep[c.S]
		ns, cs = append(ns, "cred-other-step"), append(cs, x)
		x = c
		x.R = 3 - c.R
		ns, cs = append(ns, "cred-other-round"), append(cs, x)
		x = c
		x.P = 1 - c.P
		ns, cs = append(ns, "cred-other-period"), append(cs, x)
		x = c
		x.Acct = other(c.Acct)
		ns, cs = append(ns, "cred-other-sender"), append(cs, x)
		x = c
		x.Flip = true
		ns, cs = append(ns, "cred-bitflip"), append(cs, x)
		return
	}

	for i, v := range m.Votes {
		b := m.clone()
		b.Votes = append(b.Votes, v)
		add("dup-vote/vote-appended", b)
		if i != len(m.Votes)-1 {
			b = m.clone()
			b.Votes = append(append(append([]c04Vote{}, m.Votes[:i+1]...), v), m.Votes[i+1:]...)
			add("dup-vote/vote-adjacent", b)
		}
		b = m.clone()
		p0, p1 := pair()
		b.Eqs = append(b.Eqs, c04GenuineEq(v.Sender, m, p0, p1))
		add("dup-vote/eq", b)

		ns, ss := sigMuts(v.Sig)
		for k := range ns {
			b = m.clone()
			b.Votes[i].Sig = ss[k]
			add("vote-"+ns[k], b)
		}
		nc, cs := credMuts(v.Cred)
		for k := range nc {
			b = m.clone()
			b.Votes[i].Cred = cs[k]
			add("vote-"+nc[k], b)
		}
		b = m.clone()
		b.Votes[i].Sender = other(v.Sender)
		add("vote-relabelled-sender", b)
		b = m.clone()
		b.Votes[i].Sender = ghost
		add("vote-relabelled-unknown", b)
		b = m.clone()
		b.Votes = append(append([]c04Vote{}, m.Votes[:i]...), m.Votes[i+1:]...)
		b.Eqs = append(b.Eqs, c04Eq{Sender: v.Sender, Props: [2]int{m.Val, m.Val}, Sigs: [2]c04Sig{v.Sig, v.Sig}, Cred: v.Cred})
		add("vote-to-identical-pair", b)
	}
	for j, q := range m.Eqs {
		b := m.clone()
		b.Eqs = append(b.Eqs, q)
		add("dup-eq/eq", b)
		b = m.clone()
		sw := q
		sw.Props[0], sw.Props[1] = q.Props[1], q.Props[0]
		sw.Sigs[0], sw.Sigs[1] = q.Sigs[1], q.Sigs[0]
		b.Eqs = append(b.Eqs, sw)
		add("dup-eq/eq-swapped", b)
		b = m.clone()
		b.Votes = append(b.Votes, c04GenuineVote(q.Sender, m))
		add("dup-eq/vote", b)
		for k := 0; k < 2; k++ {
			b = m.clone()
			b.Eqs[j].Props[1-k] = q.Props[k]
			b.Eqs[j].Sigs[1-k] = q.Sigs[k]
			add(fmt.Sprintf("eq-identical-%d", k), b)
			ns, ss := sigMuts(q.Sigs[k])
			for x := range ns {
				b = m.clone()
				b.Eqs[j].Sigs[k] = ss[x]
				add(fmt.Sprintf("eq%d-%s", k, ns[x]), b)
			}
		}
		// same digest on both sides but genuinely different values must stay a pair:
		// (covered by base pairs (v,v.enc)); a pair differing in NOTHING but signatures:
		nc, cs := credMuts(q.Cred)
		for k := range nc {
			b = m.clone()
			b.Eqs[j].Cred = cs[k]
			add("eq-"+nc[k], b)
		}
		b = m.clone()
		b.Eqs[j].Sender = other(q.Sender)
		add("eq-relabelled-sender", b)
	}
	// drop the heaviest voter
	{
		best, bi, isEq := uint64(0), -1, false
		for i, v := range m.Votes {
			if w := env.stakes[v.Sender]; w > best {
				best, bi, isEq = w, i, false
			}
		}
		for j, q := range m.Eqs {
			if w := env.stakes[q.Sender]; w > best {
				best, bi, isEq = w, j, true
			}
		}
		if bi >= 0 {
			b := m.clone()
			if isEq {
				b.Eqs = append(append([]c04Eq{}, m.Eqs[:bi]...), m.Eqs[bi+1:]...)
			} else {
				b.Votes = append(append([]c04Vote{}, m.Votes[:bi]...), m.Votes[bi+1:]...)
			}
			add("drop-heaviest", b)
		}
	}
	// header
	b := m.clone()
	b.R = 3 - m.R
	add("header-round", b)
	b = m.clone()
	b.P = 1 - m.P
	add("header-period", b)
	for _, s := range append([]step{propose}, c04Steps...) {
		if s != m.S {
			b = m.clone()
			b.S = s
			add(fmt.Sprintf("header-step-%d", s), b)
		}
	}
	for val := 0; val < c04NVals; val++ {
		if val != m.Val {
			b = m.clone()
			b.Val = val
			add("header-value-"+c04ValNames[val], b)
		}
	}
	// padding
	b = m.clone()
	b.Votes = append(b.Votes, c04GenuineVote(zAcct, m))
	add("pad-zero-stake-vote", b)
	b = m.clone()
	p0, p1 := pair()
	b.Eqs = append(b.Eqs, c04GenuineEq(zAcct, m, p0, p1))
	add("pad-zero-stake-pair", b)
	b = m.clone()
	b.Votes = append(b.Votes, c04GenuineVote(ghost, m))
	add("pad-unknown-voter", b)
	// the whole bundle honestly re-made for other coordinates
	remake := func(name string, f func(s *c04Sig), g func(c *c04Cred), hdr func(b *c04B)) {
		b := m.clone()
		hdr(b)
		for i := range b.Votes {
			f(&b.Votes[i].Sig)
			g(&b.Votes[i].Cred)
		}
		for j := range b.Eqs {
			f(&b.Eqs[j].Sigs[0])
			f(&b.Eqs[j].Sigs[1])
			g(&b.Eqs[j].Cred)
		}
		add(name, b)
	}
	remake("remade-other-round", func(s *c04Sig) { s.R = 3 - s.R }, func(c *c04Cred) { c.R = 3 - c.R }, func(b *c04B) { b.R = 3 - b.R })
	remake("remade-other-period", func(s *c04Sig) { s.P = 1 - s.P }, func(c *c04Cred) { c.P = 1 - c.P }, func(b *c04B) { b.P = 1 - b.P })
	if m.Val == c04V {
		// only the plain votes carry the header value; pairs keep theirs
		b := m.clone()
		b.Val = c04W
		for i := range b.Votes {
			b.Votes[i].Sig.Val = c04W
		}
		add("remade-other-value", b)
	}
	return
}

// c04PairKinds are the equivocation pairs placed in base bundles, by header value.
func c04PairKinds(val int) [][2]int {
	if val == c04Bot {
		return [][2]int{{c04Bot, c04V}, {c04V, c04Bot}, {c04V, c04W}, {c04W, c04VE}, {c04Bot, c04W}}
	}
	return [][2]int{{c04V, c04W}, {c04W, c04V}, {c04V, c04VE}, {c04W, c04VE}, {c04V, c04Bot}}
}

// c04CheckVotes passes every building block through the real single-vote verifier.
func c04CheckVotes(r *ve.Run, env *c04Env) error {
	type key struct {
		a, r, p int
		s       step
		val     int
	}
	var keys []key
	for a := 0; a < env.n+2; a++ {
		for rr := 1; rr <= 2; rr++ {
			for p := 0; p <= 1; p++ {
				for _, s := range c04Steps {
					for val := 0; val < c04NVals; val++ {
						keys = append(keys, key{a, rr, p, s, val})
					}
				}
			}
		}
	}
	type res struct {
		v   vote
		err error
	}
	results := make([]res, len(keys))
	r.ParallelFor(len(keys), func(i int) {
		k := keys[i]
		sg := c04Sig{Acct: k.a, R: k.r, P: k.p, S: k.s, Val: k.val}
		uv := unauthenticatedVote{R: rawVote{Sender: env.addrs[k.a], Round: basics.Round(k.r), Period: period(k.p), Step: k.s, Proposal: env.vals[k.val]},
			Cred: env.cred(c04Cred{Acct: k.a, R: k.r, P: k.p, S: k.s}), Sig: env.sig(sg)}
		v, err := uv.verify(env.ledger)
		results[i] = res{v, err}
		r.Eval()
	})
	for i, k := range keys {
		sg := c04Sig{Acct: k.a, R: k.r, P: k.p, S: k.s, Val: k.val}
		ok := env.voteOK(k.a, sg, c04Cred{Acct: k.a, R: k.r, P: k.p, S: k.s}, k.r, k.p, k.s, k.val)
		err := results[i].err
		r.Class(fmt.Sprintf("%s/vote/s%d/%s/stake=%v/ok=%v", env.v.name, k.s, c04ValNames[k.val], env.stakes[k.a] > 0, err == nil))
		switch {
		case err == nil && !ok:
			r.Report("C04:vote-accepted-invalid", fmt.Sprintf("[%s] single vote of account %d (stake %d) for (r%d p%d s%d %s) ACCEPTED although invalid by the reference", env.v.name, k.a, env.stakes[k.a], k.r, k.p, k.s, c04ValNames[k.val]),
				map[string]any{"engine": "enum", "variant": env.v.name, "vote": fmt.Sprint(k)})
		case err != nil && ok && c04Legal(k.s, k.val):
			r.Report("C04:vote-rejected-valid", fmt.Sprintf("[%s] vote made by makeVote for account %d (r%d p%d s%d %s) REJECTED: %v", env.v.name, k.a, k.r, k.p, k.s, c04ValNames[k.val], err),
				map[string]any{"engine": "enum", "variant": env.v.name, "vote": fmt.Sprint(k)})
		case err == nil:
			if results[i].v.Cred.Weight != env.stakes[k.a] {
				return fmt.Errorf("sortition not deterministic: account %d stake %d got weight %d", k.a, env.stakes[k.a], results[i].v.Cred.Weight)
			}
			env.good[sg] = results[i].v
		}
	}
	return nil
}

// c04MakeBundle feeds a quorum to the real makeBundle for every order of its votes.
func (c *c04Ctx) c04MakeBundle(m *c04B) {
	env := c.env
	for _, v := range m.Votes {
		if _, ok := env.good[v.Sig]; !ok {
			return
		}
	}
	var eqs []equivocationVote
	for _, q := range m.Eqs {
		g0, ok0 := env.good[q.Sigs[0]]
		_, ok1 := env.good[q.Sigs[1]]
		if !ok0 || !ok1 {
			return
		}
		eqs = append(eqs, equivocationVote{Sender: env.addrs[q.Sender], Round: basics.Round(m.R), Period: period(m.P), Step: m.S, Cred: g0.Cred,
			Proposals: [2]proposalValue{env.vals[q.Props[0]], env.vals[q.Props[1]]}, Sigs: [2]crypto.OneTimeSignature{env.sig(q.Sigs[0]), env.sig(q.Sigs[1])}})
	}
	done := map[string]bool{}
	ve.Permutations(len(m.Votes), func(p []int) {
		votes := make([]vote, len(p))
		for i, k := range p {
			votes[i] = env.good[m.Votes[k].Sig]
		}
		ub := makeBundle(env.params, env.vals[m.Val], votes, eqs) // the real constructor
		enc := string(protocol.Encode(&ub))
		if done[enc] {
			return
		}
		done[enc] = true
		// model of the output: its entries, looked up by sender
		mb := &c04B{R: int(ub.Round), P: int(ub.Period), S: ub.Step, Val: m.Val}
		okModel := ub.Proposal == env.vals[m.Val]
		for _, a := range ub.Votes {
			found := false
			for _, v := range m.Votes {
				if env.addrs[v.Sender] == a.Sender {
					mb.Votes = append(mb.Votes, v)
					found = true
				}
			}
			okModel = okModel && found
		}
		for _, a := range ub.EquivocationVotes {
			found := false
			for _, q := range m.Eqs {
				if env.addrs[q.Sender] == a.Sender {
					mb.Eqs = append(mb.Eqs, q)
					found = true
				}
			}
			okModel = okModel && found
		}
		if !okModel || string(protocol.Encode(c04Ptr(env.build(mb)))) != enc {
			c.r.Report("C04:makebundle-content", fmt.Sprintf("[%s] makeBundle output is not made of the votes it was given: %s", env.v.name, m), c.replay(m, "makeBundle"))
			return
		}
		c.check(mb, "makeBundle", true)
	})
}

func c04Ptr(b unauthenticatedBundle) *unauthenticatedBundle { return &b }

func TestVerif_C04(t *testing.T) {
	r := ve.NewRun("C04", "exploration")
	logging.Base().SetOutput(io.Discard)
	all := func(t uint64) map[step]uint64 {
		return map[step]uint64{soft: t, cert: t, next: t, late: t, redo: t, down: t}
	}
	variants := []c04Variant{
		{name: "w123", stakes: []uint64{1, 2, 3}, thr: all(4)},
		{name: "u1111", stakes: []uint64{1, 1, 1, 1}, thr: all(3)},
		{name: "w123mix", stakes: []uint64{1, 2, 3}, thr: map[step]uint64{soft: 4, cert: 5, next: 3, late: 4, redo: 5, down: 6}},
	}
	// replay request: {"variant":..., "index":...}
	replayVariant, replayIndex := "", -1
	if raw := r.ReplayRequest(); raw != nil {
		var req struct {
			Variant string `json:"variant"`
			Index   *int   `json:"index"`
		}
		if json.Unmarshal(raw, &req) == nil && req.Index != nil {
			replayVariant, replayIndex = req.Variant, *req.Index
		}
	}
	if replayVariant == "" || replayVariant == "kwin" {
		if err := c04KeyWindow(r); err != nil {
			t.Fatalf("harness setup (key-window family): %v", err)
		}
	}
	var mu sync.Mutex
	var nAcc, nRej, nValidRej, nCert, nCertOK, nBase, nMutBases, nMutated, nDistinct, nMustAccept int64
	mutNames := map[string]bool{}
	validRejected := map[string]int64{}
	complete := true
	for _, v := range variants {
		if replayVariant != "" && replayVariant != v.name {
			continue
		}
		env, err := c04MakeEnv(v)
		if err != nil {
			t.Fatalf("harness setup: %v", err)
		}
		if err := c04CheckVotes(r, env); err != nil {
			t.Fatalf("harness setup: %v", err)
		}
		n := env.n
		dims := []int{len(c04Steps), 2, 1 << uint(n), n + 1, 5}
		total := ve.ProductSize(dims)
		visited := r.ParallelFor(total, func(i int) {
			if replayIndex >= 0 && i != replayIndex {
				return
			}
			if r.Violations() > 0 {
				return // a verdict exists; do not spend the rest of the budget
			}
			idx := make([]int, len(dims))
			ve.Unrank(i, dims, idx)
			s, val, mask, place, kind := c04Steps[idx[0]], []int{c04V, c04Bot}[idx[1]], uint(idx[2]), idx[3], idx[4]
			if place == 0 && kind != 0 {
				return // no pair: one case only
			}
			if place > 0 && mask&(1<<uint(place-1)) == 0 {
				return // the equivocator must be a member of the subset
			}
			m := &c04B{R: 1, P: 0, S: s, Val: val}
			for a := 0; a < n; a++ {
				if mask&(1<<uint(a)) == 0 {
					continue
				}
				if place == a+1 {
					pk := c04PairKinds(val)[kind]
					m.Eqs = append(m.Eqs, c04GenuineEq(a, m, pk[0], pk[1]))
				} else {
					m.Votes = append(m.Votes, c04GenuineVote(a, m))
				}
			}
			c := &c04Ctx{r: r, env: env, base: i, mu: &mu, nAccepted: &nAcc, nRejected: &nRej, nValidRejected: &nValidRej, nCert: &nCert, nCertOK: &nCertOK, validRejected: validRejected}
			accepted := c.check(m, "base", false)
			// verifyAsync must agree with verify
			ub := env.build(m)
			_, aerr := ub.verifyAsync(context.Background(), env.ledger, env.avv)()
			r.Eval()
			if (aerr == nil) != accepted {
				r.Report("C04:verify-verifyasync-disagree", fmt.Sprintf("[%s] verify accepted=%v, verifyAsync error=%v: %s", env.v.name, accepted, aerr, m), c.replay(m, "verifyAsync"))
			}
			valid, reason, weight := env.refValid(m)
			mu.Lock()
			nBase++
			mu.Unlock()
			if i%97 == 0 {
				r.Sample(map[string]any{"variant": env.v.name, "bundle": m.String(), "reference": reason, "accepted": accepted})
			}
			// quorums of legal votes go through the real makeBundle
			if valid && c04Legal(s, val) && len(m.Votes) > 0 {
				mu.Lock()
				nMustAccept++
				mu.Unlock()
				c.c04MakeBundle(m)
			}
			// mutation bases: accepted, or every entry fine and just below the threshold
			var maxStake uint64
			for _, w := range env.stakes {
				if w > maxStake {
					maxStake = w
				}
			}
			justBelow := reason == "below-threshold" && len(m.Votes)+len(m.Eqs) > 0 && weight+maxStake >= env.thr(s)
			if !(accepted || justBelow) {
				return
			}
			if !ve.Thorough() && place > 0 && kind != 0 && kind != 2 {
				return // quick tier: mutate the bases without pair and with pair kinds 0 and 2 only
			}
			names, muts := env.c04Mutations(m)
			mu.Lock()
			nMutBases++
			nMutated += int64(len(muts))
			for _, nm := range names {
				mutNames[nm] = true
			}
			mu.Unlock()
			for k := range muts {
				c.check(muts[k], "mut:"+names[k], false)
			}
		})
		if int(visited) != total {
			complete = false
		}
		env.memo.Range(func(_, _ any) bool { nDistinct++; return true })
		env.avv.Quit()
		if r.Violations() > 0 {
			break
		}
	}
	var mn []string
	for k := range mutNames {
		mn = append(mn, k)
	}
	sort.Strings(mn)
	r.Set("base_bundles", nBase)
	r.Set("mutation_bases", nMutBases)
	r.Set("mutated_bundles", nMutated)
	r.Set("mutation_kinds", mn)
	r.Set("quorums_fed_to_makeBundle", nMustAccept)
	r.Set("distinct_bundles_really_verified", nDistinct)
	r.Set("verify_accepted", nAcc)
	r.Set("verify_rejected", nRej)
	r.Set("reference_valid_but_rejected_not_required", nValidRej)
	r.Set("reference_valid_but_rejected_reasons", validRejected)
	r.Set("authenticate_calls", nCert)
	r.Set("authenticate_accepted", nCertOK)
	r.Assume("private consensus versions with committee size == total online stake: credential weight == stake (checked on every vote used)")
	r.Assume("the reference decides validity of an entry from its provenance (who signed which (round, period, step, value)); libsodium signature/VRF primitives are trusted to reject what was not signed")
	r.Assume("acceptance is demanded only for outputs of the real makeBundle on quorums of votes made by the real makeVote")
	rule := "all vote subsets (3 and 4 accounts) x 7 steps x {v, bottom} x <=1 equivocation pair (5 kinds) in every position, real signatures; every single mutation (duplicate voter in all forms, dropped voter, header field, identical pair, foreign signature/credential, padding) of every accepted or just-below-threshold bundle; every vote order through the real makeBundle; each through unauthenticatedBundle.verify (+verifyAsync on bases) and Certificate.Authenticate against 3 blocks; compared with a provenance-based reference predicate"
	if r.Finish(ve.Coverage{Rule: rule, Exhaustive: complete && replayIndex < 0 && r.Violations() == 0}) > 0 {
		t.Fatal("violations")
	}
}
