package driver

// C46 — Wallet keys are deterministic, unique and password-protected.
//
// Engine E-SEQ on the real SQLiteWalletDriver / SQLiteWallet, file-backed under
// ve.ScratchDir, scrypt lowered the way the upstream kmd fixtures do it
// (allow_unsafe_scrypt + scrypt_n 2). Every wallet is created from one fixed master
// derivation key (MDK), so that all runs see the same addresses.
//
// Alphabet (21 operations, simplest first):
//   GenerateKey; ImportKey(k) for k in {foreign key F, the key generation index 1 would
//   produce, index 2}; DeleteKey(addr, right password) for addr in {D1, D2, D3, F};
//   DeleteKey(addr, wrong password) for addr in {D1, F}; ExportKey(D1, right / wrong),
//   ExportKey(F, right); ExportMasterDerivationKey(right / wrong); RenameWallet(right / wrong);
//   close + re-fetch (FetchWallet, Init(wrong) must fail, Init(right)); Init(wrong) and
//   Init(right) again on the LIVE wallet object; re-fetch + Init(wrong) only, which leaves a
//   locked wallet object (on it only the password-protection clauses are checked: key
//   generation / import / right-password exports are not part of the alphabet until Init(right)).
//   A failed Init must change nothing: the sweep that follows every operation demands that all
//   wrong-password operations still fail and all right-password ones still work.
// Bound: every sequence of <= 4 operations (quick) / <= 7 (thorough); states merged by the
// wallet's real content (keys table with key_idx, decrypted max key index, wallet name) plus what
// Init caches in the wallet object (keys in memory or not, which password the cached salted
// hash belongs to).
// After every operation: ListKeys (set and no duplicates), wallet name, ExportKey with the
// right and the wrong password for every address of the universe, ExportMasterDerivationKey
// with both passwords, CheckPassword with both passwords. In every state, RESTORE: a new
// wallet is created from the MDK exported from the explored wallet and generates as many keys
// as the original generated, then up to the original's highest index.
//
// Reference (written from the property statement and the doc comments of
// generateKeyTxLocked): D[i] = ed25519 key from seed HKDF-Expand(SHA-512/256, MDK,
// "AlgorandDeterministicKey-<i>") — computed here with crypto/hmac directly, cross-checked
// against extractKeyWithIndex and against two freshly created wallets. GenerateKey returns
// D[i] for the smallest i above the highest index used so far whose key is not present (such
// keys can only be present by import); the highest index never goes back (a deleted generated
// key is not generated again); ImportKey of a present key fails; DeleteKey / ExportKey /
// ExportMasterDerivationKey / RenameWallet with the wrong password fail and change nothing;
// with the right password ExportKey returns the secret key whose public half is the address;
// a restored wallet generates exactly D[1], D[2], ... — the original's generated addresses
// are that sequence minus the indices it skipped because the key had been imported.
//
// Not covered: multisig preimages, signing, concurrent sessions, the ledger (hardware) driver,
// crashes in the middle of a wallet transaction, scrypt at production strength.
//
// Unexported identifiers used: extractKeyWithIndex, publicKeyToAddress, dbConnectionURL,
// decryptBlobWithPassword, msgpackDecode, PTMaxKeyIdx, SQLiteWallet.{dbPath,masterEncryptionKey,masterDerivationKey,walletPassword*}, fastHashWithSalt.
//
// Mutants (bin/mut on daemon/kmd/wallet/driver/sqlite.go, quick tier, all DETECTED):
//   generateKeyTxLocked stores highestIndex+1 instead of the index reached after skipping
//     imported keys (seen by ImportKey(D1), GenerateKey, DeleteKey(D2), GenerateKey -> D2 again)
//   DeleteKey checks the password after the DELETE statement
//   generateKeyTxLocked's "already present" test ignores imported keys (key_idx IS NOT NULL)
//   CheckPassword's cached-hash comparison accepts every password
// Seeded change C46-B (Init caches the salted password hash before validating the password):
//   missed by the first version (no second Init on a wallet object), caught since the
//   Init(wrong)/Init(right)/locked-object operations were added.

import (
	"bytes"
	"crypto/hmac"
	"crypto/sha512"
	"fmt"
	"io"
	"os"
	"path/filepath"
	"sort"
	"strings"
	"sync"
	"sync/atomic"
	"testing"

	"github.com/jmoiron/sqlx"

	"github.com/algorand/go-algorand/crypto"
	"github.com/algorand/go-algorand/daemon/kmd/config"
	"github.com/algorand/go-algorand/logging"
	ve "github.com/algorand/go-algorand/verifeng"
)

var (
	c46mdk = func() (m crypto.MasterDerivationKey) {
		for i := range m {
			m[i] = byte(7*i + 3)
		}
		return
	}()
	c46pwRight = []byte("correct horse")
	c46pwWrong = []byte("correct horsf")
	c46id      = []byte("c46walletid")
	c46names   = [2][]byte{[]byte("name-zero"), []byte("name-one")}
)

const c46nDerived = 12

// c46keys is the reference key universe.
type c46keyset struct {
	addr [c46nDerived + 1]crypto.Digest     // addr[0] = foreign key F, addr[i] = D[i]
	sk   [c46nDerived + 1]crypto.PrivateKey // matching secret keys
}

// c46derive is the reference derivation, from the documented construction only.
func c46derive(mdk []byte, index uint64) (crypto.Digest, crypto.PrivateKey) {
	// HKDF-Expand (RFC 5869) with a 32-byte hash: T(1) = HMAC(PRK, info || 0x01)
	mac := hmac.New(sha512.New512_256, mdk)
	mac.Write([]byte(fmt.Sprintf("AlgorandDeterministicKey-%d", index)))
	mac.Write([]byte{1})
	var seed crypto.Seed
	copy(seed[:], mac.Sum(nil))
	s := crypto.GenerateSignatureSecrets(seed)
	var a crypto.Digest
	copy(a[:], s.SignatureVerifier[:])
	return a, crypto.PrivateKey(s.SK)
}

func c46universe() *c46keyset {
	ks := &c46keyset{}
	var fseed crypto.Seed
	for i := range fseed {
		fseed[i] = byte(200 - i)
	}
	fs := crypto.GenerateSignatureSecrets(fseed)
	copy(ks.addr[0][:], fs.SignatureVerifier[:])
	ks.sk[0] = crypto.PrivateKey(fs.SK)
	for i := 1; i <= c46nDerived; i++ {
		ks.addr[i], ks.sk[i] = c46derive(c46mdk[:], uint64(i))
	}
	return ks
}

func (ks *c46keyset) name(a crypto.Digest) string {
	for i, x := range ks.addr {
		if x == a {
			if i == 0 {
				return "F"
			}
			return fmt.Sprintf("D%d", i)
		}
	}
	return fmt.Sprintf("?%x", a[:4])
}

const (
	c46opGenerate = iota
	c46opImportF
	c46opImportD1
	c46opImportD2
	c46opDeleteD1
	c46opDeleteD2
	c46opDeleteD3
	c46opDeleteF
	c46opDeleteD1Wrong
	c46opDeleteFWrong
	c46opExportD1
	c46opExportD1Wrong
	c46opExportF
	c46opExportMDK
	c46opExportMDKWrong
	c46opRename
	c46opRenameWrong
	c46opReopen
	c46opInitWrong
	c46opInitRight
	c46opRefetchLocked
	c46nOps
)

var c46opNames = [c46nOps]string{"GenerateKey", "ImportKey(F)", "ImportKey(D1)", "ImportKey(D2)",
	"DeleteKey(D1,right)", "DeleteKey(D2,right)", "DeleteKey(D3,right)", "DeleteKey(F,right)", "DeleteKey(D1,wrong)", "DeleteKey(F,wrong)",
	"ExportKey(D1,right)", "ExportKey(D1,wrong)", "ExportKey(F,right)", "ExportMDK(right)", "ExportMDK(wrong)",
	"Rename(right)", "Rename(wrong)", "close+refetch",
	"Init(wrong) on the live wallet object", "Init(right) on the live wallet object", "re-fetch + Init(wrong) only (stays locked)"}

// c46sys bundles the real wallet with the reference.
type c46sys struct {
	h   *c46harness
	dir string
	drv *SQLiteWalletDriver
	w   *SQLiteWallet

	// reference
	present   map[crypto.Digest]bool
	hi        uint64          // highest generation index used
	generated []uint64        // indices returned by GenerateKey, in order
	skipped   map[uint64]bool // indices skipped because the key was present (imported)
	nameIdx   int
	locked    bool   // the current wallet object was fetched but never successfully Init-ed
	mek       []byte // master encryption key (harness copy, only to read max_key_idx for the state key)
	lastKey   string
}

type c46harness struct {
	ks   *c46keyset
	root string
	ctr  atomic.Int64

	restored     sync.Map // state key -> struct{}: the restore step runs once per distinct state
	restoreCount atomic.Int64
}

func c46cfg(dir string) config.KMDConfig {
	cfg := config.DefaultConfig(dir)
	cfg.DriverConfig.SQLiteWalletDriverConfig.UnsafeScrypt = true
	cfg.DriverConfig.SQLiteWalletDriverConfig.ScryptParams = config.ScryptParams{ScryptN: 2, ScryptR: 1, ScryptP: 1}
	return cfg
}

func c46log() logging.Logger {
	l := logging.NewLogger()
	l.SetOutput(io.Discard)
	return l
}

func c46open(dir string, id, name, pw []byte, mdk crypto.MasterDerivationKey) (*SQLiteWalletDriver, *SQLiteWallet, error) {
	drv := &SQLiteWalletDriver{}
	if err := drv.InitWithConfig(c46cfg(dir), c46log()); err != nil {
		return nil, nil, err
	}
	if err := drv.CreateWallet(name, id, pw, mdk); err != nil {
		return nil, nil, err
	}
	w, err := drv.FetchWallet(id)
	if err != nil {
		return nil, nil, err
	}
	sw, ok := w.(*SQLiteWallet)
	if !ok {
		return nil, nil, fmt.Errorf("FetchWallet returned %T", w)
	}
	if err = sw.Init(pw); err != nil {
		return nil, nil, err
	}
	return drv, sw, nil
}

func (h *c46harness) newSys() *c46sys {
	dir := filepath.Join(h.root, fmt.Sprintf("w%d", h.ctr.Add(1)))
	if err := os.MkdirAll(dir, 0o700); err != nil {
		panic(fmt.Sprintf("c46 harness: %v", err))
	}
	drv, w, err := c46open(dir, c46id, c46names[0], c46pwRight, c46mdk)
	if err != nil {
		panic(fmt.Sprintf("c46 harness: cannot create wallet: %v", err))
	}
	return &c46sys{h: h, dir: dir, drv: drv, w: w, mek: append([]byte{}, w.masterEncryptionKey...), present: map[crypto.Digest]bool{}, skipped: map[uint64]bool{}}
}

func (h *c46harness) closeSys(s *c46sys) { os.RemoveAll(s.dir) }

// cloneSys: a successor is computed on a byte copy of the wallet database file (no
// transaction is open between operations) with a copy of the in-memory wallet handle.
func (h *c46harness) cloneSys(b *c46sys) *c46sys {
	dir := filepath.Join(h.root, fmt.Sprintf("w%d", h.ctr.Add(1)))
	drv := &SQLiteWalletDriver{}
	if err := os.MkdirAll(dir, 0o700); err != nil {
		panic(fmt.Sprintf("c46 harness: %v", err))
	}
	if err := drv.InitWithConfig(c46cfg(dir), c46log()); err != nil {
		panic(fmt.Sprintf("c46 harness: %v", err))
	}
	data, err := os.ReadFile(b.w.dbPath)
	if err != nil {
		panic(fmt.Sprintf("c46 harness: %v", err))
	}
	newPath := filepath.Join(drv.walletsDir(), filepath.Base(b.w.dbPath))
	if err = os.WriteFile(newPath, data, 0o600); err != nil {
		panic(fmt.Sprintf("c46 harness: %v", err))
	}
	w := *b.w
	w.dbPath = newPath
	c := &c46sys{h: h, dir: dir, drv: drv, w: &w, mek: b.mek, locked: b.locked, present: map[crypto.Digest]bool{}, skipped: map[uint64]bool{}, hi: b.hi, nameIdx: b.nameIdx}
	for k, v := range b.present {
		c.present[k] = v
	}
	for k, v := range b.skipped {
		c.skipped[k] = v
	}
	c.generated = append([]uint64{}, b.generated...)
	return c
}

// rawState reads the wallet's real content straight from its database file.
func (s *c46sys) rawState() (string, error) {
	db, err := sqlx.Connect("sqlite3", dbConnectionURL(s.w.dbPath))
	if err != nil {
		return "", err
	}
	defer db.Close()
	var b strings.Builder
	rows, err := db.Query("SELECT address, key_idx FROM keys ORDER BY address")
	if err != nil {
		return "", err
	}
	for rows.Next() {
		var addr []byte
		var idx *int64
		if err = rows.Scan(&addr, &idx); err != nil {
			rows.Close()
			return "", err
		}
		var a crypto.Digest
		copy(a[:], addr)
		if idx == nil {
			fmt.Fprintf(&b, "%s:imported,", s.h.ks.name(a))
		} else {
			fmt.Fprintf(&b, "%s:idx%d,", s.h.ks.name(a), *idx)
		}
	}
	rows.Close()
	var name, blob []byte
	if err = db.QueryRow("SELECT wallet_name, max_key_idx_encrypted FROM metadata LIMIT 1").Scan(&name, &blob); err != nil {
		return "", err
	}
	plain, err := decryptBlobWithPassword(blob, PTMaxKeyIdx, s.mek)
	if err != nil {
		return "", fmt.Errorf("max key index does not decrypt: %w", err)
	}
	var hi uint64
	if err = msgpackDecode(plain, &hi); err != nil {
		return "", err
	}
	var n int
	if err = db.QueryRow("SELECT COUNT(1) FROM msig_addrs").Scan(&n); err != nil {
		return "", err
	}
	fmt.Fprintf(&b, "|hi=%d|name=%s|msig=%d", hi, name, n)
	return b.String(), nil
}

func (h *c46harness) key(s *c46sys) string {
	st, err := s.rawState()
	if err != nil {
		return "unreadable:" + err.Error()
	}
	// the reference's memory of what was generated/skipped is part of the state (it decides
	// what the restore step must reproduce)
	s.lastKey = st + fmt.Sprintf("|gen=%v|skip=%v|handle:%s", s.generated, c46sortedU64(s.skipped), s.handleState())
	return s.lastKey
}

// handleState renders what Init caches in the wallet object: whether the keys are in memory
// and which password the cached salted hash (CheckPassword's fast path) belongs to. The salt
// itself is random and cannot influence behaviour otherwise.
func (s *c46sys) handleState() string {
	w := s.w
	cached := "none"
	if w.walletPasswordHashed {
		switch w.walletPasswordHash {
		case fastHashWithSalt(c46pwRight, w.walletPasswordSalt[:]):
			cached = "right"
		case fastHashWithSalt(c46pwWrong, w.walletPasswordSalt[:]):
			cached = "wrong"
		default:
			cached = "other"
		}
	}
	return fmt.Sprintf("mek=%v,mdk=%v,cachedpw=%s", bytes.Equal(w.masterEncryptionKey, s.mek), bytes.Equal(w.masterDerivationKey, c46mdk[:]), cached)
}

func c46sortedU64(m map[uint64]bool) []uint64 {
	out := make([]uint64, 0, len(m))
	for k := range m {
		out = append(out, k)
	}
	sort.Slice(out, func(i, j int) bool { return out[i] < out[j] })
	return out
}

func (s *c46sys) refGenerate() uint64 {
	idx := s.hi + 1
	for s.present[s.h.ks.addr[idx]] {
		s.skipped[idx] = true
		idx++
	}
	s.hi = idx
	s.present[s.h.ks.addr[idx]] = true
	s.generated = append(s.generated, idx)
	return idx
}

func (h *c46harness) apply(s *c46sys, op int) (bool, error) {
	ks := h.ks
	if s.hi+4 > c46nDerived {
		return false, nil // reference universe exhausted (never within the explored depths)
	}
	if s.locked {
		// a wallet object that was never unlocked: the property speaks about password protection
		// only; operations that need the decrypted keys are not part of the alphabet here
		switch op {
		case c46opGenerate, c46opImportF, c46opImportD1, c46opImportD2, c46opExportD1, c46opExportF, c46opExportMDK:
			return false, nil
		}
	}
	before, err := s.rawState()
	if err != nil {
		return true, ve.Violationf("C46:state-unreadable", "wallet database unreadable before %s: %v", c46opNames[op], err)
	}
	unchanged := func(what string) error {
		after, err := s.rawState()
		if err != nil {
			return ve.Violationf("C46:state-unreadable", "wallet database unreadable after %s: %v", what, err)
		}
		if after != before {
			return ve.Violationf("C46:"+what+":changed-state", "%s failed/was read-only but changed the wallet: before {%s} after {%s}", what, before, after)
		}
		return nil
	}
	importKey := func(i int) error {
		addr, err := s.w.ImportKey(ks.sk[i])
		if s.present[ks.addr[i]] {
			if err == nil {
				return ve.Violationf("C46:import-duplicate-accepted", "ImportKey of the already present key %s succeeded", ks.name(ks.addr[i]))
			}
			return unchanged("ImportKey(duplicate)")
		}
		if err != nil {
			return ve.Violationf("C46:import-failed", "ImportKey(%s) failed: %v", ks.name(ks.addr[i]), err)
		}
		if addr != ks.addr[i] {
			return ve.Violationf("C46:import-address", "ImportKey(%s) returned address %s", ks.name(ks.addr[i]), ks.name(addr))
		}
		s.present[addr] = true
		return nil
	}
	deleteKey := func(i int, right bool) error {
		if right {
			if err := s.w.DeleteKey(ks.addr[i], c46pwRight); err != nil {
				return ve.Violationf("C46:delete-failed", "DeleteKey(%s, right password) failed: %v", ks.name(ks.addr[i]), err)
			}
			delete(s.present, ks.addr[i])
			return nil
		}
		if err := s.w.DeleteKey(ks.addr[i], c46pwWrong); err == nil {
			return ve.Violationf("C46:delete-wrong-password-accepted", "DeleteKey(%s) with the wrong password succeeded", ks.name(ks.addr[i]))
		}
		return unchanged("DeleteKey(wrong password)")
	}
	exportKey := func(i int, right bool) error {
		pw := c46pwRight
		if !right {
			pw = c46pwWrong
		}
		sk, err := s.w.ExportKey(ks.addr[i], pw)
		switch {
		case !right && err == nil:
			return ve.Violationf("C46:export-wrong-password-accepted", "ExportKey(%s) with the wrong password succeeded", ks.name(ks.addr[i]))
		case right && s.present[ks.addr[i]] && err != nil:
			return ve.Violationf("C46:export-failed", "ExportKey(%s, right password) failed: %v", ks.name(ks.addr[i]), err)
		case right && !s.present[ks.addr[i]] && err == nil:
			return ve.Violationf("C46:export-absent-key", "ExportKey(%s) of an absent key succeeded", ks.name(ks.addr[i]))
		case right && err == nil && !bytes.Equal(sk[:], ks.sk[i][:]):
			return ve.Violationf("C46:export-secret-mismatch", "ExportKey(%s) returned a secret key that is not the one of the address", ks.name(ks.addr[i]))
		}
		return unchanged("ExportKey")
	}
	switch op {
	case c46opGenerate:
		addr, err := s.w.GenerateKey(false)
		want := s.refGenerate()
		if err != nil {
			return true, ve.Violationf("C46:generate-failed", "GenerateKey failed: %v (reference: D%d)", err, want)
		}
		if addr != ks.addr[want] {
			return true, ve.Violationf("C46:generate-sequence", "GenerateKey returned %s, the derived sequence gives D%d (generated so far %v, skipped %v)", ks.name(addr), want, s.generated[:len(s.generated)-1], c46sortedU64(s.skipped))
		}
	case c46opImportF:
		err = importKey(0)
	case c46opImportD1:
		err = importKey(1)
	case c46opImportD2:
		err = importKey(2)
	case c46opDeleteD1:
		err = deleteKey(1, true)
	case c46opDeleteD2:
		err = deleteKey(2, true)
	case c46opDeleteD3:
		err = deleteKey(3, true)
	case c46opDeleteF:
		err = deleteKey(0, true)
	case c46opDeleteD1Wrong:
		err = deleteKey(1, false)
	case c46opDeleteFWrong:
		err = deleteKey(0, false)
	case c46opExportD1:
		err = exportKey(1, true)
	case c46opExportD1Wrong:
		err = exportKey(1, false)
	case c46opExportF:
		err = exportKey(0, true)
	case c46opExportMDK, c46opExportMDKWrong:
		right := op == c46opExportMDK
		pw := c46pwRight
		if !right {
			pw = c46pwWrong
		}
		mdk, e := s.w.ExportMasterDerivationKey(pw)
		switch {
		case right && e != nil:
			err = ve.Violationf("C46:export-mdk-failed", "ExportMasterDerivationKey(right password) failed: %v", e)
		case right && mdk != c46mdk:
			err = ve.Violationf("C46:export-mdk-mismatch", "ExportMasterDerivationKey returned a different key")
		case !right && e == nil:
			err = ve.Violationf("C46:export-mdk-wrong-password-accepted", "ExportMasterDerivationKey with the wrong password succeeded")
		default:
			err = unchanged("ExportMasterDerivationKey")
		}
	case c46opRename, c46opRenameWrong:
		right := op == c46opRename
		pw := c46pwRight
		if !right {
			pw = c46pwWrong
		}
		e := s.drv.RenameWallet(c46names[1-s.nameIdx], c46id, pw)
		switch {
		case right && e != nil:
			err = ve.Violationf("C46:rename-failed", "RenameWallet(right password) failed: %v", e)
		case right:
			s.nameIdx = 1 - s.nameIdx
		case e == nil:
			err = ve.Violationf("C46:rename-wrong-password-accepted", "RenameWallet with the wrong password succeeded")
		default:
			err = unchanged("RenameWallet(wrong password)")
		}
	case c46opReopen:
		w, e := s.drv.FetchWallet(c46id)
		if e != nil {
			return true, ve.Violationf("C46:refetch-failed", "FetchWallet failed: %v", e)
		}
		sw, ok := w.(*SQLiteWallet)
		if !ok {
			return true, ve.Violationf("C46:refetch-failed", "FetchWallet returned %T", w)
		}
		if e = sw.Init(c46pwWrong); e == nil {
			return true, ve.Violationf("C46:init-wrong-password-accepted", "Init with the wrong password succeeded")
		}
		if e = sw.Init(c46pwRight); e != nil {
			return true, ve.Violationf("C46:init-failed", "Init with the right password failed: %v", e)
		}
		s.w = sw
		s.locked = false
		err = unchanged("close+refetch")
	case c46opInitWrong:
		if e := s.w.Init(c46pwWrong); e == nil {
			return true, ve.Violationf("C46:init-wrong-password-accepted", "Init with the wrong password succeeded")
		}
		// must change nothing: the invariant sweep that follows checks that every wrong-password
		// operation still fails and (on an unlocked object) every right-password one still works
		err = unchanged("Init(wrong password)")
	case c46opInitRight:
		if e := s.w.Init(c46pwRight); e != nil {
			return true, ve.Violationf("C46:init-failed", "Init with the right password failed: %v", e)
		}
		s.locked = false
		err = unchanged("Init(right password)")
	case c46opRefetchLocked:
		w, e := s.drv.FetchWallet(c46id)
		if e != nil {
			return true, ve.Violationf("C46:refetch-failed", "FetchWallet failed: %v", e)
		}
		sw, ok := w.(*SQLiteWallet)
		if !ok {
			return true, ve.Violationf("C46:refetch-failed", "FetchWallet returned %T", w)
		}
		if e = sw.Init(c46pwWrong); e == nil {
			return true, ve.Violationf("C46:init-wrong-password-accepted", "Init with the wrong password succeeded")
		}
		s.w = sw
		s.locked = true
		err = unchanged("re-fetch + Init(wrong password)")
	}
	if err != nil {
		return true, err
	}
	return true, nil
}

// invariant: the full read sweep against the reference.
func (h *c46harness) invariant(s *c46sys) error {
	ks := h.ks
	before, err := s.rawState()
	if err != nil {
		return ve.Violationf("C46:state-unreadable", "wallet database unreadable: %v", err)
	}
	addrs, err := s.w.ListKeys()
	if err != nil {
		return ve.Violationf("C46:listkeys-failed", "ListKeys failed: %v", err)
	}
	seen := map[crypto.Digest]bool{}
	for _, a := range addrs {
		if seen[a] {
			return ve.Violationf("C46:listkeys-duplicate", "ListKeys returns %s twice", ks.name(a))
		}
		seen[a] = true
		if !s.present[a] {
			return ve.Violationf("C46:listkeys-extra", "ListKeys returns %s, which the reference does not hold (reference %s)", ks.name(a), h.refSet(s))
		}
	}
	for a := range s.present {
		if !seen[a] {
			return ve.Violationf("C46:listkeys-missing", "ListKeys misses %s (reference %s)", ks.name(a), h.refSet(s))
		}
	}
	md, err := s.w.Metadata()
	if err != nil {
		return ve.Violationf("C46:metadata-failed", "Metadata failed: %v", err)
	}
	if !bytes.Equal(md.Name, c46names[s.nameIdx]) {
		return ve.Violationf("C46:wallet-name", "wallet name is %q, reference %q", md.Name, c46names[s.nameIdx])
	}
	for i := 0; i <= 5; i++ {
		if _, err = s.w.ExportKey(ks.addr[i], c46pwWrong); err == nil {
			return ve.Violationf("C46:export-wrong-password-accepted", "ExportKey(%s) with the wrong password succeeded", ks.name(ks.addr[i]))
		}
		if s.locked {
			continue
		}
		sk, err := s.w.ExportKey(ks.addr[i], c46pwRight)
		if s.present[ks.addr[i]] {
			if err != nil {
				return ve.Violationf("C46:export-failed", "ExportKey(%s, right password) failed: %v", ks.name(ks.addr[i]), err)
			}
			if !bytes.Equal(sk[:], ks.sk[i][:]) {
				return ve.Violationf("C46:export-secret-mismatch", "ExportKey(%s) returned a secret key that is not the one of the address", ks.name(ks.addr[i]))
			}
			pk, err := crypto.SecretKeyToPublicKey(sk)
			if err != nil || publicKeyToAddress(pk) != ks.addr[i] {
				return ve.Violationf("C46:export-secret-mismatch", "ExportKey(%s): public half of the secret does not match the address", ks.name(ks.addr[i]))
			}
		} else if err == nil {
			return ve.Violationf("C46:export-absent-key", "ExportKey(%s) of an absent key succeeded", ks.name(ks.addr[i]))
		}
	}
	if !s.locked {
		if mdk, err := s.w.ExportMasterDerivationKey(c46pwRight); err != nil || mdk != c46mdk {
			return ve.Violationf("C46:export-mdk-failed", "ExportMasterDerivationKey(right password): err=%v, equal=%v", err, mdk == c46mdk)
		}
	}
	if _, err := s.w.ExportMasterDerivationKey(c46pwWrong); err == nil {
		return ve.Violationf("C46:export-mdk-wrong-password-accepted", "ExportMasterDerivationKey with the wrong password succeeded")
	}
	if err := s.w.CheckPassword(c46pwRight); err != nil {
		return ve.Violationf("C46:checkpassword", "CheckPassword(right) failed: %v", err)
	}
	if err := s.w.CheckPassword(c46pwWrong); err == nil {
		return ve.Violationf("C46:checkpassword", "CheckPassword(wrong) succeeded")
	}
	if err := s.w.CheckPassword(nil); err == nil {
		return ve.Violationf("C46:checkpassword", "CheckPassword(empty) succeeded")
	}
	after, err := s.rawState()
	if err != nil || after != before {
		return ve.Violationf("C46:reads-changed-state", "the read sweep changed the wallet: before {%s} after {%s} err %v", before, after, err)
	}
	return nil
}

func (h *c46harness) refSet(s *c46sys) string {
	var names []string
	for a := range s.present {
		names = append(names, h.ks.name(a))
	}
	sort.Strings(names)
	return "{" + strings.Join(names, ",") + "}"
}

// final: RESTORE. A new wallet from the exported MDK regenerates the derived sequence.
func (h *c46harness) final(s *c46sys) error {
	ks := h.ks
	if s.locked {
		return nil // the MDK can only be exported from an unlocked wallet object
	}
	if s.lastKey != "" {
		if _, done := h.restored.LoadOrStore(s.lastKey, struct{}{}); done {
			return nil
		}
	}
	h.restoreCount.Add(1)
	mdk, err := s.w.ExportMasterDerivationKey(c46pwRight)
	if err != nil {
		return ve.Violationf("C46:export-mdk-failed", "ExportMasterDerivationKey failed: %v", err)
	}
	// the original's generated addresses: strictly increasing indices, gaps only at skipped (imported) indices
	last := uint64(0)
	for _, g := range s.generated {
		if g <= last {
			return ve.Violationf("C46:generate-sequence", "generation indices not increasing: %v", s.generated)
		}
		for k := last + 1; k < g; k++ {
			if !s.skipped[k] {
				return ve.Violationf("C46:generate-sequence", "index %d was neither generated nor skipped: generated %v skipped %v", k, s.generated, c46sortedU64(s.skipped))
			}
		}
		last = g
	}
	dir := filepath.Join(s.dir, "restore")
	if err := os.MkdirAll(dir, 0o700); err != nil {
		panic(fmt.Sprintf("c46 harness: %v", err))
	}
	_, rw, err := c46open(dir, []byte("c46restored"), []byte("restored"), []byte("another password"), mdk)
	if err != nil {
		return ve.Violationf("C46:restore-failed", "creating a wallet from the exported MDK failed: %v", err)
	}
	n := uint64(len(s.generated))
	var got []crypto.Digest
	for i := uint64(1); i <= s.hi; i++ {
		a, err := rw.GenerateKey(false)
		if err != nil {
			return ve.Violationf("C46:restore-failed", "GenerateKey #%d on the restored wallet failed: %v", i, err)
		}
		if a != ks.addr[i] {
			return ve.Violationf("C46:restore-sequence", "restored wallet: key #%d is %s, the derived sequence gives D%d", i, ks.name(a), i)
		}
		got = append(got, a)
	}
	// "as many keys as the original generated": when nothing was skipped these are the same addresses
	if len(s.skipped) == 0 {
		for i := uint64(0); i < n; i++ {
			if got[i] != ks.addr[s.generated[i]] {
				return ve.Violationf("C46:restore-differs", "restored wallet key #%d is %s, the original generated D%d", i+1, ks.name(got[i]), s.generated[i])
			}
		}
	}
	// every address the original generated is regenerated by the restored wallet
	for _, g := range s.generated {
		if g > uint64(len(got)) || got[g-1] != ks.addr[g] {
			return ve.Violationf("C46:restore-differs", "the original generated D%d, the restored wallet does not regenerate it within %d keys", g, len(got))
		}
	}
	addrs, err := rw.ListKeys()
	if err != nil || uint64(len(addrs)) != s.hi {
		return ve.Violationf("C46:restore-listkeys", "restored wallet lists %d keys (err %v), generated %d", len(addrs), err, s.hi)
	}
	return nil
}

func TestVerif_C46(t *testing.T) {
	r := ve.NewRun("C46", "model_checking")
	root := ve.ScratchDir("c46")
	defer os.RemoveAll(root)
	h := &c46harness{ks: c46universe(), root: root}

	// cross-check the reference derivation: against the package's own extractKeyWithIndex and
	// against two freshly created wallets
	for i := uint64(1); i <= c46nDerived; i++ {
		pk, sk, err := extractKeyWithIndex(c46mdk[:], i)
		if err != nil || publicKeyToAddress(pk) != h.ks.addr[i] || !bytes.Equal(sk[:], h.ks.sk[i][:]) {
			r.Report("C46:derivation-reference", fmt.Sprintf("extractKeyWithIndex(mdk,%d) differs from HKDF-Expand(SHA-512/256, mdk, \"AlgorandDeterministicKey-%d\") (err %v)", i, i, err), map[string]any{"index": i})
		}
	}
	for k := 0; k < 2; k++ {
		dir := filepath.Join(root, fmt.Sprintf("fresh%d", k))
		os.MkdirAll(dir, 0o700)
		_, w, err := c46open(dir, []byte(fmt.Sprintf("fresh%d", k)), []byte("fresh"), []byte(fmt.Sprintf("pw%d", k)), c46mdk)
		if err != nil {
			t.Fatalf("HARNESS-FAILURE cannot create wallet: %v", err)
		}
		for i := 1; i <= 4; i++ {
			a, err := w.GenerateKey(false)
			if err != nil || a != h.ks.addr[i] {
				r.Report("C46:derivation-reference", fmt.Sprintf("fresh wallet %d: key #%d is %s (err %v), reference D%d", k, i, h.ks.name(a), err, i), map[string]any{"wallet": k, "index": i})
			}
		}
		r.EvalN(4)
	}

	q := &ve.Seq[*c46sys]{
		Name:      "c46-wallet",
		NumOps:    c46nOps,
		OpName:    func(op int) string { return c46opNames[op] },
		New:       h.newSys,
		Close:     h.closeSys,
		Clone:     h.cloneSys,
		Apply:     h.apply,
		Key:       h.key,
		Invariant: h.invariant,
		Final:     h.final,
		MaxDepth:  ve.Pick(4, 7),
	}
	res := q.Explore(r)
	var cov ve.Coverage
	cov.AddSeq(res)
	cov.Exhaustive = res.Exhaustive
	cov.Rule = fmt.Sprintf("E-SEQ: every sequence of <= %d of %d wallet operations on the real SQLiteWalletDriver/SQLiteWallet, read sweep and restore-from-MDK in every state", q.MaxDepth, c46nOps)
	r.Assume("one fixed master derivation key and fixed passwords; scrypt lowered (allow_unsafe_scrypt, N=2,r=1,p=1) as the upstream kmd fixtures do")
	r.Assume("reference derivation = HMAC-SHA-512/256 form of HKDF-Expand over \"AlgorandDeterministicKey-<i>\", cross-checked against extractKeyWithIndex and two fresh wallets")
	r.Set("restores_from_mdk", h.restoreCount.Load())
	r.Assume("successors are computed on a byte copy of the wallet database file and a copy of the in-memory wallet handle; the restore step runs once per distinct state")
	r.Assume("random salts/nonces/master encryption key come from crypto/rand: they do not influence any compared observable")
	if n := r.Finish(cov); n > 0 {
		t.Fatalf("C46: %d violation(s)", n)
	}
}
