package eval

// C29 (part a) — Group commitments bind their contents.
//
// Engine E-ENUM on the real BlockEvaluator.TestTransactionGroup and
// BlockEvaluator.TransactionGroup (validate+generate evaluator over the package's in-memory
// evalTestLedger, protocol ConsensusFuture). A fresh evaluator is started for every case, so no
// case can influence another.
//
// Enumerated, for 2 flavours (payments only / payments + asset creation + key-offline) x group
// sizes 1..4 (thorough: 1..5) of otherwise valid transactions whose Group field is the harness's own computation of
// "hash of all members' IDs (Group field cleared) in order":
//   original                                   (must be accepted by both entry points)
//   every non-identity permutation              (n!-1)
//   every proper non-empty sub-sequence         (2^n-2, includes every single drop)
//   every insertion, at every position, of: a foreign standalone txn (zero group), the same txn
//     claiming this group's id, a member of another valid group, and a duplicate of each own member
//   every single-field alteration of every member, Group field kept (sender, fee, first/last valid,
//     note, lease, genesis id, rekey-to, receiver, amount, close-to)
//   group id zeroed on one member, on all members; replaced by a foreign digest on one member, on all
// Oracle: accepted iff the case is the original — except the one documented bracket: a 1-member
// group whose id is zeroed is an ordinary stand-alone transaction and is (legitimately) accepted.
// Control for non-vacuity: for every field alteration the same altered member inside a re-computed
// group must be accepted (so the rejection above is caused by the group commitment, not by the
// alteration making the transaction invalid); a control that fails is recorded as a harness note.
//
// Not covered: groups > 4, app-call groups, signature checks (package verify; see C28).
// Unexported identifiers used: newTestLedger, evalTestLedger.StartEvaluator (upstream test helpers).
//
// Mutants: listed in data/bookkeeping/verif_c29_b_test.go (M1 and M4 hit this part).

import (
	"fmt"
	"strings"
	"testing"

	"github.com/algorand/go-algorand/crypto"
	"github.com/algorand/go-algorand/data/basics"
	"github.com/algorand/go-algorand/data/bookkeeping"
	"github.com/algorand/go-algorand/data/transactions"
	ledgertesting "github.com/algorand/go-algorand/ledger/testing"
	"github.com/algorand/go-algorand/protocol"
	ve "github.com/algorand/go-algorand/verifeng"
)

type c29case struct {
	Flavour string
	N       int
	Kind    string
	Detail  string
	txns    []transactions.Transaction
	accept  bool
	control bool // a control: acceptance expected, failure is only a harness note
}

// c29gid is the group id by the property's definition.
func c29gid(txns []transactions.Transaction) crypto.Digest {
	var g transactions.TxGroup
	for _, t := range txns {
		t.Group = crypto.Digest{}
		g.TxGroupHashes = append(g.TxGroupHashes, crypto.Digest(t.ID()))
	}
	return crypto.HashObj(g)
}

func c29regroup(txns []transactions.Transaction) []transactions.Transaction {
	out := append([]transactions.Transaction{}, txns...)
	gid := c29gid(out)
	for i := range out {
		out[i].Group = gid
	}
	return out
}

func c29errKind(err error) string {
	if err == nil {
		return "accepted"
	}
	s := err.Error()
	for _, k := range []string{"incomplete group", "inconsistent group values", "had zero Group", "already in ledger", "group size", "malformed", "overspend", "below min"} {
		if strings.Contains(s, k) {
			return k
		}
	}
	if len(s) > 40 {
		s = s[:40]
	}
	return "other:" + s
}

func TestVerif_C29_a(t *testing.T) {
	r := ve.NewRun("C29", "exploration")
	r.Assume("part a: a 1-member group whose group id is zeroed is a plain transaction and is legitimately accepted (bracketed)")
	r.Assume("part a: signatures are not checked by the evaluator (package verify does), so members are unsigned")

	genBalances, addrs, _ := ledgertesting.NewTestGenesis()
	l := newTestLedger(t, genBalances)
	hdr0, err := l.BlockHdr(0)
	if err != nil {
		t.Fatalf("harness: %v", err)
	}
	nextHdr := bookkeeping.MakeBlock(hdr0).BlockHeader
	proto := l.GenesisProto()
	rnd := nextHdr.Round
	genHash := l.GenesisHash()

	mkHdr := func(sender int, salt byte) transactions.Header {
		return transactions.Header{Sender: addrs[sender], Fee: basics.MicroAlgos{Raw: 2 * proto.MinTxnFee}, FirstValid: rnd, LastValid: rnd + 10,
			GenesisHash: genHash, Note: []byte{'c', '2', '9', salt}}
	}
	pay := func(sender, recv int, amt uint64, salt byte) transactions.Transaction {
		return transactions.Transaction{Type: protocol.PaymentTx, Header: mkHdr(sender, salt),
			PaymentTxnFields: transactions.PaymentTxnFields{Receiver: addrs[recv], Amount: basics.MicroAlgos{Raw: amt}}}
	}
	acfg := func(sender int, salt byte) transactions.Transaction {
		return transactions.Transaction{Type: protocol.AssetConfigTx, Header: mkHdr(sender, salt),
			AssetConfigTxnFields: transactions.AssetConfigTxnFields{AssetParams: basics.AssetParams{Total: 100, UnitName: "c29", Manager: addrs[sender]}}}
	}
	keyoff := func(sender int, salt byte) transactions.Transaction {
		return transactions.Transaction{Type: protocol.KeyRegistrationTx, Header: mkHdr(sender, salt)}
	}
	flavours := map[string][]transactions.Transaction{
		"pay":   {pay(0, 1, 1_000_001, 1), pay(1, 2, 1_000_002, 2), pay(2, 0, 1_000_003, 3), pay(3, 0, 1_000_004, 4), pay(6, 1, 1_000_005, 12)},
		"mixed": {acfg(4, 5), pay(5, 4, 2_000_001, 6), keyoff(6, 7), pay(7, 6, 2_000_002, 8), pay(3, 5, 2_000_003, 13)},
	}
	foreignPlain := pay(8, 9, 3_000_001, 9)
	otherGroup := c29regroup([]transactions.Transaction{pay(8, 9, 3_000_002, 10), pay(9, 8, 3_000_003, 11)})

	type alt struct {
		name string
		f    func(*transactions.Transaction)
	}
	alts := []alt{
		{"sender", func(t *transactions.Transaction) { t.Sender = addrs[9] }},
		{"fee+1", func(t *transactions.Transaction) { t.Fee.Raw++ }},
		{"firstvalid-1", func(t *transactions.Transaction) { t.FirstValid-- }},
		{"lastvalid+1", func(t *transactions.Transaction) { t.LastValid++ }},
		{"note", func(t *transactions.Transaction) { t.Note = append(append([]byte{}, t.Note...), 'x') }},
		{"lease", func(t *transactions.Transaction) { t.Lease[0] ^= 1 }},
		{"genesisid", func(t *transactions.Transaction) { t.GenesisID = nextHdr.GenesisID }},
		{"rekeyto", func(t *transactions.Transaction) { t.RekeyTo = addrs[8] }}, // takes effect after the txn: benign for distinct senders
		{"receiver", func(t *transactions.Transaction) {
			if t.Type == protocol.PaymentTx {
				t.Receiver = addrs[7]
			} else {
				t.Note = []byte("not-a-payment")
			}
		}},
		{"amount+1", func(t *transactions.Transaction) {
			if t.Type == protocol.PaymentTx {
				t.Amount.Raw++
			} else if t.Type == protocol.AssetConfigTx {
				t.AssetParams.Total++
			} else {
				t.Note = []byte("no-amount")
			}
		}},
		{"closeto", func(t *transactions.Transaction) {
			if t.Type == protocol.PaymentTx {
				t.CloseRemainderTo = addrs[9]
			} else if t.Type == protocol.AssetConfigTx {
				t.AssetParams.Reserve = addrs[7]
			} else {
				t.Note = []byte("no-close")
			}
		}},
	}

	maxN := ve.Pick(4, 5) // group sizes 1..4 (quick) / 1..5 (thorough)
	var cases []c29case
	for _, fl := range []string{"pay", "mixed"} {
		for n := 1; n <= maxN; n++ {
			orig := c29regroup(flavours[fl][:n])
			add := func(kind, detail string, txns []transactions.Transaction, accept, control bool) {
				cases = append(cases, c29case{Flavour: fl, N: n, Kind: kind, Detail: detail, txns: txns, accept: accept, control: control})
			}
			add("original", "", orig, true, false)
			ve.Permutations(n, func(p []int) {
				id := true
				for i, v := range p {
					if i != v {
						id = false
					}
				}
				if id {
					return
				}
				var g []transactions.Transaction
				for _, v := range p {
					g = append(g, orig[v])
				}
				add("permutation", fmt.Sprint(p), g, false, false)
			})
			ve.Subsets(n, func(mask uint) {
				if mask == 0 || mask == 1<<uint(n)-1 {
					return
				}
				var g []transactions.Transaction
				for i := 0; i < n; i++ {
					if mask&(1<<uint(i)) != 0 {
						g = append(g, orig[i])
					}
				}
				add("subsequence", fmt.Sprintf("keep=%b", mask), g, false, false)
			})
			claim := foreignPlain
			claim.Group = orig[0].Group
			inserts := map[string]transactions.Transaction{"foreign-plain": foreignPlain, "foreign-claiming-gid": claim, "member-of-other-group": otherGroup[0]}
			for i := 0; i < n; i++ {
				inserts[fmt.Sprintf("duplicate-of-%d", i)] = orig[i]
			}
			for _, name := range []string{"foreign-plain", "foreign-claiming-gid", "member-of-other-group", "duplicate-of-0", "duplicate-of-1", "duplicate-of-2", "duplicate-of-3", "duplicate-of-4"} {
				ins, ok := inserts[name]
				if !ok {
					continue
				}
				for pos := 0; pos <= n; pos++ {
					g := append(append(append([]transactions.Transaction{}, orig[:pos]...), ins), orig[pos:]...)
					add("insert", fmt.Sprintf("%s@%d", name, pos), g, false, false)
				}
			}
			for i := 0; i < n; i++ {
				for _, a := range alts {
					g := append([]transactions.Transaction{}, orig...)
					a.f(&g[i])
					add("alter", fmt.Sprintf("%s@%d", a.name, i), g, false, false)
					add("alter-control", fmt.Sprintf("%s@%d regrouped", a.name, i), c29regroup(g), true, true)
				}
				g := append([]transactions.Transaction{}, orig...)
				g[i].Group = crypto.Digest{}
				add("gid-zero-one", fmt.Sprintf("@%d", i), g, n == 1, false)
				g = append([]transactions.Transaction{}, orig...)
				g[i].Group = otherGroup[0].Group
				add("gid-foreign-one", fmt.Sprintf("@%d", i), g, false, false)
			}
			if n > 1 {
				g := append([]transactions.Transaction{}, orig...)
				for i := range g {
					g[i].Group = crypto.Digest{}
				}
				add("gid-zero-all", "", g, false, false)
			}
			g := append([]transactions.Transaction{}, orig...)
			for i := range g {
				g[i].Group = otherGroup[0].Group
			}
			add("gid-foreign-all", "", g, false, false)
		}
	}

	visited := r.ParallelFor(len(cases), func(i int) {
		c := cases[i]
		ev, err := l.StartEvaluator(nextHdr, 0, 0, nil)
		if err != nil {
			r.Note("harness: StartEvaluator failed: %v", err)
			r.Capped()
			return
		}
		stxns := make([]transactions.SignedTxn, len(c.txns))
		for j, tx := range c.txns {
			stxns[j] = transactions.SignedTxn{Txn: tx}
		}
		errT := ev.TestTransactionGroup(stxns)
		errG := ev.TransactionGroup(transactions.WrapSignedTxnsWithAD(stxns)...)
		r.EvalN(2)
		if c.control {
			if errT != nil || errG != nil {
				r.Note("control not accepted (%s n=%d %s): %v / %v", c.Flavour, c.N, c.Detail, errT, errG)
				r.Add("controls_rejected", 1)
			} else {
				r.Add("controls_accepted", 1)
			}
			return
		}
		r.Class(fmt.Sprintf("a/%s/Test:%s/Group:%s", c.Kind, c29errKind(errT), c29errKind(errG)))
		if i%37 == 0 {
			r.Sample(map[string]any{"part": "a", "flavour": c.Flavour, "n": c.N, "kind": c.Kind, "detail": c.Detail, "TestTransactionGroup": c29errKind(errT), "TransactionGroup": c29errKind(errG)})
		}
		rep := map[string]any{"engine": "enum", "part": "a", "flavour": c.Flavour, "n": c.N, "kind": c.Kind, "detail": c.Detail}
		if (errG == nil) != c.accept {
			r.Report("C29:group:"+c.Kind+":TransactionGroup", fmt.Sprintf("%s group of %d, %s %s: TransactionGroup accepted=%v (err %v), expected accepted=%v", c.Flavour, c.N, c.Kind, c.Detail, errG == nil, errG, c.accept), rep)
		}
		if (errT == nil) != c.accept {
			r.Report("C29:group:"+c.Kind+":TestTransactionGroup", fmt.Sprintf("%s group of %d, %s %s: TestTransactionGroup accepted=%v (err %v), expected accepted=%v", c.Flavour, c.N, c.Kind, c.Detail, errT == nil, errT, c.accept), rep)
		}
	})
	cov := ve.Coverage{
		Rule:       fmt.Sprintf("part a: %d group cases = 2 flavours x sizes 1..%d x {original, all permutations, all proper sub-sequences, all insertions (3 foreign kinds + own duplicates, every position), %d single-field alterations per member (+ regrouped controls), group id zeroed/foreign on one/all}; each through TestTransactionGroup and TransactionGroup on a fresh evaluator", len(cases), maxN, len(alts)),
		Exhaustive: visited == int64(len(cases)),
	}
	if n := r.Finish(cov); n > 0 {
		t.Fatalf("C29 part a: %d violation(s)", n)
	}
}
