package agreement

// E-AGR, part 3: the node shell and the global system.
//
// A node is the REAL player + rootRouter, advanced only by rootRouter.submitTop, wrapped in a
// deterministic single-threaded shell that mirrors Service.mainLoop / Service.do / actions.go /
// demux.next / pseudonode.go:
//
//   network actions   -> (message, destination) pairs appended to the in-flight multiset
//   verify* actions   -> a pending verification whose completion runs the real verify/validate and
//                        is fed back as voteVerified / payloadVerified / bundleVerified
//   assemble/repropose-> real proposalForBlock / makeVote for the node's account, fed back through the
//                        loopback queue (votes first, then payloads, as pseudonodeProposalsTask does)
//   attest            -> real makeVote; then persistState: snapshot = encode(clock, persistRouter,
//                        persistStatus, persistActions) taken NOW (Service.persistState), queued as a
//                        "persist" loopback item (disk write + checkpointEvent), followed by the vote
//                        events, which are therefore released only after the checkpoint was processed
//   ensure            -> write into the node's mock ledger (the commit observation)
//   stageDigest       -> recorded in the mock ledger
//   rezero            -> clock zero := now
//   crash-restart     -> volatile state dropped; decode(disk) or fresh player at ledger.NextRound(),
//                        exactly the two branches of Service.mainLoop, then the restored pending
//                        actions are executed again; whether persistRouter/persistStatus/persistActions
//                        hold the restored values at that point is PROBED on the real Service.mainLoop
//                        (eagrProbeRestorePath), not assumed

import (
	"crypto/sha256"
	"encoding/binary"
	"fmt"
	"os"
	"runtime/debug"
	"sort"
	"strings"
	"sync"
	"time"

	"github.com/algorand/go-algorand/crypto"
	"github.com/algorand/go-algorand/data/basics"
	"github.com/algorand/go-algorand/protocol"
	"github.com/algorand/go-algorand/util/db"
	"github.com/algorand/go-algorand/util/timers"
)

// eagrHandle is the MessageHandle of a message received from node src (-1: the adversary).
type eagrHandle struct{ src int }

// eagrClock is the timers.Clock handed to encode/decode: only its zero point matters.
type eagrClock struct{ zero int64 }

func (c eagrClock) Zero() timers.Clock[TimeoutType] { return c }
func (c eagrClock) Since() time.Duration            { return 0 }
func (c eagrClock) TimeoutAt(d time.Duration, t TimeoutType) <-chan time.Time {
	return nil
}
func (c eagrClock) Encode() []byte {
	return binary.LittleEndian.AppendUint64(nil, uint64(c.zero))
}
func (c eagrClock) Decode(b []byte) (timers.Clock[TimeoutType], error) {
	if len(b) != 8 {
		return nil, fmt.Errorf("eagrClock: bad encoding")
	}
	return eagrClock{zero: int64(binary.LittleEndian.Uint64(b))}, nil
}

// eagrCfg selects the shell's modelling options.
type eagrCfg struct {
	env          *eagrEnv
	nNodes       int          // honest nodes; node j runs account j. Accounts >= nNodes are the adversary's.
	atomicVerify bool         // verification completes within the step that requested it
	atomicLoop   bool         // loopback items are processed within the step that queued them
	forward      bool         // forwarding relays (non-nil handle) reach nodes that were never sent the message
	flightSet    bool         // in-flight is a set (BFS) rather than a FIFO multiset (DFS)
	maxRound     basics.Round // a node whose round exceeds maxRound becomes passive
	maxPeriod    period       // a node whose period exceeds maxPeriod becomes passive
	proposers    []bool       // which nodes assemble proposals in period 0 (nil: all)
	noProposalTo []bool       // nodes that are cut off from period-0 proposal payloads (nil: none)
	entropy      uint64       // RandomEntropy of timeout events
	diff         *eagrDiffer  // C07 differential hook (nil: off)
	catchupDelay int8         // virtual-time mode: regular ticks a node must be behind before its ledger catches up
	virtualTime  bool         // deadlines are compared with a virtual clock (DFS); false: Since()=0
	ordered      bool         // delivery order (sequence numbers) is part of the canonical state (lock-step explorer)
	trackValues  bool         // keep the set of proposal values seen on the network (adversary alphabet)
	trackVotes   bool         // C02(i): remember every vote released by each account (ghost state, part of the key)
	restoreKeepsAhead   bool  // Service.mainLoop keeps a restored state whose round is ahead of the ledger (probed on the real code)
	restoreInitsPersist bool  // Service.mainLoop initialises persistRouter/Status/Actions on its restore path (probed on the real code)
}

type eagrLoopItem struct {
	persist bool
	ev      externalEvent // !persist
	raw     []byte        // persist: the snapshot to write
	r       basics.Round
	p       period
	s       step
	own     bool // ev is a vote of this node's account being released
}

// eagrNode is one honest node.
type eagrNode struct {
	id      int
	rr      rootRouter
	p       player
	led     *eagrLedger
	loop    []eagrLoopItem
	ver     []cryptoAction
	disk    []byte
	zero    int64
	hist    map[basics.Round]int64
	passive bool

	// mirrors of Service.persistRouter / persistStatus / persistActions: valid iff persistFresh
	persistFresh bool
	persistA     []action

	crashes int

	// ghost state for C02(i): every vote this node's account released through the loopback, by
	// (round, period, step). Survives crash-restarts (it is the observer's memory, not the node's).
	released map[eagrRPS]proposalValue
	// lostState: a restart found the crash state overwritten by the empty state that the replay of a
	// restored attest action persists (Service.persistRouter/Status/Actions are not initialised on
	// the restore path) and therefore started a fresh player for a round it had already voted in.
	lostState bool
	down      bool       // stopped for good (node-down deviation); also passive
	behind    int8       // virtual-time mode: regular ticks during which another node already held this node's next block
	lostBlock *eagrEntry // block the ledger lost in a crash (re-delivered by the catch-up event)

	// C07: the (restored, reference) image pair as it was after the previous event of this node; the
	// next event is applied to copies of both as well (behaviour compared two events after the restore)
	prevPair *eagrPair

	relClock bool  // virtual-time mode: the key uses phase instead of zero
	phase    int64 // now - zero at the time the key was computed (virtual-time mode)

	keyOK  bool // cached canonical key of this node (nodes are immutable once stored in a state)
	keySum [32]byte
}

// deviation kinds of the lock-step explorer
const (
	eagrDevDrop = iota
	eagrDevHold
	eagrDevReorder
	eagrDevDup
	eagrDevCrash
	eagrDevByz
	eagrDevSkew
	eagrDevFast
	eagrDevSlow // every in-flight copy of one proposal payload is held back past the next 1 or 2 timeouts
	eagrDevCut  // votes of one (period, step) reach only one node / do not cross the cut {node}|rest
	eagrDevCrashLose // crash-restart in which the node's ledger lost its last block (re-delivered later)
	eagrDevFateSoftLate // the soft votes of one (round, period) arrive late everywhere (held past 1 or 2 timeouts)
	eagrDevFateSplit    // the votes of one (round, period, step) reach one node now, a subset of the others two timeouts later, the rest never
	eagrDevFateMiss     // the votes of one (round, period, step) reach one node two timeouts late or never, everybody else now
	eagrDevDown         // one node stops for good (what it already sent is still delivered)
	eagrDevOff  // one node is cut off from the network (both directions) for the next d delivery sub-phases
	eagrNDev
)

var eagrDevNames = [eagrNDev]string{"drop", "hold-past-timeout", "reorder", "dup", "crash", "byz", "skew", "fast", "slow-payload", "vote-cut", "crash-with-ledger-rollback", "soft-votes-late", "votes-split", "votes-miss-one-node", "node-down", "node-offline"}

type eagrDevs [eagrNDev]int8

func (d eagrDevs) total() int {
	t := 0
	for _, x := range d {
		t += int(x)
	}
	return t
}

// eagrRPS identifies a voting slot of an account.
type eagrRPS struct {
	r basics.Round
	p period
	s step
}

type eagrFlight struct {
	m      *eagrMsg
	dst    int
	src    int
	seq    int
	parked bool // lock-step explorer: held back until after the next tick
	ticks  int8 // parked: number of ticks it still has to sit out (0/1: released at the next tick)
}

// eagrFate is a per-destination delivery rule for the votes of one (round, period, step): each
// destination gets them now (0), late (held past `late[dst]` further timeouts) or never (-1).
type eagrFate struct {
	round  basics.Round
	period period
	step   step
	dst    [8]int8
}

func (f eagrFate) matches(m *eagrMsg) bool {
	return m.tag == protocol.AgreementVoteTag && m.vote.R.Round == f.round && m.vote.R.Period == f.period && m.vote.R.Step == f.step
}

// eagrCut is a selective-delivery deviation: votes of (period, step) of the explored round either
// reach only node `node` (only) or do not cross the cut {node} | rest in either direction (!only).
type eagrCut struct {
	active bool
	only   bool
	node   int
	period period
	step   step
}

// blocks reports whether the cut loses message m sent by src on its way to dst.
func (c eagrCut) blocks(m *eagrMsg, src, dst int) bool {
	if !c.active || m.tag != protocol.AgreementVoteTag || m.vote.R.Period != c.period || m.vote.R.Step != c.step {
		return false
	}
	if c.only {
		return dst != c.node
	}
	return (src == c.node) != (dst == c.node)
}

// eagrSys is the global state.
type eagrSys struct {
	cfg    *eagrCfg
	nodes  []*eagrNode
	flight []eagrFlight
	now    int64
	seq    int
	sent    map[string]bool // forward suppression: msg id + dst ever enqueued (only if cfg.forward)
	values  map[proposalValue]bool
	barrier int // lock-step explorer: flight entries with seq <= barrier are eligible in this sub-phase
	cut           eagrCut
	fates         []eagrFate
	offNode       int // node-offline deviation: node (valid while offLeft > 0)
	offLeft       int // delivery sub-phases the node still stays cut off
	syncPeriod    int // C05: highest period of any node when the last deviation was taken (ghost)
	lastDevPeriod int
	devs    eagrDevs // lock-step explorer: deviations used so far, by kind
	subStart bool    // lock-step explorer: no message of the current delivery sub-phase was handled yet

	// accumulated observations of one execution (DFS); BFS evaluates per transition instead
	stats eagrStats
}

type eagrStats struct {
	submits, deliveries, timeouts, fastTimeouts, crashes, restoresFromDisk, restoresFresh int64
	commits, attests, persists, released, forwardsSuppressed, ignores, byzVotes     int64
	period1, bundlesSent, verifyFail, equivocations                                   int64
}

func (a *eagrStats) add(b *eagrStats) {
	a.submits += b.submits
	a.deliveries += b.deliveries
	a.timeouts += b.timeouts
	a.fastTimeouts += b.fastTimeouts
	a.crashes += b.crashes
	a.restoresFromDisk += b.restoresFromDisk
	a.restoresFresh += b.restoresFresh
	a.commits += b.commits
	a.attests += b.attests
	a.persists += b.persists
	a.released += b.released
	a.forwardsSuppressed += b.forwardsSuppressed
	a.ignores += b.ignores
	a.byzVotes += b.byzVotes
	a.period1 += b.period1
	a.bundlesSent += b.bundlesSent
	a.verifyFail += b.verifyFail
	a.equivocations += b.equivocations
}

// eagrSub records one submitTop call.
type eagrSub struct {
	node  int
	event string
	acts  []string
}

// eagrCommit is one ensureAction emitted by an honest node.
type eagrCommit struct {
	node   int
	act    ensureAction
	period period
}

// eagrOut is what one step produced.
type eagrOut struct {
	commits   []eagrCommit
	released  []unauthenticatedVote
	panicMsg  string
	conflicts []string
	diffs     []string // C07 differential mismatches
	equivoc   []string // C02(i): an account released two values for one (round, period, step)
	subs      []eagrSub
	trace     bool
}

func eagrNewSys(cfg *eagrCfg) *eagrSys {
	s := &eagrSys{cfg: cfg, values: map[proposalValue]bool{}}
	if cfg.forward {
		s.sent = map[string]bool{}
	}
	for j := 0; j < cfg.nNodes; j++ {
		n := &eagrNode{id: j, led: eagrNewLedger(cfg.env), hist: map[basics.Round]int64{}}
		s.nodes = append(s.nodes, n)
	}
	return s
}

// boot starts every node as Service.mainLoop does without crash state.
func (s *eagrSys) boot(out *eagrOut) {
	for _, n := range s.nodes {
		n.startFresh(s, out)
	}
}

func (n *eagrNode) startFresh(s *eagrSys, out *eagrOut) {
	next := n.led.NextRound()
	ver, _ := n.led.ConsensusVersion(next)
	n.p = player{Round: next, Step: soft, Deadline: Deadline{Duration: FilterTimeout(0, ver), Type: TimeoutFilter},
		lowestCredentialArrivals: makeCredentialArrivalHistory(dynamicFilterCredentialArrivalHistory)}
	n.rr = makeRootRouter(n.p)
	acts := []action{pseudonodeAction{T: assemble, Round: next}, rezeroAction{}}
	n.do(s, acts, out)
	n.settle(s, out)
}

// clone returns an independent copy of the node (encode-independent deep copy of the state machine).
func (n *eagrNode) clone() *eagrNode {
	c := &eagrNode{id: n.id, led: n.led.clone(), disk: n.disk, zero: n.zero, passive: n.passive,
		persistFresh: n.persistFresh, persistA: n.persistA, crashes: n.crashes, lostState: n.lostState, prevPair: n.prevPair, lostBlock: n.lostBlock, down: n.down, behind: n.behind}
	c.p, c.rr = eagrCopyState(&n.p, &n.rr)
	c.loop = append([]eagrLoopItem(nil), n.loop...)
	c.ver = append([]cryptoAction(nil), n.ver...)
	if n.released != nil {
		c.released = make(map[eagrRPS]proposalValue, len(n.released))
		for k, v := range n.released {
			c.released[k] = v
		}
	}
	c.hist = make(map[basics.Round]int64, len(n.hist))
	for k, v := range n.hist {
		c.hist[k] = v
	}
	return c
}

// clone copies the system; nodes are shared (copy-on-write: call own(j) before mutating node j).
func (s *eagrSys) clone() *eagrSys {
	c := &eagrSys{cfg: s.cfg, now: s.now, seq: s.seq, barrier: s.barrier, devs: s.devs, subStart: s.subStart, syncPeriod: s.syncPeriod, lastDevPeriod: s.lastDevPeriod, cut: s.cut, offNode: s.offNode, offLeft: s.offLeft, fates: s.fates}
	c.nodes = append([]*eagrNode(nil), s.nodes...)
	c.flight = append([]eagrFlight(nil), s.flight...)
	if s.sent != nil {
		c.sent = make(map[string]bool, len(s.sent))
		for k := range s.sent {
			c.sent[k] = true
		}
	}
	if s.cfg.trackValues {
		c.values = make(map[proposalValue]bool, len(s.values))
		for k := range s.values {
			c.values[k] = true
		}
	}
	return c
}

// deepClone copies the system and every node.
func (s *eagrSys) deepClone() *eagrSys {
	c := s.clone()
	for j := range c.nodes {
		c.nodes[j] = c.nodes[j].clone()
	}
	c.stats = s.stats
	return c
}

func (s *eagrSys) own(j int) *eagrNode {
	s.nodes[j] = s.nodes[j].clone()
	return s.nodes[j]
}

// ---------------------------------------------------------------------------------------------
// the shell

func (n *eagrNode) since(s *eagrSys, zero int64) time.Duration {
	if !s.cfg.virtualTime {
		return 0
	}
	return time.Duration(s.now - zero)
}

// attach mirrors the deferred block of demux.next.
func (n *eagrNode) attach(s *eagrSys, e externalEvent) externalEvent {
	proto, err := n.led.ConsensusVersion(ParamsRound(e.ConsensusRound()))
	e = e.AttachConsensusVersion(ConsensusVersionView{Err: makeSerErr(err), Version: proto})
	getClock := func(r basics.Round) roundStartTimer {
		hist := map[basics.Round]roundStartTimer{}
		for hr, z := range n.hist {
			hist[hr] = constantRoundStartTimer(n.since(s, z))
		}
		return clockForRound(n.p.Round, constantRoundStartTimer(n.since(s, n.zero)), hist)(r)
	}
	switch e.t() {
	case payloadVerified:
		e = e.(messageEvent).AttachValidatedAt(getClock)
	case payloadPresent, votePresent:
		e = e.(messageEvent).AttachReceivedAt(getClock)
	case voteVerified:
		if e.(messageEvent).Input.Vote.R.Step == 0 {
			e = e.(messageEvent).AttachValidatedAt(getClock)
		}
	}
	return e
}

func eagrActStr(a action) string {
	switch a := a.(type) {
	case networkAction:
		switch a.Tag {
		case protocol.AgreementVoteTag:
			return fmt.Sprintf("%s vote %.6x/%d/%d/%d %s h=%v", a.T, a.UnauthenticatedVote.R.Sender[:], a.UnauthenticatedVote.R.Round, a.UnauthenticatedVote.R.Period, a.UnauthenticatedVote.R.Step, eagrPV(a.UnauthenticatedVote.R.Proposal), a.h != nil)
		case protocol.VoteBundleTag:
			return fmt.Sprintf("%s bundle %d/%d/%d %s n=%d+%d h=%v", a.T, a.UnauthenticatedBundle.Round, a.UnauthenticatedBundle.Period, a.UnauthenticatedBundle.Step, eagrPV(a.UnauthenticatedBundle.Proposal), len(a.UnauthenticatedBundle.Votes), len(a.UnauthenticatedBundle.EquivocationVotes), a.h != nil)
		case protocol.ProposalPayloadTag:
			return fmt.Sprintf("%s payload %s vote=%v h=%v", a.T, eagrPV(a.CompoundMessage.Proposal.value()), a.CompoundMessage.Vote != (unauthenticatedVote{}), a.h != nil)
		}
		if a.T == broadcastVotes {
			return fmt.Sprintf("%s n=%d", a.T, len(a.UnauthenticatedVotes))
		}
		return fmt.Sprintf("%s err=%v", a.T, a.Err)
	case ensureAction:
		return fmt.Sprintf("ensure r%d p%d %s", a.Certificate.Round, a.Certificate.Period, eagrPV(a.Certificate.Proposal))
	}
	return a.ComparableStr()
}

// submit feeds one external event to the real state machine and interprets the actions.
func (n *eagrNode) submit(s *eagrSys, e externalEvent, out *eagrOut) {
	if out.panicMsg != "" {
		return
	}
	e = n.attach(s, e)
	s.stats.submits++
	var shadow *eagrShadow
	if s.cfg.diff != nil {
		if n.prevPair != nil {
			if d := s.cfg.diff.second(s, n, e); d != "" {
				out.diffs = append(out.diffs, d)
			}
			n.prevPair = nil
		}
		shadow = s.cfg.diff.prepare(s, n, e)
	}
	acts, pm := n.rawSubmit(s, e)
	if pm != "" {
		out.panicMsg = fmt.Sprintf("node %d: submitTop(%s) panicked: %s", n.id, e.ComparableStr(), pm)
		return
	}
	if out.trace {
		sub := eagrSub{node: n.id, event: eagrEvStr(e)}
		for _, a := range acts {
			sub.acts = append(sub.acts, eagrActStr(a))
		}
		out.subs = append(out.subs, sub)
	}
	if persistent(acts) {
		n.persistFresh = true
		n.persistA = acts
	}
	if shadow != nil {
		if d := s.cfg.diff.compare(s, n, e, acts, shadow); d != "" {
			out.diffs = append(out.diffs, d)
		} else if shadow.ref != nil && shadow.pm == "" {
			n.prevPair = &eagrPair{rp: shadow.p, rrr: shadow.rr, fp: shadow.ref.p, frr: shadow.ref.rr, ev: eagrEvStr(e)}
		}
	}
	n.do(s, acts, out)
}

func eagrEvStr(e externalEvent) string {
	if me, ok := e.(messageEvent); ok {
		switch me.T {
		case votePresent, voteVerified:
			uv := me.Input.UnauthenticatedVote
			return fmt.Sprintf("%s %.6x/%d/%d/%d %s err=%v tail=%v", me.T, uv.R.Sender[:], uv.R.Round, uv.R.Period, uv.R.Step, eagrPV(uv.R.Proposal), me.Err != nil, me.Tail != nil)
		case payloadPresent, payloadVerified:
			return fmt.Sprintf("%s %s err=%v", me.T, eagrPV(me.Input.UnauthenticatedProposal.value()), me.Err != nil)
		case bundlePresent, bundleVerified:
			ub := me.Input.UnauthenticatedBundle
			return fmt.Sprintf("%s %d/%d/%d %s err=%v", me.T, ub.Round, ub.Period, ub.Step, eagrPV(ub.Proposal), me.Err != nil)
		}
	}
	return e.ComparableStr()
}

// rawSubmit calls the real rootRouter.submitTop, converting a panic into a message.
func (n *eagrNode) rawSubmit(s *eagrSys, e externalEvent) (acts []action, panicMsg string) {
	defer func() {
		if r := recover(); r != nil {
			panicMsg = fmt.Sprintf("%v\n%s", r, eagrTrimStack(string(debug.Stack())))
		}
	}()
	tr := &tracer{log: serviceLogger{s.cfg.env.log}}
	n.p, acts = n.rr.submitTop(tr, n.p, e)
	return acts, ""
}

func eagrTrimStack(st string) string {
	lines := strings.Split(st, "\n")
	var keep []string
	for _, l := range lines {
		if strings.Contains(l, "agreement.") && !strings.Contains(l, "eagr") {
			keep = append(keep, strings.TrimSpace(l))
		}
		if len(keep) >= 8 {
			break
		}
	}
	return strings.Join(keep, " <- ")
}

// settle processes what the real demux would hand over before any other input when the
// corresponding queue is modelled as atomic.
func (n *eagrNode) settle(s *eagrSys, out *eagrOut) {
	for out.panicMsg == "" {
		if s.cfg.atomicLoop && len(n.loop) > 0 {
			n.loopStep(s, out)
			continue
		}
		if s.cfg.atomicVerify && len(n.ver) > 0 {
			n.verStep(s, 0, out)
			continue
		}
		break
	}
	if n.led.conflict != "" {
		out.conflicts = append(out.conflicts, fmt.Sprintf("node %d: %s", n.id, n.led.conflict))
		n.led.conflict = ""
	}
	if n.p.Round > s.cfg.maxRound || n.p.Period > s.cfg.maxPeriod {
		// the node left the explored rounds/periods: it takes no further part
		n.passive = true
		n.loop = nil
		n.ver = nil
	}
	if n.p.Period >= 1 {
		s.stats.period1++
	}
}

// loopStep processes the head of the loopback queue.
func (n *eagrNode) loopStep(s *eagrSys, out *eagrOut) {
	it := n.loop[0]
	n.loop = n.loop[1:]
	if it.persist {
		n.disk = it.raw
		s.stats.persists++
		n.submit(s, checkpointEvent{Round: it.r, Period: it.p, Step: it.s}, out)
		return
	}
	if it.own {
		uv := it.ev.(messageEvent).Input.UnauthenticatedVote
		out.released = append(out.released, uv)
		s.stats.released++
		if s.cfg.trackVotes {
			if n.released == nil {
				n.released = map[eagrRPS]proposalValue{}
			}
			k := eagrRPS{uv.R.Round, uv.R.Period, uv.R.Step}
			if old, ok := n.released[k]; ok && old != uv.R.Proposal {
				cls := "other"
				if n.lostState {
					cls = "crash-state-overwritten-by-restart"
				}
				out.equivoc = append(out.equivoc, cls+"|"+fmt.Sprintf("account a%d (node %d) released a vote for %s at (round %d, period %d, step %d) after having released a vote for %s for the same slot (crash-restarts of this node so far: %d)",
					n.id, n.id, eagrPV(uv.R.Proposal), uv.R.Round, uv.R.Period, uv.R.Step, eagrPV(old), n.crashes))
			}
			n.released[k] = uv.R.Proposal
		}
	}
	n.submit(s, it.ev, out)
}

// verStep completes pending verification i with the real verification code.
func (n *eagrNode) verStep(s *eagrSys, i int, out *eagrOut) {
	a := n.ver[i]
	n.ver = append(append([]cryptoAction(nil), n.ver[:i]...), n.ver[i+1:]...)
	env := s.cfg.env
	m := a.M
	switch a.T {
	case verifyVote:
		v, err := env.verifyVote(m.UnauthenticatedVote, n.led)
		m.Vote = v
		if err != nil {
			s.stats.verifyFail++
		}
		n.submit(s, messageEvent{T: voteVerified, Input: m, TaskIndex: a.TaskIndex, Err: makeSerErr(err)}, out)
	case verifyPayload:
		p, err := env.validateProposal(m.UnauthenticatedProposal, a.Round, n.led)
		if err != nil {
			s.stats.verifyFail++
			n.submit(s, messageEvent{T: payloadVerified, Input: m, Err: makeSerErrf("rejected invalid proposalPayload: %v", err)}, out)
			return
		}
		m.Proposal = p
		n.submit(s, messageEvent{T: payloadVerified, Input: m}, out)
	case verifyBundle:
		b, err := env.verifyBundle(m.UnauthenticatedBundle, n.led)
		if err != nil {
			s.stats.verifyFail++
			n.submit(s, messageEvent{T: bundleVerified, Input: m, Err: makeSerErr(err)}, out)
			return
		}
		m.Bundle = b
		n.submit(s, messageEvent{T: bundleVerified, Input: m}, out)
	}
}

// do mirrors Service.do.
func (n *eagrNode) do(s *eagrSys, acts []action, out *eagrOut) {
	env := s.cfg.env
	for _, a := range acts {
		switch a := a.(type) {
		case networkAction:
			n.doNetwork(s, a)
		case cryptoAction:
			n.ver = append(n.ver, a)
		case ensureAction:
			out.commits = append(out.commits, eagrCommit{node: n.id, act: a, period: a.Certificate.Period})
			s.stats.commits++
			if a.Payload.ve != nil {
				n.led.EnsureValidatedBlock(a.Payload.ve, a.Certificate)
			} else {
				n.led.EnsureBlock(a.Payload.Block, a.Certificate)
			}
		case stageDigestAction:
			n.led.EnsureDigest(a.Certificate, nil)
		case rezeroAction:
			n.zero = s.now
			if _, ok := n.hist[a.Round]; !ok {
				n.hist[a.Round] = n.zero
			}
			for r := range n.hist {
				if a.Round > r+credentialRoundLag {
					delete(n.hist, r)
				}
			}
		case pseudonodeAction:
			switch a.T {
			case assemble:
				if a.Round != n.led.NextRound() {
					continue // BlockFactory.AssembleBlock: stale / future round
				}
				if s.cfg.proposers != nil && a.Period == 0 && !s.cfg.proposers[n.id] {
					continue // configuration: this node has no block to propose in period 0
				}
				pp, pv, err := env.makeProposal(n.id, a.Round, a.Period, n.led)
				if err != nil {
					continue
				}
				rv := rawVote{Sender: env.addrs[n.id], Round: a.Round, Period: a.Period, Step: propose, Proposal: pv}
				uv, err := env.makeVote(n.id, rv, n.led)
				if err != nil {
					continue
				}
				v, err := env.verifyVote(uv, n.led)
				if err != nil {
					continue
				}
				n.loop = append(n.loop,
					eagrLoopItem{ev: messageEvent{T: voteVerified, Input: message{Tag: protocol.AgreementVoteTag, UnauthenticatedVote: uv, Vote: v}}, own: true},
					eagrLoopItem{ev: messageEvent{T: payloadVerified, Input: message{Tag: protocol.ProposalPayloadTag, UnauthenticatedProposal: pp.u(), Proposal: pp}}})
			case repropose:
				rv := rawVote{Sender: env.addrs[n.id], Round: a.Round, Period: a.Period, Step: propose, Proposal: a.Proposal}
				uv, err := env.makeVote(n.id, rv, n.led)
				if err != nil {
					continue
				}
				v, err := env.verifyVote(uv, n.led)
				if err != nil {
					continue
				}
				n.loop = append(n.loop, eagrLoopItem{ev: messageEvent{T: voteVerified, Input: message{Tag: protocol.AgreementVoteTag, UnauthenticatedVote: uv, Vote: v}}, own: true})
			case attest:
				s.stats.attests++
				rv := rawVote{Sender: env.addrs[n.id], Round: a.Round, Period: a.Period, Step: a.Step, Proposal: a.Proposal}
				uv, err := env.makeVote(n.id, rv, n.led)
				if err != nil {
					continue
				}
				v, err := env.verifyVote(uv, n.led)
				if err != nil {
					continue
				}
				// Service.persistState: the snapshot is taken now, from persistRouter/Status/Actions
				var raw []byte
				var pr basics.Round
				var pp period
				var ps step
				if n.persistFresh {
					raw = encode(eagrClock{zero: n.zero}, n.rr, n.p, n.persistA, false)
					pr, pp, ps = n.p.Round, n.p.Period, n.p.Step
				} else {
					raw = encode(eagrClock{zero: n.zero}, rootRouter{}, player{}, nil, false)
				}
				n.loop = append(n.loop,
					eagrLoopItem{persist: true, raw: raw, r: pr, p: pp, s: ps},
					eagrLoopItem{ev: messageEvent{T: voteVerified, Input: message{Tag: protocol.AgreementVoteTag, UnauthenticatedVote: uv, Vote: v}}, own: true})
			}
		case checkpointAction:
			// closes the done channel of the pseudonode task: the votes queued behind it are released
		}
	}
}

func (n *eagrNode) doNetwork(s *eagrSys, a networkAction) {
	env := s.cfg.env
	switch a.T {
	case ignore, disconnect:
		s.stats.ignores++
		return
	case broadcastVotes:
		for _, uv := range a.UnauthenticatedVotes {
			m := env.intern(&eagrMsg{tag: protocol.AgreementVoteTag, vote: uv})
			s.sendAll(n.id, m, nil)
		}
		return
	}
	var m *eagrMsg
	switch a.Tag {
	case protocol.AgreementVoteTag:
		m = env.intern(&eagrMsg{tag: a.Tag, vote: a.UnauthenticatedVote})
	case protocol.VoteBundleTag:
		m = env.intern(&eagrMsg{tag: a.Tag, bundle: a.UnauthenticatedBundle})
		s.stats.bundlesSent++
	case protocol.ProposalPayloadTag:
		m = env.intern(&eagrMsg{tag: a.Tag, compound: a.CompoundMessage})
		if s.cfg.trackValues {
			s.values[a.CompoundMessage.Proposal.value()] = true
		}
	default:
		return
	}
	if a.T == relay && a.h != nil {
		s.sendAll(n.id, m, a.h)
		return
	}
	s.sendAll(n.id, m, nil)
}

// sendAll enqueues m for every other honest node. With a non-nil handle the action is a
// forwarding relay: it is delivered only where the message was never enqueued before (stand-in for
// the duplicate filter of the gossip layer on a full mesh) and never back to its source.
func (s *eagrSys) sendAll(src int, m *eagrMsg, h MessageHandle) {
	for dst := range s.nodes {
		if dst == src {
			continue
		}
		if s.cfg.noProposalTo != nil && s.cfg.noProposalTo[dst] && m.tag == protocol.ProposalPayloadTag && m.compound.Proposal.OriginalPeriod == 0 && s.nodes[src].p.Period == 0 {
			continue
		}
		if h != nil {
			if !s.cfg.forward {
				s.stats.forwardsSuppressed++
				continue
			}
			if hs, ok := h.(eagrHandle); ok && hs.src == dst {
				continue
			}
			if s.sent[m.ID()+string(rune('0'+dst))] {
				s.stats.forwardsSuppressed++
				continue
			}
		}
		s.enqueue(src, m, dst)
	}
}

// msgRound returns the round a message belongs to.
func (m *eagrMsg) round() basics.Round {
	switch m.tag {
	case protocol.AgreementVoteTag:
		return m.vote.R.Round
	case protocol.VoteBundleTag:
		return m.bundle.Round
	}
	return m.compound.Proposal.Round()
}

func (s *eagrSys) enqueue(src int, m *eagrMsg, dst int) {
	if s.offLeft > 0 && src == s.offNode {
		return // the sender is cut off from the network
	}
	if m.round() > s.cfg.maxRound {
		return // traffic of rounds beyond the explored ones
	}
	if s.sent != nil {
		s.sent[m.ID()+string(rune('0'+dst))] = true
	}
	if s.nodes[dst].passive {
		return
	}
	if s.cfg.flightSet {
		for _, f := range s.flight {
			if f.m == m && f.dst == dst {
				return
			}
		}
	}
	fl := eagrFlight{m: m, dst: dst, src: src}
	for _, f := range s.fates {
		if f.matches(m) {
			switch k := f.dst[dst]; {
			case k < 0:
				return
			case k > 0:
				fl.parked, fl.ticks = true, k
			}
		}
	}
	s.seq++
	fl.seq = s.seq
	s.flight = append(s.flight, fl)
}

// deliver hands message m (from src) to the node as demux.next would.
func (n *eagrNode) deliver(s *eagrSys, m *eagrMsg, src int, out *eagrOut) {
	s.stats.deliveries++
	h := eagrHandle{src: src}
	var e externalEvent
	switch m.tag {
	case protocol.AgreementVoteTag:
		e = messageEvent{T: votePresent, Input: message{messageHandle: h, Tag: m.tag, UnauthenticatedVote: m.vote}}
	case protocol.VoteBundleTag:
		e = messageEvent{T: bundlePresent, Input: message{messageHandle: h, Tag: m.tag, UnauthenticatedBundle: m.bundle}}
	case protocol.ProposalPayloadTag:
		e = setupCompoundMessage(n.led, message{messageHandle: h, Tag: m.tag, CompoundMessage: m.compound})
	}
	n.submit(s, e, out)
	n.settle(s, out)
}

func (n *eagrNode) timeout(s *eagrSys, fast bool, out *eagrOut) {
	t := timeout
	if fast {
		t = fastTimeout
		s.stats.fastTimeouts++
	} else {
		s.stats.timeouts++
	}
	n.submit(s, timeoutEvent{T: t, RandomEntropy: s.cfg.entropy, Round: n.p.Round}, out)
	n.settle(s, out)
}

// timers returns the virtual times at which the node's deadline and fast-recovery deadline expire.
func (n *eagrNode) timers() (regular, fast int64) {
	return n.zero + int64(n.p.Deadline.Duration), n.zero + int64(n.p.FastRecoveryDeadline)
}

// catchup installs the block another node committed for this node's next round and delivers the
// roundInterruptionEvent demux.next produces when Ledger.Wait fires.
func (n *eagrNode) catchup(s *eagrSys, e *eagrEntry, out *eagrOut) {
	n.led.EnsureBlock(e.blk, e.cert)
	if n.lostBlock != nil && n.led.NextRound() > n.lostBlock.blk.Round() {
		n.lostBlock = nil
	}
	// demux.next waits on Ledger.Wait(player's round): it fires only once the ledger is past that round
	if n.led.NextRound() > n.p.Round {
		n.submit(s, roundInterruptionEvent{Round: n.led.NextRound()}, out)
	}
	n.settle(s, out)
}

// rollbackLedger models a ledger that had not made its last block durable when the node crashed
// (the agreement crash database and the block database are separate; block writes are asynchronous):
// the block is gone after the restart and arrives again later through catch-up.
func (n *eagrNode) rollbackLedger() {
	last := n.led.next - 1
	if last < 1 {
		return
	}
	n.lostBlock = n.led.entries[last]
	delete(n.led.entries, last)
	n.led.next = last
}

// restart mirrors the start of Service.mainLoop after a crash.
func (n *eagrNode) restart(s *eagrSys, out *eagrOut) {
	s.stats.crashes++
	n.crashes++
	n.loop = nil
	n.ver = nil
	n.prevPair = nil
	n.persistFresh = false
	n.persistA = nil
	n.hist = map[basics.Round]int64{}
	var acts []action
	ok := false
	if n.disk != nil {
		clock, rr, p, a, err := decode(n.disk, eagrClock{}, serviceLogger{s.cfg.env.log}, false)
		// Service.mainLoop keeps the restored state unless it is stale. Whether a state that is AHEAD of
		// the ledger (persisted round > Ledger.NextRound(), possible when the ledger lost its last block)
		// is kept is probed on the real mainLoop (eagrProbeRestorePath), not assumed.
		keep := err == nil && (p.Round == n.led.NextRound() || (p.Round > n.led.NextRound() && s.cfg.restoreKeepsAhead))
		if keep {
			n.rr, n.p, acts = rr, p, a
			n.zero = clock.(eagrClock).zero
			ok = true
			s.stats.restoresFromDisk++
			if s.cfg.restoreInitsPersist {
				// Service.mainLoop (restore path): persistRouter/persistStatus/persistActions = restored values
				n.persistFresh = true
				n.persistA = a
			}
		} else if err == nil && p.Round == 0 && len(a) == 0 && len(n.released) > 0 {
			n.lostState = true
		}
	}
	if !ok {
		s.stats.restoresFresh++
		n.startFresh(s, out)
		return
	}
	n.do(s, acts, out)
	n.settle(s, out)
}

// ---------------------------------------------------------------------------------------------
// canonical state key (BFS)

// extras renders the behaviour-relevant fields that the persistence format omits, so that states
// merged by the key have identical futures: the late-credential tracking of every proposal tracker
// and the message handles inside the pending proposal table.
func (n *eagrNode) extras(b []byte) []byte {
	var rounds []basics.Round
	for r := range n.rr.Children {
		rounds = append(rounds, r)
	}
	sort.Slice(rounds, func(i, j int) bool { return rounds[i] < rounds[j] })
	for _, r := range rounds {
		rr := n.rr.Children[r]
		var periods []period
		for p := range rr.Children {
			periods = append(periods, p)
		}
		sort.Slice(periods, func(i, j int) bool { return periods[i] < periods[j] })
		for _, p := range periods {
			f := rr.Children[p].ProposalTracker.Freezer
			if f.hasLowestIncludingLate {
				b = binary.LittleEndian.AppendUint64(b, uint64(r))
				b = binary.LittleEndian.AppendUint64(b, uint64(p))
				b = append(b, f.lowestIncludingLate.R.Sender[:8]...)
			}
		}
	}
	var idx []uint64
	for k := range n.p.Pending.Pending {
		idx = append(idx, k)
	}
	sort.Slice(idx, func(i, j int) bool { return idx[i] < idx[j] })
	for _, k := range idx {
		e := n.p.Pending.Pending[k]
		b = binary.LittleEndian.AppendUint64(b, k)
		if e != nil {
			if h, ok := e.Input.messageHandle.(eagrHandle); ok {
				b = append(b, byte(h.src+2))
			} else {
				b = append(b, 0)
			}
		} else {
			b = append(b, 1)
		}
	}
	return b
}

var eagrBufPool = sync.Pool{New: func() any { b := make([]byte, 0, 1<<20); return &b }}

// stateBytes appends the bytes encode() stores in diskState.Router and diskState.Player (same
// child filter, same msgp marshalling) to b. It is encode() without the outer diskState wrapper
// and with a caller-supplied buffer (the generated marshallers otherwise allocate Msgsize()
// upper bounds, which dominate the cost of exploration).
func (n *eagrNode) stateBytes(b []byte) []byte {
	rr := n.rr
	kids := make(map[basics.Round]*roundRouter)
	var old []basics.Round
	for r, c := range rr.Children {
		if r >= n.p.Round {
			kids[r] = c
		} else if c != nil {
			old = append(old, r)
		}
	}
	if len(kids) == 0 {
		rr.Children = nil
	} else {
		rr.Children = kids
	}
	b = rr.MarshalMsg(b)
	b = n.p.MarshalMsg(b)
	// rounds below the player's round are dropped by encode; they still answer queries of the
	// credential-history path, so they are part of the key
	sort.Slice(old, func(i, j int) bool { return old[i] < old[j] })
	for _, r := range old {
		b = binary.LittleEndian.AppendUint64(b, uint64(r))
		b = n.rr.Children[r].MarshalMsg(b)
	}
	return b
}

func (n *eagrNode) key(b []byte) []byte {
	if n.keyOK {
		return append(b, n.keySum[:]...)
	}
	bp := eagrBufPool.Get().(*[]byte)
	k := n.key0((*bp)[:0])
	n.keySum = sha256.Sum256(k)
	n.keyOK = true
	if cap(k) <= 4<<20 {
		*bp = k[:0]
	}
	eagrBufPool.Put(bp)
	return append(b, n.keySum[:]...)
}

func (n *eagrNode) key0(b []byte) []byte {
	b = append(b, byte(n.id), '|')
	if n.passive {
		// a passive node takes no further part (it left the explored rounds/periods): only what it
		// committed can still matter
		b = append(b, 'P')
		if n.down {
			b = append(b, 'D')
		}
		return n.led.digestKey(b)
	}
	if n.relClock {
		// virtual-time mode: only the clock phase relative to "now" matters (set by eagrSys.key)
		b = binary.LittleEndian.AppendUint64(b, uint64(n.phase))
	} else {
		b = binary.LittleEndian.AppendUint64(b, uint64(n.zero))
	}
	b = n.stateBytes(b)
	b = n.led.digestKey(b)
	d := crypto.Hash(n.disk)
	b = append(b, d[:]...)
	fl := byte(0)
	if n.passive {
		fl |= 1
	}
	if n.persistFresh {
		fl |= 2
	}
	if n.lostState {
		fl |= 4
	}
	if n.lostBlock != nil {
		fl |= 8
	}
	b = append(b, fl, byte(len(n.loop)), byte(len(n.ver)), byte(n.crashes), byte(n.behind))
	for _, it := range n.loop {
		// pending loopback items (only present when the loopback queue is not atomic)
		if it.persist {
			d := crypto.Hash(it.raw)
			b = append(b, 'p')
			b = append(b, d[:8]...)
		} else {
			b = append(b, 'e')
			b = append(b, eagrEvStr(it.ev)...)
		}
	}
	if len(n.released) > 0 {
		var ks []eagrRPS
		for k := range n.released {
			ks = append(ks, k)
		}
		sort.Slice(ks, func(i, j int) bool {
			if ks[i].r != ks[j].r {
				return ks[i].r < ks[j].r
			}
			if ks[i].p != ks[j].p {
				return ks[i].p < ks[j].p
			}
			return ks[i].s < ks[j].s
		})
		for _, k := range ks {
			v := n.released[k]
			b = binary.LittleEndian.AppendUint64(b, uint64(k.r)<<32|uint64(k.p)<<16|uint64(k.s))
			b = append(b, v.BlockDigest[:8]...)
		}
	}
	b = n.extras(b)
	return b
}

// key returns the canonical key of the global state: every node's real encode() bytes, ledger
// digests, disk image, the sorted in-flight set.
func (s *eagrSys) key() [16]byte {
	var b []byte
	for _, n := range s.nodes {
		if s.cfg.virtualTime {
			ph := s.now - n.zero
			if n.passive {
				ph = 0
			}
			if !n.relClock || n.phase != ph {
				n.relClock, n.phase, n.keyOK = true, ph, false
			}
		}
		b = n.key(b)
	}
	if s.cfg.virtualTime {
		b = append(b, byte(s.syncPeriod), byte(s.lastDevPeriod))
	}
	fl := make([]string, 0, len(s.flight))
	if s.cfg.ordered {
		// delivery order is part of the state: flight in sequence order, with the number of
		// entries eligible in the current sub-phase
		fs := append([]eagrFlight(nil), s.flight...)
		sort.Slice(fs, func(i, j int) bool { return fs[i].seq < fs[j].seq })
		el := 0
		for _, f := range fs {
			pk := ""
			if f.parked {
				pk = "P" + string(rune('0'+f.ticks))
			}
			fl = append(fl, string(f.m.id[:])+string(rune('0'+f.dst))+pk)
			if f.seq <= s.barrier && !f.parked {
				el++
			}
		}
		b = append(b, byte(el))
		for _, d := range s.devs {
			b = append(b, byte(d))
		}
		if s.subStart {
			b = append(b, 1)
		}
		if s.offLeft > 0 {
			b = append(b, 'O', byte(s.offNode), byte(s.offLeft))
		}
		for _, f := range s.fates {
			b = append(b, 'F', byte(f.round), byte(f.period), byte(f.step))
			for _, x := range f.dst {
				b = append(b, byte(x))
			}
		}
		if s.cut.active {
			o := byte(0)
			if s.cut.only {
				o = 1
			}
			b = append(b, 'C', o, byte(s.cut.node), byte(s.cut.period), byte(s.cut.step))
		}
	} else {
		for _, f := range s.flight {
			fl = append(fl, string(f.m.id[:])+string(rune('0'+f.dst)))
		}
		sort.Strings(fl)
	}
	for _, f := range fl {
		b = append(b, f...)
	}
	h := crypto.Hash(b)
	var k [16]byte
	copy(k[:], h[:16])
	return k
}

// ---------------------------------------------------------------------------------------------
// probe of the REAL Service.mainLoop restore path
//
// The shell re-implements the glue around the state machine, with one exception that matters for
// C02: whether a restarted node, when it re-executes a restored attest action, persists the
// restored state or an empty one depends on Service.mainLoop initialising persistRouter /
// persistStatus / persistActions on its restore path (fixed upstream of this check in /repo; the
// unfixed code overwrote the crash database with an empty state). Instead of hard-coding either
// behaviour the shell asks the real code: the real mainLoop is run once on an in-memory crash
// database holding a snapshot taken by the shell, fed no input, and the three fields are inspected.

var eagrProbeOnce sync.Once
var eagrRestoreInitsPersist = true // assumption when the probe cannot run
var eagrRestoreKeepsAhead = true
var eagrProbeNote = "not run"

func eagrProbeRestorePath(env *eagrEnv) (initsPersist, keepsAhead bool, note string) {
	eagrProbeOnce.Do(func() {
		defer func() {
			if r := recover(); r != nil {
				eagrProbeNote = fmt.Sprintf("probe panicked (%v); assuming the restore path initialises the persisted fields", r)
			}
		}()
		// a real snapshot: node 0 of a 3-node system after its soft vote was attested
		cfg := &eagrCfg{env: env, nNodes: 3, atomicVerify: true, atomicLoop: true, flightSet: true, maxRound: 1, maxPeriod: 1}
		s := eagrNewSys(cfg)
		out := &eagrOut{}
		s.boot(out)
		s.nodes[0].timeout(s, false, out)
		n := s.nodes[0]
		if n.disk == nil {
			eagrProbeNote = "probe: no snapshot produced; assuming the restore path initialises the persisted fields"
			return
		}
		acc, err := db.MakeAccessor(fmt.Sprintf("verif-eagr-probe-%d", os.Getpid()), false, true)
		if err != nil {
			eagrProbeNote = fmt.Sprintf("probe: cannot open an in-memory crash database (%v); assuming initialised", err)
			return
		}
		defer acc.Close()
		log := serviceLogger{env.log}
		_, _ = restore(log, acc) // installs the Service table
		if err := persist(log, acc, n.p.Round, n.p.Period, n.p.Step, n.disk); err != nil {
			eagrProbeNote = fmt.Sprintf("probe: cannot write the crash state (%v); assuming initialised", err)
			return
		}
		svc := &Service{}
		svc.parameters = parameters(Parameters{Ledger: n.led, Clock: eagrClock{}, Accessor: acc})
		svc.log = log
		svc.tracer = &tracer{log: log}
		input := make(chan externalEvent)
		output := make(chan []action)
		ready := make(chan externalDemuxSignals)
		svc.wg.Add(1)
		go svc.mainLoop(input, output, ready)
		acts := <-output
		<-ready
		close(input)
		for range output {
		}
		svc.wg.Wait()
		if !persistent(acts) {
			eagrProbeNote = "probe: the restored actions contain no attest; assuming initialised"
			return
		}
		// second run: the same crash state, but the ledger is one round behind it
		{
			behind := n.led.clone()
			behind.next = n.p.Round - 1
			svc2 := &Service{}
			svc2.parameters = parameters(Parameters{Ledger: behind, Clock: eagrClock{}, Accessor: acc})
			svc2.log = log
			svc2.tracer = &tracer{log: log}
			in2 := make(chan externalEvent)
			out2 := make(chan []action)
			rdy2 := make(chan externalDemuxSignals)
			svc2.wg.Add(1)
			go svc2.mainLoop(in2, out2, rdy2)
			acts2 := <-out2
			<-rdy2
			close(in2)
			for range out2 {
			}
			svc2.wg.Wait()
			eagrRestoreKeepsAhead = persistent(acts2)
		}
		eagrRestoreInitsPersist = svc.persistStatus.Round == n.p.Round && persistent(svc.persistActions)
		eagrProbeNote = fmt.Sprintf("restored state kept when the ledger is one round behind it: %v; ", eagrRestoreKeepsAhead) + fmt.Sprintf("real Service.mainLoop run on a crash state of round %d with a pending attest: persistStatus.Round=%d, %d persisted action(s) => restore path initialises the persisted fields: %v",
			n.p.Round, svc.persistStatus.Round, len(svc.persistActions), eagrRestoreInitsPersist)
	})
	return eagrRestoreInitsPersist, eagrRestoreKeepsAhead, eagrProbeNote
}
