package ledger

// World, block history and reference state of the C09 crash-recovery check (all identifiers
// are c09-prefixed; see verif_c09_test.go for the check itself).
//
//   - a private consensus version (vFuture with small MaxTxnLife / lookbacks and
//     CatchpointLookback 2, payouts and state proofs off),
//   - a fixed 10-block history of real transactions (pay / account close and re-creation,
//     asset create / opt-in / transfer / close-out / destroy / config, app create / opt-in /
//     global+local put and delete / clear state / delete, box create / overwrite / delete),
//     built through the real BlockEvaluator,
//   - the reference state R[r]: a plain-map fold of the StateDelta the evaluator returned for
//     block r (accounts, asset/app resources, boxes, creators) plus the account totals
//     recomputed as the sum over the accounts of R[r].

import (
	"bytes"
	"encoding/binary"
	"fmt"
	"sort"
	"strings"
	"sync"

	"github.com/algorand/avm-abi/apps"

	"github.com/algorand/go-algorand/config"
	"github.com/algorand/go-algorand/crypto"
	"github.com/algorand/go-algorand/data/basics"
	"github.com/algorand/go-algorand/data/bookkeeping"
	"github.com/algorand/go-algorand/data/transactions"
	"github.com/algorand/go-algorand/data/transactions/logic"
	"github.com/algorand/go-algorand/data/txntest"
	"github.com/algorand/go-algorand/ledger/eval"
	"github.com/algorand/go-algorand/ledger/ledgercore"
	"github.com/algorand/go-algorand/protocol"
)

const c09ProtoName = protocol.ConsensusVersion("verif-ldg-c09")

// c09Blocks is the length of the history.
const c09Blocks = 10

const (
	c09AcctLookback        = 2 // config.Local.MaxAcctLookback
	c09CatchpointInterval  = 4
	c09CatchpointLookback  = 2 // consensus parameter
	c09CatchpointFilesKept = 1 // config.Local.CatchpointFileHistoryLength
)

var c09ProtoOnce sync.Once

func c09Proto() (protocol.ConsensusVersion, config.ConsensusParams) {
	c09ProtoOnce.Do(func() {
		p := config.Consensus[protocol.ConsensusFuture]
		p.ApprovedUpgrades = map[protocol.ConsensusVersion]uint64{}
		p.MaxTxnLife = 4
		p.SeedLookback = 1
		p.SeedRefreshInterval = 2
		p.MaxBalLookback = 4
		p.RewardsRateRefreshInterval = 2
		p.CatchpointLookback = c09CatchpointLookback
		p.StateProofInterval = 0
		p.Payouts.Enabled = false
		config.Consensus[c09ProtoName] = p
	})
	return c09ProtoName, config.Consensus[c09ProtoName]
}

const c09AppSource = `#pragma version 10
txn ApplicationID
bz ok
txn NumAppArgs
bz ok
txna ApplicationArgs 0
byte "gset"
==
bnz gset
txna ApplicationArgs 0
byte "gdel"
==
bnz gdel
txna ApplicationArgs 0
byte "lset"
==
bnz lset
txna ApplicationArgs 0
byte "ldel"
==
bnz ldel
txna ApplicationArgs 0
byte "bput"
==
bnz bput
txna ApplicationArgs 0
byte "bdel"
==
bnz bdel
err
gset:
byte "g"
txna ApplicationArgs 1
app_global_put
b ok
gdel:
byte "g"
app_global_del
b ok
lset:
txn Sender
byte "l"
txna ApplicationArgs 1
app_local_put
b ok
ldel:
txn Sender
byte "l"
app_local_del
b ok
bput:
txna ApplicationArgs 1
txna ApplicationArgs 2
box_put
b ok
bdel:
txna ApplicationArgs 1
box_del
pop
b ok
ok:
int 1
`

const c09ClearSource = "#pragma version 10\nint 1\n"

type c09World struct {
	proto    protocol.ConsensusVersion
	params   config.ConsensusParams
	genBal   bookkeeping.GenesisBalances
	genBlock bookkeeping.Block
	genHash  crypto.Digest
	// A: creator, rich. B: user, rich. C: created, closed and re-created by the history.
	// Z never exists.
	A, B, C, Z, sink, pool basics.Address
	approval, clear        []byte
}

func c09Addr(tag string) basics.Address {
	return basics.Address(crypto.Hash([]byte("verif-c09-addr-" + tag)))
}

func c09MakeWorld() (*c09World, error) {
	w := &c09World{}
	w.proto, w.params = c09Proto()
	w.A, w.B, w.C, w.Z = c09Addr("A"), c09Addr("B"), c09Addr("C"), c09Addr("Z")
	w.sink, w.pool = c09Addr("sink"), c09Addr("pool")
	accts := map[basics.Address]basics.AccountData{
		w.A:    {MicroAlgos: basics.MicroAlgos{Raw: 1_000_000_000_000}, Status: basics.Offline},
		w.B:    {MicroAlgos: basics.MicroAlgos{Raw: 1_000_000_000_000}, Status: basics.Offline},
		w.sink: {MicroAlgos: basics.MicroAlgos{Raw: 5_000_000_000}, Status: basics.NotParticipating},
		w.pool: {MicroAlgos: basics.MicroAlgos{Raw: 1_000_000_000_000}, Status: basics.NotParticipating},
	}
	w.genBal = bookkeeping.MakeGenesisBalances(accts, w.sink, w.pool)
	w.genHash = crypto.Hash([]byte("verif-c09-genesis"))
	var err error
	w.genBlock, err = bookkeeping.MakeGenesisBlock(w.proto, w.genBal, "verif-c09", w.genHash)
	if err != nil {
		return nil, err
	}
	ops, err := logic.AssembleString(c09AppSource)
	if err != nil {
		return nil, fmt.Errorf("assemble approval: %v", err)
	}
	w.approval = ops.Program
	ops, err = logic.AssembleString(c09ClearSource)
	if err != nil {
		return nil, fmt.Errorf("assemble clear: %v", err)
	}
	w.clear = ops.Program
	return w, nil
}

func (w *c09World) initState() ledgercore.InitState {
	return ledgercore.InitState{Block: w.genBlock, Accounts: w.genBal.Balances, GenesisHash: w.genHash}
}

// ---------------------------------------------------------------------------------
// reference state

type c09ResKey struct {
	addr  basics.Address
	idx   basics.CreatableIndex
	ctype basics.CreatableType
}

type c09Creator struct {
	ctype   basics.CreatableType
	creator basics.Address
}

// c09Ref is R[r]: the state after applying exactly blocks 1..r to genesis.
type c09Ref struct {
	rnd          basics.Round
	acct         map[basics.Address]ledgercore.AccountData
	res          map[c09ResKey]ledgercore.AccountResource // deep copies; missing = no resource
	kv           map[string][]byte                        // missing = no such key
	creator      map[basics.CreatableIndex]c09Creator
	rewardsLevel uint64
	totals       ledgercore.AccountTotals // recomputed: sum over acct
}

func c09CloneRes(r ledgercore.AccountResource) ledgercore.AccountResource {
	var out ledgercore.AccountResource
	if r.AssetParams != nil {
		v := *r.AssetParams
		out.AssetParams = &v
	}
	if r.AssetHolding != nil {
		v := *r.AssetHolding
		out.AssetHolding = &v
	}
	if r.AppParams != nil {
		v := r.AppParams.Clone()
		out.AppParams = &v
	}
	if r.AppLocalState != nil {
		v := r.AppLocalState.Clone()
		out.AppLocalState = &v
	}
	return out
}

func c09ResString(r ledgercore.AccountResource) string {
	var b strings.Builder
	if r.AssetParams != nil {
		fmt.Fprintf(&b, "AssetParams%+v ", *r.AssetParams)
	}
	if r.AssetHolding != nil {
		fmt.Fprintf(&b, "AssetHolding%+v ", *r.AssetHolding)
	}
	if r.AppParams != nil {
		fmt.Fprintf(&b, "AppParams%+v ", *r.AppParams)
	}
	if r.AppLocalState != nil {
		fmt.Fprintf(&b, "AppLocalState%+v ", *r.AppLocalState)
	}
	if b.Len() == 0 {
		return "<none>"
	}
	return b.String()
}

// c09SumTotals recomputes the account totals from the accounts of a reference state: each
// account contributes its balance (plus, for participating accounts, the rewards pending at
// the round's rewards level) and its whole reward units to the bucket of its status.
func c09SumTotals(acct map[basics.Address]ledgercore.AccountData, rewardUnit, level uint64) ledgercore.AccountTotals {
	var t ledgercore.AccountTotals
	t.RewardsLevel = level
	for _, d := range acct {
		units := d.MicroAlgos.Raw / rewardUnit
		money := d.MicroAlgos.Raw
		var bucket *ledgercore.AlgoCount
		switch d.Status {
		case basics.Online:
			bucket = &t.Online
		case basics.Offline:
			bucket = &t.Offline
		default:
			bucket = &t.NotParticipating
		}
		if d.Status != basics.NotParticipating {
			money += units * (level - d.RewardsBase)
		}
		bucket.Money.Raw += money
		bucket.RewardUnits += units
	}
	return t
}

func c09GenesisRef(w *c09World) *c09Ref {
	r := &c09Ref{acct: map[basics.Address]ledgercore.AccountData{}, res: map[c09ResKey]ledgercore.AccountResource{},
		kv: map[string][]byte{}, creator: map[basics.CreatableIndex]c09Creator{}}
	for a, d := range w.genBal.Balances {
		r.acct[a] = ledgercore.ToAccountData(d)
	}
	r.rewardsLevel = w.genBlock.RewardsLevel
	r.totals = c09SumTotals(r.acct, w.params.RewardUnit, r.rewardsLevel)
	return r
}

// c09Fold applies the evaluator's StateDelta of one block to R[r-1], giving R[r].
// Per the StateDelta definition: Accts.Accts holds the complete new AccountData of each
// touched account (empty = deleted); each Asset/AppResources record holds the complete new
// (params, holding/local state) pair of that (address, creatable) — nil pointer = absent;
// KvMods: Data nil = deleted; Creatables: Created false = deleted.
func c09Fold(w *c09World, prev *c09Ref, d *ledgercore.StateDelta) *c09Ref {
	n := &c09Ref{rnd: prev.rnd + 1,
		acct: make(map[basics.Address]ledgercore.AccountData, len(prev.acct)+2),
		res:  make(map[c09ResKey]ledgercore.AccountResource, len(prev.res)+2),
		kv:   make(map[string][]byte, len(prev.kv)+1), creator: make(map[basics.CreatableIndex]c09Creator, len(prev.creator)+1)}
	for k, v := range prev.acct {
		n.acct[k] = v
	}
	for k, v := range prev.res {
		n.res[k] = v // values are never mutated after insertion
	}
	for k, v := range prev.kv {
		n.kv[k] = v
	}
	for k, v := range prev.creator {
		n.creator[k] = v
	}
	for i := 0; i < d.Accts.Len(); i++ {
		addr, data := d.Accts.GetByIdx(i)
		if data == (ledgercore.AccountData{}) {
			delete(n.acct, addr)
		} else {
			n.acct[addr] = data
		}
	}
	for _, rec := range d.Accts.AssetResources {
		k := c09ResKey{rec.Addr, basics.CreatableIndex(rec.Aidx), basics.AssetCreatable}
		v := c09CloneRes(ledgercore.AccountResource{AssetParams: rec.Params.Params, AssetHolding: rec.Holding.Holding})
		if v.AssetParams == nil && v.AssetHolding == nil {
			delete(n.res, k)
		} else {
			n.res[k] = v
		}
	}
	for _, rec := range d.Accts.AppResources {
		k := c09ResKey{rec.Addr, basics.CreatableIndex(rec.Aidx), basics.AppCreatable}
		v := c09CloneRes(ledgercore.AccountResource{AppParams: rec.Params.Params, AppLocalState: rec.State.LocalState})
		if v.AppParams == nil && v.AppLocalState == nil {
			delete(n.res, k)
		} else {
			n.res[k] = v
		}
	}
	for k, v := range d.KvMods {
		if v.Data == nil {
			delete(n.kv, k)
		} else {
			n.kv[k] = append([]byte{}, v.Data...)
		}
	}
	for c, m := range d.Creatables {
		if m.Created {
			n.creator[c] = c09Creator{m.Ctype, m.Creator}
		} else {
			delete(n.creator, c)
		}
	}
	n.rewardsLevel = d.Hdr.RewardsLevel
	n.totals = c09SumTotals(n.acct, w.params.RewardUnit, n.rewardsLevel)
	return n
}

// ---------------------------------------------------------------------------------
// transaction patterns and the history

func c09Val(r basics.Round) []byte {
	var b [8]byte
	binary.BigEndian.PutUint64(b[:], uint64(r))
	return b[:]
}

func (w *c09World) txPay(from, to basics.Address, amt uint64) *txntest.Txn {
	return &txntest.Txn{Type: protocol.PaymentTx, Sender: from, Receiver: to, Amount: amt}
}
func (w *c09World) txClose(from, to basics.Address) *txntest.Txn {
	return &txntest.Txn{Type: protocol.PaymentTx, Sender: from, Receiver: to, Amount: 0, CloseRemainderTo: to}
}
func (w *c09World) txAssetCreate(from basics.Address, unit string) *txntest.Txn {
	return &txntest.Txn{Type: protocol.AssetConfigTx, Sender: from, AssetParams: basics.AssetParams{
		Total: 1000, Decimals: 0, UnitName: unit, AssetName: "verif-" + unit, Manager: from, Reserve: from, Freeze: from, Clawback: from}}
}
func (w *c09World) txAssetConfig(from basics.Address, id basics.AssetIndex, reserve basics.Address) *txntest.Txn {
	return &txntest.Txn{Type: protocol.AssetConfigTx, Sender: from, ConfigAsset: id, AssetParams: basics.AssetParams{
		Manager: from, Reserve: reserve, Freeze: from, Clawback: from}}
}
func (w *c09World) txAssetDestroy(from basics.Address, id basics.AssetIndex) *txntest.Txn {
	return &txntest.Txn{Type: protocol.AssetConfigTx, Sender: from, ConfigAsset: id}
}
func (w *c09World) txAssetXfer(from, to basics.Address, id basics.AssetIndex, amt uint64) *txntest.Txn {
	return &txntest.Txn{Type: protocol.AssetTransferTx, Sender: from, AssetReceiver: to, XferAsset: id, AssetAmount: amt}
}
func (w *c09World) txAssetCloseOut(from, to basics.Address, id basics.AssetIndex) *txntest.Txn {
	return &txntest.Txn{Type: protocol.AssetTransferTx, Sender: from, AssetReceiver: to, XferAsset: id, AssetCloseTo: to}
}
func (w *c09World) txAppCreate(from basics.Address) *txntest.Txn {
	return &txntest.Txn{Type: protocol.ApplicationCallTx, Sender: from, ApprovalProgram: w.approval, ClearStateProgram: w.clear,
		GlobalStateSchema: basics.StateSchema{NumByteSlice: 1}, LocalStateSchema: basics.StateSchema{NumByteSlice: 1}}
}
func (w *c09World) txAppCall(from basics.Address, id basics.AppIndex, oc transactions.OnCompletion, args ...[]byte) *txntest.Txn {
	return &txntest.Txn{Type: protocol.ApplicationCallTx, Sender: from, ApplicationID: id, OnCompletion: oc, ApplicationArgs: args}
}
func (w *c09World) txBoxPut(from basics.Address, id basics.AppIndex, name string, val []byte) *txntest.Txn {
	t := w.txAppCall(from, id, transactions.NoOpOC, []byte("bput"), []byte(name), val)
	t.Boxes = []transactions.BoxRef{{Index: 0, Name: []byte(name)}}
	return t
}
func (w *c09World) txBoxDel(from basics.Address, id basics.AppIndex, name string) *txntest.Txn {
	t := w.txAppCall(from, id, transactions.NoOpOC, []byte("bdel"), []byte(name))
	t.Boxes = []transactions.BoxRef{{Index: 0, Name: []byte(name)}}
	return t
}

// c09IDs are the creatable ids assigned by the history (known after the block that creates them).
type c09IDs struct {
	assetX, assetY basics.AssetIndex
	appP, appQ     basics.AppIndex
}

// c09Txns is the transaction list of block r (1-based) of the history.
func (w *c09World) c09Txns(r basics.Round, id *c09IDs) []*txntest.Txn {
	A, B, C := w.A, w.B, w.C
	v := c09Val(r)
	switch r {
	case 1: // create account C, asset X, app P
		return []*txntest.Txn{w.txPay(A, C, 1_000_000), w.txAssetCreate(A, "X"), w.txAppCreate(A)}
	case 2: // B opts into X and P, receives X; the app account is funded (for boxes)
		return []*txntest.Txn{w.txAssetXfer(B, B, id.assetX, 0), w.txAssetXfer(A, B, id.assetX, 100),
			w.txAppCall(B, id.appP, transactions.OptInOC), w.txPay(A, id.appP.Address(), 2_000_000)}
	case 3: // local + global state, first box
		return []*txntest.Txn{w.txAppCall(B, id.appP, transactions.NoOpOC, []byte("lset"), v), w.txAppCall(A, id.appP, transactions.NoOpOC, []byte("gset"), v),
			w.txBoxPut(A, id.appP, "b1", v), w.txPay(B, A, 5)}
	case 4: // second box, first box deleted, global key deleted, more X to B
		return []*txntest.Txn{w.txAssetXfer(A, B, id.assetX, 7), w.txBoxPut(A, id.appP, "b2", v), w.txBoxDel(A, id.appP, "b1"),
			w.txAppCall(A, id.appP, transactions.NoOpOC, []byte("gdel"))}
	case 5: // account C closed (deleted), local key deleted, box overwritten
		return []*txntest.Txn{w.txClose(C, A), w.txAppCall(B, id.appP, transactions.NoOpOC, []byte("ldel")), w.txBoxPut(A, id.appP, "b2", v)}
	case 6: // B closes out of X, X destroyed, last box deleted
		return []*txntest.Txn{w.txAssetCloseOut(B, A, id.assetX), w.txAssetDestroy(A, id.assetX), w.txBoxDel(A, id.appP, "b2")}
	case 7: // C re-created, asset Y created by B, B clears its local state of P
		return []*txntest.Txn{w.txPay(A, C, 700_000), w.txAssetCreate(B, "Y"), w.txAppCall(B, id.appP, transactions.ClearStateOC)}
	case 8: // app P deleted, payment to the re-created C
		return []*txntest.Txn{w.txAppCall(A, id.appP, transactions.DeleteApplicationOC), w.txPay(B, C, 11)}
	case 9: // a second app Q created by B with global state, payments
		return []*txntest.Txn{w.txAppCreate(B), w.txPay(C, A, 3), w.txPay(A, B, 9)}
	case 10: // Y reconfigured, Q gets a global value, A opts into Y and receives some
		return []*txntest.Txn{w.txAssetConfig(B, id.assetY, A), w.txAppCall(B, id.appQ, transactions.NoOpOC, []byte("gset"), v),
			w.txAssetXfer(A, A, id.assetY, 0), w.txAssetXfer(B, A, id.assetY, 40)}
	}
	return []*txntest.Txn{w.txPay(A, B, uint64(r))}
}

// c09History is the reference history: blocks, deltas' folds and the query universe.
type c09History struct {
	w      *c09World
	blocks []bookkeeping.Block // blocks[r], r = 0..N
	hashes []crypto.Digest
	ref    []*c09Ref
	ids    c09IDs

	addrs  []basics.Address
	cidx   []basics.CreatableIndex
	ctype  map[basics.CreatableIndex]basics.CreatableType // kind of every id the history creates
	kvKeys []string
}

// c09BuildBlock evaluates the transactions of the next round on top of l with the real
// BlockEvaluator and returns the validated block (block + StateDelta).
func c09BuildBlock(w *c09World, l *Ledger, id *c09IDs) (*ledgercore.ValidatedBlock, error) {
	prev, err := l.BlockHdr(l.Latest())
	if err != nil {
		return nil, fmt.Errorf("BlockHdr(latest): %v", err)
	}
	nextHdr := bookkeeping.MakeBlock(prev).BlockHeader
	nextHdr.TimeStamp = prev.TimeStamp + 1 // deterministic
	txs := w.c09Txns(nextHdr.Round, id)
	ev, err := eval.StartEvaluator(l, nextHdr, eval.EvaluatorOptions{Generate: true, Validate: true, PaysetHint: len(txs)})
	if err != nil {
		return nil, fmt.Errorf("StartEvaluator: %v", err)
	}
	for i, tx := range txs {
		tx.GenesisHash = w.genHash
		tx.FirstValid = ev.Round()
		tx.Note = fmt.Sprintf("%d/%d", ev.Round(), i)
		tx.FillDefaults(w.params)
		group := []transactions.SignedTxn{tx.SignedTxn()}
		if err := ev.TestTransactionGroup(group); err != nil {
			return nil, fmt.Errorf("round %d txn %d: TestTransactionGroup: %v", ev.Round(), i, err)
		}
		if err := ev.TransactionGroup(transactions.WrapSignedTxnsWithAD(group)...); err != nil {
			return nil, fmt.Errorf("round %d txn %d: TransactionGroup: %v", ev.Round(), i, err)
		}
	}
	ub, err := ev.GenerateBlock(nil)
	if err != nil {
		return nil, fmt.Errorf("GenerateBlock: %v", err)
	}
	vb := ledgercore.MakeValidatedBlock(ub.UnfinishedBlock(), ub.UnfinishedDeltas())
	return &vb, nil
}

// c09LearnIDs records the creatable ids created by block r.
func c09LearnIDs(r basics.Round, d *ledgercore.StateDelta, id *c09IDs) {
	for c, m := range d.Creatables {
		if !m.Created {
			continue
		}
		switch {
		case r == 1 && m.Ctype == basics.AssetCreatable:
			id.assetX = basics.AssetIndex(c)
		case r == 1 && m.Ctype == basics.AppCreatable:
			id.appP = basics.AppIndex(c)
		case r == 7 && m.Ctype == basics.AssetCreatable:
			id.assetY = basics.AssetIndex(c)
		case r == 9 && m.Ctype == basics.AppCreatable:
			id.appQ = basics.AppIndex(c)
		}
	}
}

func (h *c09History) finishUniverse() {
	w := h.w
	h.ctype = map[basics.CreatableIndex]basics.CreatableType{}
	am := map[basics.Address]bool{w.A: true, w.B: true, w.C: true, w.Z: true, w.sink: true, w.pool: true}
	cm := map[basics.CreatableIndex]bool{basics.CreatableIndex(9000): true}
	km := map[string]bool{apps.MakeBoxKey(9000, "nope"): true}
	for _, r := range h.ref {
		for a := range r.acct {
			am[a] = true
		}
		for k := range r.res {
			am[k.addr] = true
			cm[k.idx] = true
		}
		for c, cr := range r.creator {
			cm[c] = true
			h.ctype[c] = cr.ctype
		}
		for k := range r.kv {
			km[k] = true
		}
	}
	for a := range am {
		h.addrs = append(h.addrs, a)
	}
	sort.Slice(h.addrs, func(i, j int) bool { return bytes.Compare(h.addrs[i][:], h.addrs[j][:]) < 0 })
	for c := range cm {
		h.cidx = append(h.cidx, c)
	}
	sort.Slice(h.cidx, func(i, j int) bool { return h.cidx[i] < h.cidx[j] })
	for k := range km {
		h.kvKeys = append(h.kvKeys, k)
	}
	sort.Strings(h.kvKeys)
}
