package logic

// C33 — Assembler and disassembler round-trip; what the assembler accepts passes the static check.
//
// Engine E-ENUM, level exploration: exhaustive enumeration of small program texts / small
// bytecodes through the REAL AssembleStringWithVersion, Disassemble, AssembleString,
// CheckSignature and CheckContract.
//
// Enumerated (every assembler version v = 0..LogicVersion):
//  A. one-instruction programs: every OpSpec of OpsByName[v] x every immediate combination from
//     byte immediates {0,1,127,128,255}, int8 {-128,-1,0,1,127}, EVERY field name of the field
//     group valid at v, varuint {0,127,128,2^14-1,2^14,2^64-1}, byte constants of length
//     {0,1,127,128}, const blocks of size {0,1,2,256} (two rotations of the element pattern, so a
//     block ends with an empty as well as a non-empty constant), switch/match with 0,1,3 labels;
//     plus the pseudo-ops int/byte/addr/method/txn-with-index/extract/replace. Each in two
//     settings: well-typed pushes in front (type tracking fully effective) and behind `int 1; bnz L0; err; L0:`
//     (type tracker knows nothing, so every immediate value is accepted).
//  B. all two-instruction programs over a reduced immediate set (two forms per opcode: all-low /
//     all-high immediates; quick tier: one form per opcode on versions 1,3,4,8,13,14).
//  C. branch layouts: all programs of <= 4 instructions over {b,bz,bnz,callsub,switch(0..3),
//     match(0..3),retsub,int 1}; a label is defined before every instruction and at the end and
//     every label slot is pointed at every label (forward, backward, own instruction, end) — all
//     placements for programs whose total number of label slots is within the tier's cap.
//  D. every byte string of length <= 2 (quick) / <= 3 (thorough) after the version byte that
//     passes CheckSignature or CheckContract is disassembled and re-assembled.
//
// Oracle.
//  (1) if the assembler accepts src (no #pragma in src, type tracking on):
//      p = asm(src); Disassemble(p) has no error; asm(Disassemble(p)) == p byte for byte (the
//      re-assembly is done as upstream does it, with `#pragma typetrack false`; the result with
//      type tracking left on is counted in the evidence only);
//  (2) p passes CheckSignature if all its opcodes are allowed in signature mode, CheckContract if
//      all are allowed in application mode and v >= 2 — under Proto.LogicSigVersion = LogicVersion
//      and under Proto.LogicSigVersion = v.
//      Bracket (documented in eval.go byteImmArgs "Reproduce a parsing bug that existed before
//      version 13"): under a protocol with LogicSigVersion < 13 a program that ends exactly with an
//      empty last constant of a bytecblock/pushbytess is reported as running past the end.
//  (3) for bytecode b accepted by a checker: Disassemble(b) has no error, except "invalid
//      immediate" when the immediate is not a member of the opcode's field group in any version
//      (Check* deliberately leaves field validation to run time; such a program can never run);
//      if the text re-assembles (it need not: the assembler refuses e.g. `intc 5` without
//      constants, fields newer than the version — a whitelist of such messages) giving b', then
//      len(b') <= len(b), len(b') == len(b) => b' == b (only shorter canonical encodings may
//      differ), b' passes the same checkers, and asm(dis(b')) == b'.
//
//      From v13 on the assembler salts on-curve stateless programs with a trailing `intcblock 1 s`
//      and Disassemble decides `#pragma autosalt false` from the original bytes; a non-canonical b
//      whose canonical form is on-curve therefore comes back as canonical(b) ++ 20 01 s — accepted
//      exactly in that shape.
//  E. probe for the known finding C33:reasm-error:cblock-behind-unreferenced-label: a constant
//     block that is live only through a label nothing jumps to (`err; U0:; intcblock ..; intc 4`)
//     assembles and passes Check, but its disassembly (label dropped, block now in dead code) is
//     refused by the assembler. Only these probe programs report under that key.
//
// Detection (bin/mut ... --only, quick tier; all DETECTED):
//   1. assembler.go parseLabels: switch/match targets relative to pos instead of end -> reasm-error
//   2. assembler.go disassemble immInts: last element of intcblock/pushints dropped   -> roundtrip-mismatch
//   3. assembler.go asmPushInt: varuint immediate truncated to one byte               -> dis-error
//   4. assembler.go resolveLabels: v13 backward varint jump measured from lr.position -> roundtrip/check
//   5. assembler.go disassemble immInt8 printed unsigned                              -> reasm-error (frame_bury 255)
//   6. assembler.go typeLoads range check reverted                                    -> assembler-panic:pseudo:int+loads
//   seeded C33-A (findBranchSizes back-jump measured from the offset byte: distance 64 / 8192)
//   and C33-B (2-byte label range check against MaxUint16: forward 32768..65535)      -> part F
//
//  F. branch distances at the encoding limits: a padding body of exactly n bytes between branch
//     and label, forward and backward, n in 62..66, 126..130, 8188..8194, 16382..16386,
//     32764..32770, 65533..65537, for b/bz/bnz/callsub/switch/match at v4, 8, 12, 13, 14 (oracle 1+2).
//
// Known findings kept visible under stable keys: C33:reasm-error:cblock-behind-unreferenced-label
// (part E) and C33:assembler-panic:pseudo:int+loads (part B: `int 16384; loads` panics typeLoads).
//
// Not covered: programs of more than two arbitrary instructions (beyond the branch alphabet),
// macros (#define), source-map output, comments/whitespace variants of the text.
//
// Unexported identifiers used: OpsByName, OpSpec.Immediates/immediate.kind/Group, immKind
// constants, itxnSettableFieldSpecByName, errShortByteImmArgs, makeTestProto, panicError.

import (
	"bytes"
	"encoding/hex"
	"errors"
	"fmt"
	"regexp"
	"sort"
	"strings"
	"sync"
	"sync/atomic"
	"testing"
	"time"

	"github.com/algorand/go-algorand/config"
	"github.com/algorand/go-algorand/data/transactions"
	"github.com/algorand/go-algorand/protocol"
	ve "github.com/algorand/go-algorand/verifeng"
)

type c33Form struct {
	name      string // opcode name (class key)
	line      string // assembler line
	pre       string // lines needed in front (constant blocks for intc/bytec)
	modes     RunMode
	label     bool // line refers to label LE
	emptyTail bool // the line is a byte-constant list whose last constant is empty
	args      StackTypes
}

type c33Stats struct {
	mu        sync.Mutex
	accepted  map[string]int // per "v/opname": programs the assembler accepted
	rejected  map[string]int
	asmOK     atomic.Int64
	asmReject atomic.Int64
	trackDiff atomic.Int64
	checks    atomic.Int64
	bracketed atomic.Int64
	fails     atomic.Int64
	failKeys  map[string]int
}

func (s *c33Stats) count(v uint64, name string, ok bool) {
	k := fmt.Sprintf("v%d/%s", v, name)
	s.mu.Lock()
	if ok {
		s.accepted[k]++
	} else {
		s.rejected[k]++
	}
	s.mu.Unlock()
}

var c33Varuints = []string{"0", "127", "128", "16383", "16384", "18446744073709551615"}

func c33Hex(n int, seed int) string {
	b := make([]byte, n)
	for i := range b {
		b[i] = byte(seed + i*7)
	}
	return "0x" + hex.EncodeToString(b)
}

// c33FieldNames lists the names of group g that the assembler must accept at version v.
func c33FieldNames(spec *OpSpec, g *FieldGroup, v uint64) []string {
	var out []string
	lv := v
	for _, n := range g.Names {
		if n == "" {
			continue
		}
		fs, ok := g.SpecByName(n)
		if !ok {
			continue
		}
		ver := fs.Version()
		if spec.Name == "itxn_field" {
			s, ok := itxnSettableFieldSpecByName[n]
			if !ok || s.Version() == 0 {
				continue
			}
			ver = s.Version()
		}
		if ver > lv {
			continue
		}
		out = append(out, n)
	}
	return out
}

func c33ConstList(kind immKind, size int, rot int) (string, bool) {
	var toks []string
	lens := []int{0, 1, 127, 128}
	emptyTail := false
	for i := 0; i < size; i++ {
		if kind == immInts {
			toks = append(toks, c33Varuints[(i+rot)%len(c33Varuints)])
		} else {
			l := lens[(i+rot)%len(lens)]
			toks = append(toks, c33Hex(l, i))
			emptyTail = l == 0
		}
	}
	return strings.Join(toks, " "), emptyTail
}

// c33ImmChoices returns the token choices of one immediate. reduced: two choices (low, high).
func c33ImmChoices(spec *OpSpec, im immediate, v uint64, reduced bool) (choices []string, emptyTail []bool) {
	pick := func(all []string) []string {
		if !reduced || len(all) <= 2 {
			return all
		}
		return []string{all[1%len(all)], all[len(all)-1]}
	}
	switch im.kind {
	case immByte:
		if im.Group != nil {
			names := c33FieldNames(spec, im.Group, v)
			if reduced && len(names) > 2 {
				names = []string{names[0], names[len(names)-1]}
			}
			return names, nil
		}
		return pick([]string{"0", "1", "127", "128", "255"}), nil
	case immInt8:
		return pick([]string{"-128", "-1", "0", "1", "127"}), nil
	case immLabel, immVarintLabel:
		return []string{"LE"}, nil
	case immInt:
		return pick(c33Varuints), nil
	case immBytes:
		all := []string{c33Hex(0, 1), c33Hex(1, 2), c33Hex(127, 3), c33Hex(128, 4)}
		return pick(all), nil
	case immInts, immBytess:
		sizes := []int{0, 1, 2, 256}
		if reduced {
			sizes = []int{0, 2}
		}
		for _, sz := range sizes {
			for rot := 0; rot < 2; rot++ {
				if reduced && rot == 1 {
					continue
				}
				s, et := c33ConstList(im.kind, sz, rot)
				choices = append(choices, s)
				emptyTail = append(emptyTail, et)
			}
		}
		return choices, emptyTail
	case immLabels:
		if reduced {
			return []string{"", "LE LE"}, nil
		}
		return []string{"", "LE", "LE LE LE"}, nil
	}
	return nil, nil
}

var c33IntBlock256, c33ByteBlock256 = func() (string, string) {
	var a, b []string
	for i := 0; i < 256; i++ {
		a = append(a, fmt.Sprint(i))
		b = append(b, fmt.Sprintf("0x%02x", i))
	}
	return "intcblock " + strings.Join(a, " "), "bytecblock " + strings.Join(b, " ")
}()

// c33Forms builds the instruction forms of version v.
func c33Forms(v uint64, reduced bool, oneForm bool) []c33Form {
	var names []string
	for n := range OpsByName[v] {
		names = append(names, n)
	}
	sort.Strings(names)
	var out []c33Form
	for _, n := range names {
		spec := OpsByName[v][n]
		base := c33Form{name: n, modes: spec.Modes, args: spec.Arg.Types}
		if strings.HasPrefix(n, "intc") && n != "intcblock" {
			base.pre = c33IntBlock256
		}
		if strings.HasPrefix(n, "bytec") && n != "bytecblock" {
			base.pre = c33ByteBlock256
		}
		var lists [][]string
		var tails [][]bool
		skip := false
		for _, im := range spec.Immediates {
			ch, et := c33ImmChoices(&spec, im, v, reduced)
			if len(ch) == 0 {
				skip = true // a field group with no member at this version
			}
			lists = append(lists, ch)
			tails = append(tails, et)
			if im.kind == immLabel || im.kind == immVarintLabel || im.kind == immLabels {
				base.label = true
			}
		}
		if skip {
			continue
		}
		if reduced {
			// zip: all-first, all-last
			for k := 0; k < 2; k++ {
				if oneForm && k == 1 {
					break
				}
				f := base
				toks := []string{n}
				same := true
				for i, l := range lists {
					idx := 0
					if k == 1 {
						idx = len(l) - 1
					}
					if idx != 0 {
						same = false
					}
					toks = append(toks, l[idx])
					if tails[i] != nil {
						f.emptyTail = tails[i][idx]
					}
				}
				if k == 1 && same {
					break
				}
				f.line = strings.TrimRight(strings.Join(toks, " "), " ")
				out = append(out, f)
			}
			continue
		}
		dims := make([]int, len(lists))
		for i, l := range lists {
			dims[i] = len(l)
		}
		if len(dims) == 0 {
			f := base
			f.line = n
			out = append(out, f)
			continue
		}
		ve.Product(dims, func(idx []int) {
			f := base
			toks := []string{n}
			for i, l := range lists {
				toks = append(toks, l[idx[i]])
				if tails[i] != nil {
					f.emptyTail = tails[i][idx[i]]
				}
			}
			f.line = strings.TrimRight(strings.Join(toks, " "), " ")
			out = append(out, f)
		})
	}
	// pseudo-ops
	add := func(name, line string, need string) {
		if need != "" {
			if _, ok := OpsByName[v][need]; !ok {
				return
			}
		}
		out = append(out, c33Form{name: "pseudo:" + name, line: line, modes: modeAny})
	}
	ints := append(append([]string{}, c33Varuints...), "pay", "NoOp", "0x10", "017")
	bytesF := []string{"0x", "0x00", `"abc"`, `"a b;c//d"`, `"\x01\n\t\\\""`, "base64(AAEC)", "b64 AAEC", "base32(AEBA)", "b32 AEBA", c33Hex(127, 9), c33Hex(128, 9)}
	if reduced {
		ints = []string{"1", "16384"}
		bytesF = []string{"0x", `"abc"`}
	}
	if oneForm {
		bytesF = bytesF[:1] // both int forms stay: a tracked constant drives the type refiners
	}
	for _, x := range ints {
		add("int", "int "+x, "")
	}
	for _, x := range bytesF {
		add("byte", "byte "+x, "")
	}
	if !oneForm {
		add("addr", "addr AAAAAAAAAAAAAAAAAAAAAAAAAAAAAAAAAAAAAAAAAAAAAAAAAAAAY5HFKQ", "")
		add("method", `method "add(uint64,uint64)uint64"`, "")
		add("txn", "txn ApplicationArgs 0", "txna")
		add("gtxn", "gtxn 1 Accounts 255", "gtxna")
		add("gtxns", "gtxns ApplicationArgs 1", "gtxnsa")
		add("extract", "extract", "extract3")
		add("extract", "extract 1 2", "extract")
		add("replace", "replace", "replace3")
		add("replace", "replace 7", "replace2")
	}
	return out
}

func c33Pushes(args StackTypes) string {
	var sb strings.Builder
	for i, at := range args {
		switch at.AVMType {
		case avmBytes:
			sb.WriteString("byte " + c33Hex(int(at.Bound[0]), i+1) + "\n")
		case avmNone:
		default:
			sb.WriteString("int 0\n")
		}
	}
	return sb.String()
}

// c33Untyped is the prelude that makes the assembler's type tracker forget everything: after the
// unconditional `err` the code is dead, and the (referenced) label revives it with an unknown stack.
const c33Untyped = "int 1\nbnz L0\nerr\nL0:\n"

type c33Env struct {
	r      *ve.Run
	st     *c33Stats
	maxP   *config.ConsensusParams
	protos [LogicVersion + 1]*config.ConsensusParams
}

func c33NewEnv(r *ve.Run) *c33Env {
	e := &c33Env{r: r, st: &c33Stats{accepted: map[string]int{}, rejected: map[string]int{}}}
	big := func(p *config.ConsensusParams) {
		p.MaxAppProgramCost = 1_000_000
		p.LogicSigMaxCost = 1_000_000
	}
	e.maxP = makeTestProto(big)
	for v := uint64(0); v <= LogicVersion; v++ {
		pv := v
		if pv == 0 {
			pv = 1
		}
		e.protos[v] = makeTestProto(big, func(p *config.ConsensusParams) { p.LogicSigVersion = pv })
	}
	return e
}

func c33CheckSig(p []byte, proto *config.ConsensusParams) error {
	var txn transactions.SignedTxn
	txn.Txn.Type = protocol.PaymentTx
	txn.Lsig.Logic = p
	ep := NewSigEvalParams([]transactions.SignedTxn{txn}, proto, &NoHeaderLedger{})
	return CheckSignature(0, ep)
}

func c33CheckApp(p []byte, proto *config.ConsensusParams) error {
	var txn transactions.SignedTxn
	txn.Txn.Type = protocol.ApplicationCallTx
	txn.Txn.ApplicationID = 888
	ep := NewAppEvalParams(transactions.WrapSignedTxnsWithAD([]transactions.SignedTxn{txn}), proto, &transactions.SpecialAddresses{})
	return CheckContract(p, 0, ep)
}

func c33NoTrack(text string) string {
	// keep "#pragma version" first (it must precede instructions; typetrack may come after)
	i := strings.Index(text, "\n")
	if i < 0 || !strings.HasPrefix(text, "#pragma version") {
		return "#pragma typetrack false\n" + text
	}
	return text[:i+1] + "#pragma typetrack false\n" + text[i+1:]
}

func (e *c33Env) fail(key, what string, replay any) {
	e.st.mu.Lock()
	if e.st.failKeys == nil {
		e.st.failKeys = map[string]int{}
	}
	e.st.failKeys[key]++
	e.st.mu.Unlock()
	e.st.fails.Add(1)
	e.r.Report(key, what, replay) // the engine stores the first few and counts the rest
}

// roundTrip runs oracle (1) and (2) on one source text. It returns whether the assembler accepted.
func (e *c33Env) roundTrip(comp string, src string, v uint64, name string, modes RunMode, emptyTail bool) (accepted bool) {
	defer func() {
		// the assembler / disassembler have no recover of their own: a panic on an enumerated
		// source is a violation with a key that names the instruction forms involved
		if x := recover(); x != nil {
			e.fail("C33:assembler-panic:"+name, fmt.Sprintf("v%d: assembler/disassembler panicked: %v\nsource:\n%s", v, x, src),
				map[string]any{"component": comp, "version": v, "source": src})
			accepted = false
		}
	}()
	ops, err := AssembleStringWithVersion(src, v)
	e.r.Eval()
	if err != nil || ops.Program == nil {
		e.st.asmReject.Add(1)
		return false
	}
	e.st.asmOK.Add(1)
	p := ops.Program
	replay := map[string]any{"component": comp, "version": v, "source": src, "program": hex.EncodeToString(p)}
	text, derr := Disassemble(p)
	if derr != nil {
		e.fail("C33:dis-error:"+name, fmt.Sprintf("v%d: Disassemble of assembler output fails: %v\nsource:\n%s\nprogram %x", v, derr, src, p), replay)
		return true
	}
	ops2, err2 := AssembleString(c33NoTrack(text))
	if err2 != nil {
		key := "C33:reasm-error:" + name
		if comp == "E" && !strings.Contains(fmt.Sprint(err2, ops2.Errors), "is not defined") {
			key = "C33:reasm-error:probe-other-failure" // only the known symptom goes under the known key
		}
		e.fail(key, fmt.Sprintf("v%d: disassembly does not re-assemble: %v (%v)\nsource:\n%s\ndisassembly:\n%s", v, err2, ops2.Errors, src, text), replay)
		return true
	}
	if !bytes.Equal(ops2.Program, p) {
		e.fail("C33:roundtrip-mismatch:"+name, fmt.Sprintf("v%d: asm(dis(asm(src))) != asm(src)\n first: %x\nsecond: %x\nsource:\n%s\ndisassembly:\n%s", v, p, ops2.Program, src, text), replay)
		return true
	}
	if ops3, err3 := AssembleString(text); err3 != nil || !bytes.Equal(ops3.Program, p) {
		e.st.trackDiff.Add(1)
	}
	// (2) static check
	for _, proto := range []*config.ConsensusParams{e.maxP, e.protos[v]} {
		type chk struct {
			mode string
			f    func([]byte, *config.ConsensusParams) error
		}
		var cs []chk
		if modes&ModeSig != 0 {
			cs = append(cs, chk{"CheckSignature", c33CheckSig})
		}
		if modes&ModeApp != 0 && v >= appsEnabledVersion {
			cs = append(cs, chk{"CheckContract", c33CheckApp})
		}
		for _, c := range cs {
			e.st.checks.Add(1)
			cerr := c.f(p, proto)
			if cerr == nil {
				continue
			}
			if emptyTail && proto.LogicSigVersion < 13 && errors.Is(cerr, errShortByteImmArgs) {
				e.st.bracketed.Add(1)
				e.r.Class(comp + "|bracket:pre-v13-empty-last-constant")
				continue
			}
			e.fail("C33:check-rejects-assembled:"+name, fmt.Sprintf("v%d (proto LogicSigVersion %d): assembler accepted but %s rejects: %v\nsource:\n%s\nprogram %x", v, proto.LogicSigVersion, c.mode, cerr, src, p), replay)
			return true
		}
	}
	return true
}

// ---------------------------------------------------------------------------------------------
// A: one-instruction programs
// ---------------------------------------------------------------------------------------------

func c33Suffix(f c33Form) string {
	if f.label {
		return "LE:\nerr\n"
	}
	return ""
}

func c33PartA(e *c33Env) {
	type item struct {
		v uint64
		f c33Form
	}
	var items []item
	for v := uint64(0); v <= LogicVersion; v++ {
		for _, f := range c33Forms(v, false, false) {
			items = append(items, item{v, f})
		}
	}
	e.r.Set("A_forms", len(items))
	e.r.ParallelFor(len(items), func(i int) {
		it := items[i]
		f := it.f
		tail := f.emptyTail && !f.label
		// typed: pushes in front
		src1 := f.pre
		if src1 != "" {
			src1 += "\n"
		}
		src1 += c33Pushes(f.args) + f.line + "\n" + c33Suffix(f)
		ok1 := e.roundTrip("A-typed", src1, it.v, f.name, f.modes, tail)
		// untyped: behind err + label
		src2 := c33Untyped
		if f.pre != "" {
			src2 += f.pre + "\n"
		}
		src2 += f.line + "\n" + c33Suffix(f)
		ok2 := e.roundTrip("A-untyped", src2, it.v, f.name, f.modes, tail)
		e.st.count(it.v, f.name, ok1 || ok2)
		e.r.Class(fmt.Sprintf("A|%s|typed=%v|untyped=%v", f.name, ok1, ok2))
	})
}

// ---------------------------------------------------------------------------------------------
// B: two-instruction programs
// ---------------------------------------------------------------------------------------------

func c33PartB(e *c33Env, full bool) {
	quickVersions := map[uint64]bool{1: true, 3: true, 4: true, 8: true, 13: true, 14: true}
	var total atomic.Int64
	for v := uint64(0); v <= LogicVersion; v++ {
		if !full && !quickVersions[v] {
			continue
		}
		forms := c33Forms(v, true, !full)
		n := len(forms)
		vv := v
		e.r.ParallelFor(n, func(i int) {
			f1 := forms[i]
			for _, f2 := range forms {
				var sb strings.Builder
				sb.WriteString(c33Untyped)
				for _, pre := range []string{f1.pre, f2.pre} {
					if pre != "" && !strings.Contains(sb.String(), pre) {
						sb.WriteString(pre + "\n")
					}
				}
				sb.WriteString(f1.line + "\n" + f2.line + "\n")
				if f1.label || f2.label {
					sb.WriteString("LE:\nerr\n")
				}
				ok := e.roundTrip("B", sb.String(), vv, f1.name+"+"+f2.name, f1.modes&f2.modes, f2.emptyTail && !f1.label && !f2.label)
				total.Add(1)
				if ok {
					e.r.Class("B|" + f1.name)
				}
			}
		})
	}
	e.r.Add("B_programs", total.Load())
}

// ---------------------------------------------------------------------------------------------
// C: branch layouts
// ---------------------------------------------------------------------------------------------

type c33BrInstr struct {
	text  string
	op    string
	slots int
}

var c33BrAlphabet = []c33BrInstr{
	{"int 1", "", 0}, {"retsub", "retsub", 0}, {"switch", "switch", 0}, {"match", "match", 0},
	{"b", "b", 1}, {"bz", "bz", 1}, {"bnz", "bnz", 1}, {"callsub", "callsub", 1}, {"switch", "switch", 1}, {"match", "match", 1},
	{"switch", "switch", 2}, {"match", "match", 2}, {"switch", "switch", 3}, {"match", "match", 3},
}

func c33PartC(e *c33Env, full bool) {
	// slot caps per program length
	caps := map[int]int{1: 3, 2: 6, 3: 3, 4: 2}
	typedMax := 2
	if full {
		caps = map[int]int{1: 3, 2: 6, 3: 4, 4: 2} // and 4 instructions / 3 slots on v13 (varint sizing), below
		typedMax = 3
	}
	quickLen4 := map[uint64]bool{8: true, 13: true}
	type item struct {
		v     uint64
		shape []int
	}
	var items []item
	for v := uint64(0); v <= LogicVersion; v++ {
		var avail []int
		for i, in := range c33BrAlphabet {
			if in.op == "" {
				avail = append(avail, i)
			} else if _, ok := OpsByName[v][in.op]; ok {
				avail = append(avail, i)
			}
		}
		for n := 1; n <= 4; n++ {
			if n == 4 && !full && !quickLen4[v] {
				continue
			}
			dims := make([]int, n)
			for i := range dims {
				dims[i] = len(avail)
			}
			ve.Product(dims, func(idx []int) {
				shape := make([]int, n)
				slots := 0
				for i, x := range idx {
					shape[i] = avail[x]
					slots += c33BrAlphabet[avail[x]].slots
				}
				limit := caps[n]
				if full && n == 4 && v == varintBranchVersion {
					limit = 3
				}
				if slots == 0 || slots > limit {
					return
				}
				items = append(items, item{v, shape})
			})
		}
	}
	e.r.Add("C_shapes", int64(len(items)))
	var programs, accepted atomic.Int64
	e.r.ParallelFor(len(items), func(i int) {
		it := items[i]
		n := len(it.shape)
		slots := 0
		for _, a := range it.shape {
			slots += c33BrAlphabet[a].slots
		}
		dims := make([]int, slots)
		for k := range dims {
			dims[k] = n + 1
		}
		var np, na int64
		ve.Product(dims, func(idx []int) {
			var body strings.Builder
			s := 0
			for k, a := range it.shape {
				in := c33BrAlphabet[a]
				fmt.Fprintf(&body, "P%d:\n%s", k, in.text)
				for l := 0; l < in.slots; l++ {
					fmt.Fprintf(&body, " P%d", idx[s])
					s++
				}
				body.WriteString("\n")
			}
			fmt.Fprintf(&body, "P%d:\n", n)
			np++
			if e.roundTrip("C-untyped", c33Untyped+body.String(), it.v, "branch-layout", modeAny, false) {
				na++
			}
			if n <= typedMax {
				np++
				if e.roundTrip("C-typed", body.String(), it.v, "branch-layout", modeAny, false) {
					na++
				}
			}
		})
		programs.Add(np)
		accepted.Add(na)
		e.r.Class(fmt.Sprintf("C|v%d|n%d|slots%d|anyaccepted=%v", it.v, n, slots, na > 0))
	})
	e.r.Add("C_programs", programs.Load())
	e.r.Add("C_assembler_accepted", accepted.Load())
}

// ---------------------------------------------------------------------------------------------
// D: all short bytecodes
// ---------------------------------------------------------------------------------------------

var c33AsmRefusals = regexp.MustCompile(`is not defined|substring end is before start|field was introduced in v|is not allowed\.|is not settable|is settable in v`)

func c33PartD(e *c33Env, minLen, maxLen int) {
	var accepted, disBracket, reasmOK, reasmRefused, shorter, pruned atomic.Int64
	versions := int(LogicVersion) + 1
	// membership of field groups in ANY version, for the invalid-immediate bracket
	e.r.ParallelFor(versions*256, func(i int) {
		v := uint64(i % versions) // version fastest: a capped run still touches every version
		b0 := byte(i / versions)
		proto := e.maxP
		var txn transactions.SignedTxn
		txn.Txn.Type = protocol.PaymentTx
		epS := NewSigEvalParams([]transactions.SignedTxn{txn}, proto, &NoHeaderLedger{})
		var atx transactions.SignedTxn
		atx.Txn.Type = protocol.ApplicationCallTx
		atx.Txn.ApplicationID = 888
		epA := NewAppEvalParams(transactions.WrapSignedTxnsWithAD([]transactions.SignedTxn{atx}), proto, &transactions.SpecialAddresses{})
		check := func(p []byte) (sig, app error) {
			epS.TxnGroup[0].Lsig.Logic = p
			return CheckSignature(0, epS), CheckContract(p, 0, epA)
		}
		var nAcc, nBr, nOK, nRef, nShort int64
		classes := map[string]struct{}{}
		one := func(p []byte) {
			e.r.Eval()
			serr, aerr := check(p)
			if serr != nil && aerr != nil {
				return
			}
			nAcc++
			replay := map[string]any{"component": "D", "program": hex.EncodeToString(p)}
			text, derr := Disassemble(p)
			if derr != nil {
				if strings.Contains(derr.Error(), "invalid immediate") && c33NeverAField(p, v) {
					nBr++
					classes["dis-bracket:not-a-field"] = struct{}{}
					return
				}
				e.fail("C33:dis-error-on-checked-bytecode", fmt.Sprintf("program %x passes Check (sig err=%v, app err=%v) but Disassemble fails: %v", p, serr, aerr, derr), replay)
				return
			}
			ops2, err2 := AssembleString(c33NoTrack(text))
			if err2 != nil {
				msgs := err2.Error()
				for _, se := range ops2.Errors {
					msgs += " | " + se.Error()
				}
				if c33AsmRefusals.MatchString(msgs) {
					nRef++
					classes["reasm-refused"] = struct{}{}
					return
				}
				e.fail("C33:reasm-unexpected-refusal", fmt.Sprintf("program %x passes Check; its disassembly\n%s\nis refused by the assembler for an unlisted reason: %s", p, text, msgs), replay)
				return
			}
			nOK++
			q := ops2.Program
			if len(q) > len(p) || (len(q) == len(p) && !bytes.Equal(p, q)) {
				// From v13 on the assembler appends `intcblock 1 <salt>` to a stateless program whose hash
				// is on the curve; Disassemble decides `#pragma autosalt false` from the ORIGINAL bytes,
				// so a non-canonical b whose canonical form hashes on-curve comes back salted. Accept
				// exactly: q == canonical(b) ++ 20 01 <salt>, canonical(b) shorter than b.
				ops4, err4 := AssembleString(c33NoTrack(strings.Replace(text, "\n", "\n#pragma autosalt false\n", 1)))
				if v >= LogicSigOffCurveVersion && !strings.Contains(text, "autosalt") && err4 == nil && len(ops4.Program) < len(p) &&
					len(q) == len(ops4.Program)+3 && bytes.HasPrefix(q, ops4.Program) && q[len(q)-3] == 0x20 && q[len(q)-2] == 0x01 {
					classes["canonicalised-then-salted"] = struct{}{}
				} else {
					e.fail("C33:bytecode-roundtrip", fmt.Sprintf("program %x passes Check, disassembles to\n%s\nwhich assembles to the different, not shorter %x", p, text, q), replay)
					return
				}
			}
			if len(q) < len(p) {
				nShort++
				classes["canonicalised-shorter"] = struct{}{}
			} else {
				classes["identical"] = struct{}{}
			}
			s2, a2 := check(q)
			if (serr == nil && s2 != nil) || (aerr == nil && a2 != nil) {
				e.fail("C33:reassembled-fails-check", fmt.Sprintf("program %x passes Check but its re-assembly %x does not (sig %v, app %v)", p, q, s2, a2), replay)
				return
			}
			t2, d2 := Disassemble(q)
			if d2 != nil {
				e.fail("C33:dis-error-on-checked-bytecode", fmt.Sprintf("re-assembled program %x: %v", q, d2), replay)
				return
			}
			if ops3, err3 := AssembleString(c33NoTrack(t2)); err3 != nil || !bytes.Equal(ops3.Program, q) {
				e.fail("C33:bytecode-roundtrip-not-idempotent", fmt.Sprintf("program %x -> %x -> dis/asm gives %v %x", p, q, err3, ops3.Program), replay)
			}
		}
		ver := byte(v)
		if minLen == 0 {
			if b0 == 0 {
				one([]byte{ver}) // the empty program
			}
			one([]byte{ver, b0})
		}
		// prune: an illegal first opcode rejects every extension (Check decodes sequentially)
		s1, a1 := check([]byte{ver, b0, 0})
		if s1 != nil && a1 != nil && strings.Contains(s1.Error(), "illegal opcode") && strings.Contains(a1.Error(), "illegal opcode") &&
			strings.HasPrefix(s1.Error(), "pc=  1") && strings.HasPrefix(a1.Error(), "pc=  1") {
			pruned.Add(1)
		} else {
			for b1 := 0; b1 < 256; b1++ {
				if minLen <= 2 {
					one([]byte{ver, b0, byte(b1)})
				}
				if maxLen >= 3 {
					for b2 := 0; b2 < 256; b2++ {
						one([]byte{ver, b0, byte(b1), byte(b2)})
					}
				}
			}
		}
		accepted.Add(nAcc)
		disBracket.Add(nBr)
		reasmOK.Add(nOK)
		reasmRefused.Add(nRef)
		shorter.Add(nShort)
		for k := range classes {
			e.r.Class(fmt.Sprintf("D|v%d|%s", v, k))
		}
	})
	e.r.Set("D_max_len_completed_or_started", maxLen)
	e.r.Add("D_checker_accepted", accepted.Load())
	e.r.Add("D_dis_bracket_not_a_field", disBracket.Load())
	e.r.Add("D_reassembled", reasmOK.Load())
	e.r.Add("D_reassembly_refused_whitelisted", reasmRefused.Load())
	e.r.Add("D_reassembled_shorter_canonical", shorter.Load())
	e.r.Add("D_first_bytes_pruned_illegal_opcode", pruned.Load())
}

// c33NeverAField reports whether the program contains an instruction whose field immediate is
// not a named member of the instruction's field group (own sequential scan using the table's
// immediate layout; only reached after Disassemble said "invalid immediate").
func c33NeverAField(p []byte, v uint64) bool {
	pc := 1
	for pc < len(p) {
		spec := opsByOpcode[v][p[pc]]
		if spec.op == nil {
			return false
		}
		ipc := pc + 1
		for _, im := range spec.Immediates {
			if im.kind != immByte && im.kind != immInt8 {
				return false // only fixed-size instructions can precede within 3 bytes; be conservative
			}
			if ipc >= len(p) {
				return false
			}
			if im.Group != nil {
				x := int(p[ipc])
				if x >= len(im.Group.Names) || im.Group.Names[x] == "" {
					return true
				}
			}
			ipc++
		}
		pc = ipc
	}
	return false
}

// ---------------------------------------------------------------------------------------------
// E: constant blocks behind an unreferenced label in dead code (the harness' first untyped prelude;
// kept as a dedicated probe with one stable violation key, see findings/C33-cblock-behind-...).
// ---------------------------------------------------------------------------------------------

func c33PartE(e *c33Env) {
	type item struct {
		v   uint64
		src string
	}
	var items []item
	for v := uint64(0); v <= LogicVersion; v++ {
		deadeners := []string{"err\n"}
		if v >= 2 {
			deadeners = append(deadeners, "int 1\nreturn\n", "b LE\n")
		}
		for _, d := range deadeners {
			for _, body := range []string{
				"intcblock 5 6 7 8 9\nintc 4\n", "intcblock 5\nintc_0\n",
				"bytecblock 0x01 0x02 0x03 0x04 0x05\nbytec 4\n", "bytecblock 0x01\nbytec_0\n",
			} {
				src := d + "U0:\n" + body
				if strings.Contains(d, "LE") {
					src += "LE:\nerr\n"
				}
				items = append(items, item{v, src})
			}
		}
	}
	e.r.ParallelFor(len(items), func(i int) {
		ok := e.roundTrip("E", items[i].src, items[i].v, "cblock-behind-unreferenced-label", modeAny, false)
		e.r.Class(fmt.Sprintf("E|accepted=%v", ok))
	})
	e.r.Set("E_programs", len(items))
}

// ---------------------------------------------------------------------------------------------
// F: branch distances at the encoding limits
// ---------------------------------------------------------------------------------------------

// c33Padding returns instructions (pushbytes/pop pairs) that assemble to exactly n bytes (n >= 3).
func c33Padding(n int) string {
	var sb strings.Builder
	pair := func(size int) { // size = k+3 (k < 128) or k+4 (128 <= k <= 4096)
		k := size - 3
		if k >= 128 {
			k = size - 4
		}
		sb.WriteString("pushbytes 0x" + strings.Repeat("61", k) + "\npop\n")
	}
	r := n
	for r > 4100 {
		chunk := 4004
		if rest := r - chunk; rest < 3 || rest == 131 {
			chunk = 3904
		}
		pair(chunk)
		r -= chunk
	}
	pair(r) // 3..130 or 132..4100 (131 is not expressible and not requested)
	return sb.String()
}

// c33PartF: a padding body of exactly n bytes between a branch and its label, forward and
// backward, n around every limit of the two offset encodings (1/2/3-byte varint: 64, 8192;
// int16: 32768; uint16: 65536), for b/bz/bnz/callsub/switch/match, versions 4, 8, 12, 13, 14.
func c33PartF(e *c33Env) {
	var ns []int
	for _, rg := range [][2]int{{62, 66}, {126, 130}, {8188, 8194}, {16382, 16386}, {32764, 32770}, {65533, 65537}} {
		for n := rg[0]; n <= rg[1]; n++ {
			ns = append(ns, n)
		}
	}
	type item struct {
		v   uint64
		src string
		tag string
	}
	var items []item
	for _, v := range []uint64{4, 8, 12, 13, LogicVersion} {
		for _, br := range []string{"b", "bz", "bnz", "callsub", "switch", "match"} {
			if _, ok := OpsByName[v][br]; !ok {
				continue
			}
			for _, n := range ns {
				pad := c33Padding(n)
				items = append(items, item{v, c33Untyped + br + " LF\n" + pad + "LF:\nerr\n", "forward"})
				items = append(items, item{v, c33Untyped + "LB:\n" + pad + br + " LB\n", "backward"})
			}
		}
	}
	var accepted atomic.Int64
	e.r.ParallelFor(len(items), func(i int) {
		it := items[i]
		ok := e.roundTrip("F", it.src, it.v, "branch-distance", modeAny, false)
		if ok {
			accepted.Add(1)
		}
		e.r.Class(fmt.Sprintf("F|v%d|%s|accepted=%v", it.v, it.tag, ok))
	})
	e.r.Set("F_programs", len(items))
	e.r.Set("F_assembler_accepted", accepted.Load())
}

func TestVerif_C33(t *testing.T) {
	r := ve.NewRun("C33", "exploration")
	e := c33NewEnv(r)
	r.Assume("re-assembly of a disassembly is done with `#pragma typetrack false` inserted after the version pragma, as the upstream testProg helper does; programs under test themselves contain no pragma")
	r.Assume("Check* is run with cost budgets raised to 1e6 (the pre-v4 static cost limit is a budget, not a format, matter)")
	r.Assume("bytecode part: Disassemble may refuse an immediate that is not a member of the opcode's field group (Check leaves fields to run time)")

	t0 := time.Now()
	c33PartA(e)
	r.Note("A took %.1fs", time.Since(t0).Seconds())
	r.Note("A done: assembler accepted %d, rejected %d", e.st.asmOK.Load(), e.st.asmReject.Load())
	// non-vacuity: every opcode of every version must have been accepted at least once
	var never []string
	for k := range e.st.rejected {
		if e.st.accepted[k] == 0 {
			never = append(never, k)
		}
	}
	sort.Strings(never)
	r.Set("A_opcodes_never_accepted", never)
	c33PartE(e)
	t0 = time.Now()
	for _, n := range []int{3, 62, 64, 130, 132, 4100, 4101, 8192, 8135, 32768, 65536} {
		ops, err := AssembleStringWithVersion(c33Padding(n), 4)
		if err != nil || len(ops.Program) != n+1 {
			t.Fatalf("harness: padding of %d bytes assembles to %d bytes (%v)", n, len(ops.Program)-1, err)
		}
	}
	c33PartF(e)
	r.Note("F took %.1fs", time.Since(t0).Seconds())
	t0 = time.Now()
	c33PartD(e, 0, 2)
	r.Note("D(len<=2) took %.1fs", time.Since(t0).Seconds())
	t0 = time.Now()
	c33PartC(e, false)
	r.Note("C(quick caps) took %.1fs", time.Since(t0).Seconds())
	r.Note("C done: assembler accepted %d, rejected %d (cumulative)", e.st.asmOK.Load(), e.st.asmReject.Load())
	t0 = time.Now()
	if !r.OutOfTime() {
		c33PartB(e, false)
	}
	if ve.Thorough() {
		// the larger bounds come after the quick-sized ones, so that a capped thorough run still
		// covers everything the quick tier covers
		r.Note("B(quick) took %.1fs", time.Since(t0).Seconds())
		t0 = time.Now()
		c33PartB(e, true)
		r.Note("B(full) took %.1fs", time.Since(t0).Seconds())
		t0 = time.Now()
		if !r.OutOfTime() {
			c33PartC(e, true)
		}
		r.Note("C(thorough caps) took %.1fs", time.Since(t0).Seconds())
		// all 3-byte bytecodes (2^24 x 15 versions, ~4% of them accepted and round-tripped) do not fit
		// the thorough budget on 16 cores; they come last and use whatever budget is left (versions
		// interleaved, so a capped run has touched every version).
		t0 = time.Now()
		if !r.OutOfTime() {
			c33PartD(e, 3, 3)
		}
		r.Note("D(len 3) took %.1fs", time.Since(t0).Seconds())
		t0 = time.Now()
	}
	r.Note("B took %.1fs", time.Since(t0).Seconds())
	{
		var ks []string
		for k := range e.st.failKeys {
			ks = append(ks, k)
		}
		sort.Strings(ks)
		for i, k := range ks {
			if i > 80 {
				break
			}
			t.Logf("violation-class %s x%d", k, e.st.failKeys[k])
		}
	}
	r.Set("assembler_accepted", e.st.asmOK.Load())
	r.Set("assembler_rejected", e.st.asmReject.Load())
	r.Set("static_checks_of_assembled_programs", e.st.checks.Load())
	r.Set("bracketed_pre_v13_empty_last_constant", e.st.bracketed.Load())
	r.Set("reassembly_with_typetracking_on_differs", e.st.trackDiff.Load())
	r.Sample(map[string]any{"A": "v13: err; L0:; gitxna 255 ApplicationArgs 128"})
	r.Sample(map[string]any{"C": "v13: P0: callsub P2 / P1: bz P0 / P2: switch P3 P0 P1 / P3:"})
	r.Sample(map[string]any{"D": "0d 81 00 (pushint 0) -> identical; 0d 21 00 (intc 0) -> reassembly refused: intc 0 is not defined"})
	nv := r.Finish(ve.Coverage{
		Rule: "A: every OpSpec x every immediate combination of the boundary sets / every field name, all versions, typed and untyped setting; " +
			"B: all ordered pairs of opcode forms (2 forms per opcode; quick: 1 form, versions 1,3,4,8,13,14); " +
			"C: all programs <= 4 instructions over the 14-element branch alphabet x every label placement within the slot caps " +
			"(quick: n<=2 all, n=3 <=3 slots, n=4 <=2 slots on v8,13; thorough: n=3 <=4, n=4 <=2 slots on all versions, n=4 <=3 slots on v13); " +
			"F: branch/label distances around every offset-encoding limit; D: every byte string of length <= 2 per version; thorough additionally length 3 as far as the budget allows (last, versions interleaved)",
		Exhaustive: true,
	})
	if len(never) > 0 {
		t.Errorf("harness: opcodes never accepted by the assembler in part A: %v", never)
	}
	if nv > 0 {
		t.Fatalf("%d violations", nv)
	}
}
