package network

// C43 part (a) — E-ENUM on the real LimitedReaderSlurper.
//
// Enumerated (every case is executed on the real slurper):
//   phase 1: (base,max) in {(1,8),(4,8),(8,8),(3,10)} x per-message limit n in {fresh (no Reset), Reset(0..max+1)}
//            x message length L in 0..max+3 x EVERY composition of L into read chunks (a chunk larger than the
//            buffer offered by the slurper becomes a short read) x reader behaviours {plain, io.EOF returned
//            together with the last data} x faults {none, a zero-length read (0,nil) at every single position,
//            zero-length reads at all positions, a reader error at every position (alone, or together with the
//            data of that chunk)}.
//   phase 2: every DISTINCT complete slurper state reached at the end of phase 1 (all fields are part of the key)
//            x Reset(n2), n2 in {0,1,base,max-1,max,max+1} (thorough: 0..max+1) x second message of length 0..max+3
//            x every composition into <= 3 chunks plus byte-at-a-time (thorough: every composition), plain and
//            EOF-with-data, i.e. "Reset restores the documented state" is checked by requiring that the slurper
//            behaves exactly like the reference for the next message, whatever happened before.
//   phase 3: multi-step allocation: (1,2*64K+5), (70000,3*64K), (2048,64K+2048): lengths around every buffer
//            boundary and around the limit, chunkings {1 chunk, 2 chunks at every boundary class, fixed chunk
//            sizes 1(only small L)/7/4096/65536/65537}, limits {none, boundary values}.
// Oracle (from the property statement and the doc comments of the type):
//   limit = max allocation, or min(n, max allocation) after Reset(n>0)  ("sets a limit for the upcoming message");
//   no reader error: Read returns nil iff L <= limit, then Size()==L and Bytes()==input; otherwise the error is
//   ErrIncomingMsgTooLarge. A reader error reached with <= limit bytes delivered is returned as is; if more
//   than limit bytes precede it, ErrIncomingMsgTooLarge must have been returned instead.
//   At every reader call and at the end: sum of cap(buffers) <= max allocation ("max memory allocations" of the
//   constructor) and Size() <= limit. After Reset: Size()==0, Bytes() empty.
//   The slurper must terminate (a reader that returns (0,nil) finitely often must not be polled forever).
// Not covered: Reset(0) after construction is taken to mean "allocation limit only" (as the upstream benchmark
// uses it); concurrent use (the type is single-threaded by contract).

import (
	"bytes"
	"errors"
	"fmt"
	"io"
	"math/bits"
	"reflect"
	"sort"
	"strconv"
	"sync"
	"time"

	ve "github.com/algorand/go-algorand/verifeng"
)

var c43ErrInjected = errors.New("c43: injected reader error")
var c43ErrSpin = errors.New("c43: reader polled too often (livelock guard)")

// c43Reader is a scripted io.Reader. chunks[i] > 0 is a data chunk (delivered over several calls if the
// buffers offered are smaller: short reads), chunks[i] == 0 is a zero-length read (0, nil).
type c43Reader struct {
	data        []byte
	pos         int
	chunks      []int
	idx         int
	errAt       int  // script index replaced by (or, with errWithData, accompanied by) an error; -1 none; len(chunks) = instead of EOF
	errWithData bool // the data of chunk errAt is returned together with the error
	eofWithData bool // io.EOF is returned together with the last data chunk
	calls       int
	maxCalls    int
	spin        bool
	dead        error
	onRead      func(p []byte)
}

func (r *c43Reader) Read(p []byte) (int, error) {
	r.calls++
	if r.onRead != nil {
		r.onRead(p)
	}
	if r.dead != nil {
		return 0, r.dead
	}
	if r.maxCalls > 0 && r.calls > r.maxCalls {
		r.spin = true
		r.dead = c43ErrSpin
		return 0, r.dead
	}
	if len(p) == 0 {
		return 0, nil
	}
	if r.idx == r.errAt && !(r.errWithData && r.idx < len(r.chunks) && r.chunks[r.idx] > 0) {
		r.dead = c43ErrInjected
		return 0, r.dead
	}
	if r.idx >= len(r.chunks) {
		r.dead = io.EOF
		return 0, io.EOF
	}
	c := r.chunks[r.idx]
	if c == 0 {
		r.idx++
		return 0, nil
	}
	n := c
	if n > len(p) {
		n = len(p)
	}
	copy(p, r.data[r.pos:r.pos+n])
	r.pos += n
	r.chunks[r.idx] -= n
	if r.chunks[r.idx] == 0 {
		if r.idx == r.errAt { // errWithData
			r.idx++
			r.dead = c43ErrInjected
			return n, r.dead
		}
		r.idx++
		if r.eofWithData && r.idx == len(r.chunks) && r.errAt != len(r.chunks) {
			r.dead = io.EOF
			return n, io.EOF
		}
	}
	return n, nil
}

// c43Script is the immutable description of a reader behaviour.
type c43Script struct {
	Chunks      []int `json:"chunks"`
	ErrAt       int   `json:"err_at"`
	ErrWithData bool  `json:"err_with_data"`
	EOFWithData bool  `json:"eof_with_data"`
}

func (sc c43Script) total() int {
	t := 0
	for _, c := range sc.Chunks {
		t += c
	}
	return t
}

// preErr returns (bytes delivered strictly before the error event, bytes delivered together with it).
func (sc c43Script) preErr() (pre, with int) {
	if sc.ErrAt < 0 {
		return sc.total(), 0
	}
	for i, c := range sc.Chunks {
		if i == sc.ErrAt {
			if sc.ErrWithData {
				return pre, c
			}
			return pre, 0
		}
		pre += c
	}
	return pre, 0
}

func (sc c43Script) reader(data []byte) *c43Reader {
	ch := append([]int(nil), sc.Chunks...)
	return &c43Reader{data: data, chunks: ch, errAt: sc.ErrAt, errWithData: sc.ErrWithData, eofWithData: sc.EOFWithData,
		maxCalls: 2*len(ch) + len(data) + 16}
}

func c43Data(n int, salt byte) []byte {
	b := make([]byte, n)
	for i := range b {
		b[i] = salt + byte(i)*7 + byte(i>>8)*13
	}
	return b
}

// c43Compose returns the composition of L selected by mask (bit i set = cut after byte i+1).
func c43Compose(L int, mask int) []int {
	if L == 0 {
		return nil
	}
	var out []int
	cur := 1
	for i := 0; i < L-1; i++ {
		if mask&(1<<uint(i)) != 0 {
			out = append(out, cur)
			cur = 1
		} else {
			cur++
		}
	}
	return append(out, cur)
}

// The slurper is inspected through reflection only (no field names): every integer field and the len/cap of every
// buffer of every [][]byte field are part of the state key, so a refactor of the private bookkeeping is judged by
// the oracle instead of breaking the build.
var c43SlScalars, c43SlBufFields = func() (sc []int, bf []int) {
	t := reflect.TypeOf(LimitedReaderSlurper{})
	for i := 0; i < t.NumField(); i++ {
		switch f := t.Field(i); {
		case f.Type.Kind() >= reflect.Int && f.Type.Kind() <= reflect.Uintptr:
			sc = append(sc, i)
		case f.Type == reflect.TypeOf([][]byte(nil)):
			bf = append(bf, i)
		}
	}
	return
}()

func c43SlurperCap(s *LimitedReaderSlurper) (total uint64) {
	v := reflect.ValueOf(s).Elem()
	for _, fi := range c43SlBufFields {
		f := v.Field(fi)
		for j := 0; j < f.Len(); j++ {
			total += uint64(f.Index(j).Cap())
		}
	}
	return
}

func c43SlurperBufCount(s *LimitedReaderSlurper) (n int) {
	v := reflect.ValueOf(s).Elem()
	for _, fi := range c43SlBufFields {
		n += v.Field(fi).Len()
	}
	return
}

func c43SlurperKey(s *LimitedReaderSlurper) string {
	var buf [160]byte
	b := buf[:0]
	v := reflect.ValueOf(s).Elem()
	for _, fi := range c43SlScalars {
		f := v.Field(fi)
		if f.CanInt() {
			b = strconv.AppendInt(b, f.Int(), 10)
		} else {
			b = strconv.AppendUint(b, f.Uint(), 10)
		}
		b = append(b, ' ')
	}
	for _, fi := range c43SlBufFields {
		f := v.Field(fi)
		b = append(b, '[')
		for j := 0; j < f.Len(); j++ {
			e := f.Index(j)
			if e.IsNil() {
				b = append(b, "nil,"...)
				continue
			}
			b = strconv.AppendInt(b, int64(e.Len()), 10)
			b = append(b, '/')
			b = strconv.AppendInt(b, int64(e.Cap()), 10)
			b = append(b, ',')
		}
		b = append(b, ']')
	}
	return string(b)
}

type c43SlCfg struct{ Base, Max uint64 }

// c43SlCase: one message through a slurper. N < 0: no Reset before the message (fresh from the constructor).
type c43SlCase struct {
	Cfg    c43SlCfg  `json:"cfg"`
	N      int       `json:"reset_limit"`
	L      int       `json:"len"`
	Script c43Script `json:"script"`
}

func c43SlLimit(cfg c43SlCfg, n int) int {
	limit := int(cfg.Max)
	if n > 0 && n < limit {
		limit = n
	}
	return limit
}

// c43SlRun feeds one message into s and checks the oracle; returns a violation description or "".
func c43SlRun(s *LimitedReaderSlurper, cfg c43SlCfg, n int, data []byte, sc c43Script) (outcome string, bad string) {
	limit := c43SlLimit(cfg, n)
	L := len(data)
	rd := sc.reader(data)
	invariant := ""
	rd.onRead = func(p []byte) {
		if invariant != "" {
			return
		}
		if c := c43SlurperCap(s); c > cfg.Max {
			invariant = fmt.Sprintf("allocated capacity %d exceeds max allocation %d during Read (state %s)", c, cfg.Max, c43SlurperKey(s))
		}
		if sz := s.Size(); sz > uint64(limit) {
			invariant = fmt.Sprintf("Size()=%d exceeds limit %d during Read", sz, limit)
		}
	}
	err := s.Read(rd)
	if rd.spin {
		return "spin", fmt.Sprintf("slurper kept polling the reader (%d calls for %d script entries / %d bytes)", rd.calls, len(sc.Chunks), L)
	}
	if invariant != "" {
		return "inv", invariant
	}
	if c := c43SlurperCap(s); c > cfg.Max {
		return "inv", fmt.Sprintf("allocated capacity %d exceeds max allocation %d after Read", c, cfg.Max)
	}
	if sz := s.Size(); sz > uint64(limit) {
		return "inv", fmt.Sprintf("Size()=%d exceeds limit %d after Read (err=%v)", sz, limit, err)
	}
	pre, with := sc.preErr()
	switch {
	case sc.ErrAt < 0 && L <= limit:
		if err != nil {
			return "ok", fmt.Sprintf("message of %d bytes <= limit %d rejected: %v", L, limit, err)
		}
		if s.Size() != uint64(L) || !bytes.Equal(s.Bytes(), data) {
			return "ok", fmt.Sprintf("Bytes() = %x (Size %d), input %x", s.Bytes(), s.Size(), data)
		}
		return "ok", ""
	case sc.ErrAt < 0:
		if !errors.Is(err, ErrIncomingMsgTooLarge) {
			return "toolarge", fmt.Sprintf("message of %d bytes > limit %d: Read returned %v (Size %d), want ErrIncomingMsgTooLarge", L, limit, err, s.Size())
		}
		return "toolarge", ""
	case pre > limit:
		if !errors.Is(err, ErrIncomingMsgTooLarge) {
			return "toolarge-before-err", fmt.Sprintf("%d bytes > limit %d were delivered before the reader error: Read returned %v, want ErrIncomingMsgTooLarge", pre, limit, err)
		}
		return "toolarge-before-err", ""
	case pre+with > limit:
		if err == nil {
			return "err-or-toolarge", fmt.Sprintf("reader error with data crossing the limit %d: Read returned nil", limit)
		}
		return "err-or-toolarge", ""
	default:
		if !errors.Is(err, c43ErrInjected) {
			return "readerr", fmt.Sprintf("reader error after %d(+%d) bytes <= limit %d: Read returned %v, want the reader's error", pre, with, limit, err)
		}
		return "readerr", ""
	}
}

func c43SlFresh(cfg c43SlCfg, n int) *LimitedReaderSlurper {
	s := MakeLimitedReaderSlurper(cfg.Base, cfg.Max)
	if n >= 0 {
		s.Reset(uint64(n))
	}
	return s
}

// c43FaultVariants lists the reader behaviours derived from one composition.
func c43FaultVariants(comp []int, full bool) []c43Script {
	var out []c43Script
	k := len(comp)
	for _, eofWD := range []bool{false, true} {
		out = append(out, c43Script{Chunks: comp, ErrAt: -1, EOFWithData: eofWD})
		if !full {
			continue
		}
		// one zero-length read at each position, and at all positions
		all := make([]int, 0, 2*k+1)
		for j := 0; j <= k; j++ {
			z := make([]int, 0, k+1)
			z = append(z, comp[:j]...)
			z = append(z, 0)
			z = append(z, comp[j:]...)
			out = append(out, c43Script{Chunks: z, ErrAt: -1, EOFWithData: eofWD})
			all = append(all, 0)
			if j < k {
				all = append(all, comp[j])
			}
		}
		out = append(out, c43Script{Chunks: all, ErrAt: -1, EOFWithData: eofWD})
		// reader error at each position
		for j := 0; j <= k; j++ {
			out = append(out, c43Script{Chunks: comp, ErrAt: j, EOFWithData: eofWD})
			if j < k {
				out = append(out, c43Script{Chunks: comp, ErrAt: j, ErrWithData: true, EOFWithData: eofWD})
			}
		}
	}
	return out
}

type c43SlState struct {
	idx  int
	rep  c43SlCase
	key  string
	cfgI int
}

func c43PartA(r *ve.Run) (states int64, transitions int64) {
	cfgs := []c43SlCfg{{1, 8}, {4, 8}, {8, 8}, {3, 10}}
	if ve.Thorough() {
		cfgs = append(cfgs, c43SlCfg{0, 8}, c43SlCfg{2, 11})
	}
	report := func(phase string, c any, bad string) {
		r.Report("C43:slurper-"+phase, fmt.Sprintf("LimitedReaderSlurper (%s): %s; case %s", phase, bad, ve.JSON(c)),
			map[string]any{"engine": "enum", "part": "a-" + phase, "case": c})
	}

	t0 := time.Now()
	lap := func(name string) {
		r.Set("wall_"+name+"_s", float64(int(time.Since(t0).Seconds()*10))/10)
		t0 = time.Now()
	}
	// ---- phase 1 ----
	var mu sync.Mutex
	distinct := map[string]*c43SlState{}
	maxMax := 0
	for _, c := range cfgs {
		if int(c.Max) > maxMax {
			maxMax = int(c.Max)
		}
	}
	dims := []int{len(cfgs), maxMax + 3, maxMax + 4, 1 << uint(maxMax+2)}
	r.ParallelFor(ve.ProductSize(dims), func(i int) {
		if r.Violations() > 0 {
			return // a violation was reported: the remaining enumeration adds nothing
		}
		var v [4]int
		ve.Unrank(i, dims, v[:])
		cfg := cfgs[v[0]]
		n := v[1] - 1 // -1 = fresh, 0..max+1
		L := v[2]
		mask := v[3]
		if n > int(cfg.Max)+1 || L > int(cfg.Max)+3 {
			return
		}
		if (L == 0 && mask != 0) || (L > 0 && mask >= 1<<uint(L-1)) {
			return
		}
		comp := c43Compose(L, mask)
		data := c43Data(L, 0xA0)
		variants := c43FaultVariants(comp, true)
		lastKey, lastOutcome := "", ""
		for vi, sc := range variants {
			s := c43SlFresh(cfg, n)
			outcome, bad := c43SlRun(s, cfg, n, data, sc)
			if bad != "" {
				report("read", c43SlCase{Cfg: cfg, N: n, L: L, Script: sc}, bad)
				continue
			}
			key := strconv.Itoa(v[0]) + "|" + c43SlurperKey(s)
			if key != lastKey || vi == 0 {
				lastKey = key
				ord := i*1024 + vi
				mu.Lock()
				if st, ok := distinct[key]; !ok || ord < st.idx {
					distinct[key] = &c43SlState{idx: ord, rep: c43SlCase{Cfg: cfg, N: n, L: L, Script: sc}, key: key, cfgI: v[0]}
				}
				mu.Unlock()
			}
			if vi == 0 && mask == 0 {
				r.Class(fmt.Sprintf("a1/%s/base%d-max%d/n%v", outcome, cfg.Base, cfg.Max, n >= 0))
			} else if outcome != lastOutcome {
				lastOutcome = outcome
				r.Class("a1/" + outcome)
			}
		}
		r.EvalN(len(variants))
	})
	lap("a1")
	sts := make([]*c43SlState, 0, len(distinct))
	for _, st := range distinct {
		sts = append(sts, st)
	}
	sort.Slice(sts, func(a, b int) bool { return sts[a].key < sts[b].key })
	r.Set("a_distinct_slurper_states_after_first_message", len(sts))
	if len(sts) > 0 {
		r.Sample(map[string]any{"part": "a", "state": sts[len(sts)/2].key, "reached_by": sts[len(sts)/2].rep})
	}
	states = int64(len(sts))

	// ---- phase 2: from every distinct state, Reset(n2) + second message ----
	var trans int64
	var tmu sync.Mutex
	type p2 struct{ st, n2 int }
	var jobs []p2
	for si, st := range sts {
		b, m := int(st.rep.Cfg.Base), int(st.rep.Cfg.Max)
		n2s := c43Uniq([]int{0, 1, b, m - 1, m, m + 1})
		if ve.Thorough() {
			n2s = n2s[:0]
			for n2 := 0; n2 <= m+1; n2++ {
				n2s = append(n2s, n2)
			}
		}
		for _, n2 := range n2s {
			jobs = append(jobs, p2{si, n2})
		}
	}
	r.ParallelFor(len(jobs), func(j int) {
		if r.Violations() > 0 {
			return
		}
		st := sts[jobs[j].st]
		n2 := jobs[j].n2
		cfg := st.rep.Cfg
		d1 := c43Data(st.rep.L, 0xA0)
		var local int64
		defer func() {
			r.EvalN(int(local))
			tmu.Lock()
			trans += local
			tmu.Unlock()
		}()
		seen := map[string]bool{}
		for L := 0; L <= int(cfg.Max)+3; L++ {
			data := c43Data(L, 0x11)
			nm := 1
			if L > 1 {
				nm = 1 << uint(L-1)
			}
			for mask := 0; mask < nm; mask++ {
				if !ve.Thorough() && bits.OnesCount(uint(mask)) > 2 && mask != nm-1 {
					continue // quick: second message in <= 3 chunks or byte-at-a-time; thorough: every composition
				}
				comp := c43Compose(L, mask)
				for e := 0; e < 2; e++ {
					sc := c43Script{Chunks: comp, ErrAt: -1, EOFWithData: e == 1}
					s := c43SlFresh(cfg, st.rep.N)
					_ = s.Read(st.rep.Script.reader(d1))
					if local == 0 {
						if k := strconv.Itoa(st.cfgI) + "|" + c43SlurperKey(s); k != st.key {
							report("replay", st.rep, "nondeterministic slurper state on replay: "+k+" vs "+st.key)
							return
						}
					}
					s.Reset(uint64(n2))
					cs := func() any {
						return map[string]any{"first": st.rep, "reset": n2, "second_len": L, "second": sc}
					}
					if s.Size() != 0 || len(s.Bytes()) != 0 {
						report("reset", cs(), fmt.Sprintf("after Reset Size()=%d Bytes()=%x", s.Size(), s.Bytes()))
						return
					}
					if c := c43SlurperCap(s); c > cfg.Max {
						report("reset", cs(), fmt.Sprintf("after Reset allocated capacity %d > max %d", c, cfg.Max))
						return
					}
					outcome, bad := c43SlRun(s, cfg, n2, data, sc)
					local++
					if bad != "" {
						report("reset", cs(), "second message after Reset: "+bad)
						return
					}
					if !seen[outcome] {
						seen[outcome] = true
						r.Class("a2/" + outcome)
					}
				}
			}
		}
	})
	transitions = trans
	lap("a2")

	// ---- phase 3: multi-step allocation ----
	step := int(allocationStep)
	big := []c43SlCfg{{1, uint64(2*step + 5)}, {70000, uint64(3 * step)}, {2048, uint64(step + 2048)}}
	type p3 struct {
		cfg c43SlCfg
		n   int
		L   int
		sc  c43Script
	}
	var cases []p3
	for _, cfg := range big {
		b, m := int(cfg.Base), int(cfg.Max)
		var edges []int
		for _, e := range []int{0, 1, b, b + step, b + 2*step, m} {
			for d := -1; d <= 1; d++ {
				if e+d >= 0 && e+d <= m+3 {
					edges = append(edges, e+d)
				}
			}
		}
		edges = append(edges, m+3)
		edges = c43Uniq(edges)
		limits := c43Uniq([]int{-1, 0, 1, b, b + 1, b + step, b + step + 1, m - 1, m, m + 1})
		for _, n := range limits {
			for _, L := range edges {
				var scripts []c43Script
				scripts = append(scripts, c43Script{Chunks: c43Fixed(L, L), ErrAt: -1})
				for _, cut := range edges {
					if cut > 0 && cut < L {
						scripts = append(scripts, c43Script{Chunks: []int{cut, L - cut}, ErrAt: -1})
						scripts = append(scripts, c43Script{Chunks: []int{cut, 0, L - cut}, ErrAt: -1, EOFWithData: true})
						scripts = append(scripts, c43Script{Chunks: []int{cut, L - cut}, ErrAt: 1})
					}
				}
				for _, f := range []int{7, 4096, step, step + 1} {
					if f < L {
						scripts = append(scripts, c43Script{Chunks: c43Fixed(L, f), ErrAt: -1})
					}
				}
				if L <= 4096 && L > 1 {
					scripts = append(scripts, c43Script{Chunks: c43Fixed(L, 1), ErrAt: -1})
				}
				for _, sc := range scripts {
					cases = append(cases, p3{cfg, n, L, sc})
				}
			}
		}
	}
	r.ParallelFor(len(cases), func(i int) {
		if r.Violations() > 0 {
			return
		}
		c := cases[i]
		data := c43Data(c.L, 0x37)
		s := c43SlFresh(c.cfg, c.n)
		outcome, bad := c43SlRun(s, c.cfg, c.n, data, c.sc)
		r.Eval()
		if bad != "" {
			report("multistep", c43SlCase{Cfg: c.cfg, N: c.n, L: c.L, Script: c43Short(c.sc)}, bad)
			return
		}
		// Reset and read a max-size message: the whole allowance must be available again
		s.Reset(0)
		d2 := c43Data(int(c.cfg.Max), 0x55)
		outcome2, bad := c43SlRun(s, c.cfg, 0, d2, c43Script{Chunks: c43Fixed(len(d2), 50001), ErrAt: -1})
		if bad != "" {
			report("multistep-reset", c43SlCase{Cfg: c.cfg, N: c.n, L: c.L, Script: c43Short(c.sc)}, "max-size message after Reset(0): "+bad)
			return
		}
		r.Class(fmt.Sprintf("a3/%s/%s/bufs%d", outcome, outcome2, c43SlurperBufCount(s)))
	})
	r.Set("a_multistep_cases", len(cases))
	lap("a3")
	return states, transitions
}

func c43Short(sc c43Script) c43Script {
	if len(sc.Chunks) > 8 {
		sc.Chunks = append(append([]int(nil), sc.Chunks[:4]...), -len(sc.Chunks), sc.Chunks[len(sc.Chunks)-1])
	}
	return sc
}

func c43Fixed(L, f int) []int {
	var out []int
	for L > 0 {
		n := f
		if n > L {
			n = L
		}
		out = append(out, n)
		L -= n
	}
	return out
}

func c43Uniq(v []int) []int {
	sort.Ints(v)
	out := v[:0]
	for i, x := range v {
		if i == 0 || x != v[i-1] {
			out = append(out, x)
		}
	}
	return out
}
