package agreement

// C06, family 2 — the same property observed at the REAL voteAggregator, behind the real
// router chain (rootRouter -> voteAggregator+contract -> voteTrackerRound ->
// voteTrackerPeriod -> voteTracker+contract). Engine E-SEQ, same weights / thresholds /
// values / real signed votes as family 1 (verif_c06_votetracker_test.go).
//
// Alphabet, per weight variant and step:
//   * voteVerified(sender, value): 12 events (individual verified votes), and
//   * bundleVerified(B) for EVERY bundle B over the sender/value universe that the node can
//     receive: header value in {x,y,z}; every sender absent | plain vote for the header
//     value | equivocation pair (any of the 6 ordered pairs of distinct values); at most
//     c06MaxPairs pairs; accepted by the real unauthenticatedBundle.verify (distinct
//     voters, quorum weight, not over-long) — checked on the real verifier for each
//     candidate — and inside the honest-majority assumption. The verified `bundle` handed
//     to the aggregator carries the real verified votes and the real verified
//     equivocationVotes (unauthenticatedEquivocationVote.verify), in sender order.
// Bound: every sequence of <= 7 (quick) / 9 (thorough) events (votes and bundles interleaved; the
//   frontier empties at depth 6, i.e. the whole reachable space is covered in both tiers); states
//   merged by the complete step-tracker + contracts + round/period tracker + reference state.
// Reference: a bundle event is the delivery of its plain votes, then for every pair its
//   first and its second vote; the tally, the pruning rule (decided by the reference only)
//   and the oracle are those of family 1, with the event (vote or whole bundle) as unit:
//   a threshold event comes back exactly from the first event after which some count
//   reaches the threshold (right type, value, coordinates), never again; every other event
//   returns none / voteFiltered / bundleFiltered; the bundle attached to the signal is a
//   quorum for that value made of accepted votes and passes the real
//   unauthenticatedBundle.verify; duplicates change nothing; tracker.count == reference.
// Seeded change /verif/seeded/C06-B (equivocationVote.v1() returns Sigs[0]) is DETECTED
//   here: pairs arriving inside a bundle are stored with a wrong second signature and the
//   node's own bundle no longer verifies.

import (
	"fmt"
	"reflect"
	"sort"

	"github.com/algorand/go-algorand/crypto"
	"github.com/algorand/go-algorand/data/basics"
	ve "github.com/algorand/go-algorand/verifeng"
)

// c06BundleOp is one bundleVerified event of the alphabet.
type c06BundleOp struct {
	name  string
	val   int
	seq   [][2]int // (sender, value) in the order the aggregator must deliver them
	pairs int
	ev    filterableMessageEvent
}

var c06PairKinds = [6][2]int{{0, 1}, {1, 0}, {0, 2}, {2, 0}, {1, 2}, {2, 1}}

// c06BuildBundleOps enumerates the bundle alphabet of one step.
func c06BuildBundleOps(env *c06Env, s step, maxPairs int) (ops []c06BundleOp, refused int, err error) {
	n := env.v.n
	tab := env.votes[s]
	vals := env.vals[s]
	rnd := env.rnd
	// verified equivocation pairs, as the cryptoVerifier would hand them over
	var eqv [c06NSenders][6]equivocationVote
	for i := 0; i < n; i++ {
		for k, pk := range c06PairKinds {
			v0, v1 := tab[i][pk[0]], tab[i][pk[1]]
			uev := unauthenticatedEquivocationVote{Sender: env.addrs[i], Round: rnd, Period: 0, Step: s, Cred: v0.Cred.UnauthenticatedCredential,
				Proposals: [2]proposalValue{vals[pk[0]], vals[pk[1]]}, Sigs: [2]crypto.OneTimeSignature{v0.Sig, v1.Sig}}
			ev, verr := uev.verify(env.ledger)
			if verr != nil {
				return nil, 0, fmt.Errorf("equivocation pair of sender %d (%d,%d) step %d does not verify: %v", i, pk[0], pk[1], s, verr)
			}
			eqv[i][k] = ev
		}
	}
	total := 1
	for i := 0; i < n; i++ {
		total *= 8
	}
	for val := 0; val < c06NValues; val++ {
		for code := 0; code < total; code++ {
			var st [c06NSenders]int
			c := code
			pairs, entries := 0, 0
			var weight, eqW uint64
			for i := 0; i < n; i++ {
				st[i] = c % 8
				c /= 8
				if st[i] >= 2 {
					pairs++
					eqW += env.v.weights[i]
				}
				if st[i] >= 1 {
					entries++
					weight += env.v.weights[i]
				}
			}
			if pairs > maxPairs || weight < env.v.thr || eqW >= env.v.thr || uint64(entries) > env.v.thr {
				continue
			}
			op := c06BundleOp{val: val, pairs: pairs}
			ub := unauthenticatedBundle{Round: rnd, Period: 0, Step: s, Proposal: vals[val]}
			b := bundle{}
			name := fmt.Sprintf("B(%c:", 'x'+val)
			for i := 0; i < n; i++ {
				if st[i] == 1 {
					v := tab[i][val]
					ub.Votes = append(ub.Votes, voteAuthenticator{Sender: v.R.Sender, Cred: v.Cred.UnauthenticatedCredential, Sig: v.Sig})
					b.Votes = append(b.Votes, v)
					op.seq = append(op.seq, [2]int{i, val})
					name += string(rune('a' + i))
				}
			}
			var tail [][2]int
			for i := 0; i < n; i++ {
				if st[i] >= 2 {
					pk := c06PairKinds[st[i]-2]
					ev := eqv[i][st[i]-2]
					ub.EquivocationVotes = append(ub.EquivocationVotes, equivocationVoteAuthenticator{Sender: ev.Sender, Cred: ev.Cred.UnauthenticatedCredential, Sigs: ev.Sigs, Proposals: ev.Proposals})
					b.EquivocationVotes = append(b.EquivocationVotes, ev)
					tail = append(tail, [2]int{i, pk[0]}, [2]int{i, pk[1]})
					name += fmt.Sprintf(" %c=%c%c", 'a'+i, 'x'+pk[0], 'x'+pk[1])
				}
			}
			op.seq = append(op.seq, tail...)
			op.name = name + ")"
			// only bundles the real verifier accepts can reach the aggregator
			if msg := env.verifyBundle(ub); msg != "" {
				refused++
				continue
			}
			b.U = ub
			op.ev = filterableMessageEvent{
				messageEvent:  messageEvent{T: bundleVerified, Input: message{Bundle: b, UnauthenticatedBundle: ub}, Proto: ConsensusVersionView{Version: env.version}},
				FreshnessData: freshnessData{PlayerRound: rnd, PlayerPeriod: 0, PlayerStep: s},
			}
			ops = append(ops, op)
		}
	}
	sort.SliceStable(ops, func(a, b int) bool {
		if ops[a].pairs != ops[b].pairs {
			return ops[a].pairs < ops[b].pairs
		}
		return len(ops[a].seq) < len(ops[b].seq)
	})
	return ops, refused, nil
}

func c06NewAgg(env *c06Env, s step) *c06Sys {
	y := c06New(env, s)
	y.sr = nil
	y.root = new(rootRouter)
	return y
}

// cloneAgg deep-copies the explored system: the vote-machine state held in the router tree
// (step tracker maps, contracts, round/period tracker caches) plus the reference tally.
// The listener wrappers (voteRoot/proposalRoot) are left nil: the routers re-create them,
// pointing into the copy, on the next dispatch. The proposal machines are never touched by
// vote events and stay zero. c06CloneFidelity checks the copy against replayed instances.
func (y *c06Sys) cloneAgg() *c06Sys {
	c := *y
	c.tr = &tracer{log: y.env.log}
	c.root = new(rootRouter)
	if y.root.Children != nil {
		c.root.Children = map[round]*roundRouter{}
	}
	for rk, rr := range y.root.Children {
		nr := &roundRouter{VoteTrackerRound: rr.VoteTrackerRound}
		if rr.Children != nil {
			nr.Children = map[period]*periodRouter{}
		}
		for pk, pr := range rr.Children {
			np := &periodRouter{VoteTrackerPeriod: pr.VoteTrackerPeriod}
			if pr.Children != nil {
				np.Children = map[step]*stepRouter{}
			}
			for sk, sr := range pr.Children {
				ns := &stepRouter{VoteTrackerContract: sr.VoteTrackerContract}
				t := &sr.VoteTracker
				ns.VoteTracker.EquivocatorsCount = t.EquivocatorsCount
				if t.Voters != nil {
					ns.VoteTracker.Voters = make(map[basics.Address]vote, len(t.Voters))
					for a, v := range t.Voters {
						ns.VoteTracker.Voters[a] = v
					}
				}
				if t.Equivocators != nil {
					ns.VoteTracker.Equivocators = make(map[basics.Address]equivocationVote, len(t.Equivocators))
					for a, v := range t.Equivocators {
						ns.VoteTracker.Equivocators[a] = v
					}
				}
				if t.Counts != nil {
					ns.VoteTracker.Counts = make(map[proposalValue]proposalVoteCounter, len(t.Counts))
					for pv, pc := range t.Counts {
						npc := proposalVoteCounter{Count: pc.Count}
						if pc.Votes != nil {
							npc.Votes = make(map[basics.Address]vote, len(pc.Votes))
							for a, v := range pc.Votes {
								npc.Votes[a] = v
							}
						}
						ns.VoteTracker.Counts[pv] = npc
					}
				}
				np.Children[sk] = ns
			}
			nr.Children[pk] = np
		}
		c.root.Children[rk] = nr
	}
	return &c
}

// c06CloneFidelity compares, for every op sequence of length <= 2 over a sample of the
// alphabet (and length 3 over a smaller one), the instance obtained by clone-then-apply with
// the instance obtained by replaying from scratch: same outcome, same key, and deeply equal
// router trees. A mismatch is a harness defect (not a verdict).
func c06CloneFidelity(env *c06Env, s step, numOps int) error {
	var sample []int
	for op := 0; op < numOps; op += 7 {
		sample = append(sample, op)
	}
	run := func(ops []int) (*c06Sys, bool, error) {
		y := c06NewAgg(env, s)
		for _, o := range ops {
			en, err := y.applyAgg(o)
			if err != nil || !en {
				return y, en, err
			}
		}
		return y, true, nil
	}
	var seqs [][]int
	for _, a := range sample {
		seqs = append(seqs, []int{a})
		for _, b := range sample {
			seqs = append(seqs, []int{a, b})
		}
	}
	for i := 0; i < len(sample); i += 5 {
		for j := 1; j < len(sample); j += 5 {
			for k := 2; k < len(sample); k += 5 {
				seqs = append(seqs, []int{sample[i], sample[j], sample[k]})
			}
		}
	}
	for _, ops := range seqs {
		prefix, en, err := run(ops[:len(ops)-1])
		if err != nil || !en {
			continue
		}
		c := prefix.cloneAgg()
		if c.aggKey() != prefix.aggKey() {
			return fmt.Errorf("clone key differs after %v", ops[:len(ops)-1])
		}
		en1, err1 := c.applyAgg(ops[len(ops)-1])
		truth, en2, err2 := run(ops)
		if en1 != en2 || (err1 == nil) != (err2 == nil) {
			return fmt.Errorf("clone-then-apply and replay disagree on the outcome of %v", ops)
		}
		if err1 != nil || !en1 {
			continue
		}
		if c.aggKey() != truth.aggKey() || c.ref != truth.ref {
			return fmt.Errorf("clone-then-apply and replay reach different keys after %v", ops)
		}
		if !reflect.DeepEqual(c.root, truth.root) {
			return fmt.Errorf("clone-then-apply and replay reach different router trees after %v", ops)
		}
		// the original must not have been touched through the copy
		again, _, _ := run(ops[:len(ops)-1])
		if prefix.aggKey() != again.aggKey() || !reflect.DeepEqual(prefix.root, again.root) {
			return fmt.Errorf("applying an op to a clone changed the original (%v)", ops)
		}
	}
	return nil
}

func (y *c06Sys) player() player {
	return player{Round: y.env.rnd, Period: 0, Step: y.step}
}

// aggKey adds the state of the machines above the step tracker.
func (y *c06Sys) aggKey() string {
	k := y.key()
	rr := y.root.Children[y.env.rnd]
	if rr == nil {
		return k + "|-"
	}
	f := rr.VoteTrackerRound.Freshest
	k += fmt.Sprintf("|F%v/%v/%d/%s", rr.VoteTrackerRound.Ok, f.T, f.Step, y.valName(f.Proposal))
	if pr := rr.Children[0]; pr != nil {
		c := pr.VoteTrackerPeriod.Cached
		k += fmt.Sprintf("|P%v/%s", c.Bottom, y.valName(c.Proposal))
	}
	return k
}

func (y *c06Sys) handleAgg(e event) (out event, panicked string) {
	defer func() {
		if x := recover(); x != nil {
			panicked = c06PanicText(x)
		}
	}()
	pl := y.player()
	out = y.root.dispatch(y.tr, pl, e, playerMachine, voteMachine, pl.Round, 0, y.step)
	return
}

func (y *c06Sys) applyAgg(op int) (bool, error) {
	env := y.env
	w := &env.v.weights
	nv := env.v.n * c06NValues
	var seq [][2]int
	var ev event
	isBundle := op >= nv
	if !isBundle {
		i, k := op/c06NValues, op%c06NValues
		seq = [][2]int{{i, k}}
		v := env.votes[y.step][i][k]
		pl := y.player()
		ev = filterableMessageEvent{
			messageEvent:  messageEvent{T: voteVerified, Input: message{Vote: v, UnauthenticatedVote: v.u()}, Proto: ConsensusVersionView{Version: env.version}},
			FreshnessData: freshnessData{PlayerRound: pl.Round, PlayerPeriod: 0, PlayerStep: y.step},
		}
	} else {
		bo := &env.bops[y.step][op-nv]
		seq, ev = bo.seq, bo.ev
	}
	// reference: deliver the votes one by one
	nr := y.ref
	changed := false
	for _, sk := range seq {
		if c06RefStep(&nr, sk[0], sk[1]) {
			changed = true
		}
	}
	// the protocol's assumption (counts are monotone, so the end of the event decides)
	if nr.eqWeight(w) >= env.v.thr {
		return false, nil
	}
	nOver, which := y.anyOver(&nr)
	if nOver > 1 {
		return false, nil
	}
	expectEmit := !y.ref.emitted && nOver == 1
	if expectEmit {
		nr.emitted = true
	}
	before := ""
	if !changed {
		before = y.trackerKey()
	}
	out, panicked := y.handleAgg(ev)
	if panicked != "" {
		return true, ve.Violationf("C06:panic", "vote machines panicked inside the honest-majority assumption: %s", panicked)
	}
	y.ref = nr
	isThr := false
	switch out.t() {
	case softThreshold, certThreshold, nextThreshold:
		isThr = true
	}
	if !expectEmit {
		if isThr {
			te, _ := out.(thresholdEvent)
			if y.ref.emitted {
				return true, ve.Violationf("C06:second-threshold", "threshold event %v for %s emitted although a threshold had already been signalled", out.t(), y.valName(te.Proposal))
			}
			return true, ve.Violationf("C06:spurious-threshold", "threshold event %v for %s emitted although no count reaches %d (counts x=%d y=%d z=%d)", out.t(), y.valName(te.Proposal), env.v.thr, nr.count(w, 0), nr.count(w, 1), nr.count(w, 2))
		}
		ok := out.t() == none || (!isBundle && out.t() == voteFiltered) || (isBundle && out.t() == bundleFiltered)
		if !ok {
			return true, ve.Violationf("C06:agg-event-type", "voteAggregator answered a well-formed verified %s with %v", map[bool]string{false: "vote", true: "bundle"}[isBundle], out.t())
		}
		y.last = "agg-" + out.t().String()
	} else {
		if !isThr {
			return true, ve.Violationf("C06:missing-threshold", "no threshold event (got %v) although count(%c)=%d reaches %d for the first time", out.t(), 'x'+which, nr.count(w, which), env.v.thr)
		}
		te, ok := out.(thresholdEvent)
		if !ok {
			return true, ve.Violationf("C06:event-type", "threshold-typed event is a %T", out)
		}
		if err := y.checkThreshold(te, which, env.votes[y.step][0][which].R); err != nil {
			return true, err
		}
		y.last = fmt.Sprintf("agg-emit-%c-v%d-e%d-bundle=%v", 'x'+which, len(te.Bundle.Votes), len(te.Bundle.EquivocationVotes), isBundle)
	}
	if !changed {
		if after := y.trackerKey(); after != before {
			return true, ve.Violationf("C06:duplicate-changes-state", "an event carrying only duplicates / votes of known equivocators changed the tracker: %s -> %s", before, after)
		}
	}
	if sr := y.stepRouterOf(); sr != nil {
		for v := 0; v < c06NValues; v++ {
			if got, want := sr.VoteTracker.count(env.vals[y.step][v]), nr.count(w, v); got != want {
				return true, ve.Violationf("C06:count", "tracker.count(%c) = %d, reference tally says %d", 'x'+v, got, want)
			}
		}
	} else if changed {
		return true, ve.Violationf("C06:count", "votes were accepted but no step tracker exists")
	}
	return true, nil
}

const c06MaxPairs = 1

// c06ExploreAggregator runs family 2 for one weight variant; it reports whether every
// exploration was exhaustive for its bound.
func c06ExploreAggregator(r *ve.Run, env *c06Env, steps []step, cov *ve.Coverage) (bool, error) {
	if env.v.n != 4 {
		return true, nil // the five-sender variant is explored at the tracker only
	}
	depth := ve.Pick(7, 9)
	exhaustive := true
	env.bops = map[step][]c06BundleOp{}
	for _, s := range steps {
		s := s
		ops, refused, err := c06BuildBundleOps(env, s, c06MaxPairs)
		if err != nil {
			return false, err
		}
		env.bops[s] = ops
		nv := env.v.n * c06NValues
		r.Note("aggregator/%s/step%d: alphabet = %d votes + %d verified bundles (<= %d pair; %d candidates refused by the real verifier)", env.v.name, s, nv, len(ops), c06MaxPairs, refused)
		if err := c06CloneFidelity(env, s, nv+len(ops)); err != nil {
			return false, err
		}
		q := &ve.Seq[*c06Sys]{
			Name:   fmt.Sprintf("aggregator/%s/step%d", env.v.name, s),
			NumOps: nv + len(ops),
			OpName: func(op int) string {
				if op < nv {
					return fmt.Sprintf("%c:%c", 'a'+op/c06NValues, 'x'+op%c06NValues)
				}
				return ops[op-nv].name
			},
			New:      func() *c06Sys { return c06NewAgg(env, s) },
			Clone:    func(y *c06Sys) *c06Sys { return y.cloneAgg() },
			Apply:    func(y *c06Sys, op int) (bool, error) { return y.applyAgg(op) },
			Key:      func(y *c06Sys) string { return y.aggKey() },
			Observe:  func(y *c06Sys) string { return y.last },
			MaxDepth: depth,
		}
		res := q.Explore(r)
		cov.AddSeq(res)
		if !res.Exhaustive {
			exhaustive = false
		}
		if r.Violations() > 0 {
			return false, nil
		}
	}
	return exhaustive, nil
}
