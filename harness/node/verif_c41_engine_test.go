package node

// C41 — shared mutation engine (this file is copied verbatim, except for the package clause,
// into every package that hosts a part of the check: agreement, network, node, data).
//
// For every registered message type:
//   seeds      valid encodings of non-trivial instances built by reflection (all fields set
//              with 1-element collections; all fields set with 2-element collections and other
//              integer widths), plus the part's hand-made seeds; each seed additionally in
//              STRUCT-FROM-ARRAY form (every struct map rewritten as the array of its field
//              values in declaration order — the second half of every generated decoder)
//   mutations  T  every truncation
//              B  every byte position x the msgpack marker alphabet
//                 {00,7f,80,8f,90,9f,a0,bf,c0,c4,c5,c6,dc,dd,de,df,ff}
//              H  every array/map/bin/str header re-declared with length 0, n-1, n+1 and 65536
//                 (32-bit header form); then, only where that is safe, 2^32-1 and bound+1
//              K  every map: an unknown key inserted, the first entry duplicated
//              N  every value replaced by 300 nested arrays / 300 nested maps
//              P  (small seeds, thorough or quick on votes) every PAIR of structural byte
//                 positions x a 4-marker alphabet
//              O  genuinely over-bound instances: for every bounded collection reachable from
//                 the type, an instance holding bound+1 elements (bytes, string bytes, slice
//                 elements, map entries) encoded with the generated MarshalMsg
//   oracle     the generated UnmarshalMsg is called DIRECTLY (not through protocol.Decode, whose
//              recover() would hide a panic): a panic is a violation; the call returns a value
//              or an error; after the call — error or not — every collection of the (possibly
//              partially) decoded object whose field/type declares an allocbound holds at most
//              that many elements; an encoding that declares 65536 / bound+1 / 2^32-1 elements
//              above the bound must yield an error and must not have been honoured; an O
//              instance must yield an error.
// Allocated bytes are recorded as a metric only.

import (
	"encoding/binary"
	"fmt"
	"math"
	"reflect"
	"regexp"
	"runtime"
	"runtime/debug"
	"sort"
	"strconv"
	"strings"
	"sync"
	"sync/atomic"
	"time"

	"github.com/algorand/msgp/msgp"

	ve "github.com/algorand/go-algorand/verifeng"
)

type c41msg interface {
	msgp.Marshaler
	msgp.Unmarshaler
}

type c41target struct {
	proto c41msg
	// extra hand-made valid seeds (encodings)
	extra [][]byte
	// pairs enables the depth-2 structural mutation (P) for this type
	pairs bool
	// hostile are hand-made malicious inputs (label -> bytes) decoded as they are
	hostile map[string][]byte
	// thoroughOnly: skip as a top-level type in the quick tier
	thoroughOnly bool
}

// c41bounds: "(pkgpath):(tag expression)" -> value, and "(pkgpath).(Type)" -> values of a
// //msgp:allocbound directive. Filled by each part (registry file).
type c41bounds struct {
	expr map[string]int
	typ  map[string][]int
}

type c41part struct {
	r          *ve.Run
	name       string
	b          c41bounds
	mu         sync.Mutex
	n          map[string]int
	unknown    map[string]bool // bound expressions the table does not know
	decodes    atomic.Int64
	okCount    atomic.Int64
	errCount   atomic.Int64
	overflow   atomic.Int64
	honoured   atomic.Int64
	arraySeeds atomic.Int64
	sanity     atomic.Int64 // hand-made inputs labelled expect-accept that were rejected
	thorough   bool
	infos      sync.Map // reflect.Type -> *c41typeInfo
}

func c41newPart(r *ve.Run, name string, b c41bounds) *c41part {
	return &c41part{r: r, name: name, b: b, n: map[string]int{}, unknown: map[string]bool{}, thorough: ve.Thorough()}
}

func (p *c41part) report(key, what string, replay any) {
	p.mu.Lock()
	p.n[key]++
	n := p.n[key]
	p.mu.Unlock()
	if n > 2 {
		return
	}
	p.r.Report(key, what, replay)
}

// ---------------------------------------------------------------------------------------
// reflection helpers (same visibility rules as the codecs)

func c41tagOpts(tag reflect.StructTag) (name string, bounds []string, opts map[string]bool) {
	opts = map[string]bool{}
	parts := strings.Split(tag.Get("codec"), ",")
	name = parts[0]
	for _, p := range parts[1:] {
		kv := strings.SplitN(p, "=", 2)
		if len(kv) == 2 && kv[0] == "allocbound" {
			bounds = append(bounds, kv[1])
		}
		opts[kv[0]] = true
	}
	return
}

func c41eligible(f reflect.StructField) bool {
	if f.Name == "_struct" {
		return false
	}
	if f.PkgPath != "" && !f.Anonymous {
		return false
	}
	if name, _, _ := c41tagOpts(f.Tag); name == "-" {
		return false
	}
	return true
}

func c41isBytes(t reflect.Type) bool { return t.Elem().Kind() == reflect.Uint8 }

var c41rawT = reflect.TypeOf(msgp.Raw(nil))

func c41pkg(t reflect.Type) string {
	return strings.TrimPrefix(t.PkgPath(), "github.com/algorand/go-algorand/")
}

// set builds an instance with every field set. width selects integer magnitudes, n the
// number of elements per collection (clamped to a known allocbound). Beyond collDepth nested
// levels, slices / maps / pointers are left nil — that is the only way a type can recurse
// (inner transactions), and it guarantees that no zero-valued struct with `required` fields
// is ever emitted; structs, arrays and scalars are always filled completely.
func (p *c41part) set(t reflect.Type, owner reflect.Type, f *reflect.StructField, depth int, salt byte, width int, n int) reflect.Value {
	const collDepth = 4
	v := reflect.New(t).Elem()
	if depth > 40 {
		return v
	}
	clamp := func() int {
		k := n
		if bs := p.boundsFor(owner, f, t); len(bs) > 0 && bs[0] >= 0 && bs[0] < k {
			k = bs[0]
		}
		return k
	}
	ints := []uint64{5, 200, 60000, 1 << 33}
	switch t.Kind() {
	case reflect.Uint, reflect.Uint8, reflect.Uint16, reflect.Uint32, reflect.Uint64, reflect.Uintptr:
		if t.Name() == "HashType" {
			v.SetUint(1)
			break
		}
		x := ints[(width+int(salt))%len(ints)] + uint64(salt%7)
		if t.Bits() < 64 {
			x %= uint64(1) << uint(t.Bits())
		}
		if x == 0 {
			x = 1
		}
		v.SetUint(x)
	case reflect.Int, reflect.Int8, reflect.Int16, reflect.Int32, reflect.Int64:
		x := int64(ints[(width+int(salt))%3]) + int64(salt%7)
		if t.Bits() < 64 {
			x %= int64(1) << uint(t.Bits()-1)
		}
		if salt%2 == 1 {
			x = -x
		}
		if x == 0 {
			x = 1
		}
		v.SetInt(x)
	case reflect.Bool:
		v.SetBool(true)
	case reflect.String:
		if clamp() > 0 {
			v.SetString(string(rune('b' + salt%20)))
		}
	case reflect.Array:
		for i := 0; i < t.Len(); i++ {
			if c41isBytes(t) {
				v.Index(i).SetUint(uint64(byte(i)*3 + salt + 1))
			} else {
				v.Index(i).Set(p.set(t.Elem(), nil, nil, depth+1, salt+byte(i), width, n))
			}
		}
	case reflect.Slice:
		if t == c41rawT {
			v.SetBytes([]byte{0x01})
			break
		}
		k := clamp()
		if c41isBytes(t) {
			s := reflect.MakeSlice(t, k, k)
			for i := 0; i < k; i++ {
				s.Index(i).SetUint(uint64(salt+byte(i)) | 1)
			}
			v.Set(s)
			break
		}
		if depth >= collDepth && !c41required(f) {
			break
		}
		if k == 0 && c41required(f) {
			k = 1
		}
		s := reflect.MakeSlice(t, k, k)
		for i := 0; i < k; i++ {
			s.Index(i).Set(p.set(t.Elem(), nil, nil, depth+1, salt+1+byte(i)*5, width, n))
		}
		v.Set(s)
	case reflect.Map:
		if depth >= collDepth {
			break
		}
		k := clamp()
		m := reflect.MakeMap(t)
		for i := 0; i < k; i++ {
			m.SetMapIndex(p.set(t.Key(), nil, nil, depth+1, salt+2+byte(i)*9, width, 1), p.set(t.Elem(), nil, nil, depth+1, salt+3+byte(i), width, n))
		}
		v.Set(m)
	case reflect.Ptr:
		if depth >= collDepth {
			break
		}
		q := reflect.New(t.Elem())
		q.Elem().Set(p.set(t.Elem(), nil, nil, depth+1, salt, width, n))
		v.Set(q)
	case reflect.Struct:
		for i := 0; i < t.NumField(); i++ {
			sf := t.Field(i)
			if !c41eligible(sf) {
				continue
			}
			d := depth
			switch sf.Type.Kind() {
			case reflect.Slice, reflect.Map, reflect.Ptr:
				d = depth + 1
			}
			c41assign(v.Field(i), p.set(sf.Type, t, &sf, d, salt+byte(i)*7+1, width, n))
		}
	}
	return v
}

func c41required(f *reflect.StructField) bool {
	if f == nil {
		return false
	}
	_, _, opts := c41tagOpts(f.Tag)
	return opts["required"]
}

func c41assign(dst, src reflect.Value) {
	if dst.CanSet() {
		dst.Set(src)
		return
	}
	if dst.Kind() == reflect.Struct {
		for i := 0; i < dst.NumField(); i++ {
			if c41eligible(dst.Type().Field(i)) {
				c41assign(dst.Field(i), src.Field(i))
			}
		}
	}
}

// ---------------------------------------------------------------------------------------
// bounds lookup and the post-decode walk

// boundsFor returns the allocbound values applying to a collection-typed field (outer, then
// element level), or nil when none is declared / known.
func (p *c41part) boundsFor(owner reflect.Type, f *reflect.StructField, t reflect.Type) []int {
	var out []int
	if f != nil {
		_, exprs, _ := c41tagOpts(f.Tag)
		for _, e := range exprs {
			if e == "-" {
				out = append(out, -1)
				continue
			}
			if n, err := strconv.Atoi(e); err == nil {
				out = append(out, n)
				continue
			}
			key := c41pkg(owner) + ":" + e
			if v, ok := p.b.expr[key]; ok {
				out = append(out, v)
			} else if v, ok := p.b.expr[e]; ok && strings.Contains(e, ".") {
				out = append(out, v) // package-qualified expression: same value everywhere
			} else {
				p.mu.Lock()
				p.unknown[key] = true
				p.mu.Unlock()
				out = append(out, -1)
			}
		}
	}
	if t.Name() != "" {
		if v, ok := p.b.typ[c41pkg(t)+"."+t.Name()]; ok {
			// A named type with its own //msgp:allocbound directive decodes itself: the generator
			// cannot pass a field-level tag into that method, so the type-level bound is the one
			// in force (a tighter field tag only feeds the MaxSize estimate). Recorded as a note.
			if len(out) > 0 && out[0] >= 0 && out[0] < v[0] && f != nil {
				p.noteOnce(fmt.Sprintf("field %s.%s is tagged allocbound=%d but its type %s enforces its own bound %d", owner.String(), f.Name, out[0], t.String(), v[0]))
			}
			return v
		}
	}
	return out
}

type c41walkRes struct {
	maxLen   int
	maxPath  string
	maxBound int // bound of the largest collection (-1 unknown / none)
	bad      string
	badKey   string // map type whose KEY-length sub-bound was exceeded
	badKeyAt string
}

// c41frame is a lazily rendered path (rendering strings for every visited field dominated
// the run time).
type c41frame struct {
	up   *c41frame
	name string
	idx  int
}

func (f *c41frame) String() string {
	if f == nil {
		return ""
	}
	s := f.up.String()
	switch {
	case f.name != "":
		return s + "." + f.name
	case f.idx == -1:
		return s + "{key}"
	case f.idx == -2:
		return s + "{val}"
	}
	return fmt.Sprintf("%s[%d]", s, f.idx)
}

type c41fieldInfo struct {
	index  int
	name   string
	bounds []int
}

type c41typeInfo struct {
	hasColl bool // some slice / map / string is reachable
	fields  []c41fieldInfo
	self    []int // bounds declared for the type itself (directive)
}

// info caches, per type, which fields can hold collections and the bounds declared on them.
func (p *c41part) info(t reflect.Type) *c41typeInfo {
	if v, ok := p.infos.Load(t); ok {
		return v.(*c41typeInfo)
	}
	ti := &c41typeInfo{}
	p.infos.Store(t, ti) // provisional: breaks recursion (recursive types do hold collections)
	switch t.Kind() {
	case reflect.String:
		ti.hasColl = true
		ti.self = p.boundsFor(nil, nil, t)
	case reflect.Slice, reflect.Map:
		ti.hasColl = true
		ti.self = p.boundsFor(nil, nil, t)
		p.info(t.Elem()) // pre-populate (explore() calls info before going parallel)
		if t.Kind() == reflect.Map {
			p.info(t.Key())
		}
	case reflect.Ptr:
		ti.hasColl = true
		p.info(t.Elem())
	case reflect.Array:
		ti.hasColl = !c41isBytes(t) && p.info(t.Elem()).hasColl
	case reflect.Struct:
		for i := 0; i < t.NumField(); i++ {
			sf := t.Field(i)
			if !c41eligible(sf) {
				continue
			}
			sub := p.info(sf.Type)
			if sub.hasColl {
				ti.hasColl = true
				fi := c41fieldInfo{index: i, name: sf.Name}
				switch sf.Type.Kind() {
				case reflect.String, reflect.Slice, reflect.Map:
					fi.bounds = p.boundsFor(t, &sf, sf.Type)
				}
				ti.fields = append(ti.fields, fi)
			}
		}
	}
	return ti
}

// walk inspects every collection of v: records the largest one and any that exceeds its bound.
// bounds: the allocbound values in force for v itself (outer level first).
func (p *c41part) walk(v reflect.Value, fr *c41frame, bounds []int, depth int, res *c41walkRes) {
	if depth > 40 {
		return
	}
	t := v.Type()
	note := func(n int, bound int) {
		if n > res.maxLen {
			res.maxLen, res.maxPath, res.maxBound = n, fr.String(), bound
		}
		if bound >= 0 && n > bound && res.bad == "" {
			res.bad = fmt.Sprintf("%s holds %d elements, declared allocbound %d", fr.String(), n, bound)
		}
	}
	first := func(bs []int) (int, []int) {
		if len(bs) == 0 {
			return -1, nil
		}
		return bs[0], bs[1:]
	}
	switch t.Kind() {
	case reflect.String:
		if len(bounds) == 0 {
			bounds = p.info(t).self
		}
		b, _ := first(bounds)
		note(v.Len(), b)
	case reflect.Slice:
		if v.IsNil() {
			return
		}
		if len(bounds) == 0 {
			bounds = p.info(t).self
		}
		b, rest := first(bounds)
		if c41isBytes(t) {
			note(v.Len(), b)
			return
		}
		// capacity counts too: a slice re-sliced to a short length still holds the allocation
		n := v.Len()
		if v.Cap() > n {
			n = v.Cap()
		}
		note(n, b)
		if !p.info(t.Elem()).hasColl && len(rest) == 0 {
			return
		}
		for i := 0; i < v.Len() && i < 64; i++ {
			p.walk(v.Index(i), &c41frame{up: fr, idx: i}, rest, depth+1, res)
		}
	case reflect.Map:
		if v.IsNil() {
			return
		}
		if len(bounds) == 0 {
			bounds = p.info(t).self
		}
		b, rest := first(bounds)
		note(v.Len(), b)
		keyColl := t.Key().Kind() == reflect.String || t.Key().Kind() == reflect.Slice
		valColl := p.info(t.Elem()).hasColl
		if !keyColl && !valColl {
			return
		}
		it := v.MapRange()
		i := 0
		for it.Next() && i < 64 {
			i++
			if keyColl {
				k := it.Key()
				if len(rest) > 0 && rest[0] >= 0 && k.Len() > rest[0] {
					if res.badKey == "" {
						res.badKey = t.String()
						res.badKeyAt = fmt.Sprintf("%s has a key of %d bytes, declared key bound %d", fr.String(), k.Len(), rest[0])
					}
				} else {
					p.walk(k, &c41frame{up: fr, idx: -1}, rest, depth+1, res)
				}
			}
			if valColl {
				p.walk(it.Value(), &c41frame{up: fr, idx: -2}, nil, depth+1, res)
			}
		}
	case reflect.Ptr:
		if !v.IsNil() {
			p.walk(v.Elem(), fr, nil, depth+1, res)
		}
	case reflect.Array:
		if p.info(t).hasColl {
			for i := 0; i < v.Len(); i++ {
				p.walk(v.Index(i), &c41frame{up: fr, idx: i}, nil, depth+1, res)
			}
		}
	case reflect.Struct:
		for _, fi := range p.info(t).fields {
			p.walk(v.Field(fi.index), &c41frame{up: fr, name: fi.name}, fi.bounds, depth+1, res)
		}
	}
}

// ---------------------------------------------------------------------------------------
// msgpack tokenizer (structure only)

type c41tok struct {
	pos    int // offset of the header byte
	hdr    int // header length in bytes
	kind   byte
	n      int // element count (array/map) or byte length (bin/str)
	end    int // offset just past the whole value
	parent int
}

const (
	c41kArray = 'a'
	c41kMap   = 'm'
	c41kBin   = 'b'
	c41kStr   = 's'
	c41kOther = 'o'
)

// c41scan tokenizes one msgpack value starting at pos; it appends tokens in document order.
func c41scan(b []byte, pos int, parent int, depth int, out *[]c41tok) (end int, ok bool) {
	if pos >= len(b) || depth > 200 {
		return pos, false
	}
	c := b[pos]
	idx := len(*out)
	add := func(kind byte, hdr, n int) {
		*out = append(*out, c41tok{pos: pos, hdr: hdr, kind: kind, n: n, parent: parent})
	}
	u := func(off, sz int) (int, bool) {
		if pos+off+sz > len(b) {
			return 0, false
		}
		switch sz {
		case 1:
			return int(b[pos+off]), true
		case 2:
			return int(binary.BigEndian.Uint16(b[pos+off:])), true
		default:
			return int(binary.BigEndian.Uint32(b[pos+off:])), true
		}
	}
	container := func(kind byte, hdr, n int) (int, bool) {
		add(kind, hdr, n)
		p := pos + hdr
		cnt := n
		if kind == c41kMap {
			cnt = 2 * n
		}
		for i := 0; i < cnt; i++ {
			var ok bool
			p, ok = c41scan(b, p, idx, depth+1, out)
			if !ok {
				return p, false
			}
		}
		(*out)[idx].end = p
		return p, true
	}
	blob := func(kind byte, hdr, n int) (int, bool) {
		if pos+hdr+n > len(b) {
			return pos, false
		}
		add(kind, hdr, n)
		(*out)[idx].end = pos + hdr + n
		return pos + hdr + n, true
	}
	scalar := func(sz int) (int, bool) {
		if pos+1+sz > len(b) {
			return pos, false
		}
		add(c41kOther, 1+sz, 0)
		(*out)[idx].end = pos + 1 + sz
		return pos + 1 + sz, true
	}
	switch {
	case c <= 0x7f || c >= 0xe0 || c == 0xc0 || c == 0xc2 || c == 0xc3:
		return scalar(0)
	case c >= 0x80 && c <= 0x8f:
		return container(c41kMap, 1, int(c&0x0f))
	case c >= 0x90 && c <= 0x9f:
		return container(c41kArray, 1, int(c&0x0f))
	case c >= 0xa0 && c <= 0xbf:
		return blob(c41kStr, 1, int(c&0x1f))
	}
	switch c {
	case 0xc4, 0xc5, 0xc6:
		sz := 1 << (c - 0xc4)
		n, ok := u(1, sz)
		if !ok {
			return pos, false
		}
		return blob(c41kBin, 1+sz, n)
	case 0xd9, 0xda, 0xdb:
		sz := 1 << (c - 0xd9)
		n, ok := u(1, sz)
		if !ok {
			return pos, false
		}
		return blob(c41kStr, 1+sz, n)
	case 0xdc, 0xdd:
		sz := 2 << (c - 0xdc)
		n, ok := u(1, sz)
		if !ok {
			return pos, false
		}
		return container(c41kArray, 1+sz, n)
	case 0xde, 0xdf:
		sz := 2 << (c - 0xde)
		n, ok := u(1, sz)
		if !ok {
			return pos, false
		}
		return container(c41kMap, 1+sz, n)
	case 0xca, 0xce, 0xd2:
		return scalar(4)
	case 0xcb, 0xcf, 0xd3:
		return scalar(8)
	case 0xcc, 0xd0:
		return scalar(1)
	case 0xcd, 0xd1:
		return scalar(2)
	case 0xd4, 0xd5, 0xd6, 0xd7, 0xd8:
		return scalar(1 + (1 << (c - 0xd4)))
	case 0xc7, 0xc8, 0xc9:
		sz := 1 << (c - 0xc7)
		n, ok := u(1, sz)
		if !ok {
			return pos, false
		}
		return blob(c41kOther, 1+sz+1, n)
	}
	return scalar(0) // 0xc1 (never used)
}

// c41header encodes a container/blob header of the given kind declaring n, always in the
// 32-bit form when wide is set, else in the shortest form.
func c41header(kind byte, n uint32, wide bool) []byte {
	be16 := func(m byte) []byte { return []byte{m, byte(n >> 8), byte(n)} }
	be32 := func(m byte) []byte { return []byte{m, byte(n >> 24), byte(n >> 16), byte(n >> 8), byte(n)} }
	switch kind {
	case c41kArray:
		switch {
		case wide || n > 0xffff:
			return be32(0xdd)
		case n <= 15:
			return []byte{0x90 | byte(n)}
		}
		return be16(0xdc)
	case c41kMap:
		switch {
		case wide || n > 0xffff:
			return be32(0xdf)
		case n <= 15:
			return []byte{0x80 | byte(n)}
		}
		return be16(0xde)
	case c41kBin:
		switch {
		case wide || n > 0xffff:
			return be32(0xc6)
		case n <= 0xff:
			return []byte{0xc4, byte(n)}
		}
		return be16(0xc5)
	default: // str
		switch {
		case wide || n > 0xffff:
			return be32(0xdb)
		case n <= 31:
			return []byte{0xa0 | byte(n)}
		case n <= 0xff:
			return []byte{0xd9, byte(n)}
		}
		return be16(0xda)
	}
}

func c41splice(b []byte, from, to int, repl []byte) []byte {
	out := make([]byte, 0, len(b)-(to-from)+len(repl))
	out = append(out, b[:from]...)
	out = append(out, repl...)
	return append(out, b[to:]...)
}

// ---------------------------------------------------------------------------------------
// array-form seeds: the generated decoders accept every struct either as a map (what
// MarshalMsg emits) or as an array of the field values in declaration order
// ("struct-from-array"). Half of every decoder — with its own copies of the allocbound
// checks — is reachable only through that form, so each seed is also translated to it.

func c41skip(b []byte, pos int) (int, bool) {
	var toks []c41tok
	return c41scan(b, pos, -1, 0, &toks)
}

type c41sfield struct {
	name string
	typ  reflect.Type
}

// c41fields lists the codec-visible fields of a struct in declaration order, embedded
// structs (without an explicit codec name) flattened in place.
func c41fields(t reflect.Type, out *[]c41sfield) {
	for i := 0; i < t.NumField(); i++ {
		f := t.Field(i)
		if !c41eligible(f) {
			continue
		}
		name, _, _ := c41tagOpts(f.Tag)
		if f.Anonymous && name == "" && f.Type.Kind() == reflect.Struct {
			c41fields(f.Type, out)
			continue
		}
		if name == "" {
			name = f.Name
		}
		*out = append(*out, c41sfield{name, f.Type})
	}
}

func c41zeroEnc(t reflect.Type) []byte {
	switch t.Kind() {
	case reflect.Bool:
		return []byte{0xc2}
	case reflect.String:
		return []byte{0xa0}
	case reflect.Slice:
		if c41isBytes(t) {
			return []byte{0xc4, 0x00}
		}
		return []byte{0x90}
	case reflect.Map:
		return []byte{0x80}
	case reflect.Ptr:
		return []byte{0xc0}
	case reflect.Array:
		if c41isBytes(t) {
			n := t.Len()
			h := c41header(c41kBin, uint32(n), false)
			return append(h, make([]byte, n)...)
		}
		out := c41header(c41kArray, uint32(t.Len()), false)
		for i := 0; i < t.Len(); i++ {
			out = append(out, c41zeroEnc(t.Elem())...)
		}
		return out
	case reflect.Struct:
		return []byte{0x80}
	}
	return []byte{0x00}
}

// c41toArrayForm rewrites the value of type t encoded at b[pos:] with every struct map turned
// into a struct-from-array; it returns the new bytes and the end offset in b.
func c41toArrayForm(t reflect.Type, b []byte, pos int, depth int) (out []byte, end int, ok bool) {
	if pos >= len(b) || depth > 60 {
		return nil, pos, false
	}
	verbatim := func() ([]byte, int, bool) {
		e, ok := c41skip(b, pos)
		if !ok {
			return nil, pos, false
		}
		return append([]byte(nil), b[pos:e]...), e, true
	}
	var toks []c41tok
	head := func() (c41tok, bool) {
		toks = toks[:0]
		if _, ok := c41scan(b, pos, -1, 0, &toks); !ok || len(toks) == 0 {
			return c41tok{}, false
		}
		return toks[0], true
	}
	switch t.Kind() {
	case reflect.Ptr:
		if b[pos] == 0xc0 {
			return []byte{0xc0}, pos + 1, true
		}
		return c41toArrayForm(t.Elem(), b, pos, depth+1)
	case reflect.Struct:
		tk, ok := head()
		if !ok {
			return nil, pos, false
		}
		if tk.kind != c41kMap {
			return verbatim() // a struct with a hand-written scalar encoding
		}
		type span struct{ from, to int }
		present := map[string]span{}
		p := tk.pos + tk.hdr
		for i := 0; i < tk.n; i++ {
			ke, ok := c41skip(b, p)
			if !ok || ke <= p {
				return nil, pos, false
			}
			var kt []c41tok
			c41scan(b, p, -1, 0, &kt)
			if len(kt) == 0 || kt[0].kind != c41kStr {
				return nil, pos, false
			}
			key := string(b[kt[0].pos+kt[0].hdr : kt[0].end])
			ve2, ok := c41skip(b, ke)
			if !ok {
				return nil, pos, false
			}
			present[key] = span{ke, ve2}
			p = ve2
		}
		var fields []c41sfield
		c41fields(t, &fields)
		last := -1
		for i, f := range fields {
			if _, ok := present[f.name]; ok {
				last = i
			}
		}
		if len(present) > 0 && last < 0 {
			return nil, pos, false
		}
		out = c41header(c41kArray, uint32(last+1), false)
		used := 0
		for i := 0; i <= last; i++ {
			f := fields[i]
			sp, ok := present[f.name]
			if !ok {
				out = append(out, c41zeroEnc(f.typ)...)
				continue
			}
			used++
			sub, _, ok := c41toArrayForm(f.typ, b, sp.from, depth+1)
			if !ok {
				return nil, pos, false
			}
			out = append(out, sub...)
		}
		if used != len(present) {
			return nil, pos, false // a key that is not a field of t: not a plain struct map
		}
		return out, tk.end, true
	case reflect.Slice, reflect.Array:
		if c41isBytes(t) || t == c41rawT {
			return verbatim()
		}
		tk, ok := head()
		if !ok {
			return nil, pos, false
		}
		if tk.kind != c41kArray {
			return verbatim()
		}
		out = append(out, b[tk.pos:tk.pos+tk.hdr]...)
		p := tk.pos + tk.hdr
		for i := 0; i < tk.n; i++ {
			sub, e, ok := c41toArrayForm(t.Elem(), b, p, depth+1)
			if !ok {
				return nil, pos, false
			}
			out = append(out, sub...)
			p = e
		}
		return out, tk.end, true
	case reflect.Map:
		tk, ok := head()
		if !ok {
			return nil, pos, false
		}
		if tk.kind != c41kMap {
			return verbatim()
		}
		out = append(out, b[tk.pos:tk.pos+tk.hdr]...)
		p := tk.pos + tk.hdr
		for i := 0; i < tk.n; i++ {
			ke, ok := c41skip(b, p)
			if !ok {
				return nil, pos, false
			}
			out = append(out, b[p:ke]...)
			sub, e, ok := c41toArrayForm(t.Elem(), b, ke, depth+1)
			if !ok {
				return nil, pos, false
			}
			out = append(out, sub...)
			p = e
		}
		return out, tk.end, true
	}
	return verbatim()
}

// ---------------------------------------------------------------------------------------
// one decode + oracle

var c41overflowRe = regexp.MustCompile(`length overflow: (\d+) > (\d+)`)

type c41outcome struct {
	err      error
	panicked bool
	res      c41walkRes
}

func (p *c41part) decode(typ reflect.Type, name string, input []byte, what string) c41outcome {
	p.decodes.Add(1)
	p.r.Eval()
	var out c41outcome
	obj := reflect.New(typ)
	func() {
		defer func() {
			if e := recover(); e != nil {
				out.panicked = true
				p.report("C41:panic:"+name, fmt.Sprintf("%s: UnmarshalMsg panicked on %s: %v\n%s", name, what, e, c41trunc(string(debug.Stack()), 2500)),
					map[string]any{"engine": "enum", "type": name, "what": what, "input": c41hex(input)})
			}
		}()
		_, out.err = obj.Interface().(c41msg).UnmarshalMsg(input)
	}()
	if out.panicked {
		return out
	}
	if out.err != nil {
		p.errCount.Add(1)
		if c41overflowRe.MatchString(out.err.Error()) {
			p.overflow.Add(1)
		}
	} else {
		p.okCount.Add(1)
	}
	p.walk(obj.Elem(), nil, nil, 0, &out.res)
	if out.res.badKey != "" {
		p.report("C41:map-key-bound-unenforced:"+out.res.badKey, fmt.Sprintf("%s: after decoding %s (err=%v) %s", name, what, out.err, out.res.badKeyAt),
			map[string]any{"engine": "enum", "type": name, "what": what, "input": c41hex(input)})
	}
	if out.res.bad != "" {
		p.report("C41:above-bound:"+name, fmt.Sprintf("%s: after decoding %s (err=%v) %s", name, what, out.err, out.res.bad),
			map[string]any{"engine": "enum", "type": name, "what": what, "input": c41hex(input)})
	}
	return out
}

func c41hex(b []byte) string {
	if len(b) > 4096 {
		return fmt.Sprintf("%x...(%d bytes)", b[:4096], len(b))
	}
	return fmt.Sprintf("%x", b)
}

func c41trunc(s string, n int) string {
	if len(s) > n {
		return s[:n]
	}
	return s
}

var c41alphabet = []byte{0x00, 0x7f, 0x80, 0x8f, 0x90, 0x9f, 0xa0, 0xbf, 0xc0, 0xc4, 0xc5, 0xc6, 0xdc, 0xdd, 0xde, 0xdf, 0xff}
var c41pairAlphabet = []byte{0x80, 0x90, 0xc0, 0xdd}

// ---------------------------------------------------------------------------------------
// per-type exploration

func (p *c41part) seedsFor(tg c41target, typ reflect.Type, name string) [][]byte {
	var seeds [][]byte
	try := func(v reflect.Value, label string) {
		x := reflect.New(typ)
		c41assign(x.Elem(), v)
		var enc []byte
		func() {
			defer func() {
				if e := recover(); e != nil {
					enc = nil
				}
			}()
			enc = x.Interface().(c41msg).MarshalMsg(nil)
		}()
		if enc == nil {
			return
		}
		chk := reflect.New(typ)
		if _, err := chk.Interface().(c41msg).UnmarshalMsg(enc); err != nil {
			p.r.Note("%s: seed %q is not decodable (%v) — dropped", name, label, err)
			return
		}
		if !p.thorough && len(seeds) > 0 && len(enc) > 3000 {
			p.r.Note("%s: seed %q (%d bytes) only explored in the thorough tier", name, label, len(enc))
			return
		}
		seeds = append(seeds, enc)
	}
	try(p.set(typ, nil, nil, 0, 0x05, 0, 1), "all-set/1")
	try(p.set(typ, nil, nil, 0, 0x31, 1, 2), "all-set/2")
	if p.thorough {
		try(p.set(typ, nil, nil, 0, 0x57, 2, 1), "all-set/wide")
	}
	nMap := len(seeds)
	for i := 0; i < nMap && (i == 0 || p.thorough); i++ {
		af, _, ok := c41toArrayForm(typ, seeds[i], 0, 0)
		if !ok || string(af) == string(seeds[i]) {
			continue
		}
		chk := reflect.New(typ)
		if _, err := chk.Interface().(c41msg).UnmarshalMsg(af); err != nil {
			p.r.Note("%s: array-form of seed %d is not decodable (%v) — dropped", name, i, err)
			continue
		}
		var back []byte
		func() {
			defer func() { _ = recover() }()
			back = chk.Interface().(c41msg).MarshalMsg(nil)
		}()
		if string(back) != string(seeds[i]) {
			p.r.Note("%s: array-form of seed %d decodes to a different value — dropped", name, i)
			continue
		}
		p.arraySeeds.Add(1)
		seeds = append(seeds, af)
	}
	for _, e := range tg.extra {
		chk := reflect.New(typ)
		if _, err := chk.Interface().(c41msg).UnmarshalMsg(e); err != nil {
			p.r.Note("%s: hand-made seed is not decodable (%v) — dropped", name, err)
			continue
		}
		seeds = append(seeds, e)
	}
	return seeds
}

// unbounded returns the path of a collection reachable from t that is explicitly declared
// unbounded (allocbound=-): a hostile length there is honoured by design (and can exhaust
// memory), so such types are outside the property's bound clause and are not mutated.
func (p *c41part) unbounded(t reflect.Type, path string, depth int, seen map[reflect.Type]bool) string {
	if depth > 10 || seen[t] {
		return ""
	}
	switch t.Kind() {
	case reflect.Struct:
		seen[t] = true
		defer delete(seen, t)
		for i := 0; i < t.NumField(); i++ {
			f := t.Field(i)
			if !c41eligible(f) {
				continue
			}
			if _, bs, _ := c41tagOpts(f.Tag); len(bs) > 0 && bs[0] == "-" {
				switch f.Type.Kind() {
				case reflect.Slice, reflect.Map, reflect.String:
					return path + "." + f.Name
				}
			}
			if r := p.unbounded(f.Type, path+"."+f.Name, depth+1, seen); r != "" {
				return r
			}
		}
	case reflect.Slice, reflect.Array, reflect.Ptr:
		return p.unbounded(t.Elem(), path+"[]", depth+1, seen)
	case reflect.Map:
		if r := p.unbounded(t.Key(), path+"{key}", depth+1, seen); r != "" {
			return r
		}
		return p.unbounded(t.Elem(), path+"{val}", depth+1, seen)
	}
	return ""
}

func (p *c41part) explore(tg c41target) {
	typ := reflect.TypeOf(tg.proto).Elem()
	name := typ.String()
	p.info(typ) // fill the type-info cache single-threaded
	if u := p.unbounded(typ, "", 0, map[reflect.Type]bool{}); u != "" {
		p.r.Note("%s: NOT explored — %s is declared allocbound=- (explicitly unbounded; a declared length is honoured by design)", name, u)
		return
	}
	seeds := p.seedsFor(tg, typ, name)
	if len(seeds) == 0 {
		p.r.Note("%s: NO valid seed — type not explored", name)
		return
	}
	{
		var sz []string
		for _, sd := range seeds {
			sz = append(sz, strconv.Itoa(len(sd)))
		}
		p.r.Note("%s: %d seeds of %s bytes", name, len(seeds), strings.Join(sz, "/"))
	}
	cls := func(kind string, o c41outcome) {
		switch {
		case o.panicked:
			p.r.Class(name + "/" + kind + "/panic")
		case o.err != nil:
			p.r.Class(name + "/" + kind + "/error")
		default:
			p.r.Class(name + "/" + kind + "/accepted")
		}
	}
	for si, seed := range seeds {
		seed := seed
		var toks []c41tok
		if _, ok := c41scan(seed, 0, -1, 0, &toks); !ok {
			p.r.Note("%s: seed %d could not be tokenized — structural mutations skipped", name, si)
		}
		// T + B. Inside a bin/str payload longer than 32 bytes only the first and last 4 bytes
		// are rewritten: the decoder copies payload bytes without looking at them.
		interior := make([]bool, len(seed))
		for _, tk := range toks {
			if (tk.kind == c41kBin || tk.kind == c41kStr) && tk.n > 32 {
				for i := tk.pos + tk.hdr + 4; i < tk.end-4; i++ {
					interior[i] = true
				}
			}
		}
		p.r.ParallelFor(len(seed), func(i int) {
			cls("trunc", p.decode(typ, name, seed[:i], fmt.Sprintf("seed %d truncated to %d of %d bytes", si, i, len(seed))))
			if interior[i] {
				return
			}
			buf := append([]byte(nil), seed...)
			for _, x := range c41alphabet {
				if x == seed[i] {
					continue
				}
				buf[i] = x
				cls("byte", p.decode(typ, name, buf, fmt.Sprintf("seed %d byte %d := %02x", si, i, x)))
			}
		})
		// H (small re-declarations), K, N — parallel over tokens
		p.r.ParallelFor(len(toks), func(ti int) {
			tk := toks[ti]
			if tk.kind != c41kOther {
				for _, n := range []int{0, tk.n - 1, tk.n + 1, 15, 16, 31, 32, 255, 256} {
					if n < 0 || n == tk.n {
						continue
					}
					m := c41splice(seed, tk.pos, tk.pos+tk.hdr, c41header(tk.kind, uint32(n), false))
					cls("redeclare", p.decode(typ, name, m, fmt.Sprintf("seed %d %c-header at %d re-declared %d -> %d", si, tk.kind, tk.pos, tk.n, n)))
				}
			}
			if tk.kind == c41kMap {
				// unknown key
				ins := append(c41header(c41kMap, uint32(tk.n+1), false), 0xa2, 'z', 'z', 0xc0)
				m := c41splice(seed, tk.pos, tk.pos+tk.hdr, ins)
				cls("unknown-key", p.decode(typ, name, m, fmt.Sprintf("seed %d map at %d: unknown key inserted", si, tk.pos)))
				if tk.n > 0 && ti+2 < len(toks) {
					// duplicate the first entry (key token ti+1, value = next sibling)
					k := toks[ti+1]
					valEnd := k.end
					for _, c := range toks[ti+2:] {
						if c.parent == ti {
							valEnd = c.end
							break
						}
					}
					entry := seed[k.pos:valEnd]
					ins := append(c41header(c41kMap, uint32(tk.n+1), false), entry...)
					m := c41splice(seed, tk.pos, tk.pos+tk.hdr, ins)
					cls("duplicate-key", p.decode(typ, name, m, fmt.Sprintf("seed %d map at %d: first entry duplicated", si, tk.pos)))
				}
			}
			// deep nesting in place of this value
			for _, unit := range [][]byte{{0x91}, {0x81, 0xa1, 'a'}} {
				var nest []byte
				for i := 0; i < 300; i++ {
					nest = append(nest, unit...)
				}
				nest = append(nest, 0xc0)
				m := c41splice(seed, tk.pos, tk.end, nest)
				cls("nesting", p.decode(typ, name, m, fmt.Sprintf("seed %d value at %d replaced by 300 nested containers (%02x)", si, tk.pos, unit[0])))
			}
		})
		// H (large declarations) — sequential: each may legitimately allocate up to the bound
		for ti, tk := range toks {
			if tk.kind == c41kOther {
				continue
			}
			if p.r.OutOfTime() {
				return
			}
			p.bigDeclarations(typ, name, seed, si, ti, tk, cls)
		}
		// P
		if tg.pairs && len(toks) > 0 {
			p.pairs(typ, name, seed, si, toks, cls)
		}
	}
	var labels []string
	for l := range tg.hostile {
		labels = append(labels, l)
	}
	sort.Strings(labels)
	for _, l := range labels {
		o := p.decode(typ, name, tg.hostile[l], "hand-made input: "+l)
		cls("hostile", o)
		// inputs labelled "must-reject:" nest deeper than the decoder's depth budget
		// (protocol.maxMsgpDecodeDepth = 255 nested UnmarshalMsgWithState calls)
		if strings.HasPrefix(l, "expect-accept:") && !o.panicked && o.err != nil {
			p.sanity.Add(1)
			p.noteOnce(fmt.Sprintf("HARNESS sanity: %s: %s was rejected: %v", name, l, o.err))
		}
		if strings.HasPrefix(l, "must-reject:") && !o.panicked && o.err == nil {
			p.report("C41:nesting-limit-not-enforced:"+name, fmt.Sprintf("%s: %s was ACCEPTED — the decoder's nesting limit is not enforced on this path", name, l),
				map[string]any{"engine": "enum", "type": name, "what": l})
		}
	}
	p.overBound(typ, name)
}

func (p *c41part) bigDeclarations(typ reflect.Type, name string, seed []byte, si, ti int, tk c41tok, cls func(string, c41outcome)) {
	declare := func(n uint32) (c41outcome, string) {
		m := c41splice(seed, tk.pos, tk.pos+tk.hdr, c41header(tk.kind, n, true))
		what := fmt.Sprintf("seed %d %c-header at %d re-declared %d -> %d", si, tk.kind, tk.pos, tk.n, n)
		o := p.decode(typ, name, m, what)
		cls("declare-big", o)
		return o, what
	}
	rep := func(what, detail string) {
		p.report("C41:declared-length-honoured:"+name, fmt.Sprintf("%s: %s: %s", name, what, detail), map[string]any{"engine": "enum", "type": name, "what": what, "seed": c41hex(seed)})
	}
	o, what := declare(65536)
	if o.panicked {
		return
	}
	if o.err == nil {
		rep(what, "an encoding declaring 65536 elements with a few hundred bytes of data was accepted")
		return
	}
	if o.res.maxLen >= 65536 {
		p.honoured.Add(1)
		// the declaration was honoured before the data ran out; legitimate only if the bound allows it
		if o.res.maxBound < 0 {
			p.r.Class(name + "/declare-big/honoured-unbounded")
			p.noteOnce(fmt.Sprintf("%s: %s is allocated to the declared length 65536 and has no (known) allocbound — 2^32-1 not attempted", name, o.res.maxPath))
			return
		}
		if o.res.maxBound < 65536 {
			return // already reported by decode() as above-bound
		}
		// bound >= 65536: now declare bound+1 — must be refused without allocating
		b1 := uint32(o.res.maxBound + 1)
		o2, what2 := declare(b1)
		if o2.panicked {
			return
		}
		if o2.err == nil || o2.res.maxLen > o.res.maxBound {
			rep(what2, fmt.Sprintf("declared length above the bound %d was honoured (largest collection %s = %d, err=%v)", o.res.maxBound, o2.res.maxPath, o2.res.maxLen, o2.err))
			return
		}
	}
	// here the decoder demonstrably checks this header against a bound: 2^32-1 is safe to try
	o3, what3 := declare(math.MaxUint32)
	if o3.panicked {
		return
	}
	if o3.err == nil || o3.res.maxLen >= 1<<31 {
		rep(what3, fmt.Sprintf("declared length 2^32-1 was honoured (err=%v)", o3.err))
	}
}

func (p *c41part) noteOnce(s string) {
	p.mu.Lock()
	defer p.mu.Unlock()
	if p.n["note:"+s] == 0 {
		p.n["note:"+s] = 1
		p.r.Note("%s", s)
	}
}

// pairs: every pair of structural byte positions (header and key bytes, not blob payloads)
// x the 4-marker alphabet squared.
func (p *c41part) pairs(typ reflect.Type, name string, seed []byte, si int, toks []c41tok, cls func(string, c41outcome)) {
	structural := make([]bool, len(seed))
	for _, tk := range toks {
		for i := tk.pos; i < tk.pos+tk.hdr && i < len(seed); i++ {
			structural[i] = true
		}
		if tk.kind == c41kStr { // map keys
			for i := tk.pos; i < tk.end; i++ {
				structural[i] = true
			}
		}
	}
	var pos []int
	for i, s := range structural {
		if s {
			pos = append(pos, i)
		}
	}
	if !p.thorough && len(pos) > 64 {
		pos = pos[:64]
	}
	p.r.ParallelFor(len(pos), func(a int) {
		buf := append([]byte(nil), seed...)
		for b := a + 1; b < len(pos); b++ {
			i, j := pos[a], pos[b]
			for _, x := range c41pairAlphabet {
				for _, y := range c41pairAlphabet {
					if x == seed[i] || y == seed[j] {
						continue
					}
					buf[i], buf[j] = x, y
					cls("pair", p.decode(typ, name, buf, fmt.Sprintf("seed %d bytes %d,%d := %02x,%02x", si, i, j, x, y)))
				}
			}
			buf[i], buf[j] = seed[i], seed[j]
		}
	})
}

// ---------------------------------------------------------------------------------------
// O: genuinely over-bound instances

type c41site struct {
	path  string
	steps []int
	typ   reflect.Type
	bound int
	level int // 0: the collection itself; 1: its elements (second allocbound)
}

func (p *c41part) sites(t reflect.Type, path string, steps []int, depth int, out *[]c41site) {
	if t.Kind() != reflect.Struct || depth > 5 {
		return
	}
	for i := 0; i < t.NumField(); i++ {
		f := t.Field(i)
		if !c41eligible(f) {
			continue
		}
		st := append(append([]int(nil), steps...), i)
		ft := f.Type
		switch ft.Kind() {
		case reflect.Struct:
			d := depth + 1
			if f.Anonymous {
				d = depth
			}
			p.sites(ft, path+"."+f.Name, st, d, out)
		case reflect.Slice, reflect.Map, reflect.String:
			if ft == c41rawT {
				continue
			}
			bs := p.boundsFor(t, &f, ft)
			for lvl, b := range bs {
				if b >= 0 && lvl < 2 {
					*out = append(*out, c41site{path: path + "." + f.Name, steps: st, typ: ft, bound: b, level: lvl})
				}
			}
		}
	}
}

func c41big(t reflect.Type, n int) (reflect.Value, bool) {
	switch t.Kind() {
	case reflect.String:
		v := reflect.New(t).Elem()
		v.SetString(strings.Repeat("a", n))
		return v, true
	case reflect.Slice:
		return reflect.MakeSlice(t, n, n), true
	case reflect.Map:
		m := reflect.MakeMapWithSize(t, n)
		kt := t.Key()
		zero := reflect.New(t.Elem()).Elem()
		for i := 0; i < n; i++ {
			k := reflect.New(kt).Elem()
			switch kt.Kind() {
			case reflect.Uint, reflect.Uint8, reflect.Uint16, reflect.Uint32, reflect.Uint64:
				k.SetUint(uint64(i) + 1)
			case reflect.Int, reflect.Int32, reflect.Int64:
				k.SetInt(int64(i) + 1)
			case reflect.String:
				k.SetString(strconv.Itoa(i))
			case reflect.Array:
				if !c41isBytes(kt) || kt.Len() < 4 {
					return reflect.Value{}, false
				}
				k.Index(0).SetUint(uint64(byte(i)))
				k.Index(1).SetUint(uint64(byte(i >> 8)))
				k.Index(2).SetUint(uint64(byte(i >> 16)))
				k.Index(3).SetUint(uint64(byte(i>>24)) | 0x80)
			default:
				return reflect.Value{}, false
			}
			m.SetMapIndex(k, zero)
		}
		return m, true
	}
	return reflect.Value{}, false
}

func (p *c41part) overBound(typ reflect.Type, name string) {
	var sites []c41site
	p.sites(typ, "", nil, 0, &sites)
	for _, s := range sites {
		if s.bound+1 > 1<<21 {
			p.noteOnce(fmt.Sprintf("%s%s: bound %d too large to materialise bound+1 elements — over-bound instance skipped", name, s.path, s.bound))
			continue
		}
		if p.r.OutOfTime() {
			return
		}
		x := reflect.New(typ)
		c41assign(x.Elem(), p.set(typ, nil, nil, 0, 0x05, 0, 1))
		dst := x.Elem()
		for _, st := range s.steps {
			dst = dst.Field(st)
		}
		var val reflect.Value
		ok := false
		if s.level == 0 {
			val, ok = c41big(s.typ, s.bound+1)
		} else {
			// one element (or key) that itself exceeds the element-level bound
			switch s.typ.Kind() {
			case reflect.Slice:
				if e, ok2 := c41big(s.typ.Elem(), s.bound+1); ok2 {
					val = reflect.MakeSlice(s.typ, 1, 1)
					val.Index(0).Set(e)
					ok = true
				}
			case reflect.Map:
				if k, ok2 := c41big(s.typ.Key(), s.bound+1); ok2 {
					val = reflect.MakeMap(s.typ)
					val.SetMapIndex(k, reflect.New(s.typ.Elem()).Elem())
					ok = true
				}
			}
		}
		if !ok {
			p.noteOnce(fmt.Sprintf("%s%s: cannot build an over-bound value of %v (level %d)", name, s.path, s.typ, s.level))
			continue
		}
		c41assign(dst, val)
		var enc []byte
		func() {
			defer func() { _ = recover() }()
			enc = x.Interface().(c41msg).MarshalMsg(nil)
		}()
		if enc == nil {
			continue
		}
		forms := [][]byte{enc}
		if af, _, ok := c41toArrayForm(typ, enc, 0, 0); ok && string(af) != string(enc) {
			forms = append(forms, af)
		}
		for fi, in := range forms {
			p.overBoundOne(typ, name, s, in, []string{"map form", "struct-from-array form"}[fi])
		}
	}
}

func (p *c41part) overBoundOne(typ reflect.Type, name string, s c41site, enc []byte, form string) {
	{
		what := fmt.Sprintf("instance (%s) with %s holding bound+1 = %d elements (level %d), %d bytes", form, s.path, s.bound+1, s.level, len(enc))
		o := p.decode(typ, name, enc, what)
		switch {
		case o.panicked:
		case o.err == nil && o.res.badKey != "":
			// already reported under the map type's key
		case o.err == nil:
			p.report("C41:above-bound-accepted:"+name, fmt.Sprintf("%s: %s was ACCEPTED (declared allocbound %d)", name, what, s.bound),
				map[string]any{"engine": "enum", "type": name, "what": what})
		default:
			p.r.Class(name + "/over-bound/rejected")
			if m := c41overflowRe.FindStringSubmatch(o.err.Error()); m != nil {
				if got, _ := strconv.Atoi(m[2]); got != s.bound {
					p.noteOnce(fmt.Sprintf("%s%s: harness bound table says %d, decoder enforces %d", name, s.path, s.bound, got))
				}
			}
		}
	}
}

// ---------------------------------------------------------------------------------------

func (p *c41part) run(targets []c41target) {
	var ms0, ms1 runtime.MemStats
	runtime.ReadMemStats(&ms0)
	sort.SliceStable(targets, func(i, j int) bool {
		return reflect.TypeOf(targets[i].proto).Elem().String() < reflect.TypeOf(targets[j].proto).Elem().String()
	})
	for _, tg := range targets {
		if p.r.OutOfTime() {
			break
		}
		if tg.thoroughOnly && !p.thorough {
			p.r.Note("%v: explored as a top-level type only in the thorough tier (in quick it is covered nested inside its containers)", reflect.TypeOf(tg.proto).Elem())
			continue
		}
		t0, d0 := time.Now(), p.decodes.Load()
		p.explore(tg)
		p.r.Note("%v: %d decodes in %.1fs", reflect.TypeOf(tg.proto).Elem(), p.decodes.Load()-d0, time.Since(t0).Seconds())
	}
	runtime.ReadMemStats(&ms1)
	p.r.Set(p.name+"_decodes", p.decodes.Load())
	p.r.Set(p.name+"_accepted", p.okCount.Load())
	p.r.Set(p.name+"_rejected", p.errCount.Load())
	p.r.Set(p.name+"_rejected_by_allocbound", p.overflow.Load())
	p.r.Set(p.name+"_big_declarations_honoured_within_bound", p.honoured.Load())
	p.r.Set(p.name+"_struct_from_array_seeds", p.arraySeeds.Load())
	if n := p.decodes.Load(); n > 0 {
		p.r.Set(p.name+"_alloc_bytes_per_decode_metric_only", int64(ms1.TotalAlloc-ms0.TotalAlloc)/n)
	}
	var unk []string
	for k := range p.unknown {
		unk = append(unk, k)
	}
	sort.Strings(unk)
	if len(unk) > 0 {
		p.r.Note("%s: allocbound expressions unknown to the harness table (size oracle not applied there): %s", p.name, strings.Join(unk, ", "))
	}
}
