package ledger

// Plain unit test (no explorer) for the C08 finding "cross-type resource lookup depends on
// flush/cache state". Creatable ids are drawn from one counter, so "application #N of account
// S" is a well-formed question even when N is an asset; the answer must be "S has no such
// application". accountUpdates.lookupResource gives that answer while the (S, N) resource is in
// the in-memory deltas or in the baseResources LRU cache, but returns an ERROR once the row
// is only on disk (sqlitedriver/generickv LookupResources: "lookupResources asked for an app
// but got ..."). The same question therefore has different outcomes depending on node-local
// flush timing / cache contents / restarts, and the difference is visible to the AVM:
// app_opted_in (and every other opcode that goes through cow.allocated / GetLocal) fails the
// transaction on a "cold" node and succeeds on a "warm" one.

import (
	"fmt"
	"testing"
	"time"

	"github.com/stretchr/testify/require"

	"github.com/algorand/go-algorand/config"
	"github.com/algorand/go-algorand/data/basics"
	"github.com/algorand/go-algorand/data/txntest"
	ledgertesting "github.com/algorand/go-algorand/ledger/testing"
	"github.com/algorand/go-algorand/protocol"
)

func TestC08CrossTypeResourceLookupDependsOnFlush(t *testing.T) {
	genBalances, addrs, _ := ledgertesting.NewTestGenesis()
	cfg := config.GetDefaultLocal()
	cfg.MaxAcctLookback = 0 // a flush persists everything up to latest
	l := newSimpleLedgerWithConsensusVersion(t, genBalances, protocol.ConsensusFuture, cfg)
	defer l.Close()
	// keep the asynchronous, wall-clock driven flush out of the way: flushes below are explicit
	l.trackers.mu.Lock()
	l.trackers.lastFlushTime = time.Now().Add(1000 * time.Hour)
	l.trackers.mu.Unlock()

	// round 1: addrs[0] creates an asset and an app that asks "is the sender opted in to
	// Applications[1]?" and approves whatever the answer is.
	eval := nextBlock(t, l)
	txn(t, l, eval, &txntest.Txn{Type: protocol.AssetConfigTx, Sender: addrs[0], AssetParams: basics.AssetParams{Total: 10, UnitName: "x"}})
	txn(t, l, eval, &txntest.Txn{Type: protocol.ApplicationCallTx, Sender: addrs[0],
		ApprovalProgram: main("txn Sender; txn Applications 1; app_opted_in; pop")})
	vb := endBlock(t, l, eval)
	assetID := vb.Block().Payset[0].ApplyData.ConfigAsset
	appID := vb.Block().Payset[1].ApplyData.ApplicationID
	require.NotZero(t, assetID)
	require.NotZero(t, appID)

	call := func() error {
		eval := nextBlock(t, l)
		tx := &txntest.Txn{Type: protocol.ApplicationCallTx, Sender: addrs[0], ApplicationID: appID,
			ForeignApps: []basics.AppIndex{basics.AppIndex(assetID)}, Note: fmt.Sprintf("%d", eval.Round())}
		return txgroup(t, l, eval, tx)
	}

	// warm: the (addrs[0], assetID) resource is in the in-memory deltas
	res, err := l.LookupApplication(l.Latest(), addrs[0], basics.AppIndex(assetID))
	require.NoError(t, err)
	require.Nil(t, res.AppParams)
	require.Nil(t, res.AppLocalState)
	require.NoError(t, call(), "warm node: app_opted_in(sender, <asset id>) evaluates to 0 and the call is approved")

	// flushed, row also in the baseResources cache (written by postCommit): still fine
	triggerTrackerFlush(t, l)
	l.trackers.mu.Lock()
	l.trackers.lastFlushTime = time.Now().Add(1000 * time.Hour)
	l.trackers.mu.Unlock()
	require.Equal(t, l.Latest(), l.LatestTrackerCommitted())
	_, err = l.LookupApplication(l.Latest(), addrs[0], basics.AppIndex(assetID))
	require.NoError(t, err)
	require.NoError(t, call())

	// restart: same history, same round, cold cache
	require.NoError(t, l.reloadLedger())
	_, err = l.LookupApplication(l.Latest(), addrs[0], basics.AppIndex(assetID))
	if err != nil {
		t.Errorf("LookupApplication: same question, same round, after a restart: %v", err)
	}
	if err := call(); err != nil {
		t.Errorf("cold node: the same transaction on the same state must evaluate the same way: %v", err)
	}
}
