package stateproof

// C39 — State proofs verify iff enough valid signatures back them.
//
// Engine E-ENUM, level exploration. Real MakeProver / IsValid / Add / CreateProof, real
// MkVerifier / Verifier.Verify, real merkle-signature (deterministic Falcon) keys.
//
// Setup (once, deterministic): 5 participants, each with 3 Falcon keys generated from fixed
// seeds (crypto.GenerateFalconSigner) for rounds 256, 512, 768 (KeyLifetime 256), committed
// with merklearray.BuildVectorCommitmentTree exactly as merklesignature.New does; signatures
// are produced by the real merklesignature.Signer.SignBytes for round 512.
//
// Enumerated: weight vectors (1,2,3,4,5), (3,3,3,3,3) and (16,1,1,1,1) (a dominant
// participant at position 0, so that proofs revealing only position 0 occur);
// provenWeight in {total/3, total/2};
// strengthTarget 8 (thorough: also 32); EVERY subset of signers (2^5).
// Plus one boundary case: provenWeight 2^40, strengthTarget 256 and the smallest signed weight
// for which the prover still succeeds (exactly MaxReveals = 640 reveals), all five signing.
// Oracle A (iff):
//   signedWeight <= provenWeight  => CreateProof fails (Ready() is "signedWeight >
//       ProvenWeight"); additionally a cheating prover that was told provenWeight = 1 builds a
//       proof from the same signatures and the honest verifier (true provenWeight) must reject it;
//   signedWeight >  provenWeight  => CreateProof succeeds and Verify accepts (also after a
//       msgpack round trip). Bracket: CreateProof may fail iff numReveals itself refuses
//       (C38's domain; does not happen for the enumerated weights).
//   Adding a signature twice fails and does not change SignedWeight; IsValid rejects another
//   participant's signature.
// Oracle B: on each valid proof EVERY single mutation below makes Verify fail:
//   message (2 bit flips); round -256 / +256 / 0; per reveal: map key moved to every free
//   position in 0..8, moved + renamed in PositionsToReveal, two reveals swapped, signature
//   bytes flipped (first, second, middle, last; low and high bit), verifying key flipped,
//   VectorCommitmentIndex +-1, each digest of the signature's key proof flipped, its
//   TreeDepth +-1, signature replaced by another signer's, L +-1, participant weight +-1,
//   participant key commitment flipped, KeyLifetime 128/512, participant replaced by another
//   one, reveal dropped, reveal duplicated to every free position; SignedWeight +-1; salt
//   version +1 / 0xff; SigCommit flipped; each digest of SigProofs / PartProofs flipped /
//   dropped / duplicated, their TreeDepth +-1; each PositionsToReveal entry replaced by
//   every other position 0..5; first / last entry dropped; the verifier's trusted inputs:
//   provenWeight+1, provenWeight = signedWeight, participants commitment flipped,
//   strengthTarget doubled.
// Exclusions (recognised structurally, counted, never judged):
//   (X1) round +1 / +255: same key-lifetime window; merklesignature.Verifier documents that a
//        key is valid for every round of its lifetime ("lowering to the closest KeyLifetime
//        divisor"), and state-proof rounds are multiples of the interval;
//   (X2) dropping the first/last PositionsToReveal entry when verifyWeights accepts one reveal
//        fewer for the same weights (then the shorter proof is simply still sufficient).
//   (X3) SignedWeight +-1, verifier provenWeight+1, strengthTarget x2 are refused only
//        through the weight inequality or, statistically, through the coins (a new seed makes
//        some coin miss its slot); by design the coins test the prover's weight claim with
//        high probability, not with certainty (with a single dominant signer every coin hits
//        the only slot). They must fail whenever verifyWeights fails for the mutated values;
//        otherwise the outcome is counted, not judged. SignedWeight = provenWeight,
//        SignedWeight = 0 and provenWeight = signedWeight must always fail.
// Compound mutation derived from the C37 finding (reported under its own key
// C39:depth-alias): every reveal position doubled (map keys and PositionsToReveal) and
// both TreeDepth fields +1 — a tampered reveal/position set that must not verify. The single
// mutations SigProofs/PartProofs TreeDepth +-1 are reported under C39:depth-pos0 when the
// revealed set is exactly {0} (the case the C37 finding predicts; happens with the dominant
// participant at position 0), under C39:sigproofs-depth / C39:partproofs-depth otherwise.
//
// Not covered: more than 5 participants, weights beyond the two vectors, multi-field
// forgeries other than the one above, the ledger-side wrapper (stateproof/verify).
//
// Unexported identifiers used: numReveals, verifyWeights (exclusions/brackets only),
// sigslotCommit via Reveal.SigSlot fields.
//
// FINDING on the unchanged tree (same root cause as C37, findings/C37-treedepth-unchecked):
// the compound mutation "depth-alias" is ACCEPTED (key C39:depth-alias, known), and the
// single mutations SigProofs/PartProofs.TreeDepth +-1 are ACCEPTED when only position 0 is
// revealed (key C39:depth-pos0). Every other single mutation is rejected.
//
// Mutants (bin/mut C39 <file> ... --only, on a scratch worktree carrying the C37 candidate
// fix so that the baseline is clean; all DETECTED):
//   M1 verifier.go: the coin-in-slot test is skipped (reveal position not bound to the coin)
//        -> positions-entry (an entry redirected to another revealed position is accepted)
//   M2 verifier.go: result of verifyWeights ignored (SignedWeight / reveal count from the
//      proof unchecked) -> insufficient-weight-accepted (single-signer cheating proofs),
//      verifier-strength, positions-drop
//   M3 prover.go: Add no longer refuses a position that is already present
//        -> double-add (signed weight inflated by re-adding the same signature)
//   M4 verifier.go: result of the participants-commitment proof ignored
//        -> part-weight, part-key, part-other
//   M5 verifier.go: salt-version validation result ignored -> salt-version
//   S1 (seeded C39-B) verifyWeights refuses `numOfReveals >= MaxReveals`: MISSED before the
//      MaxReveals boundary case existed, now DETECTED (valid-proof-rejected); also by C38

import (
	"fmt"
	"sort"
	"sync"
	"testing"

	"github.com/algorand/go-algorand/crypto"
	"github.com/algorand/go-algorand/crypto/merklearray"
	"github.com/algorand/go-algorand/crypto/merklesignature"
	"github.com/algorand/go-algorand/data/basics"
	"github.com/algorand/go-algorand/protocol"
	ve "github.com/algorand/go-algorand/verifeng"
)

const (
	c39N           = 5
	c39KeyLifetime = 256
	c39FirstValid  = 256
	c39Round       = 512
	c39KeysPerPart = 3
)

type c39keyArray struct {
	keys []crypto.FalconSigner
}

func (a *c39keyArray) Length() uint64 { return uint64(len(a.keys)) }
func (a *c39keyArray) Marshal(pos uint64) (crypto.Hashable, error) {
	if pos >= uint64(len(a.keys)) {
		return nil, fmt.Errorf("c39keyArray: pos %d out of range", pos)
	}
	return &merklesignature.CommittablePublicKey{VerifyingKey: *a.keys[pos].GetVerifyingKey(), Round: c39FirstValid + pos*c39KeyLifetime}, nil
}

type c39signer struct {
	verifier merklesignature.Verifier
	sig      merklesignature.Signature
}

func c39makeSigners(data MessageHash) ([]c39signer, error) {
	out := make([]c39signer, c39N)
	for i := 0; i < c39N; i++ {
		keys := make([]crypto.FalconSigner, c39KeysPerPart)
		for k := range keys {
			var seed crypto.FalconSeed
			copy(seed[:], fmt.Sprintf("C39 p%d k%d falcon seed ..........................", i, k)) // indices inside the 32 seed bytes
			s, err := crypto.GenerateFalconSigner(seed)
			if err != nil {
				return nil, err
			}
			keys[k] = s
		}
		tree, err := merklearray.BuildVectorCommitmentTree(&c39keyArray{keys}, crypto.HashFactory{HashType: merklesignature.MerkleSignatureSchemeHashFunction})
		if err != nil {
			return nil, err
		}
		ctx := merklesignature.SignerContext{FirstValid: c39FirstValid, KeyLifetime: c39KeyLifetime, Tree: *tree}
		signer := &merklesignature.Signer{SigningKey: &keys[(c39Round-c39FirstValid)/c39KeyLifetime], Round: c39Round, SignerContext: ctx}
		sig, err := signer.SignBytes(data[:])
		if err != nil {
			return nil, err
		}
		sig2, err := signer.SignBytes(data[:])
		if err != nil || string(sig2.Signature) != string(sig.Signature) {
			return nil, fmt.Errorf("falcon signing is not deterministic (err %v)", err)
		}
		v := ctx.GetVerifier()
		if err := v.VerifyBytes(c39Round, data[:], &sig); err != nil {
			return nil, fmt.Errorf("self-check: fresh signature of participant %d does not verify: %v", i, err)
		}
		out[i] = c39signer{verifier: *v, sig: sig}
	}
	return out, nil
}

// c39in is everything Verify consumes (trusted and untrusted).
type c39in struct {
	round   uint64
	data    MessageHash
	sp      *StateProof
	pw      uint64
	partcom crypto.GenericDigest
	target  uint64
}

func c39clonePath(p []crypto.GenericDigest) []crypto.GenericDigest {
	if p == nil {
		return nil
	}
	out := make([]crypto.GenericDigest, len(p))
	for i := range p {
		if p[i] != nil {
			out[i] = append(crypto.GenericDigest{}, p[i]...)
		}
	}
	return out
}

func c39cloneReveal(v Reveal) Reveal {
	v.SigSlot.Sig.Signature = append(crypto.FalconSignature(nil), v.SigSlot.Sig.Signature...)
	v.SigSlot.Sig.Proof.Path = c39clonePath(v.SigSlot.Sig.Proof.Path)
	return v
}

func c39cloneProof(s *StateProof) *StateProof {
	c := *s
	c.SigCommit = append(crypto.GenericDigest(nil), s.SigCommit...)
	c.SigProofs.Path = c39clonePath(s.SigProofs.Path)
	c.PartProofs.Path = c39clonePath(s.PartProofs.Path)
	c.PositionsToReveal = append([]uint64(nil), s.PositionsToReveal...)
	c.Reveals = make(map[uint64]Reveal, len(s.Reveals))
	for k, v := range s.Reveals {
		c.Reveals[k] = c39cloneReveal(v)
	}
	return &c
}

func (in *c39in) clone() *c39in {
	c := *in
	c.sp = c39cloneProof(in.sp)
	c.partcom = append(crypto.GenericDigest(nil), in.partcom...)
	return &c
}

func (in *c39in) verify() error {
	v, err := MkVerifier(in.partcom, in.pw, in.target)
	if err != nil {
		return err
	}
	return v.Verify(basics.Round(in.round), in.data, in.sp)
}

type c39expect int

const (
	c39reject c39expect = iota
	c39free
)

type c39mut struct {
	kind, detail string
	want         c39expect
	apply        func(in *c39in)
}

type c39case struct {
	name    string
	weights []uint64
	pw      uint64
	target  uint64
	mask    uint
	base    *c39in
	signed  uint64
}

func (c *c39case) replay(kind, detail string) map[string]any {
	return map[string]any{"engine": "enum", "weights": c.weights, "provenWeight": c.pw, "strengthTarget": c.target, "signers_mask": c.mask, "mutation": kind, "detail": detail}
}

// c39mutations lists every single mutation of a valid proof.
func c39mutations(c *c39case, signers []c39signer, parts []basics.Participant) []c39mut {
	var ms []c39mut
	add := func(kind, detail string, want c39expect, f func(in *c39in)) {
		ms = append(ms, c39mut{kind, detail, want, f})
	}
	sp := c.base.sp
	var keys []uint64
	for k := range sp.Reveals {
		keys = append(keys, k)
	}
	sort.Slice(keys, func(i, j int) bool { return keys[i] < keys[j] })
	revealed := func(p uint64) bool { _, ok := sp.Reveals[p]; return ok }
	var free []uint64
	for p := uint64(0); p <= 8; p++ {
		if !revealed(p) {
			free = append(free, p)
		}
	}
	flip := func(d []byte, i int, bit byte) {
		if len(d) > 0 {
			d[(i+len(d))%len(d)] ^= bit
		}
	}
	upd := func(in *c39in, pos uint64, f func(r *Reveal)) {
		r := in.sp.Reveals[pos]
		f(&r)
		in.sp.Reveals[pos] = r
	}

	add("message", "first bit", c39reject, func(in *c39in) { in.data[0] ^= 1 })
	add("message", "last bit", c39reject, func(in *c39in) { in.data[31] ^= 0x80 })
	add("round", "-KeyLifetime", c39reject, func(in *c39in) { in.round -= c39KeyLifetime })
	add("round", "+KeyLifetime", c39reject, func(in *c39in) { in.round += c39KeyLifetime })
	add("round", "0", c39reject, func(in *c39in) { in.round = 0 })
	add("round-same-window", "+1", c39free, func(in *c39in) { in.round++ })
	add("round-same-window", "+255", c39free, func(in *c39in) { in.round += c39KeyLifetime - 1 })

	for _, pos := range keys {
		pos := pos
		for _, q := range free {
			q := q
			add("reveal-pos-move", fmt.Sprintf("%d->%d", pos, q), c39reject, func(in *c39in) {
				in.sp.Reveals[q] = in.sp.Reveals[pos]
				delete(in.sp.Reveals, pos)
			})
			add("reveal-pos-rename", fmt.Sprintf("%d->%d", pos, q), c39reject, func(in *c39in) {
				in.sp.Reveals[q] = in.sp.Reveals[pos]
				delete(in.sp.Reveals, pos)
				for j, p := range in.sp.PositionsToReveal {
					if p == pos {
						in.sp.PositionsToReveal[j] = q
					}
				}
			})
			add("reveal-dup", fmt.Sprintf("%d also at %d", pos, q), c39reject, func(in *c39in) {
				in.sp.Reveals[q] = c39cloneReveal(in.sp.Reveals[pos])
			})
		}
		for _, other := range keys {
			other := other
			if other > pos {
				add("reveal-swap", fmt.Sprintf("%d<->%d", pos, other), c39reject, func(in *c39in) {
					in.sp.Reveals[pos], in.sp.Reveals[other] = in.sp.Reveals[other], in.sp.Reveals[pos]
				})
			}
		}
		sigLen := len(sp.Reveals[pos].SigSlot.Sig.Signature)
		for _, at := range []int{0, 1, sigLen / 2, -1} {
			for _, bit := range []byte{1, 0x80} {
				at, bit := at, bit
				add("sig-bytes", fmt.Sprintf("pos %d byte %d bit %#x", pos, at, bit), c39reject, func(in *c39in) {
					upd(in, pos, func(r *Reveal) { flip(r.SigSlot.Sig.Signature, at, bit) })
				})
			}
		}
		for _, at := range []int{0, -1} {
			at := at
			add("sig-vkey", fmt.Sprintf("pos %d byte %d", pos, at), c39reject, func(in *c39in) {
				upd(in, pos, func(r *Reveal) { flip(r.SigSlot.Sig.VerifyingKey.PublicKey[:], at, 1) })
			})
		}
		add("sig-vcindex", fmt.Sprintf("pos %d +1", pos), c39reject, func(in *c39in) {
			upd(in, pos, func(r *Reveal) { r.SigSlot.Sig.VectorCommitmentIndex++ })
		})
		add("sig-vcindex", fmt.Sprintf("pos %d -1", pos), c39reject, func(in *c39in) {
			upd(in, pos, func(r *Reveal) { r.SigSlot.Sig.VectorCommitmentIndex-- })
		})
		for i := range sp.Reveals[pos].SigSlot.Sig.Proof.Path {
			i := i
			add("sig-keyproof-digest", fmt.Sprintf("pos %d digest %d", pos, i), c39reject, func(in *c39in) {
				upd(in, pos, func(r *Reveal) { flip(r.SigSlot.Sig.Proof.Path[i], 0, 1) })
			})
		}
		add("sig-keyproof-depth", fmt.Sprintf("pos %d +1", pos), c39reject, func(in *c39in) {
			upd(in, pos, func(r *Reveal) { r.SigSlot.Sig.Proof.TreeDepth++ })
		})
		add("sig-keyproof-depth", fmt.Sprintf("pos %d -1", pos), c39reject, func(in *c39in) {
			upd(in, pos, func(r *Reveal) { r.SigSlot.Sig.Proof.TreeDepth-- })
		})
		for j := range signers {
			j := j
			if uint64(j) != pos {
				add("sig-other-signer", fmt.Sprintf("pos %d gets signature of %d", pos, j), c39reject, func(in *c39in) {
					upd(in, pos, func(r *Reveal) { r.SigSlot.Sig = c39cloneReveal(Reveal{SigSlot: sigslotCommit{Sig: signers[j].sig}}).SigSlot.Sig })
				})
				add("part-other", fmt.Sprintf("pos %d gets participant %d", pos, j), c39reject, func(in *c39in) {
					upd(in, pos, func(r *Reveal) { r.Part = parts[j] })
				})
			}
		}
		add("slot-L", fmt.Sprintf("pos %d +1", pos), c39reject, func(in *c39in) { upd(in, pos, func(r *Reveal) { r.SigSlot.L++ }) })
		add("slot-L", fmt.Sprintf("pos %d -1", pos), c39reject, func(in *c39in) { upd(in, pos, func(r *Reveal) { r.SigSlot.L-- }) })
		add("part-weight", fmt.Sprintf("pos %d +1", pos), c39reject, func(in *c39in) { upd(in, pos, func(r *Reveal) { r.Part.Weight++ }) })
		add("part-weight", fmt.Sprintf("pos %d -1", pos), c39reject, func(in *c39in) { upd(in, pos, func(r *Reveal) { r.Part.Weight-- }) })
		add("part-key", fmt.Sprintf("pos %d commitment", pos), c39reject, func(in *c39in) { upd(in, pos, func(r *Reveal) { r.Part.PK.Commitment[0] ^= 1 }) })
		add("part-key", fmt.Sprintf("pos %d lifetime 128", pos), c39reject, func(in *c39in) { upd(in, pos, func(r *Reveal) { r.Part.PK.KeyLifetime = 128 }) })
		add("part-key", fmt.Sprintf("pos %d lifetime 512", pos), c39reject, func(in *c39in) { upd(in, pos, func(r *Reveal) { r.Part.PK.KeyLifetime = 512 }) })
		add("reveal-drop", fmt.Sprint(pos), c39reject, func(in *c39in) { delete(in.sp.Reveals, pos) })
	}

	// Mutations that are refused only through the Fiat-Shamir coins (a different seed makes
	// some coin miss its slot) are rejected "with high probability" by design, not always:
	// SignedWeight is the prover's claim and the coins test it statistically. They are
	// required to fail only when the documented weight inequality itself fails (X3).
	lnPW, _ := LnIntApproximation(c.pw)
	nrAll := uint64(len(sp.PositionsToReveal))
	structural := func(sw, ln, target uint64) c39expect {
		if verifyWeights(sw, ln, nrAll, target) != nil {
			return c39reject
		}
		return c39free
	}
	add("signed-weight", "+1", structural(sp.SignedWeight+1, lnPW, c.target), func(in *c39in) { in.sp.SignedWeight++ })
	add("signed-weight", "-1", structural(sp.SignedWeight-1, lnPW, c.target), func(in *c39in) { in.sp.SignedWeight-- })
	add("signed-weight", "=provenWeight", c39reject, func(in *c39in) { in.sp.SignedWeight = in.pw })
	add("signed-weight", "=0", c39reject, func(in *c39in) { in.sp.SignedWeight = 0 })
	add("salt-version", "+1", c39reject, func(in *c39in) { in.sp.MerkleSignatureSaltVersion++ })
	add("salt-version", "0xff", c39reject, func(in *c39in) { in.sp.MerkleSignatureSaltVersion = 0xff })
	add("sigcommit", "flip", c39reject, func(in *c39in) { flip(in.sp.SigCommit, 0, 1) })

	for _, which := range []string{"sigproofs", "partproofs"} {
		which := which
		get := func(in *c39in) *merklearray.Proof {
			if which == "sigproofs" {
				return &in.sp.SigProofs
			}
			return &in.sp.PartProofs
		}
		n := len(sp.SigProofs.Path)
		if which == "partproofs" {
			n = len(sp.PartProofs.Path)
		}
		for i := 0; i < n; i++ {
			i := i
			add(which+"-digest-flip", fmt.Sprint(i), c39reject, func(in *c39in) { flip(get(in).Path[i], 0, 1) })
			add(which+"-digest-drop", fmt.Sprint(i), c39reject, func(in *c39in) {
				p := get(in)
				p.Path = append(p.Path[:i:i], p.Path[i+1:]...)
			})
			add(which+"-digest-dup", fmt.Sprint(i), c39reject, func(in *c39in) {
				p := get(in)
				np := append([]crypto.GenericDigest{}, p.Path[:i+1]...)
				np = append(np, p.Path[i])
				p.Path = append(np, p.Path[i+1:]...)
			})
		}
		// When the revealed set is exactly {0}, acceptance of a depth change is what the C37
		// finding predicts (position 0 has the same bit reversal under every width): it gets
		// the key C39:depth-pos0. Any other acceptance keeps C39:sigproofs-depth /
		// C39:partproofs-depth. (C39:depth-alias is reserved for the compound mutation.)
		depthKind := which + "-depth"
		if len(keys) == 1 && keys[0] == 0 {
			depthKind = "depth-pos0"
		}
		add(depthKind, which+" TreeDepth +1", c39reject, func(in *c39in) { get(in).TreeDepth++ })
		add(depthKind, which+" TreeDepth -1", c39reject, func(in *c39in) { get(in).TreeDepth-- })
	}

	nr := uint64(len(sp.PositionsToReveal))
	for j := range sp.PositionsToReveal {
		j := j
		for q := uint64(0); q <= c39N; q++ {
			q := q
			if q != sp.PositionsToReveal[j] {
				add("positions-entry", fmt.Sprintf("#%d %d->%d", j, sp.PositionsToReveal[j], q), c39reject, func(in *c39in) { in.sp.PositionsToReveal[j] = q })
			}
		}
	}
	wantShort := c39reject
	if ln, err := LnIntApproximation(c.pw); err == nil && nr > 0 && verifyWeights(sp.SignedWeight, ln, nr-1, c.target) == nil {
		wantShort = c39free // (X2)
	}
	add("positions-drop", "last", wantShort, func(in *c39in) { in.sp.PositionsToReveal = in.sp.PositionsToReveal[:nr-1] })
	add("positions-drop", "first", wantShort, func(in *c39in) { in.sp.PositionsToReveal = in.sp.PositionsToReveal[1:] })

	lnPW1, _ := LnIntApproximation(c.pw + 1)
	add("verifier-proven-weight", "+1", structural(sp.SignedWeight, lnPW1, c.target), func(in *c39in) { in.pw++ })
	add("verifier-proven-weight", "=signedWeight", c39reject, func(in *c39in) { in.pw = in.sp.SignedWeight })
	add("verifier-partcom", "flip", c39reject, func(in *c39in) { flip(in.partcom, 0, 1) })
	add("verifier-strength", "x2", structural(sp.SignedWeight, lnPW, 2*c.target), func(in *c39in) { in.target *= 2 })

	// compound, from the C37 finding
	add("depth-alias", "positions x2, both TreeDepth +1", c39reject, func(in *c39in) {
		nrv := make(map[uint64]Reveal, len(in.sp.Reveals))
		for k, v := range in.sp.Reveals {
			nrv[2*k] = v
		}
		in.sp.Reveals = nrv
		for j := range in.sp.PositionsToReveal {
			in.sp.PositionsToReveal[j] *= 2
		}
		in.sp.SigProofs.TreeDepth++
		in.sp.PartProofs.TreeDepth++
	})
	return ms
}

func TestVerif_C39(t *testing.T) {
	r := ve.NewRun("C39", "exploration")
	var data MessageHash
	copy(data[:], "verif C39 state proof message....")
	signers, err := c39makeSigners(data)
	if err != nil {
		t.Fatalf("HARNESS: key setup: %v", err)
	}
	hf := crypto.HashFactory{HashType: HashType}
	weightSets := [][]uint64{{1, 2, 3, 4, 5}, {3, 3, 3, 3, 3}, {16, 1, 1, 1, 1}}
	targets := []uint64{8}
	if ve.Thorough() {
		targets = append(targets, 32)
	}

	type setup struct {
		weights []uint64
		parts   []basics.Participant
		tree    *merklearray.Tree
		total   uint64
	}
	var setups []setup
	for _, ws := range weightSets {
		s := setup{weights: ws}
		for i, w := range ws {
			s.parts = append(s.parts, basics.Participant{PK: signers[i].verifier, Weight: w})
			s.total += w
		}
		s.tree, err = merklearray.BuildVectorCommitmentTree(basics.ParticipantsArray(s.parts), hf)
		if err != nil {
			t.Fatalf("HARNESS: participants tree: %v", err)
		}
		setups = append(setups, s)
		// IsValid must refuse a signature made by somebody else
		p, err := MakeProver(data, c39Round, s.total/2, s.parts, s.tree, 8)
		if err != nil {
			t.Fatalf("HARNESS: MakeProver: %v", err)
		}
		for i := 0; i < c39N; i++ {
			for j := 0; j < c39N; j++ {
				err := p.IsValid(uint64(i), &signers[j].sig, true)
				r.Eval()
				if (err == nil) != (i == j) {
					r.Report("C39:isvalid", fmt.Sprintf("IsValid(pos %d, signature of participant %d) = %v", i, j, err), map[string]any{"pos": i, "sig_of": j})
				}
			}
		}
	}

	// ---- the reveal-count boundary: one real proof that needs as many reveals as the prover
	// allows (strengthTarget 256, provenWeight 2^40, the smallest signed weight in
	// (2^40, 2^41] for which numReveals still succeeds: 640 = MaxReveals reveals on the
	// unchanged code). All five participants sign; it goes through oracle A and B like any
	// other case (prover succeeded => verifier must accept, also after the wire round trip).
	var cases []*c39case
	{
		pwX, tX := uint64(1)<<40, uint64(256)
		lnX, _ := LnIntApproximation(pwX)
		okAt := func(sw uint64) bool { _, err := numReveals(sw, lnX, tX); return err == nil }
		lo, hi := pwX+1, 2*pwX
		if okAt(hi) && !okAt(lo) {
			for hi-lo > 1 {
				mid := lo + (hi-lo)/2
				if okAt(mid) {
					hi = mid
				} else {
					lo = mid
				}
			}
			q := hi / c39N
			s := setup{weights: []uint64{q, q, q, q, hi - 4*q}, total: hi}
			for i, w := range s.weights {
				s.parts = append(s.parts, basics.Participant{PK: signers[i].verifier, Weight: w})
			}
			s.tree, err = merklearray.BuildVectorCommitmentTree(basics.ParticipantsArray(s.parts), hf)
			if err != nil {
				t.Fatalf("HARNESS: participants tree: %v", err)
			}
			setups = append(setups, s)
			nrX, _ := numReveals(hi, lnX, tX)
			r.Set("max_reveals_case", map[string]any{"signedWeight": hi, "provenWeight": pwX, "strengthTarget": tX, "numReveals": nrX, "MaxReveals": MaxReveals})
			cases = append(cases, &c39case{name: "maxreveals/pw=2^40/t256", weights: s.weights, pw: pwX, target: tX, mask: 1<<c39N - 1})
		} else {
			r.Note("max-reveals case not constructible: numReveals(2^41, ln 2^40, 256) ok=%v, numReveals(2^40+1, ...) ok=%v", okAt(hi), okAt(lo))
		}
	}

	// ---- phase 1: every subset of signers
	for si := range weightSets {
		for _, frac := range []uint64{3, 2} {
			for _, target := range targets {
				for mask := uint(0); mask < 1<<c39N; mask++ {
					cases = append(cases, &c39case{name: fmt.Sprintf("w%d/pw=total/%d/t%d", si, frac, target), weights: setups[si].weights, pw: setups[si].total / frac, target: target, mask: mask})
				}
			}
		}
	}
	setupOf := func(c *c39case) *setup {
		for i := range setups {
			if &setups[i].weights[0] == &c.weights[0] {
				return &setups[i]
			}
		}
		return nil
	}
	done1 := r.ParallelFor(len(cases), func(ci int) {
		c := cases[ci]
		s := setupOf(c)
		build := func(pw uint64) (*Prover, error) {
			p, err := MakeProver(data, c39Round, pw, s.parts, s.tree, c.target)
			if err != nil {
				return nil, err
			}
			for i := 0; i < c39N; i++ {
				if c.mask&(1<<uint(i)) == 0 {
					continue
				}
				if err := p.IsValid(uint64(i), &signers[i].sig, true); err != nil {
					r.Report("C39:valid-sig-rejected", fmt.Sprintf("%s: IsValid(%d) = %v", c.name, i, err), c.replay("isvalid", fmt.Sprint(i)))
				}
				if err := p.Add(uint64(i), signers[i].sig); err != nil {
					return nil, fmt.Errorf("Add(%d): %w", i, err)
				}
			}
			return p, nil
		}
		c.signed = 0
		for i, w := range c.weights {
			if c.mask&(1<<uint(i)) != 0 {
				c.signed += w
			}
		}
		p, err := build(c.pw)
		if err != nil {
			r.Report("C39:prover-add", fmt.Sprintf("%s mask %05b: %v", c.name, c.mask, err), c.replay("add", ""))
			return
		}
		if p.SignedWeight() != c.signed {
			r.Report("C39:signed-weight-tally", fmt.Sprintf("%s mask %05b: prover counts %d, signers weigh %d", c.name, c.mask, p.SignedWeight(), c.signed), c.replay("tally", ""))
		}
		for i := 0; i < c39N; i++ { // a second Add of the same position must not count
			if c.mask&(1<<uint(i)) != 0 {
				if err := p.Add(uint64(i), signers[i].sig); err == nil || p.SignedWeight() != c.signed {
					r.Report("C39:double-add", fmt.Sprintf("%s mask %05b: second Add(%d) = %v, signed weight now %d (signers weigh %d)", c.name, c.mask, i, err, p.SignedWeight(), c.signed), c.replay("double-add", fmt.Sprint(i)))
				}
			}
		}
		sp, err := p.CreateProof()
		r.Eval()
		ln, _ := LnIntApproximation(c.pw)
		if c.signed <= c.pw {
			r.Class(c.name + "/insufficient")
			if err == nil {
				r.Report("C39:insufficient-weight-proved", fmt.Sprintf("%s mask %05b: CreateProof succeeded with signed weight %d <= proven weight %d", c.name, c.mask, c.signed, c.pw), c.replay("create", ""))
				return
			}
			// cheating prover: pretends the proven weight is 1
			if c.signed >= 2 {
				cp, err := build(1)
				if err != nil {
					r.Report("C39:prover-add", fmt.Sprintf("%s mask %05b: %v", c.name, c.mask, err), c.replay("add", ""))
					return
				}
				csp, err := cp.CreateProof()
				if err != nil {
					r.Add("n:cheat_not_buildable", 1)
					return
				}
				in := &c39in{round: c39Round, data: data, sp: csp, pw: c.pw, partcom: s.tree.Root(), target: c.target}
				r.Eval()
				if in.verify() == nil {
					r.Report("C39:insufficient-weight-accepted", fmt.Sprintf("%s mask %05b: a proof with signed weight %d verifies against proven weight %d", c.name, c.mask, c.signed, c.pw), c.replay("cheat-low-proven-weight", ""))
				}
				in.pw = 1 // sanity: for the weight it was built for, it does verify
				if err := in.verify(); err != nil {
					r.Report("C39:valid-proof-rejected", fmt.Sprintf("%s mask %05b (provenWeight 1): %v", c.name, c.mask, err), c.replay("cheat-selfcheck", ""))
				}
				r.Add("n:cheat_proofs_rejected", 1)
			}
			return
		}
		if err != nil {
			if _, nerr := numReveals(c.signed, ln, c.target); nerr != nil {
				r.Class(c.name + "/refused-by-reveal-bound")
				r.Add("n:sufficient_but_reveal_bound", 1)
				return
			}
			r.Report("C39:sufficient-weight-refused", fmt.Sprintf("%s mask %05b: CreateProof = %v with signed weight %d > proven weight %d", c.name, c.mask, err, c.signed, c.pw), c.replay("create", ""))
			return
		}
		c.base = &c39in{round: c39Round, data: data, sp: sp, pw: c.pw, partcom: s.tree.Root(), target: c.target}
		r.Eval()
		if err := c.base.verify(); err != nil {
			r.Report("C39:valid-proof-rejected", fmt.Sprintf("%s mask %05b: %v", c.name, c.mask, err), c.replay("none", ""))
			c.base = nil
			return
		}
		var dec StateProof
		if err := protocol.Decode(protocol.Encode(sp), &dec); err != nil {
			r.Report("C39:wire", fmt.Sprintf("%s mask %05b: proof does not decode: %v", c.name, c.mask, err), c.replay("wire", ""))
		} else {
			in := c.base.clone()
			in.sp = &dec
			r.Eval()
			if err := in.verify(); err != nil {
				r.Report("C39:wire", fmt.Sprintf("%s mask %05b: decoded proof rejected: %v", c.name, c.mask, err), c.replay("wire", ""))
			}
		}
		r.Class(fmt.Sprintf("%s/valid/reveals%d", c.name, len(sp.Reveals)))
		r.Add("n:valid_proofs", 1)
		if c.mask == 0b11010 || c.mask == 0b11111 {
			r.Sample(map[string]any{"case": c.name, "signers_mask": fmt.Sprintf("%05b", c.mask), "signedWeight": c.signed, "provenWeight": c.pw, "numReveals": len(sp.PositionsToReveal), "distinct_reveals": len(sp.Reveals), "verdict": "accepted"})
		}
	})

	// ---- phase 2: every single mutation of every valid proof
	type item struct {
		c *c39case
		m c39mut
	}
	var items []item
	for _, c := range cases {
		if c.base == nil {
			continue
		}
		s := setupOf(c)
		for _, m := range c39mutations(c, signers, s.parts) {
			items = append(items, item{c, m})
		}
	}
	var exMu sync.Mutex
	examples := map[string][]string{} // first accepted mutations per violation key (evidence)
	done2 := r.ParallelFor(len(items), func(i int) {
		it := items[i]
		in := it.c.base.clone()
		it.m.apply(in)
		err := in.verify()
		r.Eval()
		out := "reject"
		if err == nil {
			out = "accept"
		}
		switch it.m.want {
		case c39reject:
			r.Add("n:"+out+"/"+it.m.kind, 1)
			if err == nil {
				exMu.Lock()
				if len(examples["C39:"+it.m.kind]) < 8 {
					examples["C39:"+it.m.kind] = append(examples["C39:"+it.m.kind], fmt.Sprintf("%s signers %05b signed %d proven %d reveals %d: %s", it.c.name, it.c.mask, it.c.signed, it.c.pw, len(it.c.base.sp.PositionsToReveal), it.m.detail))
				}
				exMu.Unlock()
				r.Report("C39:"+it.m.kind, fmt.Sprintf("%s signers %05b (signed %d, proven %d): mutation %s [%s] ACCEPTED", it.c.name, it.c.mask, it.c.signed, it.c.pw, it.m.kind, it.m.detail), it.c.replay(it.m.kind, it.m.detail))
			}
		case c39free:
			r.Add("n:"+out+"/"+it.m.kind+"(excluded)", 1)
		}
		r.Class(it.m.kind + "/" + out)
	})

	if len(examples) > 0 {
		for k := range examples {
			sort.Strings(examples[k])
		}
		r.Set("accepted_mutation_examples", examples)
	}
	r.Set("cases", len(cases))
	r.Set("mutations", len(items))
	r.Assume("Falcon keys from fixed seeds; deterministic Falcon signing (checked at start)")
	r.Assume("collision resistance / unforgeability are not challenged: mutations are structural")
	r.Assume("SignedWeight +-1, verifier provenWeight+1 and strengthTarget x2 are judged by verifyWeights on the mutated values (must fail when the weight inequality fails); when it still holds they can only be refused statistically by the Fiat-Shamir coins (SignedWeight is the prover's claim, tested with high probability by design), so that outcome is counted (n:accept|reject/...(excluded)), not judged. SignedWeight = provenWeight, SignedWeight = 0 and provenWeight = signedWeight must always fail")
	r.Assume("a round inside the same merkle-signature key-lifetime window verifies by design (documented key validity); only rounds of other windows must fail")
	cov := ve.Coverage{Exhaustive: done1 == int64(len(cases)) && done2 == int64(len(items)),
		Rule: fmt.Sprintf("5 participants with real merkle-signature (Falcon) keys, weights (1,2,3,4,5), (3,3,3,3,3), (16,1,1,1,1), provenWeight in {total/3, total/2}, strengthTarget %v: every subset of signers, plus one proof needing exactly MaxReveals reveals (%d cases) through the real Prover and Verifier (accept iff signedWeight > provenWeight; cheating prover with insufficient weight rejected), then every single mutation of every valid proof (%d mutated verifications): message, round, each reveal's position/signature bytes/key/index/key-proof/L/participant weight/key, reveal dropped/duplicated/swapped, SignedWeight +-1, salt version, SigCommit, each digest and the depth of both merkle proofs, each PositionsToReveal entry, the verifier's trusted inputs", targets, len(cases), len(items))}
	if r.Finish(cov) > 0 {
		t.Fatal("violations")
	}
}
