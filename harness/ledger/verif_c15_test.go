package ledger

// C15 (part b) — A catchpoint label commits to a unique ledger state: whole ledgers.
// (Part a, the leaf pre-image builders, lives in ledger/store/trackerdb/verif_c15_hash_test.go.)
//
// Engine E-SEQ/E-ENUM, level exploration. Driver: common_c14_catchpoint_test.go.
//
// A family of real histories of equal length is built with the real BlockEvaluator; they are
// identical except for ONE parameter of ONE transaction, so that the ledger states at every
// catchpoint round differ in exactly one kind of entry:
//   box name ("ab" vs "ac"), box content ("c" vs "d"), the box's key/value split
//   (("ab","c") vs ("a","bc") vs ("abc","")), an asset holding (transfer 5 vs 6), a global
//   value, a local value, a balance (payment 1000 vs 1001).
// Every history runs on a real catchpoint-producing Ledger. For EVERY unordered pair (A,B) of
// histories and every catchpoint round X both produced:
//   precondition (non-vacuity): the two catchpoint files describe different states (their
//     decoded account / resource / KV / online record multisets differ);
//   oracle: the label that a verifier holding A's authentic block X computes from B's state
//     (real ledgercore.MakeLabel over B's first-stage record: balances trie root, totals, state
//     proof hash, online hashes — exactly VerifyCatchpoint's computation) differs from A's
//     label. If it is equal, B's state verifies under A's label, i.e. a node catching up to
//     label A can be handed state B. For such a pair the harness additionally runs the real
//     accessor: B's genuine catchpoint file + A's label + A's blocks through
//     ProcessStagingBalances/BuildMerkleTrie/VerifyCatchpoint/CompleteCatchup.
// The whole comparison is done twice: on nodes that track catchpoints all the time, and on nodes
// that go through a tracking PAUSE (tracking on for rounds 1..3, restart with tracking off, the
// rounds in which the variants differ are flushed while tracking is off, restart with tracking
// on after round 10): the labels produced after the pause must still separate the variants.
// Note: the *real* labels of two different histories always differ, trivially, because the
// label also covers the digest of block X and the blocks contain the differing transaction.
// That is why the block digest is held fixed (A's) in the comparison.
//
// Violation keys: "C15:kv-boundary-shift" for pairs whose states differ only in the key/value
// split of one box (known finding F-KV), "C15:state-collision:<a>/<b>" otherwise.
//
// Not covered: states differing in more than one entry, consensus versions other than the
// private copy of the current one, catchpoint file versions below V8.

import (
	"fmt"
	"sort"
	"testing"

	"github.com/algorand/go-algorand/data/basics"
	"github.com/algorand/go-algorand/data/bookkeeping"
	"github.com/algorand/go-algorand/ledger/ledgercore"
	"github.com/algorand/go-algorand/ledger/store/trackerdb"
	ve "github.com/algorand/go-algorand/verifeng"
)

type c15Run struct {
	name   string
	kvOnly bool // differs from "base" only in the key/value split of the box
	h      *c14History
	labels map[basics.Round]string
	fs     map[basics.Round]trackerdb.CatchpointFirstStageInfo
	files  map[basics.Round][]c14Section
	sigs   map[basics.Round]map[string]string
}

// c15FileSig renders the state described by a catchpoint file as a map entry -> value.
func c15FileSig(secs []c14Section) (map[string]string, error) {
	f, err := c14Decode(secs)
	if err != nil {
		return nil, err
	}
	out := map[string]string{}
	for _, s := range f.secs {
		switch s.kind {
		case "header":
			out["totals"] = fmt.Sprintf("%+v", s.header.Totals)
		case "sp":
			out["sp"] = fmt.Sprintf("%+v", s.sp.Data)
		case "chunk":
			for _, b := range s.chunk.Balances {
				out[fmt.Sprintf("acct/%x", b.Address[:])] += fmt.Sprintf("%x", []byte(b.AccountData))
				for c, rd := range b.Resources {
					out[fmt.Sprintf("res/%x/%d", b.Address[:], c)] = fmt.Sprintf("%x", []byte(rd))
				}
			}
			for _, kv := range s.chunk.KVs {
				out[fmt.Sprintf("kv/%x", kv.Key)] = fmt.Sprintf("%x", kv.Value)
			}
			for _, oa := range s.chunk.OnlineAccounts {
				out[fmt.Sprintf("online/%x/%d", oa.Address[:], oa.UpdateRound)] = fmt.Sprintf("%d/%d/%x", oa.NormalizedOnlineBalance, oa.VoteLastValid, []byte(oa.Data))
			}
			for _, p := range s.chunk.OnlineRoundParams {
				out[fmt.Sprintf("orp/%d", p.Round)] = fmt.Sprintf("%x", []byte(p.Data))
			}
		}
	}
	return out, nil
}

func TestVerif_C15_b(t *testing.T) {
	r := ve.NewRun("C15", "exploration")
	r.Assume("two states are compared through the label a verifier computes for them with the SAME authentic block digest (real labels of different histories differ trivially through the block digest)")
	dir := ve.ScratchDir("c15")
	defer c14RemoveAll(dir)
	rounds := ve.Pick(16, 24)

	type vdef struct {
		name   string
		kvOnly bool
		mod    func(v *c14Variant)
	}
	defs := []vdef{
		{"base", true, func(v *c14Variant) {}},
		{"box-split-a|bc", true, func(v *c14Variant) { v.BoxName, v.BoxValue = "a", "bc" }},
		{"box-split-abc|", true, func(v *c14Variant) { v.BoxName, v.BoxValue = "abc", "" }},
		{"box-name-ac", false, func(v *c14Variant) { v.BoxName = "ac" }},
		{"box-value-d", false, func(v *c14Variant) { v.BoxValue = "d" }},
		{"xfer-6", false, func(v *c14Variant) { v.XferAmt = 6 }},
		{"global-gv2", false, func(v *c14Variant) { v.GlobalVal = "gv2" }},
		{"local-lv2", false, func(v *c14Variant) { v.LocalVal = "lv2" }},
		{"pay-1001", false, func(v *c14Variant) { v.PayAmt = 1001 }},
	}
	protos := ve.Pick([]string{string(c14ProtoA)}, []string{string(c14ProtoA), string(c14ProtoB)})
	pairsChecked, collisions := 0, 0
	type mode struct {
		name string
		plan c14Plan
	}
	// "paused": catchpoint tracking is on for rounds 1..3, the node is restarted with tracking
	// OFF, flushes rounds 4.. (the rounds in which the variants differ) while off, and is
	// restarted with tracking ON after round 10; the labels of the later catchpoint rounds must
	// still tell the variants apart (the trie has to be rebuilt from the tables at the resume).
	// (the paused nodes are file backed and really closed and re-opened: Ledger.reloadLedger keeps
	// the catchpointTracker object, whose interval is not reset when tracking is switched off)
	modes := []mode{{"always-on", c14Plan{}}, {"paused", c14Plan{PauseAt: 3, ResumeAt: 10, Reopen: true}}}
	for _, pn := range protos {
		for _, md := range modes {
			var runs []*c15Run
			for _, d := range defs {
				v := c14DefaultVariant()
				v.Rounds = rounds
				d.mod(&v)
				h := c14HistMixed(t, dir, "c15-"+d.name, c14ProtoA, v)
				if pn == string(c14ProtoB) {
					h = c14HistMixed(t, dir, "c15B-"+d.name, c14ProtoB, v)
				}
				n, err := c14OpenNode(h.Gen, dir, "c15n-"+pn+md.name+d.name, c14NodeCfg{Stored: true, InMem: md.name == "always-on", NoLRU: true})
				if err != nil {
					t.Fatalf("harness: %v", err)
				}
				o, err := c14Run(n, h, md.plan)
				if err != nil {
					t.Fatalf("harness: run %s (%s): %v", d.name, md.name, err)
				}
				cr := &c15Run{name: d.name, kvOnly: d.kvOnly, h: h, labels: o.Labels, fs: o.FirstStage, files: map[basics.Round][]c14Section{}, sigs: map[basics.Round]map[string]string{}}
				for _, x := range c14SortedRounds(o.Labels) {
					secs, err := n.catchpointFile(x)
					if err != nil {
						t.Fatalf("harness: file %d of %s (%s): %v; labels %v first stages %v flushes %v", x, d.name, md.name, err, o.Labels, c14SortedRounds(o.FirstStage), o.Flushes)
					}
					cr.files[x] = secs
					if cr.sigs[x], err = c15FileSig(secs); err != nil {
						t.Fatalf("harness: %v", err)
					}
				}
				n.close()
				if len(cr.labels) < ve.Pick(1, 2) || (md.name == "always-on" && len(cr.labels) < 2) {
					t.Fatalf("harness: history %s (%s) produced %d labels", d.name, md.name, len(cr.labels))
				}
				runs = append(runs, cr)
				r.Class("label/" + pn + "/" + md.name + "/" + d.name + "/" + cr.labels[c14SortedRounds(cr.labels)[0]])
			}
			lookback := basics.Round(c15ConsensusLookback(pn))
			for i := 0; i < len(runs); i++ {
				for j := 0; j < len(runs); j++ {
					if i == j {
						continue
					}
					a, b := runs[i], runs[j] // verifier holds A's label and block, is handed B's state
					for _, x := range c14SortedRounds(a.labels) {
						if _, ok := b.labels[x]; !ok {
							continue
						}
						diff := c14DiffDumps(a.sigs[x], b.sigs[x])
						if len(diff) == 0 {
							r.Class("same-state/" + pn)
							continue // the differing transaction has not happened yet / left no trace
						}
						fb, ok := b.fs[x-lookback]
						if !ok {
							t.Fatalf("harness: no first stage record %d in %s", x-lookback, b.name)
						}
						r.Eval()
						pairsChecked++
						digestA := a.h.Blocks[x-1].Digest()
						lbl := ledgercore.MakeLabel(ledgercore.MakeCatchpointLabelMakerCurrent(x, &digestA, &fb.TrieBalancesHash, fb.Totals, &fb.StateProofVerificationHash, &fb.OnlineAccountsHash, &fb.OnlineRoundParamsHash))
						kinds := map[string]bool{}
						for _, d := range diff {
							kinds[d[1:3]] = true
						}
						var ks []string
						for k := range kinds {
							ks = append(ks, k)
						}
						sort.Strings(ks)
						r.Class(fmt.Sprintf("pair/%s/%s/differs-in-%v", pn, md.name, ks))
						if lbl != a.labels[x] {
							continue
						}
						collisions++
						key := "C15:state-collision:" + a.name + "/" + b.name
						if a.kvOnly && b.kvOnly {
							key = "C15:kv-boundary-shift"
						}
						// end to end: B's genuine file under A's label with A's blocks
						e2e := "not attempted"
						src := func(rnd basics.Round) (bookkeeping.Block, bool) {
							if rnd < 1 || int(rnd) > len(a.h.Blocks) {
								return bookkeeping.Block{}, false
							}
							return a.h.Blocks[rnd-1], true
						}
						if fn, err := c14OpenNode(a.h.Gen, dir, fmt.Sprintf("c15e2e-%s-%s-%d-%d-%d", pn, md.name, i, j, x), c14NodeCfg{Stored: true, InMem: true, NoLRU: true}); err == nil {
							acc, top, res := c14Stage(fn.l, a.labels[x], b.files[x], src, true)
							if res.Err != nil {
								e2e = fmt.Sprintf("the real accessor rejects B's file under A's label at %s: %v", res.Stage, res.Err)
							} else if err := c14Adopt(acc, top, src); err != nil {
								e2e = fmt.Sprintf("the real accessor verifies B's file under A's label; CompleteCatchup fails: %v", err)
							} else {
								e2e = "the real accessor verifies B's genuine catchpoint file under A's label and the node adopts B's state"
							}
							fn.close()
						}
						r.Report(key, fmt.Sprintf("[%s, tracking "+md.name+"] round %d: histories %q and %q reach different states (%v) but state %q yields A's label %s when combined with A's block; %s", pn, x, a.name, b.name, diff, b.name, lbl, e2e),
							map[string]any{"engine": "c15b", "proto": pn, "a": a.name, "b": b.name, "round": x})
					}
				}
			}
		}
	}
	r.Set("histories", len(defs)*len(protos)*len(modes))
	r.Set("ordered_pairs_x_rounds_checked", pairsChecked)
	r.Set("state_collisions", collisions)
	r.Sample(map[string]any{"variants": func() []string {
		var s []string
		for _, d := range defs {
			s = append(s, d.name)
		}
		return s
	}()})
	n := r.Finish(ve.Coverage{Rule: fmt.Sprintf("%d one-parameter variants of a %d-round history per consensus version (%d versions), every ordered pair x every common catchpoint round with differing states: label recomputed by the real MakeLabel from B's first-stage record with A's block digest must differ from A's label", len(defs), rounds, len(protos)),
		Exhaustive: true})
	if n > 0 {
		t.Fatalf("C15(b): %d violation(s)", n)
	}
}

func c15ConsensusLookback(pn string) uint64 {
	if pn == string(c14ProtoB) {
		return 6
	}
	return 4
}
