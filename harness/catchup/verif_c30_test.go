//go:build verifshim

package catchup

// C30 — "Catchup only appends authenticated blocks, in order".
//
// Driver: the REAL catchup.Service, started with Service.Start() inside an E-SCHED bubble:
// periodicSync -> sync -> pipelinedFetch -> fetchAndWrite -> innerFetch ->
// universalBlockFetcher.fetchBlock -> wsFetcherClient.getBlockBytes/requestBlock ->
// processBlockBytes, the real classBasedPeerSelector / rankPooledPeerSelector, and (second
// program) periodicSync -> syncCert -> fetchRound. Harness-owned: the Ledger (c30Ledger,
// records every AddBlock / AddValidatedBlock / EnsureBlock call), the network (c30Net: a
// GossipNode returning two UnicastPeers), the BlockAuthenticator (c30Auth: accepts exactly
// the genuine (header hash, certificate) pairs of a chain built once from real
// bookkeeping.Block values with consistent Branch / Round / TxnCommitments; like the real
// authenticator it looks at the header only and needs the ledger to hold round r-2).
//
// Choice points. Every block request the service sends to a peer for a round <= tip is handed
// to one managed thread per round ("resp-r<k>"), which parks at s.Point before it answers:
// the scheduler therefore owns which outstanding request completes next, and E-SCHED explores
// EVERY completion order (switching away from a round whose retry is already outstanding costs
// a preemption; bound 2 quick / 3 thorough). The service's own goroutines are unmanaged: they
// run to quiescence (synctest.Wait) between two decisions. What a peer answers is fixed per
// execution by a response script: (round, attempt) -> menu entry, everything not named by the
// script is genuine (so a genuine answer is always eventually available). Menu (c30Menu):
// genuine, payset with a foreign txn appended / emptied / last txn dropped / first txn dropped /
// a txn duplicated / two txns swapped (all with the genuine header and certificate), header altered, consistent fork sibling with its own certificate,
// certificate of another round, certificate of another block of the same round, genuine block +
// forged certificate, block of round r-1, block of round r+1, undecodable bytes, no-block
// error, timeout (really waits for the fetcher's context deadline on the virtual clock),
// immediate request error, unsupported protocol version.
// Scripts are enumerated exhaustively within a deviation bound: every placement of <= D
// non-genuine answers over the reachable (round, attempt) positions x every menu entry.
//
// Programs:
//   sync/add/…   catch-up of rounds 1..tip by pipelinedFetch (tip 4 quick / 5 thorough; at most
//                CatchupParallelBlocks=3 fetches in flight; sync round disabled above the tip so
//                that no request goes beyond the chain); default config: AddBlock path.
//   sync/val/…   same with CatchupBlockValidateMode=12: Validate + AddValidatedBlock path.
//   sync/addw/…  same as add with a slow ledger: every AddBlock is handed to a managed "ledger"
//                thread and takes effect only when the scheduler grants it (one more choice point
//                per write; responses can be released while a write is in progress).
//   cert/…       agreement hands the service a certificate for the next round (periodicSync ->
//                syncCert -> fetchRound -> EnsureBlock), rounds 1..2 one after the other.
// Script families: D0 (all genuine), D1, D2 = every script with exactly 1 / 2 non-genuine answers.
// Quick: add D0-D2, val D0-D1, addw D0-D1, cert D0-D2, bound 2. Thorough: add and val D0-D2, addw
// D0-D1 (and addw D2 on a 4-block chain), cert D0-D3, bound 3.
//
// Oracle (reference = the chain itself, boring Go): the k-th ledger write call made by the
// service is for round k exactly (no gap, no repeat, judged against the ledger height at the moment
// the write takes effect), its block encodes byte-for-byte to the genuine block of that round, its
// payset matches its header (real ContentsMatchHeader), its certificate encodes to the genuine
// certificate, and (sync programs) the authenticator had accepted that round before the write.
// The service must stop when asked (Service.Stop returns; otherwise E-SCHED reports a deadlock);
// "still waiting" is allowed: after 3 virtual minutes the harness stops the service and judges
// the writes made so far. Progress (ledger reaches the tip) is recorded as an outcome class only;
// it is demanded only of the all-genuine script, as a harness self-test.
//
// Not covered: which of the two peers is asked (chosen by the real selector with crypto/rand;
// answers are a function of (round, attempt) only, so the script space has no peer dimension);
// the HTTP fetcher; a second writer (agreement) racing with catchup; requests beyond the chain
// tip (cut off with the service's own SetDisableSyncRound); certificate cryptography (C03/C04: the authenticator here is a token authenticator);
// interleavings inside the service's own goroutines below the granularity "run to quiescence
// after each released response / granted write"; the unsupported-protocol answer at rounds other
// than 1 and tip (see syncAllowed); a panic in a service goroutine aborts the binary (exit 2, not a
// verdict).
//
// Mutants (VERIF_REPO=… bin/mut C30 <file> … --only, quick tier), all restored afterwards:
//   M1  service.go fetchAndWrite: `case <-prevFetchCompleteChan:` -> `case <-lookbackComplete:`
//       DETECTED (write-out-of-order; needs the schedule "round 2 answered before round 1", the
//       default schedule passes)
//   M2  service.go fetchAndWrite: drop the `continue` after a failed auth.Authenticate
//       DETECTED (write-non-genuine-block)
//   M3  service.go fetchAndWrite: `if false && !block.ContentsMatchHeader()`   DETECTED (write-payset-mismatch)
//   M4  universalFetcher.go processBlockBytes: block-round check removed        MISSED, equivalent: the
//       certificate-round check right after it rejects the same answers; M4' = both round checks
//       removed: DETECTED (write-out-of-order: genuine block r+1 written at height r-1)
//   M5  service.go fetchRound: `block.Hash() == blockHash &&` removed           DETECTED (cert program)
//   M6  service.go fetchRound: `&& block.ContentsMatchHeader()` removed         DETECTED (cert program)
//   M7  service.go fetchAndWrite: `if i == 1 && !block.ContentsMatchHeader()`   DETECTED (needs a D2 script:
//       a bad first answer, then a payset-altered retry)
//   M8  service.go pipelinedFetch: `prev := s.ledger.WaitMem(r.SubSaturate(2))` DETECTED (write-out-of-order)
//   M9  service.go fetchAndWrite: `if s.cfg.CatchupVerifyCertificate() && i > 1` DETECTED
//   S1  seeded C30-A (contents check only when len(block.Payset) > 0)            DETECTED by payset-emptied (D1)
//   S2  seeded C29-B (contents check skipped on a retry with a remembered header hash) DETECTED by the D2 scripts
//       (genuine block + non-authenticating cert, then same header + tampered payset)
//   (seeded C30-B, a forged certificate that authenticates because of agreement/bundle.go, is out of reach of
//   the token authenticator used here: C03/C04)
//   M10 service.go fetchAndWrite: on a retry wait for lookbackComplete instead of prevFetchCompleteChan
//       before the write (`if i > 1 { prevFetchCompleteChan = lookbackComplete }`)  DETECTED

import (
	"bytes"
	"context"
	"encoding/binary"
	"errors"
	"fmt"
	"io"
	"os"
	"runtime"
	"sort"
	"strings"
	"sync"
	"testing"
	"time"

	"github.com/algorand/go-algorand/agreement"
	"github.com/algorand/go-algorand/components/mocks"
	"github.com/algorand/go-algorand/config"
	"github.com/algorand/go-algorand/crypto"
	"github.com/algorand/go-algorand/data/basics"
	"github.com/algorand/go-algorand/data/bookkeeping"
	"github.com/algorand/go-algorand/data/committee"
	"github.com/algorand/go-algorand/data/transactions"
	"github.com/algorand/go-algorand/ledger/ledgercore"
	"github.com/algorand/go-algorand/logging"
	"github.com/algorand/go-algorand/network"
	"github.com/algorand/go-algorand/protocol"
	"github.com/algorand/go-algorand/rpcs"
	"github.com/algorand/go-algorand/util/execpool"
	ve "github.com/algorand/go-algorand/verifeng"
)

// ---------------------------------------------------------------------------------------------
// menu

const (
	c30Genuine = iota
	c30PaysetAltered
	c30HeaderAltered
	c30ForkPair
	c30CertOtherRound
	c30CertOtherBlock
	c30ForgedCert
	c30BlockPrevRound
	c30BlockNextRound
	c30Garbage
	c30NoBlock
	c30Timeout
	c30ReqError
	c30UnsupportedProto
	c30PaysetEmptied
	c30PaysetLastDropped
	c30PaysetFirstDropped
	c30PaysetTxnDuplicated
	c30PaysetSwapped
	c30MenuSize
)

var c30Menu = [c30MenuSize]string{"genuine", "payset-extra-txn", "header-altered", "fork-pair", "cert-other-round",
	"cert-other-block", "forged-cert", "block-prev-round", "block-next-round", "garbage", "no-block", "timeout",
	"req-error", "unsupported-proto", "payset-emptied", "payset-last-dropped", "payset-first-dropped",
	"payset-txn-duplicated", "payset-two-swapped"}

type c30Reply struct {
	kind int // 0 topics, 1 wait for ctx (timeout), 2 immediate error
	blk  []byte
	cert []byte
	errT bool // answer is an error topic (no block for round)
}

// ---------------------------------------------------------------------------------------------
// the chain

type c30Chain struct {
	tip      int                     // highest round the peers serve
	blocks   []bookkeeping.Block     // 0..tip+1, genuine
	certs    []agreement.Certificate // 1..tip+1 (index 0 unused)
	blockEnc [][]byte
	certEnc  [][]byte
	hashes   []bookkeeping.BlockHash
	replies  [][c30MenuSize]c30Reply // [round][menu]
	proto    config.ConsensusParams
}

func c30Cert(b bookkeeping.Block, genuine bool) agreement.Certificate {
	var c agreement.Certificate
	c.Round = b.Round()
	c.Step = 2 // cert step
	c.Proposal.BlockDigest = b.Digest()
	c.Proposal.OriginalProposer = basics.Address{0xc3, 0x30}
	tag := "c30-certified:"
	if !genuine {
		tag = "c30-forged:"
	}
	d := b.Digest()
	c.Proposal.EncodingDigest = crypto.Hash(append([]byte(tag), d[:]...))
	return c
}

func c30Txn(hdr bookkeeping.BlockHeader, note string, amt uint64) transactions.SignedTxnInBlock {
	tx := transactions.Transaction{
		Type: protocol.PaymentTx,
		Header: transactions.Header{
			Sender: basics.Address{0x01, byte(hdr.Round)}, Fee: basics.MicroAlgos{Raw: 1000},
			FirstValid: hdr.Round.SubSaturate(1), LastValid: hdr.Round + 100,
			GenesisID: hdr.GenesisID, GenesisHash: hdr.GenesisHash, Note: []byte(note),
		},
		PaymentTxnFields: transactions.PaymentTxnFields{Receiver: basics.Address{0x02}, Amount: basics.MicroAlgos{Raw: amt}},
	}
	st := transactions.SignedTxn{Txn: tx, Sig: crypto.Signature{0x5a, byte(hdr.Round)}}
	stib, err := hdr.EncodeSignedTxn(st, transactions.ApplyData{})
	if err != nil {
		panic(fmt.Sprintf("c30: EncodeSignedTxn: %v", err))
	}
	return stib
}

// c30Successor builds a consistent successor of prev (real MakeBlock + real PaysetCommit).
func c30Successor(prev bookkeeping.BlockHeader, variant string) bookkeeping.Block {
	b := bookkeeping.MakeBlock(prev)
	b.TimeStamp = prev.TimeStamp + 4 // MakeBlock reads the wall clock
	b.BlockHeader.Seed = committee.Seed(crypto.Hash([]byte(fmt.Sprintf("c30-seed-%d-%s", b.Round(), variant))))
	n := 2 + int(b.Round())%2 // every block carries 2 or 3 transactions, so that all payset-shape entries differ from genuine
	for i := 0; i < n; i++ {
		b.Payset = append(b.Payset, c30Txn(b.BlockHeader, fmt.Sprintf("c30/%d/%d/%s", b.Round(), i, variant), uint64(b.Round())*10+uint64(i)))
	}
	b.TxnCounter = prev.TxnCounter + uint64(n)
	var err error
	b.TxnCommitments, err = b.PaysetCommit()
	if err != nil {
		panic(fmt.Sprintf("c30: PaysetCommit: %v", err))
	}
	return b
}

func c30Topics(blk bookkeeping.Block, cert agreement.Certificate) c30Reply {
	return c30Reply{blk: protocol.Encode(&blk), cert: protocol.Encode(&cert)}
}

func c30BuildChain(tip int) *c30Chain {
	ch := &c30Chain{tip: tip, proto: config.Consensus[protocol.ConsensusCurrentVersion]}
	var g bookkeeping.Block
	g.CurrentProtocol = protocol.ConsensusCurrentVersion
	g.BlockHeader.GenesisID = "c30-net"
	g.BlockHeader.GenesisHash = crypto.Hash([]byte("c30 genesis"))
	g.TimeStamp = 1_700_000_000
	g.FeeSink = basics.Address{0xfe}
	g.RewardsPool = basics.Address{0xff}
	g.TxnCommitments, _ = g.PaysetCommit()
	ch.blocks = append(ch.blocks, g)
	ch.certs = append(ch.certs, agreement.Certificate{})
	for r := 1; r <= tip+1; r++ {
		b := c30Successor(ch.blocks[r-1].BlockHeader, "main")
		ch.blocks = append(ch.blocks, b)
		ch.certs = append(ch.certs, c30Cert(b, true))
	}
	for r := 0; r <= tip+1; r++ {
		ch.blockEnc = append(ch.blockEnc, protocol.Encode(&ch.blocks[r]))
		ch.certEnc = append(ch.certEnc, protocol.Encode(&ch.certs[r]))
		ch.hashes = append(ch.hashes, ch.blocks[r].Hash())
	}
	ch.replies = make([][c30MenuSize]c30Reply, tip+1)
	for r := 1; r <= tip; r++ {
		b, c := ch.blocks[r], ch.certs[r]
		var m [c30MenuSize]c30Reply
		m[c30Genuine] = c30Topics(b, c)
		pa := b
		pa.Payset = append(append(transactions.Payset{}, b.Payset...), c30Txn(b.BlockHeader, "c30/smuggled", 1_000_000))
		m[c30PaysetAltered] = c30Topics(pa, c)
		ha := b
		ha.TimeStamp++
		m[c30HeaderAltered] = c30Topics(ha, c)
		sib := c30Successor(ch.blocks[r-1].BlockHeader, "fork")
		m[c30ForkPair] = c30Topics(sib, c30Cert(sib, true))
		m[c30CertOtherRound] = c30Topics(b, ch.certs[r+1])
		m[c30CertOtherBlock] = c30Topics(b, c30Cert(sib, true))
		m[c30ForgedCert] = c30Topics(b, c30Cert(b, false))
		pc := ch.certs[r-1]
		if r == 1 {
			pc = c30Cert(ch.blocks[0], true)
		}
		m[c30BlockPrevRound] = c30Topics(ch.blocks[r-1], pc)
		m[c30BlockNextRound] = c30Topics(ch.blocks[r+1], ch.certs[r+1])
		m[c30Garbage] = c30Reply{blk: []byte{0xc1, 0xff, 0x00, 0x13}, cert: []byte{0xc1}}
		m[c30NoBlock] = c30Reply{errT: true}
		m[c30Timeout] = c30Reply{kind: 1}
		m[c30ReqError] = c30Reply{kind: 2}
		up := pa
		up.CurrentProtocol = "c30-unknown-protocol"
		m[c30UnsupportedProto] = c30Topics(up, c)
		// payset-shape tampering: genuine header + genuine certificate, transactions removed / repeated / reordered
		shape := func(ps transactions.Payset) c30Reply {
			t := b
			t.Payset = ps
			return c30Topics(t, c)
		}
		np := len(b.Payset)
		m[c30PaysetEmptied] = shape(nil)
		m[c30PaysetLastDropped] = shape(append(transactions.Payset{}, b.Payset[:np-1]...))
		m[c30PaysetFirstDropped] = shape(append(transactions.Payset{}, b.Payset[1:]...))
		m[c30PaysetTxnDuplicated] = shape(append(append(transactions.Payset{}, b.Payset...), b.Payset[0]))
		sw := append(transactions.Payset{}, b.Payset...)
		sw[0], sw[np-1] = sw[np-1], sw[0]
		m[c30PaysetSwapped] = shape(sw)
		ch.replies[r] = m
	}
	return ch
}

// selfCheck makes sure the menu means what its names say (harness sanity, not a verdict).
func (ch *c30Chain) selfCheck() error {
	for r := 1; r <= ch.tip+1; r++ {
		b := ch.blocks[r]
		if !b.ContentsMatchHeader() {
			return fmt.Errorf("genuine block %d does not match its header", r)
		}
		if err := b.BlockHeader.PreCheck(ch.blocks[r-1].BlockHeader); err != nil {
			return fmt.Errorf("genuine block %d fails PreCheck: %v", r, err)
		}
		if b.Branch != ch.blocks[r-1].Hash() || int(b.Round()) != r {
			return fmt.Errorf("genuine block %d is not linked", r)
		}
	}
	for r := 1; r <= ch.tip; r++ {
		dec := func(m int) (rpcs.EncodedBlockCert, error) {
			var e rpcs.EncodedBlockCert
			raw := protocol.EncodeReflect(rpcs.PreEncodedBlockCert{Block: ch.replies[r][m].blk, Certificate: ch.replies[r][m].cert})
			err := protocol.Decode(raw, &e)
			return e, err
		}
		g, err := dec(c30Genuine)
		if err != nil || g.Block.Hash() != ch.hashes[r] || !g.Block.ContentsMatchHeader() {
			return fmt.Errorf("round %d: genuine reply does not round-trip (%v)", r, err)
		}
		if len(ch.blocks[r].Payset) < 2 {
			return fmt.Errorf("round %d: genuine block carries fewer than 2 transactions", r)
		}
		seen := map[string]int{string(ch.blockEnc[r]): c30Genuine}
		for _, pm := range []int{c30PaysetAltered, c30PaysetEmptied, c30PaysetLastDropped, c30PaysetFirstDropped, c30PaysetTxnDuplicated, c30PaysetSwapped} {
			e, err := dec(pm)
			if err != nil || e.Block.Hash() != ch.hashes[r] || e.Block.ContentsMatchHeader() {
				return fmt.Errorf("round %d: %s entry is not (same header, mismatching payset): %v", r, c30Menu[pm], err)
			}
			enc := string(protocol.Encode(&e.Block))
			if other, dup := seen[enc]; dup {
				return fmt.Errorf("round %d: %s entry is identical to %s", r, c30Menu[pm], c30Menu[other])
			}
			seen[enc] = pm
		}
		if e, _ := dec(c30PaysetEmptied); len(e.Block.Payset) != 0 {
			return fmt.Errorf("round %d: payset-emptied entry still carries transactions", r)
		}
		if e, err := dec(c30HeaderAltered); err != nil || e.Block.Hash() == ch.hashes[r] || !e.Block.ContentsMatchHeader() {
			return fmt.Errorf("round %d: header-altered entry is not (other header, matching payset)", r)
		}
		if e, err := dec(c30ForkPair); err != nil || e.Block.Hash() == ch.hashes[r] || !e.Block.ContentsMatchHeader() ||
			e.Certificate.Proposal.BlockDigest != e.Block.Digest() || e.Block.Round() != basics.Round(r) {
			return fmt.Errorf("round %d: fork-pair entry is not a consistent sibling", r)
		}
		if _, err := dec(c30Garbage); err == nil {
			return fmt.Errorf("round %d: garbage entry decodes", r)
		}
	}
	return nil
}

// ---------------------------------------------------------------------------------------------
// script: (round, attempt) -> menu entry; unnamed positions are genuine

type c30Dev struct{ round, attempt, entry int }

type c30Script []c30Dev

func (sc c30Script) String() string {
	if len(sc) == 0 {
		return "all-genuine"
	}
	var p []string
	for _, d := range sc {
		p = append(p, fmt.Sprintf("r%da%d=%s", d.round, d.attempt, c30Menu[d.entry]))
	}
	return strings.Join(p, ",")
}

func (sc c30Script) at(round, attempt int) int {
	for _, d := range sc {
		if d.round == round && d.attempt == attempt {
			return d.entry
		}
	}
	return c30Genuine
}

// c30Scripts enumerates every script with exactly dev deviations over rounds 1..rounds: a round
// with k deviations has them at attempts 1..k (attempt k+1 exists only if attempts 1..k all
// failed), every deviation ranges over the whole non-genuine menu.
func c30Scripts(rounds, dev int, allowed func(round, entry int) bool) []c30Script {
	var out []c30Script
	var rec func(round, left int, cur c30Script)
	rec = func(round, left int, cur c30Script) {
		if left == 0 {
			out = append(out, append(c30Script{}, cur...))
			return
		}
		if round > rounds {
			return
		}
		for k := 0; k <= left; k++ { // k deviations in this round
			var fill func(a int, cur2 c30Script)
			fill = func(a int, cur2 c30Script) {
				if a > k {
					rec(round+1, left-k, cur2)
					return
				}
				for m := 1; m < c30MenuSize; m++ {
					if allowed == nil || allowed(round, m) {
						fill(a+1, append(cur2, c30Dev{round, a, m}))
					}
				}
			}
			fill(1, cur)
		}
	}
	rec(1, dev, nil)
	return out
}

// ---------------------------------------------------------------------------------------------
// environment of one execution

type c30Write struct {
	via        string
	round      int
	lastBefore int
	blk        bookkeeping.Block
	cert       agreement.Certificate
	authOK     bool // the authenticator had accepted this round before the call
}

type c30WriteReq struct {
	via    string
	blk    bookkeeping.Block
	cert   agreement.Certificate
	authOK bool
	reply  chan error
}

type c30Req struct {
	ctx     context.Context
	attempt int
	reply   chan c30Reply
}

type c30Env struct {
	s      *ve.Sched
	ch     *c30Chain
	script c30Script

	mu       sync.Mutex // plain mutex: harness bookkeeping must not add scheduling points
	blocks   []bookkeeping.Block
	waiters  map[basics.Round]chan struct{}
	writes   []c30Write
	attempts map[int]int
	authAcc  map[int]int
	authRej  int
	trace    []string
	beyond   int // requests for rounds the peers do not serve (must stay 0)
	certProg bool
	target   int // height at which the scenario is complete
	peersHit [2]int

	reqCh    []chan c30Req
	writeCh  chan c30WriteReq // nil: ledger writes take effect at once
	abortCh  chan struct{}
	shutOnce sync.Once
}

func c30NewEnv(s *ve.Sched, ch *c30Chain, script c30Script, slowLedger bool) *c30Env {
	e := &c30Env{s: s, ch: ch, script: script, abortCh: make(chan struct{}), waiters: map[basics.Round]chan struct{}{}, attempts: map[int]int{}, authAcc: map[int]int{}}
	e.blocks = append(e.blocks, ch.blocks[0])
	e.reqCh = make([]chan c30Req, ch.tip+1)
	for r := 1; r <= ch.tip; r++ {
		e.reqCh[r] = make(chan c30Req)
	}
	if slowLedger {
		e.writeCh = make(chan c30WriteReq)
	}
	return e
}

func (e *c30Env) logf(format string, a ...any) {
	e.mu.Lock()
	e.trace = append(e.trace, fmt.Sprintf(format, a...))
	e.mu.Unlock()
}

func (e *c30Env) shutdown() {
	e.shutOnce.Do(func() {
		for r := 1; r <= e.ch.tip; r++ {
			close(e.reqCh[r])
		}
		if e.writeCh != nil {
			close(e.writeCh)
		}
	})
}

// startThreads starts one managed responder thread per round (the scheduling point is in front
// of every answer) and then the thread running svcBody. The threads are started as a chain
// (each one starts the next as its first action) so that the engine's per-thread "start" points
// never offer a choice: the only real choice points of an execution are the answers.
func (e *c30Env) startThreads(svcBody func()) {
	var mk func(r int)
	mk = func(r int) {
		if r > e.ch.tip {
			if e.writeCh == nil {
				e.s.Go("svc", svcBody)
				return
			}
			e.s.Go("ledger", func() {
				e.s.Go("svc", svcBody)
				for req := range e.writeCh {
					e.s.Point(fmt.Sprintf("write(%s,r%d)", req.via, req.blk.Round()))
					req.reply <- (c30Ledger{e}).doWrite(req.via, req.blk, req.cert, req.authOK)
				}
			})
			return
		}
		e.s.Go(fmt.Sprintf("resp-r%d", r), func() {
			mk(r + 1)
			for req := range e.reqCh[r] {
				entry := e.script.at(r, req.attempt)
				e.s.Point(fmt.Sprintf("answer(r%d,a%d,%s)", r, req.attempt, c30Menu[entry]))
				e.logf("answer r%d a%d %s", r, req.attempt, c30Menu[entry])
				req.reply <- e.ch.replies[r][entry]
			}
		})
	}
	mk(1)
}

// fetch is what a peer does with a block request.
func (e *c30Env) fetch(ctx context.Context, peer int, round basics.Round) (*network.Response, error) {
	if err := ctx.Err(); err != nil {
		return nil, err
	}
	r := int(round)
	e.mu.Lock()
	e.peersHit[peer]++
	if r < 1 || r > e.ch.tip {
		e.beyond++
		e.mu.Unlock()
		return &network.Response{Topics: network.Topics{
			network.MakeTopic(network.ErrorKey, []byte("requested block is not available")),
			network.MakeTopic(rpcs.LatestRoundKey, binary.BigEndian.AppendUint64(nil, uint64(e.ch.tip)))}}, nil
	}
	e.attempts[r]++
	req := c30Req{ctx: ctx, attempt: e.attempts[r], reply: make(chan c30Reply, 1)}
	e.mu.Unlock()
	select {
	case e.reqCh[r] <- req:
	case <-ctx.Done():
		return nil, ctx.Err()
	}
	var rep c30Reply
	select {
	case rep = <-req.reply:
	case <-ctx.Done():
		return nil, ctx.Err()
	}
	switch {
	case rep.kind == 1:
		<-ctx.Done()
		return nil, ctx.Err()
	case rep.kind == 2:
		return nil, errors.New("c30: connection reset by peer")
	case rep.errT:
		return &network.Response{Topics: network.Topics{
			network.MakeTopic(network.ErrorKey, []byte("requested block is not available")),
			network.MakeTopic(rpcs.LatestRoundKey, binary.BigEndian.AppendUint64(nil, uint64(e.ch.tip)))}}, nil
	}
	return &network.Response{Topics: network.Topics{
		network.MakeTopic(rpcs.BlockDataKey, rep.blk),
		network.MakeTopic(rpcs.CertDataKey, rep.cert)}}, nil
}

// --- network

type c30Peer struct {
	env *c30Env
	idx int
}

func (p *c30Peer) GetAddress() string { return fmt.Sprintf("c30-peer-%d", p.idx) }

func (p *c30Peer) Request(ctx context.Context, tag protocol.Tag, topics network.Topics) (*network.Response, error) {
	rb, ok := topics.GetValue(rpcs.RoundKey)
	if !ok || tag != protocol.UniEnsBlockReqTag {
		return nil, errors.New("c30: unexpected request")
	}
	round, n := binary.Uvarint(rb)
	if n <= 0 {
		return nil, errors.New("c30: bad round in request")
	}
	return p.env.fetch(ctx, p.idx, basics.Round(round))
}

func (p *c30Peer) Respond(ctx context.Context, reqMsg network.IncomingMessage, outMsg network.OutgoingMessage) error {
	return nil
}

type c30Net struct {
	mocks.MockNetwork
	peers []network.Peer
}

func (n *c30Net) GetPeers(options ...network.PeerOption) []network.Peer {
	for _, o := range options {
		if o == network.PeersConnectedOut {
			return n.peers
		}
	}
	return nil
}

// --- ledger

type c30Ledger struct{ e *c30Env }

func (l c30Ledger) last() basics.Round { return basics.Round(len(l.e.blocks) - 1) }

func (l c30Ledger) LastRound() basics.Round {
	l.e.mu.Lock()
	defer l.e.mu.Unlock()
	return l.last()
}

func (l c30Ledger) NextRound() basics.Round { return l.LastRound() + 1 }

func (l c30Ledger) Wait(r basics.Round) chan struct{} {
	l.e.mu.Lock()
	defer l.e.mu.Unlock()
	if r <= l.last() {
		c := make(chan struct{})
		close(c)
		return c
	}
	c, ok := l.e.waiters[r]
	if !ok {
		c = make(chan struct{})
		l.e.waiters[r] = c
	}
	return c
}

func (l c30Ledger) WaitMem(r basics.Round) chan struct{} { return l.Wait(r) }

// write records the call and models the real ledger: the next round is appended, an old round
// is BlockInLedgerError, a future round is ErrNonSequentialBlockEval.
func (l c30Ledger) write(via string, blk bookkeeping.Block, cert agreement.Certificate) error {
	l.e.mu.Lock()
	authOK := l.e.authAcc[int(blk.Round())] > 0
	l.e.mu.Unlock()
	if l.e.writeCh == nil {
		return l.doWrite(via, blk, cert, authOK)
	}
	// slow ledger: the write takes effect when the scheduler grants it to the "ledger" thread
	req := c30WriteReq{via: via, blk: blk, cert: cert, authOK: authOK, reply: make(chan error, 1)}
	select {
	case l.e.writeCh <- req:
	case <-l.e.abortCh:
		return errors.New("c30: execution aborted")
	}
	select {
	case err := <-req.reply:
		return err
	case <-l.e.abortCh:
		return errors.New("c30: execution aborted")
	}
}

func (l c30Ledger) doWrite(via string, blk bookkeeping.Block, cert agreement.Certificate, authOK bool) error {
	l.e.mu.Lock()
	defer l.e.mu.Unlock()
	last := l.last()
	r := blk.Round()
	l.e.writes = append(l.e.writes, c30Write{via: via, round: int(r), lastBefore: int(last), blk: blk, cert: cert, authOK: authOK})
	l.e.trace = append(l.e.trace, fmt.Sprintf("%s round %d (ledger at %d)", via, r, last))
	switch {
	case r == last+1:
		l.e.blocks = append(l.e.blocks, blk)
		for wr, c := range l.e.waiters {
			if wr <= r {
				close(c)
				delete(l.e.waiters, wr)
			}
		}
		return nil
	case r <= last:
		return ledgercore.BlockInLedgerError{LastRound: r, NextRound: last + 1}
	default:
		return ledgercore.ErrNonSequentialBlockEval{EvaluatorRound: r, LatestRound: last}
	}
}

func (l c30Ledger) AddBlock(blk bookkeeping.Block, cert agreement.Certificate) error {
	return l.write("AddBlock", blk, cert)
}

func (l c30Ledger) EnsureBlock(blk *bookkeeping.Block, cert agreement.Certificate) {
	_ = l.write("EnsureBlock", *blk, cert)
}

func (l c30Ledger) Validate(ctx context.Context, blk bookkeeping.Block, executionPool execpool.BacklogPool) (*ledgercore.ValidatedBlock, error) {
	l.e.mu.Lock()
	defer l.e.mu.Unlock()
	if last := l.last(); blk.Round() != last+1 {
		return nil, ledgercore.ErrNonSequentialBlockEval{EvaluatorRound: blk.Round(), LatestRound: last}
	}
	vb := ledgercore.MakeValidatedBlock(blk, ledgercore.StateDelta{})
	return &vb, nil
}

func (l c30Ledger) AddValidatedBlock(vb ledgercore.ValidatedBlock, cert agreement.Certificate) error {
	return l.write("AddValidatedBlock", vb.Block(), cert)
}

func (l c30Ledger) Block(r basics.Round) (bookkeeping.Block, error) {
	l.e.mu.Lock()
	defer l.e.mu.Unlock()
	if r > l.last() {
		return bookkeeping.Block{}, ledgercore.ErrNoEntry{Round: r, Latest: l.last(), Committed: l.last()}
	}
	return l.e.blocks[r], nil
}

func (l c30Ledger) BlockHdr(r basics.Round) (bookkeeping.BlockHeader, error) {
	b, err := l.Block(r)
	return b.BlockHeader, err
}

func (l c30Ledger) ConsensusParams(basics.Round) (config.ConsensusParams, error) { return l.e.ch.proto, nil }
func (l c30Ledger) ConsensusVersion(basics.Round) (protocol.ConsensusVersion, error) {
	return protocol.ConsensusCurrentVersion, nil
}
func (l c30Ledger) IsWritingCatchpointDataFile() bool { return false }
func (l c30Ledger) IsBehindCommittingDeltas() bool    { return false }
func (l c30Ledger) Seed(basics.Round) (committee.Seed, error) {
	return committee.Seed{}, errors.New("c30: not available")
}
func (l c30Ledger) LookupDigest(basics.Round) (crypto.Digest, error) {
	return crypto.Digest{}, errors.New("c30: not available")
}
func (l c30Ledger) LookupAgreement(basics.Round, basics.Address) (basics.OnlineAccountData, error) {
	return basics.OnlineAccountData{}, errors.New("c30: not available")
}
func (l c30Ledger) Circulation(basics.Round, basics.Round) (basics.MicroAlgos, error) {
	return basics.MicroAlgos{}, errors.New("c30: not available")
}

// --- authenticator

type c30Auth struct{ e *c30Env }

func (a c30Auth) Quit() {}

func (a c30Auth) Authenticate(blk *bookkeeping.Block, cert *agreement.Certificate) error {
	e := a.e
	r := int(blk.Round())
	e.mu.Lock()
	defer e.mu.Unlock()
	reject := func(why string) error {
		e.authRej++
		e.trace = append(e.trace, fmt.Sprintf("auth reject round %d: %s", r, why))
		return errors.New("c30Auth: " + why)
	}
	if r < 1 || r > e.ch.tip+1 {
		return reject("unknown round")
	}
	// the real certificate check needs the balances of round r-SeedLookback
	if need := basics.Round(r).SubSaturate(basics.Round(e.ch.proto.SeedLookback)); need > basics.Round(len(e.blocks)-1) {
		return reject("lookback round not in ledger")
	}
	if blk.Hash() != e.ch.hashes[r] {
		return reject("header is not the certified one")
	}
	if !bytes.Equal(protocol.Encode(cert), e.ch.certEnc[r]) {
		return reject("certificate is not genuine")
	}
	e.authAcc[r]++
	e.trace = append(e.trace, fmt.Sprintf("auth accept round %d", r))
	return nil
}

// ---------------------------------------------------------------------------------------------
// oracle

func (e *c30Env) checkWrites(needAuth bool) error {
	e.mu.Lock()
	defer e.mu.Unlock()
	fail := func(key, format string, a ...any) error {
		return ve.Violationf("C30:"+key, "script [%s]: %s; trace: %s", e.script, fmt.Sprintf(format, a...), strings.Join(e.trace, " | "))
	}
	for k, w := range e.writes {
		want := k + 1
		if w.round != want || w.lastBefore != want-1 {
			return fail("write-out-of-order", "ledger write #%d (%s) is for round %d with the ledger at round %d; expected round %d", k+1, w.via, w.round, w.lastBefore, want)
		}
		if w.round > e.ch.tip {
			return fail("write-beyond-tip", "ledger write #%d (%s) for round %d which no peer served", k+1, w.via, w.round)
		}
		if !w.blk.ContentsMatchHeader() {
			return fail("write-payset-mismatch", "%s wrote block %d whose payset does not match its header", w.via, w.round)
		}
		if !bytes.Equal(protocol.Encode(&w.blk), e.ch.blockEnc[w.round]) {
			return fail("write-non-genuine-block", "%s wrote a block for round %d that is not the genuine block", w.via, w.round)
		}
		if !bytes.Equal(protocol.Encode(&w.cert), e.ch.certEnc[w.round]) {
			return fail("write-non-genuine-cert", "%s wrote block %d with a certificate that is not the genuine certificate", w.via, w.round)
		}
		if needAuth && !w.authOK {
			return fail("write-unauthenticated", "%s wrote block %d before the authenticator accepted it", w.via, w.round)
		}
	}
	if e.beyond != 0 {
		return ve.Violationf("C30:harness-beyond-tip", "harness: %d requests beyond the tip", e.beyond)
	}
	return nil
}

// outcome is a coarse, schedule-independent description of an execution (evidence classes).
func (e *c30Env) outcome() string {
	e.mu.Lock()
	defer e.mu.Unlock()
	var at []string
	for r := 1; r <= e.ch.tip; r++ {
		at = append(at, fmt.Sprint(e.attempts[r]))
	}
	prog := "sync"
	if e.certProg {
		prog = "cert"
	}
	return fmt.Sprintf("%s height=%d attempts=%s authRej=%d", prog, len(e.blocks)-1, strings.Join(at, "/"), e.authRej)
}

// ---------------------------------------------------------------------------------------------
// programs

type c30Stats struct {
	mu        sync.Mutex
	outcomes  map[string]int
	reached   int64
	notReach  int64
	writes    int64
	authRej   int64
	requests  int64
	bothPeers bool
	stage     map[string]string // single-deviation sync scripts: menu entry -> where the service rejected it
}

func (st *c30Stats) add(e *c30Env) {
	o := e.outcome()
	st.mu.Lock()
	defer st.mu.Unlock()
	st.outcomes[o]++
	if len(e.blocks)-1 == e.target {
		st.reached++
	} else {
		st.notReach++
	}
	st.writes += int64(len(e.writes))
	st.authRej += int64(e.authRej)
	for _, n := range e.attempts {
		st.requests += int64(n)
	}
	if e.peersHit[0] > 0 && e.peersHit[1] > 0 {
		st.bothPeers = true
	}
	if !e.certProg && len(e.script) == 1 {
		where := "before the authenticator (fetch / decode / round check / payset check)"
		if e.authRej > 0 {
			where = "by the authenticator"
		}
		name := c30Menu[e.script[0].entry]
		if old, ok := st.stage[name]; ok && old != where {
			where = "MIXED"
		}
		st.stage[name] = where
	}
}

const c30Patience = 3 * time.Minute // virtual

func c30Logger() logging.Logger {
	l := logging.NewLogger()
	l.SetOutput(io.Discard)
	l.SetLevel(logging.Error)
	return l
}

func c30Config(mode string) config.Local {
	cfg := config.GetDefaultLocal()
	cfg.CatchupParallelBlocks = 3
	if mode == "val" {
		cfg.CatchupBlockValidateMode = 4 | 8 // verify transaction signatures + apply data: Validate + AddValidatedBlock
	}
	return cfg
}

// c30Harness wires one execution: svcBody runs on the managed thread "svc" and must return
// after Service.Stop(); abort is closed by cleanup when the engine gives up on an execution
// (virtual time stops once the bubble's root returns, so no wait of svcBody may depend on it then).
type c30Harness struct {
	e       *c30Env
	svc     *Service
	abort   chan struct{}
	started bool
	done    chan struct{}
	stopped bool
}

func c30NewHarness(s *ve.Sched, ch *c30Chain, script c30Script, cfg config.Local, slowLedger bool, pending <-chan PendingUnmatchedCertificate) *c30Harness {
	h := &c30Harness{e: c30NewEnv(s, ch, script, slowLedger), done: make(chan struct{})}
	h.abort = h.e.abortCh
	net := &c30Net{}
	net.peers = []network.Peer{&c30Peer{env: h.e, idx: 0}, &c30Peer{env: h.e, idx: 1}}
	h.svc = MakeService(c30Logger(), cfg, net, c30Ledger{h.e}, c30Auth{h.e}, pending, nil)
	return h
}

// waitRound waits (virtual time) until the ledger holds round r, the patience runs out or the
// execution is aborted.
func (h *c30Harness) waitRound(r int) {
	select {
	case <-(c30Ledger{h.e}).WaitMem(basics.Round(r)):
	case <-time.After(c30Patience):
	case <-h.abort:
	}
}

func (h *c30Harness) run(body func()) {
	h.e.startThreads(func() {
		h.started = true
		defer close(h.done)
		h.svc.Start()
		body()
		h.svc.Stop()
		h.stopped = true
		h.e.shutdown()
	})
}

func (h *c30Harness) cleanup() {
	close(h.abort)
	if h.started {
		if !h.stopped && h.svc.cancel != nil {
			h.svc.cancel()
		}
		<-h.done
	}
	h.e.shutdown()
	c30DebugDump()
}

func c30DebugDump() {
	if os.Getenv("C30_DEBUG") == "" {
		return
	}
	buf := make([]byte, 1<<22)
	n := runtime.Stack(buf, true)
	_ = os.WriteFile("/verif/.build/tmp/c30-stacks.txt", buf[:n], 0o644)
}

// c30SyncProgram: the service catches up rounds 1..tip.
func c30SyncProgram(ch *c30Chain, mode string, script c30Script, bound int, st *c30Stats, mustReach bool) *ve.SchedProgram {
	return &ve.SchedProgram{Name: "sync/" + mode + "/" + script.String(), PreemptionBound: bound,
		Setup: func(s *ve.Sched) (func() error, func()) {
			h := c30NewHarness(s, ch, script, c30Config(mode), mode == "addw", nil)
			e := h.e
			e.target = ch.tip
			if err := h.svc.SetDisableSyncRound(basics.Round(ch.tip + 1)); err != nil {
				panic(err)
			}
			h.run(func() {
				select {
				case <-h.svc.InitialSyncDone:
				case <-time.After(c30Patience): // still waiting is a legitimate state; stop the service and judge the writes
				case <-h.abort:
				}
				h.waitRound(ch.tip)
			})
			check := func() error {
				if !h.stopped {
					return ve.Violationf("C30:no-stop", "script [%s]: service did not stop", script)
				}
				if err := e.checkWrites(true); err != nil {
					return err
				}
				if mustReach && len(e.blocks)-1 != ch.tip {
					return ve.Violationf("C30:harness-all-genuine-stuck", "harness self-test: all-genuine script ended at height %d; trace: %s", len(e.blocks)-1, strings.Join(e.trace, " | "))
				}
				st.add(e)
				return nil
			}
			return check, h.cleanup
		}}
}

// c30CertProgram: agreement hands over certificates for rounds 1..rounds, one after the other;
// the service must fetch the matching block (syncCert -> fetchRound -> EnsureBlock).
func c30CertProgram(ch *c30Chain, rounds int, script c30Script, bound int, st *c30Stats) *ve.SchedProgram {
	return &ve.SchedProgram{Name: "cert/" + script.String(), PreemptionBound: bound,
		Setup: func(s *ve.Sched) (func() error, func()) {
			cfg := c30Config("add")
			cfg.CatchupParallelBlocks = 0 // no pipelined catch-up: only the certificate path
			pending := make(chan PendingUnmatchedCertificate)
			h := c30NewHarness(s, ch, script, cfg, false, pending)
			e := h.e
			e.certProg = true
			e.target = rounds
			h.run(func() {
				for r := 1; r <= rounds; r++ {
					select {
					case pending <- PendingUnmatchedCertificate{Cert: ch.certs[r]}:
					case <-h.abort:
						return
					}
					h.waitRound(r)
				}
			})
			check := func() error {
				if !h.stopped {
					return ve.Violationf("C30:no-stop", "script [%s]: service did not stop", script)
				}
				if err := e.checkWrites(false); err != nil {
					return err
				}
				for _, w := range e.writes {
					if w.via != "EnsureBlock" {
						return ve.Violationf("C30:harness-cert-path", "unexpected %s in the certificate program", w.via)
					}
				}
				st.add(e)
				return nil
			}
			return check, h.cleanup
		}}
}

// ---------------------------------------------------------------------------------------------

func TestVerif_C30(t *testing.T) {
	r := ve.NewRun("C30", "model_checking")
	tip := ve.Pick(4, 5)
	bound := ve.Pick(2, 3)
	ch := c30BuildChain(tip)
	if err := ch.selfCheck(); err != nil {
		t.Fatalf("harness: %v", err)
	}

	type job struct {
		fam  string
		prog func(st *c30Stats) *ve.SchedProgram
	}
	var jobs []job
	famCount := map[string]int{}
	addSyncOn := func(chain *c30Chain, fam, mode string, scripts []c30Script, bnd int) {
		for _, sc := range scripts {
			sc := sc
			jobs = append(jobs, job{fam, func(st *c30Stats) *ve.SchedProgram {
				return c30SyncProgram(chain, mode, sc, bnd, st, len(sc) == 0)
			}})
			famCount[fam]++
		}
	}
	addSync := func(fam, mode string, scripts []c30Script, bnd int) { addSyncOn(ch, fam, mode, scripts, bnd) }
	d0 := []c30Script{nil}
	// A fetchAndWrite that gives up (unsupported protocol) makes pipelinedFetch return; if that
	// round is neither the first nor the last one, pipelinedFetch launches further rounds and
	// cancels them at once, and whether such a request still reaches a peer is a race inside the
	// service's own (unmanaged) goroutines. Executions must be reproducible, so that entry is
	// placed at rounds 1 and tip only.
	syncAllowed := func(round, entry int) bool { return entry != c30UnsupportedProto || round == 1 || round == tip }
	d1 := c30Scripts(tip, 1, syncAllowed)
	d2 := c30Scripts(tip, 2, syncAllowed)
	addSync("sync-add-D0", "add", d0, bound)
	addSync("sync-add-D1", "add", d1, bound)
	addSync("sync-val-D0", "val", d0, bound)
	addSync("sync-val-D1", "val", d1, bound)
	addSync("sync-addw-D0", "addw", d0, bound)
	addSync("sync-addw-D1", "addw", d1, bound)
	addSync("sync-add-D2", "add", d2, bound)
	if ve.Thorough() {
		addSync("sync-val-D2", "val", d2, bound)
		// the slow-ledger mode multiplies the schedules per script: its D2 family runs on a 4-block chain
		ch4 := c30BuildChain(4)
		if err := ch4.selfCheck(); err != nil {
			t.Fatalf("harness: %v", err)
		}
		addSyncOn(ch4, "sync-addw-D2-tip4", "addw", c30Scripts(4, 2, func(round, entry int) bool {
			return entry != c30UnsupportedProto || round == 1 || round == 4
		}), bound)
	}
	certRounds := 2
	var certScripts []c30Script
	certScripts = append(certScripts, nil)
	for d := 1; d <= ve.Pick(2, 3); d++ {
		certScripts = append(certScripts, c30Scripts(certRounds, d, nil)...)
	}
	for _, sc := range certScripts {
		sc := sc
		jobs = append(jobs, job{"cert", func(st *c30Stats) *ve.SchedProgram { return c30CertProgram(ch, certRounds, sc, bound, st) }})
		famCount["cert"]++
	}

	st := &c30Stats{outcomes: map[string]int{}, stage: map[string]string{}}
	var cmu sync.Mutex
	var cov ve.Coverage
	famExec := map[string]int64{}
	famSched := map[string]int64{}
	maxPoints := 0
	allExh := true
	r.ParallelFor(len(jobs), func(i int) {
		j := jobs[i]
		res := ve.ExploreSchedules(t, r, j.prog(st))
		cmu.Lock()
		cov.AddSched(res)
		famExec[j.fam] += res.Executions
		famSched[j.fam] += int64(res.Outcomes)
		if res.MaxPoints > maxPoints {
			maxPoints = res.MaxPoints
		}
		if !res.Exhaustive {
			allExh = false
		}
		cmu.Unlock()
	})

	var fams []string
	for f := range famCount {
		fams = append(fams, f)
	}
	sort.Strings(fams)
	for _, f := range fams {
		r.Set("family_"+f, map[string]int64{"scripts": int64(famCount[f]), "executions": famExec[f], "distinct_schedules": famSched[f]})
		t.Logf("family %-12s scripts=%d executions=%d distinct_schedules=%d", f, famCount[f], famExec[f], famSched[f])
	}
	var outs []string
	for o := range st.outcomes {
		outs = append(outs, o)
		r.Class("outcome/" + o)
	}
	sort.Strings(outs)
	r.Set("scripts", len(jobs))
	r.Set("outcome_classes", len(outs))
	r.Set("outcomes", st.outcomes)
	r.Set("rejected_where", st.stage)
	r.Set("executions_reaching_tip", st.reached)
	r.Set("executions_not_reaching_tip", st.notReach)
	r.Set("ledger_writes_checked", st.writes)
	r.Set("authenticator_rejections", st.authRej)
	r.Set("peer_requests_answered", st.requests)
	r.Set("max_points_per_execution", maxPoints)
	r.Set("both_peers_asked", st.bothPeers)
	r.Set("menu", c30Menu[:])
	t.Logf("scripts=%d executions=%d points=%d distinct_schedules=%d outcomes=%d reached=%d notReached=%d writes=%d authRej=%d requests=%d maxPoints=%d",
		len(jobs), cov.Traces, cov.Transitions, cov.States, len(outs), st.reached, st.notReach, st.writes, st.authRej, st.requests, maxPoints)
	r.Assume("BlockAuthenticator is a harness stand-in accepting exactly the genuine (header hash, certificate) pairs; certificate cryptography is C03/C04")
	r.Assume("Ledger is a harness stand-in with the real ledger's sequencing answers (BlockInLedgerError / ErrNonSequentialBlockEval); catchup is the only writer")
	r.Assume("the peer asked for an attempt is chosen by the real peer selector (crypto/rand); answers depend on (round, attempt) only")
	r.Assume("service goroutines run to quiescence between two released responses (unmanaged by E-SCHED)")
	cov.Rule = fmt.Sprintf("real catchup.Service in an E-SCHED bubble; chain tip %d; every script with <= 2 non-genuine peer answers (cert path <= %d) over the reachable (round, attempt) positions x %d-entry menu; per script every completion order of outstanding requests, preemption bound %d",
		tip, ve.Pick(2, 3), c30MenuSize, bound)
	cov.Exhaustive = allExh
	if n := r.Finish(cov); n > 0 {
		t.Fatalf("%d violation(s)", n)
	}
}
