package agreement

// E-AGR, part 2: reflection helpers.
//
//  * eagrDeepCopy: an encode-independent deep copy of (player, rootRouter). It copies every field,
//    exported or not, so a copy is the same state as the original including everything the
//    persistence format omits. The lazily created listener wrappers of the routers (proposalRoot /
//    voteRoot, which hold interior pointers into the router structs) are left nil in the copy;
//    router.update() re-creates them on the next dispatch exactly as it does after decode().
//  * eagrDiff: structural comparison of two values over all fields (exported or not) with a skip
//    list; nil and empty maps/slices are equal. Used by the C07 oracle to compare a live state
//    with its decode(encode()) image independently of the encoder.

import (
	"fmt"
	"reflect"
	"sync"
	"unsafe"

	"github.com/algorand/go-algorand/data/bookkeeping"
)

var eagrPlainCache sync.Map // reflect.Type -> bool

// eagrCopier deep-copies values; fields listed in zero ("Type.field") are left at their zero value
// in the copy (used to build the "ephemeral fields cleared" image of a state for C07).
type eagrCopier struct {
	zero      map[string]string
	plainMemo sync.Map // reflect.Type -> bool: plain AND free of zero-listed fields
}

var eagrPlainCopier = &eagrCopier{}

// eagrCopyCtx is the state of one deep-copy operation: the memory regions (source object -> its copy)
// allocated so far. A pointer that points INTO an already copied object (the routers' listener
// wrappers hold such interior pointers: checkedListener{listener: &router.VoteTracker, ...}) is
// remapped to the same offset inside the copy, so a copied router keeps its listeners bound to its
// own fields exactly as the original has them (and a router whose listeners are nil - a state that
// came out of decode() - keeps them nil).
type eagrCopyCtx struct {
	regions []eagrRegion
}

type eagrRegion struct {
	src, dst unsafe.Pointer
	size     uintptr
}

func (x *eagrCopyCtx) add(src, dst unsafe.Pointer, size uintptr) {
	x.regions = append(x.regions, eagrRegion{src, dst, size})
}

func (x *eagrCopyCtx) remap(p unsafe.Pointer) (unsafe.Pointer, bool) {
	for _, r := range x.regions {
		if uintptr(p) >= uintptr(r.src) && uintptr(p) < uintptr(r.src)+r.size {
			return unsafe.Add(r.dst, uintptr(p)-uintptr(r.src)), true
		}
	}
	return nil, false
}

// fast reports whether values of type t can be copied by assignment by this copier.
func (c *eagrCopier) fast(t reflect.Type) bool {
	if !eagrPlain(t) {
		return false
	}
	if len(c.zero) == 0 {
		return true
	}
	if v, ok := c.plainMemo.Load(t); ok {
		return v.(bool)
	}
	res := true
	switch t.Kind() {
	case reflect.Array:
		res = c.fast(t.Elem())
	case reflect.Struct:
		for i := 0; i < t.NumField(); i++ {
			if _, z := c.zero[t.Name()+"."+t.Field(i).Name]; z || !c.fast(t.Field(i).Type) {
				res = false
				break
			}
		}
	}
	c.plainMemo.Store(t, res)
	return res
}

// eagrPlain reports whether values of type t contain no pointers, maps, slices, interfaces, chans,
// funcs or strings-with-sharing concerns (strings are immutable, treated as plain).
func eagrPlain(t reflect.Type) bool {
	if v, ok := eagrPlainCache.Load(t); ok {
		return v.(bool)
	}
	var res bool
	switch t.Kind() {
	case reflect.Bool, reflect.Int, reflect.Int8, reflect.Int16, reflect.Int32, reflect.Int64,
		reflect.Uint, reflect.Uint8, reflect.Uint16, reflect.Uint32, reflect.Uint64, reflect.Uintptr,
		reflect.Float32, reflect.Float64, reflect.Complex64, reflect.Complex128, reflect.String:
		res = true
	case reflect.Array:
		res = eagrPlain(t.Elem())
	case reflect.Struct:
		res = true
		for i := 0; i < t.NumField(); i++ {
			if !eagrPlain(t.Field(i).Type) {
				res = false
				break
			}
		}
	default:
		res = false
	}
	eagrPlainCache.Store(t, res)
	return res
}

// eagrShared lists types whose values are immutable in the explorers and therefore shared, not copied.
func eagrShared(t reflect.Type) bool {
	return t == eagrBlockType
}

var eagrBlockType = reflect.TypeOf(bookkeeping.Block{})

// eagrRW returns an addressable, writable view of field i of the addressable struct value v.
func eagrRW(v reflect.Value, i int) reflect.Value {
	f := v.Field(i)
	return reflect.NewAt(f.Type(), unsafe.Pointer(f.UnsafeAddr())).Elem()
}

// copyValue copies src into dst. Both must be addressable and writable.
func (c *eagrCopier) copyValue(x *eagrCopyCtx, dst, src reflect.Value) {
	t := src.Type()
	if c.fast(t) || eagrShared(t) {
		dst.Set(src)
		return
	}
	switch t.Kind() {
	case reflect.Ptr:
		if src.IsNil() {
			dst.Set(reflect.Zero(t))
			return
		}
		if q, ok := x.remap(src.UnsafePointer()); ok {
			dst.Set(reflect.NewAt(t.Elem(), q)) // interior pointer into an object copied in this operation
			return
		}
		n := reflect.New(t.Elem())
		if sz := t.Elem().Size(); sz > 0 {
			x.add(src.UnsafePointer(), n.UnsafePointer(), sz)
		}
		c.copyValue(x, n.Elem(), src.Elem())
		dst.Set(n)
	case reflect.Interface:
		if src.IsNil() {
			dst.Set(reflect.Zero(t))
			return
		}
		el := src.Elem()
		et := el.Type()
		if et.Kind() == reflect.Chan || et.Kind() == reflect.Func || et.PkgPath() != "github.com/algorand/go-algorand/agreement" && et.Kind() != reflect.Ptr && eagrPlain(et) {
			dst.Set(src)
			return
		}
		if et.Kind() == reflect.Ptr && et.Elem().PkgPath() != "github.com/algorand/go-algorand/agreement" {
			dst.Set(src) // foreign pointer (e.g. a validated block): immutable, shared
			return
		}
		ts := reflect.New(et).Elem()
		ts.Set(el)
		td := reflect.New(et).Elem()
		c.copyValue(x, td, ts)
		dst.Set(td)
	case reflect.Struct:
		for i := 0; i < t.NumField(); i++ {
			if _, z := c.zero[t.Name()+"."+t.Field(i).Name]; z {
				continue
			}
			c.copyValue(x, eagrRW(dst, i), eagrRW(src, i))
		}
	case reflect.Map:
		if src.IsNil() {
			dst.Set(reflect.Zero(t))
			return
		}
		m := reflect.MakeMapWithSize(t, src.Len())
		it := src.MapRange()
		plainVal := c.fast(t.Elem())
		for it.Next() {
			if plainVal {
				m.SetMapIndex(it.Key(), it.Value())
				continue
			}
			ts := reflect.New(t.Elem()).Elem()
			ts.Set(it.Value())
			td := reflect.New(t.Elem()).Elem()
			c.copyValue(x, td, ts)
			m.SetMapIndex(it.Key(), td)
		}
		dst.Set(m)
	case reflect.Slice:
		if src.IsNil() {
			dst.Set(reflect.Zero(t))
			return
		}
		s := reflect.MakeSlice(t, src.Len(), src.Len())
		if c.fast(t.Elem()) {
			reflect.Copy(s, src)
		} else {
			for i := 0; i < src.Len(); i++ {
				c.copyValue(x, s.Index(i), src.Index(i))
			}
		}
		dst.Set(s)
	case reflect.Array:
		for i := 0; i < src.Len(); i++ {
			c.copyValue(x, dst.Index(i), src.Index(i))
		}
	default: // chan, func, unsafe pointer: shared
		dst.Set(src)
	}
}

// eagrCopyState returns a deep copy of a (player, rootRouter) pair. The router's root actor is
// rebuilt around a copy of the player, as makeRootRouter does.
func eagrCopyState(p *player, rr *rootRouter) (player, rootRouter) {
	return eagrPlainCopier.copyState(p, rr)
}

func (c *eagrCopier) copyState(p *player, rr *rootRouter) (player, rootRouter) {
	x := &eagrCopyCtx{}
	var p2 player
	c.copyValue(x, reflect.ValueOf(&p2).Elem(), reflect.ValueOf(p).Elem())
	res := new(rootRouter)
	*res = makeRootRouter(p2)
	d := reflect.ValueOf(res).Elem()
	s := reflect.ValueOf(rr).Elem()
	t := s.Type()
	for i := 0; i < t.NumField(); i++ {
		switch t.Field(i).Name {
		case "root":
			continue // rebuilt around the copied player, as makeRootRouter does
		case "proposalRoot", "voteRoot":
			// the rootRouter itself is held by value (as in Service.mainLoop); its two listeners wrap
			// the field-less proposalManager / voteAggregator and are re-bound by update()
			continue
		}
		c.copyValue(x, eagrRW(d, i), eagrRW(s, i))
	}
	return p2, *res
}

// eagrDiffOpts configures eagrDiff.
type eagrDiffOpts struct {
	skip map[string]string // "Type.field" -> reason (documented as not persisted)
	memo sync.Map          // reflect.Type -> bool: comparable with == (plain, comparable, no skipped field inside)
}

func (o *eagrDiffOpts) fast(t reflect.Type) bool {
	if v, ok := o.memo.Load(t); ok {
		return v.(bool)
	}
	res := eagrPlain(t) && t.Comparable() && o.noSkip(t)
	o.memo.Store(t, res)
	return res
}

func (o *eagrDiffOpts) noSkip(t reflect.Type) bool {
	switch t.Kind() {
	case reflect.Array:
		return o.noSkip(t.Elem())
	case reflect.Struct:
		for i := 0; i < t.NumField(); i++ {
			if _, z := o.skip[t.Name()+"."+t.Field(i).Name]; z || !o.noSkip(t.Field(i).Type) {
				return false
			}
		}
	}
	return true
}

// eagrDiff returns "" if a and b (values of the same type) are structurally equal over all fields
// not in the skip list (nil and empty maps/slices are equal), else a description of a difference.
func eagrDiff(path string, a, b reflect.Value, o *eagrDiffOpts) string {
	t := a.Type()
	if t != b.Type() {
		return fmt.Sprintf("%s: type %v vs %v", path, t, b.Type())
	}
	if o.fast(t) {
		if !a.Equal(b) {
			return fmt.Sprintf("%s: %v vs %v", path, eagrShort(a), eagrShort(b))
		}
		return ""
	}
	switch t.Kind() {
	case reflect.Ptr:
		if a.IsNil() || b.IsNil() {
			if a.IsNil() != b.IsNil() {
				return fmt.Sprintf("%s: nil-ness differs (%v vs %v)", path, a.IsNil(), b.IsNil())
			}
			return ""
		}
		return eagrDiff(path, a.Elem(), b.Elem(), o)
	case reflect.Interface:
		if a.IsNil() || b.IsNil() {
			if a.IsNil() != b.IsNil() {
				return fmt.Sprintf("%s: nil-ness differs (%v vs %v)", path, a.IsNil(), b.IsNil())
			}
			return ""
		}
		ea, eb := a.Elem(), b.Elem()
		if ea.Type() != eb.Type() {
			return fmt.Sprintf("%s: dynamic type %v vs %v", path, ea.Type(), eb.Type())
		}
		return eagrDiff(path, eagrAddr(ea), eagrAddr(eb), o)
	case reflect.Struct:
		if !a.CanAddr() {
			a = eagrAddr(a)
		}
		if !b.CanAddr() {
			b = eagrAddr(b)
		}
		for i := 0; i < t.NumField(); i++ {
			name := t.Name() + "." + t.Field(i).Name
			if _, ok := o.skip[name]; ok {
				continue
			}
			if d := eagrDiff(path+"."+t.Field(i).Name, eagrRW(a, i), eagrRW(b, i), o); d != "" {
				return d
			}
		}
		return ""
	case reflect.Map:
		if a.Len() != b.Len() {
			return fmt.Sprintf("%s: map length %d vs %d", path, a.Len(), b.Len())
		}
		it := a.MapRange()
		for it.Next() {
			k := it.Key()
			vb := b.MapIndex(k)
			if !vb.IsValid() {
				return fmt.Sprintf("%s[%v]: missing on the right", path, eagrShort(k))
			}
			if d := eagrDiff(fmt.Sprintf("%s[%v]", path, eagrShortKey(k)), it.Value(), vb, o); d != "" {
				return d
			}
		}
		return ""
	case reflect.Slice, reflect.Array:
		if a.Len() != b.Len() {
			return fmt.Sprintf("%s: length %d vs %d", path, a.Len(), b.Len())
		}
		for i := 0; i < a.Len(); i++ {
			if d := eagrDiff(fmt.Sprintf("%s[%d]", path, i), a.Index(i), b.Index(i), o); d != "" {
				return d
			}
		}
		return ""
	case reflect.Chan, reflect.Func, reflect.UnsafePointer:
		return ""
	default:
		if t.Comparable() && !a.Equal(b) {
			return fmt.Sprintf("%s: %v vs %v", path, eagrShort(a), eagrShort(b))
		}
		return ""
	}
}

// eagrAddr returns an addressable copy of v.
func eagrAddr(v reflect.Value) reflect.Value {
	x := reflect.New(v.Type()).Elem()
	x.Set(v)
	return x
}

func eagrShortKey(v reflect.Value) string {
	switch v.Kind() {
	case reflect.Uint, reflect.Uint64, reflect.Uint32, reflect.Int, reflect.Int64:
		return fmt.Sprint(v)
	}
	return "…"
}

func eagrShort(v reflect.Value) string {
	s := fmt.Sprintf("%v", v)
	if len(s) > 60 {
		s = s[:60] + "…"
	}
	return s
}
