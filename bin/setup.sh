#!/bin/bash
# Offline setup: build the libsodium fork into /verif/.build/sodium (hand-compiled,
# no autotools) and warm the Go build cache for every harness package.
set -euo pipefail
V=/verif
B=$V/.build
SRC=/repo/crypto/libsodium-fork/src/libsodium
OUT=$B/sodium
mkdir -p "$B" "$B/tmp"

build_sodium() {
  rm -rf "$OUT" "$B/sodium-obj"
  mkdir -p "$OUT/lib" "$OUT/include/sodium" "$B/sodium-obj"
  cp -r "$SRC/include/sodium.h" "$OUT/include/"
  cp -r "$SRC/include/sodium/." "$OUT/include/sodium/"
  sed -e 's/@VERSION@/1.0.17/' -e 's/@SODIUM_LIBRARY_VERSION_MAJOR@/10/' \
      -e 's/@SODIUM_LIBRARY_VERSION_MINOR@/2/' -e 's/@SODIUM_LIBRARY_MINIMAL_DEF@//' \
      "$SRC/include/sodium/version.h.in" > "$OUT/include/sodium/version.h"
  rm -f "$OUT/include/sodium/version.h.in"
  local CFLAGS="-O2 -fPIC -std=gnu99 -w -DCONFIGURED=1 -DNATIVE_LITTLE_ENDIAN=1 -DHAVE_TI_MODE=1 -DHAVE_GETRANDOM=1 -DHAVE_SYS_RANDOM_H=1 -DHAVE_WEAK_SYMBOLS=1 -DHAVE_EXPLICIT_BZERO=1 -DHAVE_POSIX_MEMALIGN=1 -DHAVE_MMAP=1 -DHAVE_MPROTECT=1 -DHAVE_MLOCK=1 -DHAVE_MADVISE=1 -DHAVE_NANOSLEEP=1 -DHAVE_GETPID=1 -DHAVE_INLINE_ASM=1 -D_GNU_SOURCE"
  local i=0
  find "$SRC" -name '*.c' | sort > "$B/sodium-obj/files.txt"
  while read -r f; do
    i=$((i+1))
    echo "gcc $CFLAGS -I$OUT/include/sodium -I$SRC/include/sodium -I$(dirname "$f") -c $f -o $B/sodium-obj/o$i.o"
  done < "$B/sodium-obj/files.txt" | xargs -P 16 -I{} sh -c '{}'
  ar rcs "$OUT/lib/libsodium.a" "$B"/sodium-obj/o*.o
  rm -rf "$B/sodium-obj"
}

if [ ! -f "$OUT/lib/libsodium.a" ]; then
  echo "[setup] building libsodium fork"
  build_sodium
fi
echo "[setup] libsodium: $(ls -la $OUT/lib/libsodium.a)"

# warm the build cache: compile every harness test binary once (no tests run)
if [ "${VERIF_SETUP_NOWARM:-0}" != 1 ]; then
  echo "[setup] warming Go build cache"
  "$V/bin/vcheck" --warm || echo "[setup] warm build reported errors (checks will rebuild on demand)"
fi
echo "[setup] done"
