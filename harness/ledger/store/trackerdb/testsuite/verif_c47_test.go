package testsuite

// C47 — Ledger storage backends give identical answers.
//
// Engine E-SEQ, differential: two real trackerdb.Store instances, sqlitedriver (in-memory
// SQLite, migrated by the real RunMigrations) and pebbledbdriver (generickv over in-memory
// Pebble), receive the same write batches through the trackerdb Writer interfaces inside one
// store.Transaction per batch (the way ledger/tracker.go commits a round). After EVERY batch
// the read sweep of the exploration is executed on both stores and compared.
//
// One E-SEQ exploration per table group, so that the bound is reached in each
// (depth = batches per sequence, quick / thorough):
//   roundparams (4/5): AccountsPutOnlineRoundParams(1|2 rounds), AccountsPruneOnlineRoundParams(3 points), round
//   stateproofs (4/5): StoreSPContexts(1|2), DeleteOldSPContexts(2 points), round
//   txtail      (3/4): TxtailNewRound(1|2 rounds x 3 forget points), UpdateAccountsRound(+1, same, lower)
//   totals      (3/4): AccountsPutTotals(2 values x live/staging), UpdateAccountsHashRound(2), round(+1, lower)
//   accounts    (3/4): Insert/Update/DeleteAccount (A,B), Insert/Update/DeleteResource (asset #1 and
//                      app #2; holding / params+holding / params-only), Insert/DeleteCreatable, round
//   online      (3/3): InsertOnlineAccount (A,B; stake 1M, 2M, offline entry [, late expiry]; new round or
//                      the round of the previous insert), OnlineAccountsDelete(forgetBefore: 2[3] points), round
//   kv          (3/3): UpsertKvPair/DeleteKvPair over {"a","a\x00","a\xff","ab","b","\xff","\xff\xff"} with
//                      values {"1",""[,"22"]}, round
//   mixed       (2/3): one representative write per table (16 writes), sweep of all groups
// A batch is one write or an ordered pair of writes of the group (all pairs for the small
// groups; same entity / same key / neighbouring keys / insert+delete combinations for accounts,
// kv and online — see c47harnesses). States are merged by the canonical raw dump of all
// SQLite tables (including rowids) plus the raw Pebble key space.
//
// Read sweep (per group; every call on both stores): LookupAccount, LookupAccountRowID,
// LookupAccountAddressFromAddressID, LookupAllResources, LookupResources (right and wrong
// creatable type, absent index), LookupResourceDataByAddrID, LookupCreator, Total*;
// LookupKeyValue, LookupKeysByPrefix (11 prefixes x 3 limits + prefilled result maps),
// LookupKeysByPrefixCursor (11 prefixes x 5-8 cursors x 3-5 limits, maxBytes, includeValues,
// exclude); LookupOnline (every round), LookupOnlineHistory, LookupOnlineAccountDataByAddress,
// OnlineAccountsAll (4 limits), AccountsOnlineTop (every round x 3 offsets x 4 n),
// ExpiredOnlineAccountsForRound, LookupOnlineRoundParams, AccountsOnlineRoundParams;
// AccountsRound, AccountsHashRound, AccountsTotals, LoadTxTail, LookupSPContext, GetAllSPContexts.
//
// Caller contract assumed for the alphabet (writes outside it are not generated): rows are
// inserted only when absent and updated/deleted only when present, with the AccountRef
// obtained from LookupAccountRowID/InsertAccount; an account is deleted only when it has no
// resources; a creatable index has one type for life; online updrounds per address grow;
// OnlineAccountsDelete in the same transaction as an insert uses forgetBefore <= that
// insert's round; tx tail / round params / state-proof rounds are appended contiguously;
// LookupKeysByPrefix is called with resultCount < maxKeyNum (ledger/acctupdates.go).
//
// Oracle: every read returns equal results on both backends — values (msgpack encoding of
// the returned structures), rounds, order, more-data flags, nil-ness of values and Ref
// handles, error-ness — ignoring only the backend-private content of Ref handles; results
// accompanying an error are not compared; nil and empty slices are identified. Write
// results (error-ness, rowsAffected, nil-ness of returned refs, transaction error) are
// compared as well, and after every batch the logical content of the two stores (decoded from
// the raw dumps) must be the same. Keys: "C47:<read method>:<field that differs>[:<who
// deviates from the documented semantics>]", "C47:<write method>:error-ness|rows-affected",
// "C47:<write method>:stored-<table>" (the stores hold different rows after that write; such a
// state is not expanded further).
// Supplementary, SQLite only, because the KV backend does not implement them:
// LookupLimitedResources against the documented pagination semantics (ids strictly greater
// than the cursor, ascending, at most max, creator params merged), and the catchpoint
// iterators MakeKVsIter / MakeOrderedOnlineAccountsIter / MakeOnlineRoundParamsIter against
// the stored rows ("C47:<method>:sqlite-vs-expected:<aspect>").
//
// Not covered: methods the KV backend does not implement (probed at run time and listed in the
// evidence assumptions), MakeEncodedAccountsBatchIter / MakeOrderedAccountsIter / pending-hash
// iterators and catchpoint staging tables, crash behaviour, concurrent transactions, writes
// violating the caller contract above.
//
// Snapshot shape (accounts, kv, online: every transition out of a state of depth < 2; txtail,
// mixed: depth < 1): store.Snapshot is opened on the Pebble store before the batch, the batch
// is committed while it is open, and the whole sweep is read THROUGH the snapshot; every read
// must equal the one taken on the same store just before the batch ("C47:Snapshot:<method>:
// <field>"). SQLite is not held in an open read snapshot (an in-memory shared-cache reader
// blocks the writer); its pre-batch sweep is its snapshot view, already compared with Pebble's.
//
// Successor computation: a frontier state is rebuilt by replaying its batches on freshly
// opened stores; the successors of that state are then produced on the same pair of stores,
// restoring the raw content of both (all SQLite rows including rowids, all Pebble keys)
// between operations (stores are re-opened every 40 operations where the alphabet leaves
// Pebble range tombstones). When a state reached that way is later expanded, its fresh replay
// must reproduce the recorded raw dump (checked; a mismatch makes the run INCONCLUSIVE, never
// a verdict). The read sweep of a state is executed once per distinct raw dump.
//
// Mutants (bin/mut, quick tier, all DETECTED):
//   sqlitedriver/accountsV2.go  AccountsOnlineTop "ORDER BY normalizedonlinebalance DESC, address DESC" -> without address
//   sqlitedriver/sql.go         LookupLimitedResources "r.aidx > ?" -> ">="
//   sqlitedriver/sql.go         LookupKeysByPrefix "kvstore.key < ?" -> "<="
//   sqlitedriver/sql.go         DeleteResource "aidx = ?" -> "aidx >= ?"            (needs two resources, then a delete)
//   generickv/accounts_ext_writer.go AccountsPruneOnlineRoundParams(deleteBeforeRound) -> +1
//   generickv/schema.go         onlineAccountLatestRangePrefix without the inclusive bound
//   generickv/accounts_reader.go keyPrefixIntervalPreprocessing upper bound prefix+0xff (misses
//                               0xff-suffixed keys): DETECTED on a tree with the candidate fix
//                               findings/C47-backend-disagreements/kv-prefix-scan-candidate-fix.patch;
//                               on the unchanged tree the generickv prefix scan finds no key at all
//                               (known finding R2), which hides this mutant.

import (
	"context"
	"fmt"
	"os"
	"sort"
	"strconv"
	"strings"
	"sync"
	"sync/atomic"
	"testing"
	"time"

	"github.com/algorand/go-algorand/data/basics"
	"github.com/algorand/go-algorand/ledger/store/trackerdb"
	ve "github.com/algorand/go-algorand/verifeng"
)

// c47harness is one exploration (alphabet + sweep).
type c47harness struct {
	idx          int
	name         string
	singles      []c47w
	batches      [][]c47w
	sweep        func(k *c47sink, rd *c47readers, s *c47sys)
	limited      bool // run the LookupLimitedResources expectation check
	rangeDeletes bool // alphabet contains writes that leave range tombstones in Pebble
	depth        int  // batches per sequence
	snapDepth    int  // the snapshot shape is run for every transition out of a state of depth < snapDepth
	// SQLite-only catchpoint iterators checked against the stored rows
	iterKV, iterOnline, iterOrp bool
	run                         *c47run
}

type c47witness struct {
	hidx    int
	harness string
	ops     []int
	names   []string
	what    string
}

// c47run is the per-test shared state.
type c47run struct {
	r *ve.Run

	mu        sync.Mutex
	classes   map[string]c47witness
	sweptKeys map[string]struct{}
	pathKey   map[string]string // ops path -> key recorded when the state was first produced by restore
	inconcl   []string

	sweeps, reads, batches, restores, validated, refreshes, snapshotSweeps atomic.Int64
}

type c47sys struct {
	h     *c47harness
	p     *c47pair
	owner bool // owns p (base or fresh instance); clones share it
	m     c47model
	path  []int

	// base bookkeeping for Clone
	baseDump *c47dump
	dirty    bool
	uses     int
	curDump  *c47dump
	pre      *c47sink // Pebble sweep of this (base) state, for the snapshot shape
	dead     bool     // backends diverged on a write: not expanded further
	parent   *c47sys
}

func c47pathString(ops []int) string {
	var b strings.Builder
	for _, o := range ops {
		fmt.Fprintf(&b, "%d,", o)
	}
	return b.String()
}

func (h *c47harness) opName(op int) string {
	b := h.batches[op]
	parts := make([]string, len(b))
	for i, w := range b {
		parts[i] = w.String()
	}
	return "[" + strings.Join(parts, "; ") + "]"
}

func (h *c47harness) names(ops []int) []string {
	out := make([]string, len(ops))
	for i, o := range ops {
		out[i] = h.opName(o)
	}
	return out
}

// disagree records a disagreement class (shortest, then lexicographically least witness).
func (s *c47sys) disagree(key, what string) {
	run := s.h.run
	run.mu.Lock()
	defer run.mu.Unlock()
	w, ok := run.classes[key]
	ops := append([]int{}, s.path...)
	if ok && (len(w.ops) < len(ops) || (len(w.ops) == len(ops) && (w.hidx < s.h.idx || (w.hidx == s.h.idx && !c47less(ops, w.ops))))) {
		return
	}
	run.classes[key] = c47witness{hidx: s.h.idx, harness: s.h.name, ops: ops, names: s.h.names(ops), what: what}
}

func c47less(a, b []int) bool {
	for i := 0; i < len(a) && i < len(b); i++ {
		if a[i] != b[i] {
			return a[i] < b[i]
		}
	}
	return len(a) < len(b)
}

func (run *c47run) inconclusive(format string, a ...any) {
	run.mu.Lock()
	if len(run.inconcl) < 10 {
		run.inconcl = append(run.inconcl, fmt.Sprintf(format, a...))
	}
	run.mu.Unlock()
	run.r.Capped()
}

func (h *c47harness) newSys() *c47sys {
	p, err := c47openPair()
	if err != nil {
		panic(fmt.Sprintf("c47 harness: cannot open stores: %v", err))
	}
	return &c47sys{h: h, p: p, owner: true, m: c47newModel()}
}

func (h *c47harness) closeSys(s *c47sys) {
	if s.owner && s.p != nil {
		s.p.close()
		s.p = nil
	}
}

// clone: the successors of one frontier state are computed on the same pair of stores.
func (h *c47harness) cloneSys(base *c47sys) *c47sys {
	run := h.run
	if base.dead {
		return &c47sys{h: h, p: base.p, dead: true, parent: base}
	}
	if base.baseDump == nil {
		d, err := base.p.dump(true)
		if err != nil {
			panic(fmt.Sprintf("c47 harness: dump failed: %v", err))
		}
		base.baseDump = d
		base.curDump = d
		// validation of restore-produced states against this fresh replay
		ps := c47pathString(base.path)
		run.mu.Lock()
		want, ok := run.pathKey[ps]
		delete(run.pathKey, ps)
		run.mu.Unlock()
		if ok {
			run.validated.Add(1)
			if want != c47keyOf(d) {
				run.inconclusive("INCONCLUSIVE %s: state reached by restore differs from its fresh replay after %v", h.name, h.names(base.path))
			}
		}
	}
	base.uses++
	if h.rangeDeletes && base.uses%c47refreshEvery == 0 {
		// Pebble keeps every range tombstone of the batches tried so far in its memtable; start
		// again from freshly opened stores to keep successor computation cheap
		h.refresh(base)
	}
	if base.dirty {
		if err := base.p.restore(base.baseDump, base.curDump); err != nil {
			panic(fmt.Sprintf("c47 harness: restore failed: %v", err))
		}
		run.restores.Add(1)
		base.curDump = base.baseDump
		base.dirty = false
	}
	c := &c47sys{h: h, p: base.p, m: base.m, path: append([]int{}, base.path...), parent: base}
	return c
}

const c47refreshEvery = 40

// refresh replaces the stores of a base state by freshly opened ones with the same history.
func (h *c47harness) refresh(base *c47sys) {
	p, err := c47openPair()
	if err != nil {
		panic(fmt.Sprintf("c47 harness: cannot open stores: %v", err))
	}
	m := c47newModel()
	for _, op := range base.path {
		prev := m
		var cws []c47cw
		for _, w := range h.batches[op] {
			cws = append(cws, m.apply(w))
		}
		_, txS, _ := c47exec(p.rd[0], p.proto.RewardUnit, cws)
		c47exec(p.rd[1], p.proto.RewardUnit, cws)
		if txS != "" {
			m = prev
		}
	}
	d, err := p.dump(true)
	if err != nil {
		panic(fmt.Sprintf("c47 harness: dump failed: %v", err))
	}
	if d.text != base.baseDump.text {
		h.run.inconclusive("INCONCLUSIVE %s: re-opened replay of %v differs from the first replay", h.name, h.names(base.path))
	}
	base.p.close()
	base.p = p
	base.baseDump, base.curDump, base.dirty = d, d, false
	h.run.refreshes.Add(1)
}

func c47keyOf(d *c47dump) string { return ve.HashKey([]byte(d.text)) }

func (h *c47harness) key(s *c47sys) string {
	if s.curDump == nil {
		d, err := s.p.dump(true)
		if err != nil {
			panic(fmt.Sprintf("c47 harness: dump failed: %v", err))
		}
		s.curDump = d
	}
	// the bookkeeping counters that drive future arguments are part of the state
	k := c47keyOf(s.curDump) + fmt.Sprintf("|c%d,%v,%d,%d", s.m.onClock, s.m.onLast, s.m.tailNext, s.m.spNext)
	if s.parent != nil {
		s.parent.curDump = s.curDump
		if len(s.path) < h.maxDepth() {
			run := h.run
			run.mu.Lock()
			run.pathKey[c47pathString(s.path)] = c47keyOf(s.curDump)
			run.mu.Unlock()
		}
	}
	return k
}

var c47depth = 3

func (h *c47harness) maxDepth() int { return h.depth }

// apply performs one batch on both backends, compares the write outcomes and runs the
// read sweep (once per distinct raw dump).
func (h *c47harness) apply(s *c47sys, op int) (bool, error) {
	if s.dead {
		return false, nil
	}
	batch := h.batches[op]
	prev := s.m
	m := s.m
	var cws []c47cw
	for i, w := range batch {
		if !m.enabled(w) {
			return false, nil
		}
		cw := m.apply(w)
		// same-transaction contract: forgetBefore never exceeds the round of an online insert of the batch
		if w.k == c47wOnDel && i > 0 && batch[0].k == c47wOnIns && cw.r1 > cws[0].r1 {
			return false, nil
		}
		if w.k == c47wOnIns && i > 0 && batch[0].k == c47wOnDel && cws[0].r1 > cw.r1 {
			return false, nil
		}
		cws = append(cws, cw)
	}
	if s.parent != nil {
		s.parent.dirty = true
	}
	s.m = m
	s.path = append(s.path, op)
	s.curDump = nil
	h.run.batches.Add(1)

	// snapshot shape: a store.Snapshot is opened on the Pebble store BEFORE the batch, the batch
	// is committed while it is open, and the sweep is then run THROUGH the snapshot: it must
	// equal the sweep taken on the same store just before the batch
	var snapRd *c47readers
	var snapClose func()
	var pre *c47sink
	if h.snapDepth > 0 && len(s.path)-1 < h.snapDepth {
		pre = h.preSweep(s, prev)
		snapRd, snapClose = c47openSnapshot(s.p.kv)
	}

	ru := s.p.proto.RewardUnit
	resS, txS, panS := c47exec(s.p.rd[0], ru, cws)
	resK, txK, panK := c47exec(s.p.rd[1], ru, cws)
	if snapRd != nil {
		var through c47sink
		tmp := *s
		tmp.m = prev
		h.sweep(&through, snapRd, &tmp)
		snapClose()
		h.run.snapshotSweeps.Add(1)
		if len(through.obs) != len(pre.obs) {
			h.run.inconclusive("INCONCLUSIVE %s: snapshot sweep shapes differ (%d vs %d reads)", h.name, len(through.obs), len(pre.obs))
		} else {
			for i := range pre.obs {
				a, b := &pre.obs[i], &through.obs[i]
				if aspect, av, bv := c47compare(a, b); aspect != "" {
					s.disagree("C47:Snapshot:"+a.method+":"+aspect, fmt.Sprintf("Pebble store.Snapshot opened before batch %s, batch committed, then %s(%s) read through the snapshot: %s differs from the read taken just before the batch: before=%q through-snapshot=%q", h.opName(op), a.method, a.args, aspect, c47clip(av), c47clip(bv)))
				}
			}
		}
	}
	diverged := false
	if (panS != "") != (panK != "") {
		s.disagree("C47:"+c47kindName[batch[0].k]+":panic", fmt.Sprintf("batch %s: sqlite panic=%q pebble panic=%q", h.opName(op), panS, panK))
		diverged = true
	}
	for i := range cws {
		a, b := resS[i], resK[i]
		name := c47kindName[cws[i].w.k]
		switch {
		case a.done != b.done:
			// a consequence of an earlier error-ness difference, already recorded
			diverged = true
		case !a.done:
		case (a.err != "") != (b.err != ""):
			s.disagree("C47:"+name+":error-ness", fmt.Sprintf("write %s in batch %s: sqlite err=%q pebble err=%q", cws[i].w, h.opName(op), a.err, b.err))
			diverged = true
		case a.err != "":
		case a.rows != b.rows:
			s.disagree("C47:"+name+":rows-affected", fmt.Sprintf("write %s in batch %s: sqlite rowsAffected=%d pebble rowsAffected=%d", cws[i].w, h.opName(op), a.rows, b.rows))
		case a.hasRef && a.refNil != b.refNil:
			s.disagree("C47:"+name+":ref-nil", fmt.Sprintf("write %s: sqlite ref nil=%v pebble ref nil=%v", cws[i].w, a.refNil, b.refNil))
		}
	}
	if (txS != "") != (txK != "") && !diverged {
		s.disagree("C47:Transaction:error-ness", fmt.Sprintf("batch %s: sqlite tx err=%q pebble tx err=%q", h.opName(op), txS, txK))
		diverged = true
	}
	if diverged {
		// the two stores no longer hold the same logical content; comparing reads further
		// would only restate the recorded write disagreement
		s.dead = true
		return true, nil
	}
	if txS != "" {
		// both refused the batch: state unchanged on both, model must not advance
		s.m = prev
	}
	d, err := s.p.dump(true)
	if err != nil {
		panic(fmt.Sprintf("c47 harness: dump failed: %v", err))
	}
	s.curDump = d
	if table, sq, kv := c47storedDiff(s.p, d); table != "" {
		// attribute to the first write of the batch that targets the table
		kind := batch[0].k
		for _, t := range c47logicalTables {
			if t.name != table {
				continue
			}
		search:
			for _, w := range batch {
				for _, k := range t.kinds {
					if w.k == k {
						kind = w.k
						break search
					}
				}
			}
		}
		if len(batch) == 2 && s.parent != nil && s.parent.baseDump != nil {
			// which of the two writes made the contents diverge? redo the first one alone
			if err := s.p.restore(s.parent.baseDump, d); err == nil {
				c47exec(s.p.rd[0], ru, cws[:1])
				c47exec(s.p.rd[1], ru, cws[:1])
				if d1, err := s.p.dump(true); err == nil {
					if t1, _, _ := c47storedDiff(s.p, d1); t1 != "" {
						kind = batch[0].k
					} else {
						kind = batch[1].k
					}
					s.curDump = d1 // what the stores hold now (the parent restores from it)
				}
			}
		}
		s.disagree("C47:"+c47kindName[kind]+":stored-"+table, fmt.Sprintf("after batch %s the stored %s differ: sqlite={%s} pebble={%s}", h.opName(op), table, c47clip(strings.ReplaceAll(sq, "\n", " | ")), c47clip(strings.ReplaceAll(kv, "\n", " | "))))
		s.dead = true
		return true, nil
	}
	h.sweepAndCompare(s)
	return true, nil
}

// preSweep is the sweep of the Pebble store in the state before the batch (computed once per
// expanded state: every successor starts from the restored base content).
func (h *c47harness) preSweep(s *c47sys, prev c47model) *c47sink {
	if s.parent != nil && s.parent.pre != nil {
		return s.parent.pre
	}
	var k c47sink
	tmp := *s
	tmp.m = prev
	h.sweep(&k, s.p.rd[1], &tmp)
	if s.parent != nil {
		s.parent.pre = &k
	}
	return &k
}

// c47openSnapshot opens a read snapshot on a store and builds the readers of the sweep on it.
func c47openSnapshot(st trackerdb.Store) (*c47readers, func()) {
	snap, err := st.BeginSnapshot(context.Background())
	if err != nil {
		panic(fmt.Sprintf("c47 harness: BeginSnapshot: %v", err))
	}
	r := &c47readers{name: "pebble-snapshot"}
	if r.ar, err = snap.MakeAccountsOptimizedReader(); err != nil {
		panic(fmt.Sprintf("c47 harness: snapshot reader: %v", err))
	}
	if r.arx, err = snap.MakeAccountsReader(); err != nil {
		panic(fmt.Sprintf("c47 harness: snapshot reader: %v", err))
	}
	if r.oar, err = snap.MakeOnlineAccountsOptimizedReader(); err != nil {
		panic(fmt.Sprintf("c47 harness: snapshot reader: %v", err))
	}
	r.spr = snap.MakeSpVerificationCtxReader()
	return r, func() {
		r.ar.Close()
		r.oar.Close()
		snap.Close()
	}
}

func (h *c47harness) sweepAndCompare(s *c47sys) {
	run := h.run
	d := s.curDump
	key := h.name + "/" + c47keyOf(d) + fmt.Sprintf("|%d,%d,%d,%d,%d,%d", s.m.onClock, s.m.orpHi, s.m.tailNext, s.m.spLo, s.m.spNext, s.m.round)
	run.mu.Lock()
	_, done := run.sweptKeys[key]
	if !done {
		run.sweptKeys[key] = struct{}{}
	}
	run.mu.Unlock()
	if done {
		return
	}
	run.sweeps.Add(1)
	var ks, kk c47sink
	h.sweep(&ks, s.p.rd[0], s)
	h.sweep(&kk, s.p.rd[1], s)
	run.reads.Add(int64(len(ks.obs)))
	if len(ks.obs) != len(kk.obs) {
		run.inconclusive("INCONCLUSIVE %s: sweep shapes differ (%d vs %d reads)", h.name, len(ks.obs), len(kk.obs))
		return
	}
	for i := range ks.obs {
		a, b := &ks.obs[i], &kk.obs[i]
		if aspect, av, bv := c47compare(a, b); aspect != "" {
			who, exp := "", ""
			if a.expect != nil {
				e := c47obs{method: a.method, args: a.args}
				e.add("err", "")
				if a.expect(&e) {
					okS, _, _ := c47compare(a, &e)
					okK, _, _ := c47compare(b, &e)
					switch {
					case okS == "" && okK != "":
						who = ":pebble-deviates"
					case okS != "" && okK == "":
						who = ":sqlite-deviates"
					default:
						who = ":both-deviate"
					}
					exp = " | documented semantics: " + c47clip(e.String())
				}
			}
			s.disagree("C47:"+a.method+":"+aspect+who, fmt.Sprintf("%s(%s): %s differs: sqlite=%q pebble=%q  [sqlite: %s | pebble: %s%s]", a.method, a.args, aspect, c47clip(av), c47clip(bv), c47clip(a.String()), c47clip(b.String()), exp))
		}
	}
	if h.limited {
		h.checkLimited(s)
	}
	h.checkIterators(s)
}

// checkIterators: the catchpoint-generation iterators exist on the SQLite backend only (the
// generickv ones panic "unimplemented"), so they are compared with the stored rows of the raw
// dump: MakeKVsIter must yield exactly the kv pairs (no order is documented: compared as a
// set), MakeOrderedOnlineAccountsIter every online row ordered by (address, updround) as its
// interface comment says, MakeOnlineRoundParamsIter every round in ascending order.
func (h *c47harness) checkIterators(s *c47sys) {
	ctx := context.Background()
	d := s.curDump
	tabRows := func(name string) (*c47table, [][]any) {
		for i := range s.p.tabs {
			if s.p.tabs[i].name == name {
				return &s.p.tabs[i], d.sqRows[i]
			}
		}
		return nil, nil
	}
	report := func(iter, aspect, got, want string) {
		s.disagree("C47:"+iter+":sqlite-vs-expected:"+aspect, fmt.Sprintf("%s on sqlite: %s: got %q, stored rows give %q", iter, aspect, c47clip(got), c47clip(want)))
	}
	guard := func(iter string, f func()) {
		defer func() {
			if r := recover(); r != nil {
				report(iter, "panic", fmt.Sprint(r), "")
			}
		}()
		f()
	}
	if t, rows := tabRows("kvstore"); t != nil && h.iterKV {
		guard("MakeKVsIter", func() {
			ik, iv := c47colIndex(t, "key"), c47colIndex(t, "value")
			var want, got []string
			for _, r := range rows {
				want = append(want, fmt.Sprintf("%x=%x", c47bytes(r[ik]), c47bytes(r[iv])))
			}
			it, err := s.p.sq.MakeKVsIter(ctx)
			if err != nil {
				report("MakeKVsIter", "error-ness", err.Error(), "")
				return
			}
			defer it.Close()
			for it.Next() {
				k, v, err := it.KeyValue()
				if err != nil {
					report("MakeKVsIter", "error-ness", err.Error(), "")
					return
				}
				got = append(got, fmt.Sprintf("%x=%x", k, v))
			}
			sort.Strings(want)
			sort.Strings(got)
			if strings.Join(got, ";") != strings.Join(want, ";") {
				report("MakeKVsIter", "pairs", strings.Join(got, ";"), strings.Join(want, ";"))
			}
		})
	}
	if rows, ok := s.onlineRows(); ok && h.iterOnline {
		guard("MakeOrderedOnlineAccountsIter", func() {
			sort.Slice(rows, func(i, j int) bool {
				if rows[i].addr != rows[j].addr {
					return string(rows[i].addr[:]) < string(rows[j].addr[:])
				}
				return rows[i].upd < rows[j].upd
			})
			var want, got []string
			for _, r := range rows {
				want = append(want, fmt.Sprintf("%x@%d norm=%d data=%x", r.addr[:1], r.upd, r.norm, r.data))
			}
			it, err := s.p.sq.MakeOrderedOnlineAccountsIter(ctx, false, 0)
			if err != nil {
				report("MakeOrderedOnlineAccountsIter", "error-ness", err.Error(), "")
				return
			}
			defer it.Close()
			for it.Next() {
				rec, err := it.GetItem()
				if err != nil {
					report("MakeOrderedOnlineAccountsIter", "error-ness", err.Error(), "")
					return
				}
				got = append(got, fmt.Sprintf("%x@%d norm=%d data=%x", rec.Address[:1], rec.UpdateRound, rec.NormalizedOnlineBalance, []byte(rec.Data)))
			}
			if strings.Join(got, ";") != strings.Join(want, ";") {
				sg, sw := append([]string{}, got...), append([]string{}, want...)
				sort.Strings(sg)
				sort.Strings(sw)
				aspect := "rows"
				if strings.Join(sg, ";") == strings.Join(sw, ";") {
					aspect = "order"
				}
				report("MakeOrderedOnlineAccountsIter", aspect, strings.Join(got, ";"), strings.Join(want, ";"))
			}
		})
	}
	if t, rows := tabRows("onlineroundparamstail"); t != nil && h.iterOrp {
		guard("MakeOnlineRoundParamsIter", func() {
			ir, id := c47colIndex(t, "rnd"), c47colIndex(t, "data")
			var want, got []string
			for _, r := range rows { // the dump is ordered by the integer primary key
				want = append(want, fmt.Sprintf("%d=%x", c47int(r[ir]), c47bytes(r[id])))
			}
			it, err := s.p.sq.MakeOnlineRoundParamsIter(ctx, false, 0)
			if err != nil {
				report("MakeOnlineRoundParamsIter", "error-ness", err.Error(), "")
				return
			}
			defer it.Close()
			for it.Next() {
				rec, err := it.GetItem()
				if err != nil {
					report("MakeOnlineRoundParamsIter", "error-ness", err.Error(), "")
					return
				}
				got = append(got, fmt.Sprintf("%d=%x", rec.Round, []byte(rec.Data)))
			}
			if strings.Join(got, ";") != strings.Join(want, ";") {
				report("MakeOnlineRoundParamsIter", "rows", strings.Join(got, ";"), strings.Join(want, ";"))
			}
		})
	}
}

// onlineRows decodes the stored online-account rows from the raw SQLite dump.
func (s *c47sys) onlineRows() ([]c47onRow, bool) {
	d := s.curDump
	if d == nil {
		return nil, false
	}
	for i := range s.p.tabs {
		t := &s.p.tabs[i]
		if t.name != "onlineaccounts" {
			continue
		}
		ia, iu, id, in := c47colIndex(t, "address"), c47colIndex(t, "updround"), c47colIndex(t, "data"), c47colIndex(t, "normalizedonlinebalance")
		if ia < 0 || iu < 0 || id < 0 || in < 0 {
			return nil, false
		}
		var out []c47onRow
		for _, r := range d.sqRows[i] {
			row := c47onRow{upd: uint64(c47int(r[iu])), norm: uint64(c47int(r[in])), data: c47bytes(r[id])}
			copy(row.addr[:], c47bytes(r[ia]))
			out = append(out, row)
		}
		return out, true
	}
	return nil, false
}

func c47clip(s string) string {
	s = strings.ReplaceAll(s, "\x1e", " ; ")
	if len(s) > 300 {
		return s[:300] + "…"
	}
	return s
}

// checkLimited: SQLite's LookupLimitedResources against the documented semantics.
func (h *c47harness) checkLimited(s *c47sys) {
	var k c47sink
	c47sweepLimited(&k, s.p.rd[0], c47nAddr)
	i := 0
	for a := 0; a < c47nAddr; a++ {
		for _, c := range c47limitedCalls() {
			o := &k.obs[i]
			i++
			ct := []basics.CreatableType{basics.AssetCreatable, basics.AppCreatable}[c[2]]
			exp := c47obs{method: o.method, args: o.args}
			exp.add("err", "")
			var items []trackerdb.PersistedResourcesDataWithCreator
			if s.m.acct[a] >= 0 {
				for slot := 0; slot < c47nAidx && len(items) < c[1]; slot++ {
					v := s.m.res[a][slot]
					if v < 0 || c47ctype[slot] != ct || int(c47aidx[slot]) <= c[0] {
						continue
					}
					data := c47resData(int8(slot), v)
					var creator basics.Address
					if cr := s.m.crt[slot]; cr >= 0 && s.m.acct[cr] >= 0 && s.m.res[cr][slot] >= 0 {
						// the creator's row carries the params; the holder's holding fields and flags are laid over it
						cd := c47resData(int8(slot), s.m.res[cr][slot])
						if ct == basics.AssetCreatable {
							cd.Amount, cd.Frozen = data.Amount, data.Frozen
						} else {
							cd.SchemaNumUint, cd.SchemaNumByteSlice, cd.KeyValue = data.SchemaNumUint, data.SchemaNumByteSlice, data.KeyValue
						}
						cd.ResourceFlags = data.ResourceFlags
						data = cd
						creator = c47addrs[cr]
					}
					pd := trackerdb.PersistedResourcesDataWithCreator{
						PersistedResourcesData: trackerdb.PersistedResourcesData{AcctRef: c47dummyRef{}, Aidx: c47aidx[slot], Data: data, Round: basics.Round(s.m.round)},
						Creator:                creator,
					}
					items = append(items, pd)
				}
			}
			rnd := uint64(0)
			if len(items) > 0 {
				rnd = s.m.round
			}
			exp.addf("round", "%d", rnd)
			c47limLists(&exp, items)
			if aspect, av, bv := c47compare(o, &exp); aspect != "" {
				s.disagree("C47:LookupLimitedResources:sqlite-vs-expected:"+aspect, fmt.Sprintf("LookupLimitedResources(%s) on sqlite: %s: got %q, documented semantics give %q", o.args, aspect, c47clip(av), c47clip(bv)))
			}
		}
	}
}

type c47dummyRef struct{}

func (c47dummyRef) AccountRefMarker() {}
func (c47dummyRef) String() string    { return "dummy" }

// ---- alphabets --------------------------------------------------------------------------

func c47pairs(singles []c47w, ok func(a, b c47w) bool) [][]c47w {
	var out [][]c47w
	for _, w := range singles {
		out = append(out, []c47w{w})
	}
	for _, a := range singles {
		for _, b := range singles {
			if a == b {
				continue
			}
			if ok != nil && !ok(a, b) {
				continue
			}
			out = append(out, []c47w{a, b})
		}
	}
	return out
}

func c47harnesses(run *c47run) []*c47harness {
	thorough := ve.Thorough()
	var hs []*c47harness
	round := c47w{k: c47wRound, i: 0}
	isRound := func(w c47w) bool { return w.k == c47wRound }
	add := func(h *c47harness, ok func(a, b c47w) bool) {
		h.run = run
		h.batches = c47pairs(h.singles, ok)
		if h.depth == 0 {
			h.depth = c47depth
		}
		hs = append(hs, h)
	}

	// accounts / resources / creatables
	{
		nA := 2
		nI := 2
		var s []c47w
		for a := 0; a < nA; a++ {
			s = append(s, c47w{k: c47wInsAcct, a: int8(a), v: int8(a % 2)}, c47w{k: c47wUpdAcct, a: int8(a), v: int8((a + 1) % 2)}, c47w{k: c47wDelAcct, a: int8(a)})
			for i := 0; i < nI; i++ {
				// A holds, B owns (creator)
				v0 := int8(0)
				if a == 1 {
					v0 = 1
				}
				s = append(s, c47w{k: c47wInsRes, a: int8(a), i: int8(i), v: v0}, c47w{k: c47wUpdRes, a: int8(a), i: int8(i), v: 1 - v0}, c47w{k: c47wDelRes, a: int8(a), i: int8(i)})
				if a == 1 && i == 0 {
					s = append(s, c47w{k: c47wUpdRes, a: int8(a), i: int8(i), v: 2}) // params only (not holding)
				}
			}
		}
		for i := 0; i < nI; i++ {
			s = append(s, c47w{k: c47wInsCrt, a: 1, i: int8(i)}, c47w{k: c47wDelCrt, i: int8(i)})
		}
		s = append(s, round)
		h := &c47harness{name: "accounts", singles: s, limited: true, snapDepth: 2}
		h.sweep = func(k *c47sink, rd *c47readers, s *c47sys) { c47sweepAccounts(k, rd, c47nAddr) }
		add(h, func(a, b c47w) bool {
			// pairs: same address, or creatable + resource of the same slot, or anything with the round
			if isRound(a) || isRound(b) {
				return true
			}
			isCrt := func(w c47w) bool { return w.k == c47wInsCrt || w.k == c47wDelCrt }
			if isCrt(a) || isCrt(b) {
				return a.i == b.i || (isCrt(a) && isCrt(b))
			}
			return a.a == b.a || (a.k == c47wInsAcct && b.k == c47wInsAcct)
		})
	}
	// application kv
	{
		var s []c47w
		nV := ve.Pick(2, 3)
		for i := 0; i < c47nKeys; i++ {
			for v := 0; v < nV; v++ {
				s = append(s, c47w{k: c47wKvPut, i: int8(i), v: int8(v)})
			}
			s = append(s, c47w{k: c47wKvDel, i: int8(i)})
		}
		s = append(s, round)
		h := &c47harness{name: "kv", singles: s, depth: 3, iterKV: true, snapDepth: 2}
		h.sweep = func(k *c47sink, rd *c47readers, s *c47sys) {
			k.read("AccountsRound", "", func(o *c47obs) error {
				r, err := rd.arx.AccountsRound()
				o.addf("round", "%d", r)
				return err
			})
			c47sweepKV(k, rd, &s.m, thorough)
		}
		add(h, func(a, b c47w) bool {
			if isRound(a) || isRound(b) {
				return false // the round is a single-write batch only
			}
			if a.i == b.i {
				return true // same key: both orders (put/put, put/delete, delete/put)
			}
			// different keys: writes commute, one order, neighbouring (prefix-sharing) keys
			return b.i == a.i+1
		})
	}
	// online accounts
	{
		var s []c47w
		nA := 2
		for a := 0; a < nA; a++ {
			for _, v := range ve.Pick([]int8{0, 1, 2}, []int8{0, 1, 2, 3}) {
				s = append(s, c47w{k: c47wOnIns, a: int8(a), v: v, i: 0})
			}
		}
		// "same round as the previous insert" only for the second account
		for _, v := range ve.Pick([]int8{0, 2}, []int8{0, 1, 2}) {
			s = append(s, c47w{k: c47wOnIns, a: 1, v: v, i: 1})
		}
		for i := 0; i < ve.Pick(2, 3); i++ {
			s = append(s, c47w{k: c47wOnDel, i: int8(i)})
		}
		s = append(s, round)
		h := &c47harness{name: "online", singles: s, rangeDeletes: true, depth: 3, iterOnline: true, snapDepth: 2}
		h.sweep = func(k *c47sink, rd *c47readers, s *c47sys) {
			c47sweepOnline(k, rd, nA, s.m.onClock, s.m.orpHi, s.p.proto.RewardUnit, s.onlineRows)
		}
		add(h, func(a, b c47w) bool {
			// pairs: insert followed by {delete, round, same-round insert of the other account}, delete followed by insert
			switch {
			case a.k == c47wOnIns && (b.k == c47wOnDel || isRound(b) || (b.k == c47wOnIns && b.i == 1 && b.a != a.a)):
				return true
			case a.k == c47wOnDel && b.k == c47wOnIns && b.i == 0:
				return true
			}
			return false
		})
	}
	// online round params
	{
		s := []c47w{{k: c47wOrpPut, v: 1}, {k: c47wOrpPut, v: 2}, {k: c47wOrpPrune, i: 0}, {k: c47wOrpPrune, i: 1}, {k: c47wOrpPrune, i: 2}, round}
		h := &c47harness{name: "roundparams", singles: s, rangeDeletes: true, depth: c47depth + 1, iterOrp: true}
		h.sweep = func(k *c47sink, rd *c47readers, s *c47sys) {
			c47sweepRound(k, rd)
			c47sweepRoundParams(k, rd, s.m.orpHi)
		}
		add(h, nil)
	}
	// tx tail + round
	{
		var s []c47w
		for _, n := range []int8{1, 2} {
			for i := int8(0); i < 3; i++ {
				s = append(s, c47w{k: c47wTailNew, v: n, i: i})
			}
		}
		s = append(s, round, c47w{k: c47wRound, i: 1}, c47w{k: c47wRound, i: 2})
		h := &c47harness{name: "txtail", singles: s, rangeDeletes: true, snapDepth: 1}
		h.sweep = func(k *c47sink, rd *c47readers, s *c47sys) { c47sweepTails(k, rd, &s.m, true, false, false) }
		add(h, nil)
	}
	// totals, hash round, round
	{
		s := []c47w{{k: c47wTotals, v: 0, i: 0}, {k: c47wTotals, v: 1, i: 0}, {k: c47wTotals, v: 1, i: 1}, {k: c47wTotals, v: 0, i: 1},
			{k: c47wHashRound, i: 0}, {k: c47wHashRound, i: 1}, round, {k: c47wRound, i: 2}}
		h := &c47harness{name: "totals", singles: s}
		h.sweep = func(k *c47sink, rd *c47readers, s *c47sys) { c47sweepTails(k, rd, &s.m, false, true, false) }
		add(h, nil)
	}
	// state proof verification contexts
	{
		s := []c47w{{k: c47wSpStore, v: 1}, {k: c47wSpStore, v: 2}, {k: c47wSpDel, i: 0}, {k: c47wSpDel, i: 1}, round}
		h := &c47harness{name: "stateproofs", singles: s, rangeDeletes: true, depth: c47depth + 1}
		h.sweep = func(k *c47sink, rd *c47readers, s *c47sys) { c47sweepTails(k, rd, &s.m, false, false, true) }
		add(h, nil)
	}
	// mixed: one representative per table, every sweep
	{
		s := []c47w{
			{k: c47wInsAcct, a: 0, v: 0}, {k: c47wDelAcct, a: 0},
			{k: c47wInsRes, a: 0, i: 0, v: 0}, {k: c47wDelRes, a: 0, i: 0},
			{k: c47wInsCrt, a: 0, i: 0},
			{k: c47wKvPut, i: 1, v: 0}, {k: c47wKvPut, i: 5, v: 1}, {k: c47wKvDel, i: 1},
			{k: c47wOnIns, a: 0, v: 0, i: 0}, {k: c47wOnIns, a: 1, v: 0, i: 1}, {k: c47wOnDel, i: 1},
			{k: c47wTailNew, v: 1, i: 1}, {k: c47wTotals, v: 1, i: 0}, {k: c47wOrpPut, v: 1}, {k: c47wSpStore, v: 1},
			round,
		}
		h := &c47harness{name: "mixed", singles: s, limited: true, rangeDeletes: true, depth: c47depth - 1, iterKV: true, iterOnline: true, iterOrp: true, snapDepth: 1}
		mixedPairs := func(a, b c47w) bool { return !thorough || isRound(a) || isRound(b) }
		h.sweep = func(k *c47sink, rd *c47readers, s *c47sys) {
			c47sweepAccounts(k, rd, 2)
			c47sweepKV(k, rd, &s.m, false)
			c47sweepOnline(k, rd, 2, s.m.onClock, s.m.orpHi, s.p.proto.RewardUnit, s.onlineRows)
			c47sweepTails(k, rd, &s.m, true, true, true)
		}
		add(h, mixedPairs)
	}
	// smallest explorations first, so that a run stopped by the time budget has covered most groups
	order := map[string]int{"roundparams": 0, "stateproofs": 1, "txtail": 2, "totals": 3, "mixed": 4, "accounts": 5, "online": 6, "kv": 7}
	sort.SliceStable(hs, func(i, j int) bool { return order[hs[i].name] < order[hs[j].name] })
	return hs
}

// ---- the test -----------------------------------------------------------------------------

func TestVerif_C47(t *testing.T) {
	r := ve.NewRun("C47", "model_checking")
	c47depth = ve.Pick(3, 4)
	if d, err := strconv.Atoi(os.Getenv("C47_DEPTH")); err == nil && d > 0 { // development aid
		c47depth = d
	}
	run := &c47run{r: r, classes: map[string]c47witness{}, sweptKeys: map[string]struct{}{}, pathKey: map[string]string{}}
	c47probeUnimplemented(r)
	r.Assume("caller contract for writes: insert only when absent, update/delete only when present with refs from LookupAccountRowID/InsertAccount, accounts deleted only without resources, one creatable type per index, growing online updrounds, forgetBefore <= round of an online insert in the same transaction, contiguous tx tail / round params / state proof rounds")
	r.Assume("both stores are opened in memory and migrated with the real RunMigrations (no genesis accounts); one store.Transaction per batch")
	r.Assume("results accompanying an error are not compared; nil and empty slices are identified; Ref handles are compared for nil-ness only")
	r.Assume("snapshot shape (accounts, kv, online groups, every transition out of a state of depth < 2; txtail and mixed depth < 1): store.Snapshot is opened on the Pebble store before the batch and the sweep is read through it after the commit; the SQLite side is not held open in a read snapshot because an in-memory shared-cache reader holds table locks that block the writer: its view 'before the batch' is the sweep taken before the batch, which the regular oracle already compares with Pebble's")
	r.Assume("successors are computed by restoring the raw content of both stores; every expanded state is re-created by replay on freshly opened stores and its raw dump compared with the restored one")

	var cov ve.Coverage
	cov.Exhaustive = true
	cov.Rule = fmt.Sprintf("E-SEQ differential sqlitedriver vs pebbledbdriver/generickv: every sequence of <= %d write batches (1-2 writes) per table-group alphabet, full read sweep after every batch", c47depth)
	hs := c47harnesses(run)
	if only := os.Getenv("C47_ONLY"); only != "" { // development aid
		var sel []*c47harness
		for _, h := range hs {
			if strings.Contains(","+only+",", ","+h.name+",") {
				sel = append(sel, h)
			}
		}
		hs = sel
		cov.Exhaustive = false
	}
	var useClone bool
	{
		p, err := c47openPair()
		if err != nil {
			t.Fatalf("HARNESS-FAILURE cannot open stores: %v", err)
		}
		useClone = p.kvraw != nil
		p.close()
	}
	if !useClone {
		r.Note("raw Pebble access path not available: successors computed by fresh replay, state key = SQLite dump only")
	}
	for i, h := range hs {
		h := h
		h.idx = i
		q := &ve.Seq[*c47sys]{
			Name:     "c47-" + h.name,
			NumOps:   len(h.batches),
			OpName:   h.opName,
			New:      h.newSys,
			Close:    h.closeSys,
			Apply:    h.apply,
			Key:      h.key,
			MaxDepth: h.depth,
		}
		if useClone {
			q.Clone = h.cloneSys
		}
		t0 := time.Now()
		res := q.Explore(r)
		fmt.Printf("C47-HARNESS %s: depth<=%d batches=%d states=%d transitions=%d depth=%d exhaustive=%v sweeps=%d wall=%.1fs\n", h.name, h.depth, len(h.batches), res.States, res.Transitions, res.DepthCompleted, res.Exhaustive, run.sweeps.Load(), time.Since(t0).Seconds())
		cov.AddSeq(res)
		if !res.Exhaustive {
			cov.Exhaustive = false
		}
		r.Set("harness_"+h.name, fmt.Sprintf("%d writes, %d batches, depth<=%d: %d states, %d transitions", len(h.singles), len(h.batches), h.depth, res.States, res.Transitions))
		if r.OutOfTime() {
			cov.Exhaustive = false
			r.Note("time budget exhausted after harness %s", h.name)
			break
		}
	}
	r.Set("read_sweeps", run.sweeps.Load())
	r.Set("reads_compared", run.reads.Load())
	r.Set("batches_executed", run.batches.Load())
	r.Set("snapshot_shape_sweeps", run.snapshotSweeps.Load())
	r.Set("restores", run.restores.Load())
	r.Set("base_reopens", run.refreshes.Load())
	r.Set("restored_states_validated_by_fresh_replay", run.validated.Load())
	for _, s := range run.inconcl {
		fmt.Println(s)
		r.Note("%s", s)
	}
	keys := make([]string, 0, len(run.classes))
	for k := range run.classes {
		keys = append(keys, k)
	}
	sort.Strings(keys)
	for _, k := range keys {
		w := run.classes[k]
		fmt.Printf("C47-CLASS %s  harness=%s ops=%v\n    %s\n", k, w.harness, w.names, w.what)
		r.Report(k, fmt.Sprintf("[c47-%s] after batches %v: %s", w.harness, w.names, w.what),
			map[string]any{"engine": "seq", "harness": "c47-" + w.harness, "ops": w.ops, "op_names": w.names})
	}
	r.Set("disagreement_classes", keys)
	if n := r.Finish(cov); n > 0 {
		t.Fatalf("C47: %d disagreement class(es)", n)
	}
}

// c47probeUnimplemented calls, on the Pebble/generickv backend, every interface method the
// harness excludes from the differential oracle and records how it refuses (panic
// "unimplemented" / error "not supported"); the list goes to the evidence assumptions.
func c47probeUnimplemented(r *ve.Run) {
	p, err := c47openPair()
	if err != nil {
		r.Note("probe: cannot open stores: %v", err)
		return
	}
	defer p.close()
	ctx := context.Background()
	kv := p.kv
	probe := func(name string, f func() error) {
		outcome := ""
		func() {
			defer func() {
				if x := recover(); x != nil {
					outcome = fmt.Sprintf("panics %q", fmt.Sprint(x))
				}
			}()
			if err := f(); err != nil {
				outcome = fmt.Sprintf("returns error %q", err.Error())
			}
		}()
		if outcome == "" {
			r.Note("NOW IMPLEMENTED on the KV backend (extend the C47 sweep): %s", name)
			return
		}
		r.Assume("excluded from the differential oracle: " + name + " — the generickv backend " + outcome)
	}
	probe("AccountsReader.LookupLimitedResources", func() error {
		_, _, err := p.rd[1].ar.LookupLimitedResources(c47addrs[0], 0, 1, basics.AssetCreatable)
		return err
	})
	probe("Reader.MakeCatchpointPendingHashesIterator", func() error { kv.MakeCatchpointPendingHashesIterator(1); return nil })
	probe("Reader.MakeCatchpointReader", func() error { _, err := kv.MakeCatchpointReader(); return err })
	probe("Reader.MakeEncodedAccountsBatchIter", func() error { kv.MakeEncodedAccountsBatchIter(); return nil })
	probe("Reader.MakeKVsIter", func() error { _, err := kv.MakeKVsIter(ctx); return err })
	probe("Reader.MakeOrderedOnlineAccountsIter", func() error { _, err := kv.MakeOrderedOnlineAccountsIter(ctx, false, 0); return err })
	probe("Reader.MakeOnlineRoundParamsIter", func() error { _, err := kv.MakeOnlineRoundParamsIter(ctx, false, 0); return err })
	probe("Catchpoint.MakeOrderedAccountsIter", func() error { kv.MakeOrderedAccountsIter(1); return nil })
	probe("Catchpoint.MakeCatchpointWriter (catchpoint state / staging tables)", func() error { _, err := kv.MakeCatchpointWriter(); return err })
	probe("Catchpoint.MakeCatchpointReaderWriter", func() error { _, err := kv.MakeCatchpointReaderWriter(); return err })
	probe("Catchpoint.MakeMerkleCommitter", func() error { _, err := kv.MakeMerkleCommitter(false); return err })
	if p.rd[1].arx.Testing() == nil {
		r.Assume("excluded: AccountsReaderExt.Testing() — nil on the generickv backend (test-only interface)")
	}
	r.Assume("excluded: LoadAllFullAccounts, GetAllSPContextsFromCatchpointTbl, StoreSPContextsToCatchpointTbl, AccountsReset, ResetAccountHashes — catchpoint / catchup-only paths whose generickv versions are empty \"TODO: catchpoint\" bodies and whose SQLite versions need cross-table consistent data or staging tables the alphabet does not build")
}
